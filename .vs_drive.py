import sys,os,json,collections,random
sys.path.insert(0,'/verif/checks')
os.makedirs('/verif/.vs_scratch',exist_ok=True)
os.environ['VERIF_SCRATCH_BASE']='/verif/.vs_scratch'
import verifkit as vk
src,test,k=sys.argv[1],sys.argv[2],int(sys.argv[3])
hs=json.load(open(src))
random.Random(1).shuffle(hs)
hs=hs[:k]
import time
t=time.time()
ev=vk.go_drive('drivers/valset',test,hs)
print('events',len(ev),'wall',round(time.time()-t,1))
c=collections.Counter(e['act']+':'+e['res'] for e in ev)
print(dict(c))
json.dump({'hs':hs,'ev':ev},open('/verif/.vs_scratch/last_drive.json','w'))
for e in ev[:int(sys.argv[4]) if len(sys.argv)>4 else 6]:
    print(json.dumps(e))
