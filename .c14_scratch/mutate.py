import subprocess, sys, os, json, time
R='/tmp/c14m/repo'
MUT = {
 'M1_offer_non_assignee': ('x/consensus/keeper/concensus_keeper.go',
    "filters.HasGasEstimate(msg) &&\n\t\t\tfilters.IsAssignedTo(unpackedMsg, valAddress.String())",
    "filters.HasGasEstimate(msg)"),
 'M2_mev_ignored': ('x/evm/keeper/msg_assigner.go',
    "if req == nil || !req.EnforceMEVRelay {\n\t\t\t\treturn true\n\t\t\t}",
    "if true {\n\t\t\t\treturn true\n\t\t\t}"),
 'M3_remote_from_current_registration': ('x/evm/keeper/keeper.go',
    "\tfor _, val := range snapshot.Validators {\n\t\tif val.Address.String() == pick {\n\t\t\tfor _, info := range val.ExternalChainInfos {",
    "\tfor _, val := range snapshot.Validators {\n\t\tif val.Address.String() == pick {\n\t\t\tcurInfos, _ := k.Valset.GetValidatorChainInfos(ctx, val.Address)\n\t\t\tfor _, info := range curInfos {"),
 'M4_floor_fee': ('x/consensus/keeper/estimate.go',
    "fees.RelayerFee = multiplicators.RelayerFee.\n\t\tMulInt(math.NewIntFromUint64(estimate)).\n\t\tCeil().",
    "fees.RelayerFee = multiplicators.RelayerFee.\n\t\tMulInt(math.NewIntFromUint64(estimate))."),
 'M5_oldest_per_sender_dropped': ('x/consensus/keeper/concensus_keeper.go',
    "filters.IsOldestMsgPerSender(msgLut, unpackedMsg) &&\n", "(filters.IsOldestMsgPerSender(msgLut, unpackedMsg) || true) &&\n"),
 'M6_filter_order_sender_marked_late': ('x/consensus/keeper/concensus_keeper.go',
    "filters.IsOldestMsgPerSender(msgLut, unpackedMsg) &&\n\t\t\tfilters.HasGasEstimate(msg) &&\n\t\t\tfilters.IsAssignedTo(unpackedMsg, valAddress.String())",
    "filters.HasGasEstimate(msg) &&\n\t\t\tfilters.IsAssignedTo(unpackedMsg, valAddress.String()) &&\n\t\t\tfilters.IsOldestMsgPerSender(msgLut, unpackedMsg)"),
 'M7_estimate_filter_dropped': ('x/consensus/keeper/concensus_keeper.go',
    "filters.HasGasEstimate(msg) &&\n\t\t\tfilters.IsAssignedTo", "filters.IsAssignedTo"),
 'M8_valset_block_dropped': ('x/consensus/keeper/concensus_keeper.go',
    "return filters.IsNotBlockedByValset(valsetUpdatesOnChain, msg) &&\n\t\t\tfilters.IsUnprocessed(msg)", "return (filters.IsNotBlockedByValset(valsetUpdatesOnChain, msg) || true) &&\n\t\t\tfilters.IsUnprocessed(msg)"),
 'M9_floor_community_fee': ('x/consensus/keeper/estimate.go',
    "fees.CommunityFee = multiplicators.CommunityFee.\n\t\tMulInt(math.NewIntFromUint64(fees.RelayerFee)).\n\t\tCeil().",
    "fees.CommunityFee = multiplicators.CommunityFee.\n\t\tMulInt(math.NewIntFromUint64(fees.RelayerFee))."),
 'M10_enqueue_without_assignee': ('x/evm/keeper/smart_contract_deployment.go',
    "assignee, remoteAddr, err := k.PickValidatorForMessage(ctx, chainReferenceID, requirements)\n\tif err != nil {\n\t\treturn 0, err\n\t}",
    "assignee, remoteAddr, _ := k.PickValidatorForMessage(ctx, chainReferenceID, requirements)"),
}
which = sys.argv[1:] or list(MUT)
out = {}
for name in which:
    f, old, new = MUT[name]
    subprocess.run(['git','-C',R,'checkout','--','.'],check=True)
    p=os.path.join(R,f); s=open(p).read()
    assert s.count(old)==1, (name, s.count(old))
    open(p,'w').write(s.replace(old,new))
    t0=time.time()
    env=dict(os.environ, VERIF_REPO=R)
    r=subprocess.run(['/tmp/c14m/verif/check','C14','--tier','quick'],cwd='/tmp/c14m/verif',env=env,stdout=subprocess.PIPE,stderr=subprocess.STDOUT,text=True,timeout=1500)
    lines=[l for l in r.stdout.splitlines() if 'VIOLATION' in l or 'violated monitors' in l or 'BROKEN' in l or 'fee samples' in l][:6]
    out[name]={'rc':r.returncode,'wall':round(time.time()-t0),'lines':lines}
    print(name, json.dumps(out[name]), flush=True)
    if r.returncode not in (0,1):
        print(r.stdout[-3000:], flush=True)
subprocess.run(['git','-C',R,'checkout','--','.'],check=True)
json.dump(out, open('/verif/.c14_scratch/mutants_%d.json' % int(time.time()),'w'), indent=1)
