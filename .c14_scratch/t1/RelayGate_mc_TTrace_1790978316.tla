---- MODULE RelayGate_mc_TTrace_1790978316 ----
EXTENDS Sequences, TLCExt, RelayGate_mc, Toolbox, Naturals, TLC

_expression ==
    LET RelayGate_mc_TEExpression == INSTANCE RelayGate_mc_TEExpression
    IN RelayGate_mc_TEExpression!expression
----

_trace ==
    LET RelayGate_mc_TETrace == INSTANCE RelayGate_mc_TETrace
    IN RelayGate_mc_TETrace!trace
----

_inv ==
    ~(
        TLCGet("level") = Len(_TETrace)
        /\
        cur = (<<[acct |-> 2, home |-> TRUE, mev |-> TRUE], [acct |-> 1, home |-> TRUE, mev |-> FALSE], [acct |-> 1, home |-> TRUE, mev |-> FALSE]>>)
        /\
        res = ("assigned")
        /\
        nextId = (2)
        /\
        nrows = (3)
        /\
        fee = (<<110, 110, 110>>)
        /\
        perf = (<<TRUE, TRUE, TRUE>>)
        /\
        queue = ({[pad |-> FALSE, kind |-> "slc", est |-> 0, fees |-> <<0, 0, 0>>, err |-> FALSE, id |-> 1, sender |-> 1, assignee |-> 1, remote |-> 2, needsEst |-> TRUE, subs |-> {}]})
        /\
        snap = (<<[acct |-> 1, mev |-> FALSE, member |-> TRUE], [acct |-> 1, mev |-> FALSE, member |-> TRUE], [acct |-> 1, mev |-> FALSE, member |-> TRUE]>>)
    )
----

_init ==
    /\ cur = _TETrace[1].cur
    /\ snap = _TETrace[1].snap
    /\ nextId = _TETrace[1].nextId
    /\ fee = _TETrace[1].fee
    /\ res = _TETrace[1].res
    /\ perf = _TETrace[1].perf
    /\ queue = _TETrace[1].queue
    /\ nrows = _TETrace[1].nrows
----

_next ==
    /\ \E i,j \in DOMAIN _TETrace:
        /\ \/ /\ j = i + 1
              /\ i = TLCGet("level")
        /\ cur  = _TETrace[i].cur
        /\ cur' = _TETrace[j].cur
        /\ snap  = _TETrace[i].snap
        /\ snap' = _TETrace[j].snap
        /\ nextId  = _TETrace[i].nextId
        /\ nextId' = _TETrace[j].nextId
        /\ fee  = _TETrace[i].fee
        /\ fee' = _TETrace[j].fee
        /\ res  = _TETrace[i].res
        /\ res' = _TETrace[j].res
        /\ perf  = _TETrace[i].perf
        /\ perf' = _TETrace[j].perf
        /\ queue  = _TETrace[i].queue
        /\ queue' = _TETrace[j].queue
        /\ nrows  = _TETrace[i].nrows
        /\ nrows' = _TETrace[j].nrows

\* Uncomment the ASSUME below to write the states of the error trace
\* to the given file in Json format. Note that you can pass any tuple
\* to `JsonSerialize`. For example, a sub-sequence of _TETrace.
    \* ASSUME
    \*     LET J == INSTANCE Json
    \*         IN J!JsonSerialize("RelayGate_mc_TTrace_1790978316.json", _TETrace)

=============================================================================

 Note that you can extract this module `RelayGate_mc_TEExpression`
  to a dedicated file to reuse `expression` (the module in the 
  dedicated `RelayGate_mc_TEExpression.tla` file takes precedence 
  over the module `RelayGate_mc_TEExpression` below).

---- MODULE RelayGate_mc_TEExpression ----
EXTENDS Sequences, TLCExt, RelayGate_mc, Toolbox, Naturals, TLC

expression == 
    [
        \* To hide variables of the `RelayGate_mc` spec from the error trace,
        \* remove the variables below.  The trace will be written in the order
        \* of the fields of this record.
        cur |-> cur
        ,snap |-> snap
        ,nextId |-> nextId
        ,fee |-> fee
        ,res |-> res
        ,perf |-> perf
        ,queue |-> queue
        ,nrows |-> nrows
        
        \* Put additional constant-, state-, and action-level expressions here:
        \* ,_stateNumber |-> _TEPosition
        \* ,_curUnchanged |-> cur = cur'
        
        \* Format the `cur` variable as Json value.
        \* ,_curJson |->
        \*     LET J == INSTANCE Json
        \*     IN J!ToJson(cur)
        
        \* Lastly, you may build expressions over arbitrary sets of states by
        \* leveraging the _TETrace operator.  For example, this is how to
        \* count the number of times a spec variable changed up to the current
        \* state in the trace.
        \* ,_curModCount |->
        \*     LET F[s \in DOMAIN _TETrace] ==
        \*         IF s = 1 THEN 0
        \*         ELSE IF _TETrace[s].cur # _TETrace[s-1].cur
        \*             THEN 1 + F[s-1] ELSE F[s-1]
        \*     IN F[_TEPosition - 1]
    ]

=============================================================================



Parsing and semantic processing can take forever if the trace below is long.
 In this case, it is advised to uncomment the module below to deserialize the
 trace from a generated binary file.

\*
\*---- MODULE RelayGate_mc_TETrace ----
\*EXTENDS IOUtils, RelayGate_mc, TLC
\*
\*trace == IODeserialize("RelayGate_mc_TTrace_1790978316.bin", TRUE)
\*
\*=============================================================================
\*

---- MODULE RelayGate_mc_TETrace ----
EXTENDS RelayGate_mc, TLC

trace == 
    <<
    ([cur |-> <<[acct |-> 1, home |-> TRUE, mev |-> FALSE], [acct |-> 1, home |-> TRUE, mev |-> FALSE], [acct |-> 1, home |-> TRUE, mev |-> FALSE]>>,res |-> "init",nextId |-> 1,nrows |-> 0,fee |-> <<110, 110, 110>>,perf |-> <<TRUE, TRUE, TRUE>>,queue |-> {},snap |-> <<[acct |-> 1, mev |-> FALSE, member |-> TRUE], [acct |-> 1, mev |-> FALSE, member |-> TRUE], [acct |-> 1, mev |-> FALSE, member |-> TRUE]>>]),
    ([cur |-> <<[acct |-> 1, home |-> TRUE, mev |-> FALSE], [acct |-> 1, home |-> TRUE, mev |-> FALSE], [acct |-> 1, home |-> TRUE, mev |-> FALSE]>>,res |-> "setup",nextId |-> 1,nrows |-> 3,fee |-> <<110, 110, 110>>,perf |-> <<TRUE, TRUE, TRUE>>,queue |-> {},snap |-> <<[acct |-> 1, mev |-> FALSE, member |-> TRUE], [acct |-> 1, mev |-> FALSE, member |-> TRUE], [acct |-> 1, mev |-> FALSE, member |-> TRUE]>>]),
    ([cur |-> <<[acct |-> 2, home |-> TRUE, mev |-> TRUE], [acct |-> 1, home |-> TRUE, mev |-> FALSE], [acct |-> 1, home |-> TRUE, mev |-> FALSE]>>,res |-> "rereg",nextId |-> 1,nrows |-> 3,fee |-> <<110, 110, 110>>,perf |-> <<TRUE, TRUE, TRUE>>,queue |-> {},snap |-> <<[acct |-> 1, mev |-> FALSE, member |-> TRUE], [acct |-> 1, mev |-> FALSE, member |-> TRUE], [acct |-> 1, mev |-> FALSE, member |-> TRUE]>>]),
    ([cur |-> <<[acct |-> 2, home |-> TRUE, mev |-> TRUE], [acct |-> 1, home |-> TRUE, mev |-> FALSE], [acct |-> 1, home |-> TRUE, mev |-> FALSE]>>,res |-> "assigned",nextId |-> 2,nrows |-> 3,fee |-> <<110, 110, 110>>,perf |-> <<TRUE, TRUE, TRUE>>,queue |-> {[pad |-> FALSE, kind |-> "slc", est |-> 0, fees |-> <<0, 0, 0>>, err |-> FALSE, id |-> 1, sender |-> 1, assignee |-> 1, remote |-> 2, needsEst |-> TRUE, subs |-> {}]},snap |-> <<[acct |-> 1, mev |-> FALSE, member |-> TRUE], [acct |-> 1, mev |-> FALSE, member |-> TRUE], [acct |-> 1, mev |-> FALSE, member |-> TRUE]>>])
    >>
----


=============================================================================

---- CONFIG RelayGate_mc_TTrace_1790978316 ----
CONSTANTS
    Vals = { 1 , 2 , 3 }
    FeeLevels = { 110 , 200 }
    BaseFee = 110
    TopK = 2
    Times = { 0 , 1 }
    Senders = { 1 , 2 }
    Gases = { 7 }
    Scale = 100
    CommRate = 1
    SecRate = 33
    MaxQ = 1
    InjAssignees = { 1 , 2 }
    InjEst = { "noneed" , "need" , "elected" }
    InjProc = { "none" , "pad" }
    InjSenders = { 1 , 2 }
    DynDepth = 9
    RowMode = "canon"

INVARIANT
    _inv

CHECK_DEADLOCK
    \* CHECK_DEADLOCK off because of PROPERTY or INVARIANT above.
    FALSE

INIT
    _init

NEXT
    _next

CONSTANT
    _TETrace <- _trace

ALIAS
    _expression
=============================================================================
\* Generated on Fri Oct 02 21:58:38 UTC 2026