----------------------------- MODULE FeeSamples -----------------------------
(* C14 fee formula at real magnitude (DESIGN 2.5).  Instantiated by checks/c14.py with samples    *)
(* (multiplicator, community rate, security rate as 18-decimal integers, elected gas) -> fees     *)
(* recorded from the real code path (AddSmartContractExecutionToConsensus, AddMessageEstimates,   *)
(* consensus end-blocker); Apalache evaluates the operators of RelayGateFees on them:             *)
(*   apalache-mc check --length=0 --inv=SamplesAgree FeeSamples.tla                               *)
EXTENDS Integers, Sequences, RelayGateFees

VARIABLE
  \* @type: Int;
  dummy

\* @type: Seq({ m: Int, c: Int, s: Int, g: Int, r: Int, cf: Int, sf: Int });
Samples == <<
  [m |-> 1100000000000000000, c |-> 10000000000000000, s |-> 333333333333333333, g |-> 7, r |-> 7, cf |-> 1, sf |-> 3],
  [m |-> 1234567890123456789, c |-> 10000000000000000, s |-> 333333333333333333, g |-> 9223372036854775808, r |-> 11386878955363490702, cf |-> 113868789553634908, sf |-> 3795626318454496897],
  [m |-> 333333333333333333, c |-> 10000000000000000, s |-> 333333333333333333, g |-> 4611686018427387905, r |-> 1537228672809129301, cf |-> 15372286728091294, sf |-> 512409557603043100]
>>

\* @type: ({ m: Int, c: Int, s: Int, g: Int, r: Int, cf: Int, sf: Int }) => Bool;
Agree(p) ==
  /\ FeesFor18(p.m, p.c, p.s, p.g) = <<p.r, p.cf, p.sf>>
  /\ p.r = CeilMulDec18(p.m, p.g)
  /\ IsCeilOf(p.r, p.m, p.g, 10^18) /\ IsCeilOf(p.cf, p.c, p.r, 10^18) /\ IsCeilOf(p.sf, p.s, p.r, 10^18)

Init == dummy = 0
Next == dummy' = dummy
SamplesAgree == \A i \in DOMAIN Samples : Agree(Samples[i])
=============================================================================
