"""C07 a remote transaction proves delivery of exactly the message it carries, once: EvmAttest.tla,
real evm/consensus keepers via drivers/evmattest (all five action kinds)."""
import copy
from pipeline import Pipeline, Gen
import verifkit as vk


class C07(Pipeline):
    pid = "C07"
    mc = [("EvmAttest_mc", "EvmAttest_single", ("quick", "thorough")),
          ("EvmAttest_mc", "EvmAttest_receipt", ("quick", "thorough")),
          ("EvmAttest_mc", "EvmAttest_replay", ("quick", "thorough")),
          ("EvmAttest_mc", "EvmAttest_handover", ("quick",)),
          ("EvmAttest_mc", "EvmAttest_single_big", ("thorough",)),
          ("EvmAttest_mc", "EvmAttest_handover_big", ("thorough",))]
    gens = [Gen("EvmAttestGen", "EvmAttestGen_cover", "bfs", tiers=("quick",), timeout=300),
            Gen("EvmAttestGen", "EvmAttestGen_cover_big", "bfs", tiers=("thorough",), timeout=1200),
            Gen("EvmAttestGen", "EvmAttestGen_sim", "simulate", num=60, depth=18, tiers=("quick",)),
            Gen("EvmAttestGen", "EvmAttestGen_sim", "simulate", num=1500, depth=18, tiers=("thorough",), timeout=1200)]
    driver_pkg = "drivers/evmattest"
    driver_test = "TestDriveEvmAttest"
    trace_module = "EvmAttestTrace"
    quick_cap = 10000
    thorough_cap = 14000
    assumptions = [
        "messages are really enqueued through the evm keeper (AddSmartContractExecutionToConsensus, PublishSnapshotToAllChains, SetAsCompassContract, CreateUserSmartContractDeployment), signed through the consensus msg server, attested through AddEvidence and the consensus module's EndBlock (E1 keeper wiring plus the two wirings app.go adds: EvmKeeper.Skyway and the attested-message listeners)",
        "gas estimates are submitted by every validator and elected (first half of the end-blocker) right after a message appears: relayers never relay a message without an elected estimate / fees",
        "the relayer publishes public access data naming the valset that is live on the chain (or error data) before the first evidence; 'exact encoding' is judged against that valset",
        "the reference encoding is computed by the driver from the stored message with the compass ABI shipped in x/evm/keeper/testdata/sample-abi.json; remote transactions are signed by one fixed key, so a transaction is identified by (call data, nonce)",
        "which pieces of evidence are identical is decided on the bytes the validators submitted (sha256 of the stored proof), never with the code's own BytesToHash; receipts of one transaction vary independently in status and in the rest of the receipt (gas used), the logs are the same in every variant",
        "stored evidence is decoded by the driver with go-ethereum directly (never with GetTX/GetReceipt of the code under test); which message the attestation pass stopped at is read per message on a discarded branch with the same ProcessMessageForAttestation call the keeper's loop makes",
        "block jumps never land an end-blocker on a height divisible by 50, so the 300-block pruning of old messages is not part of the histories",
        "four validators with shares 3:1:1:1 in the current snapshot ({1,2} holds exactly 2/3, {2,3,4} is one short); blocks are 60 s apart, which keeps the relayer pick stable",
        "one user-contract deployment per history (two deployments of one contract created in the same block are indistinguishable for finishUserSmartContractDeployment)",
    ]

    def drive(self, histories):
        # histories whose prepared world could not be built with the code under test are reported by the driver
        # (Init event with a non-empty "prep"); they cannot be validated and make a passing run inconclusive
        events = super().drive(histories)
        skipped = {e["h"]: e["prep"] for e in events if e["act"] == "Init" and e.get("prep")}
        if skipped:
            self._skipped = skipped
            vk.log("%d histories skipped: %s" % (len(skipped), sorted(set(skipped.values()))[:3]))
        return [e for e in events if e["h"] not in skipped]

    def run(self, tier):
        self._skipped = {}
        rc = super().run(tier)
        if rc == 0 and getattr(self, "_missing", None):
            raise vk.Broken("no history in which a %s message was attested without error (dead driver?)" % self._missing)
        if rc == 0 and self._skipped:
            raise vk.Broken("%d histories could not be run, their prepared world failed: %s" % (len(self._skipped), sorted(set(self._skipped.values()))[:3]))
        return rc

    def nontrivial(self, evs):
        return any(e["act"] == "EndBlock" and e.get("routed") for e in evs)

    def extra_coverage(self, tier):
        return {"attestation_outcomes": getattr(self, "_stats", {})}

    def post_drive(self, events, tier):
        # what the real code did with the proofs it was offered (per action kind), and dead-driver detection:
        # every action kind must have been accepted at least once somewhere
        share = {1: 3, 2: 1, 3: 1, 4: 1}
        st = {"accepted": {}, "rejected": {}, "error_proof": {}, "no_quorum_or_split": 0, "won_with_exactly_two_thirds": 0,
              "one_short": 0, "corruptions_offered": {}, "prefix_lengths_accepted": {},
              "note_metrix_success_recorded_for_rejected_proof": 0,
              "same_tx_reported_with_different_receipts": 0, "winner_with_deviating_evidence_submitted_first": 0,
              "winner_with_deviating_evidence_submitted_last": 0, "quorum_on_proof_without_decodable_receipt": 0,
              "resubmitted_after_block_jump": {}}
        prev = None
        for e in events:
            if e["act"] == "Evidence" and e["res"] == "ok" and e["args"]["t"] == "tx":
                c = e["args"]["corr"]
                st["corruptions_offered"][c] = st["corruptions_offered"].get(c, 0) + 1
            if e["act"] == "Init":
                jump = 0
            if e["act"] == "Advance":
                jump = e["args"]["d"]
            if e["act"] == "EndBlock" and prev is not None and e["errc"] == "processed" and jump:
                st["resubmitted_after_block_jump"][str(jump)] = st["resubmitted_after_block_jump"].get(str(jump), 0) + 1
            if e["act"] == "EndBlock" and prev is not None:
                qs = {q["id"]: q for q in prev["obs"]["queue"]}
                if e["errc"] in ("notverified", "txfailed") and e["obs"]["succ"] > prev["obs"]["succ"]:
                    st["note_metrix_success_recorded_for_rejected_proof"] += 1     # observation outside C07, see report
                failing = e["fail"] or None
                rid = {r["id"] for r in e["routed"]}
                for q in qs.values():
                    tot = sum(share[g["v"]] for g in q["ev"])
                    if q["ev"] and q["id"] not in rid:
                        st["no_quorum_or_split"] += 1
                        if tot == 3:
                            st["one_short"] += 1
                for r in e["routed"]:
                    q = qs.get(r["id"])
                    if q is None:
                        continue
                    groups = {}
                    for g in q["ev"]:
                        groups.setdefault(g["eid"], []).append(g)
                    win = [g for g in groups.values() if 3 * sum(share[x["v"]] for x in g) >= 12]
                    byh = {}
                    for g in q["ev"]:
                        if g["t"] == "tx":
                            byh.setdefault(g["hid"], set()).add(g["eid"])
                    if any(len(x) > 1 for x in byh.values()):
                        st["same_tx_reported_with_different_receipts"] += 1
                    if win and len(groups) > 1:
                        first = min(q["ev"], key=lambda g: g["ord"])
                        last = max(q["ev"], key=lambda g: g["ord"])
                        if first["eid"] != win[0][0]["eid"]:
                            st["winner_with_deviating_evidence_submitted_first"] += 1
                        if last["eid"] != win[0][0]["eid"]:
                            st["winner_with_deviating_evidence_submitted_last"] += 1
                    if win and win[0][0]["t"] == "tx" and win[0][0]["st"] in ("absent", "bad"):
                        st["quorum_on_proof_without_decodable_receipt"] += 1
                    if win and sum(share[x["v"]] for x in win[0]) == 4:
                        st["won_with_exactly_two_thirds"] += 1
                    k = q["kind"]
                    if win and win[0][0]["t"] == "err":
                        st["error_proof"][k] = st["error_proof"].get(k, 0) + 1
                    elif r["id"] == failing:
                        d = st["rejected"].setdefault(k, {})
                        d[e["errc"]] = d.get(e["errc"], 0) + 1
                    else:
                        st["accepted"][k] = st["accepted"].get(k, 0) + 1
                        if win and win[0][0]["did"] in q["enc"]:
                            n = str(q["enc"].index(win[0][0]["did"]) + 1)
                            st["prefix_lengths_accepted"][n] = st["prefix_lengths_accepted"].get(n, 0) + 1
            prev = e
        self._stats = st
        accepted = set(st["accepted"])
        self._missing = sorted({"slc", "valset", "usc", "uscn", "handover", "uusc"} - accepted)

    def binding_selftest(self, events, tier):
        """1. pretend a rejected (corrupted / failed / replayed) winning transaction produced the success effect,
           2. pretend the code reported no error for it,  3. drop an event: the trace spec must notice each."""
        byh = {}
        for e in events:
            byh.setdefault(e["h"], []).append(e)
        out = {}
        # 1 + 2: an UpdateValset history whose end-block ended with "notverified"/"txfailed"/"processed"
        pick = None
        for h, evs in byh.items():
            for i, e in enumerate(evs):
                if e["act"] == "EndBlock" and e.get("errc") in ("notverified", "txfailed", "processed") and len(e["routed"]) == 1 and i > 0:
                    q = [x for x in evs[i - 1]["obs"]["queue"] if x["id"] == e["routed"][0]["id"]]
                    if q and q[0]["kind"] == "valset":
                        pick = (h, i)
                        break
            if pick:
                break
        if pick is None:
            return {"ok": False, "why": "no rejected UpdateValset proof found to corrupt"}
        h, i = pick
        sub = copy.deepcopy(byh[h][: i + 1])
        for e in sub[i:]:
            e["obs"]["live2"] += 1                      # snapshot marked live although the proof was rejected
        v = self.validate(sub)
        out["effect_without_proof_rejected"] = any(n in ("C07.SnapshotLiveOnlyByProof", "C07.FailedOrForeignRemovesWithoutEffects") for n, _, _ in v.monfail)
        sub = copy.deepcopy(byh[h][: i + 1])
        sub[i]["errc"], sub[i]["err"], sub[i]["fail"], sub[i]["res"] = "", "", 0, "eb"   # the code claims to have accepted it
        v = self.validate(sub)
        out["silent_acceptance_rejected"] = any(n in ("C07.SuccessOnlyIfExactEncoding", "C07.NoSecondUse") for n, _, _ in v.monfail)
        # 3: drop the end-block of a history with an accepted proof
        good = next((hh for hh, evs in byh.items() if any(e["act"] == "EndBlock" and e.get("errc") == "" and e["routed"] for e in evs)), None)
        if good is None:
            return {"ok": False, "why": "no accepted proof found"}
        evs = byh[good]
        k = next(j for j, e in enumerate(evs) if e["act"] == "EndBlock" and e.get("errc") == "" and e["routed"])
        sub = evs[:k] + evs[k + 1:]
        if len(sub) == k:                               # the end-block was the last event: observe its effect in a copied later step
            sub = evs[:k] + [dict(copy.deepcopy(evs[k - 1]), obs=copy.deepcopy(evs[k]["obs"]), i=evs[k]["i"])]
        v = self.validate(sub)
        out["dropped_event_rejected"] = bool(v.monfail) or bool(v.conffail) or not v.accepted
        out["ok"] = all(out.values())
        return out


CHECK = C07()
