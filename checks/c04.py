"""C04 message consensus needs 2/3 of snapshot power on identical evidence; gas estimate election: ConsensusQueue.tla."""
from pipeline import Gen, Multi
from cq import CQBase


class C04Queue(CQBase):
    pid = "C04"
    prefixes = ("C04.",)
    mc = [("ConsensusQueue_mc", "ConsensusQueue_ev", ("quick", "thorough")), ("ConsensusQueue_mc", "ConsensusQueue_sig", ("quick", "thorough"))]
    quick_cap = 9000
    gens = [Gen("ConsensusQueueGen", "ConsensusQueueGen_reelect_cover", "bfs", tiers=("quick", "thorough"), timeout=600, cap=2000),
            Gen("ConsensusQueueGen", "ConsensusQueueGen_prune_cover", "bfs", tiers=("quick",), timeout=900, cap=1000),
            Gen("ConsensusQueueGen", "ConsensusQueueGen_prune_cover", "bfs", tiers=("thorough",), timeout=900, cap=20000),
            Gen("ConsensusQueueGen", "ConsensusQueueGen_ev_cover", "bfs", tiers=("quick",), timeout=900, cap=1500),
            Gen("ConsensusQueueGen", "ConsensusQueueGen_order_cover", "bfs", tiers=("quick", "thorough"), timeout=600, cap=1500),
            Gen("ConsensusQueueGen", "ConsensusQueueGen_sig_cover", "bfs", tiers=("quick",), timeout=900, cap=1500),
            Gen("ConsensusQueueGen", "ConsensusQueueGen_ev_sim", "simulate", num=100, depth=14, tiers=("quick",), cap=500),
            Gen("ConsensusQueueGen", "ConsensusQueueGen_sig_sim", "simulate", num=100, depth=16, tiers=("quick",), cap=500),
            Gen("ConsensusQueueGen", "ConsensusQueueGen_sim", "simulate", num=100, depth=18, tiers=("quick",), cap=500),
            Gen("ConsensusQueueGen", "ConsensusQueueGen_ev_cover", "bfs", tiers=("thorough",), timeout=1800, cap=20000),
            Gen("ConsensusQueueGen", "ConsensusQueueGen_sig_cover", "bfs", tiers=("thorough",), timeout=1800, cap=20000),
            Gen("ConsensusQueueGen", "ConsensusQueueGen_ev_sim", "simulate", num=1000, depth=14, tiers=("thorough",), cap=6000),
            Gen("ConsensusQueueGen", "ConsensusQueueGen_sig_sim", "simulate", num=1000, depth=16, tiers=("thorough",), cap=6000),
            Gen("ConsensusQueueGen", "ConsensusQueueGen_sim", "simulate", num=1000, depth=18, tiers=("thorough",), cap=6000)]


class C04(Multi):
    pid = "C04"
    parts = [C04Queue()]

    def run(self, tier):
        """Queue pipeline + arithmetic samples at real magnitudes evaluated by Apalache (+ evidence identity lattice if present)."""
        import time, json, os
        import arith, verifkit as vk
        from pipeline import finish
        t0 = time.time()
        res = [p.execute(tier) for p in self.parts]
        ar = arith.consensus_arith(tier)
        viol, known, cov = res[0]
        cov["arith"] = {k: v for k, v in ar.items()}
        fails = [{"name": "C04.ArithSample", "idx": 0, "h": None,
                  "event": {"act": "ArithSample", "args": {"kind": f["kind"]}, "sample": f}} for f in ar["failures"]]
        new, kn = vk.classify(self.pid, fails, self.parts[0].match_known)
        known.update(kn)
        for i, f in enumerate(new):
            path = vk.write_replay(self.pid, 900 + i, [f["event"]], note={"monitors": ["C04.ArithSample"], "history": [], "sample": f["event"]["sample"]})
            viol.append((None, ["C04.ArithSample"], path))
        broken = None
        try:
            import c04_identity
            ident = c04_identity.run_identity(tier)
            cov["evidence_identity"] = {k: v for k, v in ident.items() if k not in ("events", "histories")}
            fl = [{"name": "C04.EvidenceIdentity", "idx": 0, "h": None, "event": e} for e in ident.get("failures", [])]
            new, kn = vk.classify(self.pid, fl, self.parts[0].match_known)
            known.update(kn)
            for i, f in enumerate(new):
                path = vk.write_replay(self.pid, 950 + i, [f["event"]], note={"monitors": ["C04.EvidenceIdentity"], "history": []})
                viol.append((None, ["C04.EvidenceIdentity"], path))
        except ImportError:
            cov["evidence_identity"] = "not built"
        except vk.Broken as e:
            # a sub-check that cannot run must not hide violations found by the other parts
            broken = e
            cov["evidence_identity"] = "broken: " + str(e)[:300]
        if broken is not None and not viol:
            raise broken
        return finish(self.pid, tier, self.level, [(viol, known, cov)], self.parts[0].assumptions + [
            "arithmetic at uint64 / 2^200 magnitudes: samples of the real libcons.VerifyGasEstimates / palomath.Median evaluated by Apalache against the TLA+ operators (shares bounded by 2^200: 3*sum must fit math.Int)"], t0)


CHECK = C04()
