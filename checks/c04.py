"""C04 message consensus needs 2/3 of snapshot power on identical evidence; gas estimate election: ConsensusQueue.tla."""
from pipeline import Gen, Multi
from cq import CQBase


class C04Queue(CQBase):
    pid = "C04"
    prefixes = ("C04.",)
    mc = [("ConsensusQueue_mc", "ConsensusQueue_ev", ("quick", "thorough")), ("ConsensusQueue_mc", "ConsensusQueue_sig", ("quick", "thorough"))]
    gens = [Gen("ConsensusQueueGen", "ConsensusQueueGen_prune_cover", "bfs", tiers=("quick",), timeout=900, cap=1000),
            Gen("ConsensusQueueGen", "ConsensusQueueGen_prune_cover", "bfs", tiers=("thorough",), timeout=900, cap=20000),
            Gen("ConsensusQueueGen", "ConsensusQueueGen_ev_cover", "bfs", tiers=("quick",), timeout=900, cap=1500),
            Gen("ConsensusQueueGen", "ConsensusQueueGen_sig_cover", "bfs", tiers=("quick",), timeout=900, cap=1500),
            Gen("ConsensusQueueGen", "ConsensusQueueGen_ev_sim", "simulate", num=100, depth=14, tiers=("quick",), cap=500),
            Gen("ConsensusQueueGen", "ConsensusQueueGen_sig_sim", "simulate", num=100, depth=16, tiers=("quick",), cap=500),
            Gen("ConsensusQueueGen", "ConsensusQueueGen_sim", "simulate", num=100, depth=18, tiers=("quick",), cap=500),
            Gen("ConsensusQueueGen", "ConsensusQueueGen_ev_cover", "bfs", tiers=("thorough",), timeout=1800, cap=20000),
            Gen("ConsensusQueueGen", "ConsensusQueueGen_sig_cover", "bfs", tiers=("thorough",), timeout=1800, cap=20000),
            Gen("ConsensusQueueGen", "ConsensusQueueGen_ev_sim", "simulate", num=1000, depth=14, tiers=("thorough",), cap=6000),
            Gen("ConsensusQueueGen", "ConsensusQueueGen_sig_sim", "simulate", num=1000, depth=16, tiers=("thorough",), cap=6000),
            Gen("ConsensusQueueGen", "ConsensusQueueGen_sim", "simulate", num=1000, depth=18, tiers=("thorough",), cap=6000)]


class C04(Multi):
    pid = "C04"
    parts = [C04Queue()]


CHECK = C04()
