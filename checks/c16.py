"""C16 token factory: only the admin controls a factory token; supply = mints - burns.

TokenFactory.tla (one action per message type, checks transcribed in code order) is model checked
exhaustively; TLC-generated histories are replayed as really signed transactions on the full
application (harness/env E2, fresh app per history); TokenFactoryTrace evaluates the C16.* monitors
on the observed bank / tokenfactory stores after every transaction."""
import copy, time
from concurrent.futures import ThreadPoolExecutor
from pipeline import Pipeline, Gen
import verifkit as vk


def G(funds=(2, 1, 0), subs=(1, 2), nmeta=1, grants=()):
    """subs: class of the literal string behind each sub-denom slot (see TokenFactoryGen), nmeta: native denom has bank metadata,
    grants: fee allowances [granter, grantee] in genesis (the grantee may sign in the granter's name)"""
    return {"act": "Genesis", "args": {"funds": list(funds), "subs": list(subs), "nmeta": nmeta, "grants": [list(p) for p in grants]}}


R = {"act": "Reimport", "args": {"who": 0, "as": 0, "c": 0, "s": 0, "amt": 0, "new": 0}}


def S(act, who, c=0, s=0, amt=0, new=0, as_=None):
    return {"act": act, "args": {"who": who, "as": who if as_ is None else as_, "c": c, "s": s, "amt": amt, "new": new}}


class C16(Pipeline):
    pid = "C16"
    mc = [("TokenFactory_mc", "TokenFactory_mc", ("quick", "thorough")),
          ("TokenFactory_mc", "TokenFactory_mc_full", ("thorough",)),
          ("TokenFactory_mc", "TokenFactory_mc_deep", ("thorough",))]
    # cover mode comes in two shapes (TokenFactoryGen.Tails): per distinct state, the way there followed by every attempt
    # the model rejects in that state; and per distinct (accepted attempt, state), the accepted paths up to the depth bound
    gens = [Gen("TokenFactoryGen", "TokenFactoryGen_cover", "bfs", tiers=("quick",), timeout=300),
            Gen("TokenFactoryGen", "TokenFactoryGen_cover_big", "bfs", tiers=("thorough",), timeout=1200),
            Gen("TokenFactoryGen", "TokenFactoryGen_paths_cover", "bfs", tiers=("quick",), timeout=300),
            Gen("TokenFactoryGen", "TokenFactoryGen_paths_cover_big", "bfs", tiers=("thorough",), timeout=1200),
            # hostile sub-denomination strings ('..', './', '//', trailing '/', empty), genesis without native metadata
            Gen("TokenFactoryGen", "TokenFactoryGen_subs_cover", "bfs", tiers=("quick",), timeout=300),
            Gen("TokenFactoryGen", "TokenFactoryGen_subs_cover_big", "bfs", tiers=("thorough",), timeout=1200),
            # every action also AFTER a genesis round trip (the round trip is part of the cover view)
            Gen("TokenFactoryGen", "TokenFactoryGen_reimp_cover", "bfs", tiers=("quick", "thorough"), timeout=300),
            Gen("TokenFactoryGen", "TokenFactoryGen_sim", "simulate", num=350, depth=14, tiers=("quick",), timeout=300),
            Gen("TokenFactoryGen", "TokenFactoryGen_sim", "simulate", num=1500, depth=14, tiers=("thorough",), timeout=1200)]
    driver_pkg = "drivers/tokenfactory"
    driver_test = "TestDriveTokenFactory"
    trace_module = "TokenFactoryTrace"
    drive_env = {"GOGC": "300"}
    min_histories = 200
    assumptions = [
        "every action is one really signed transaction (SIGN_MODE_DIRECT) delivered alone in its own block through FinalizeBlock/Commit of the full application (app.New, real ante chain and message router); every history runs on a fresh application with 2 bonded validators and 3 user accounts whose keys derive from VERIF_SEED",
        "message fields: Paloma's tokenfactory messages have no mint-to / burn-from field; the module mints to, burns from, charges and authorises Metadata.Creator, so attempts 'naming another address' set Metadata.Creator to an account that is not the signer (rejected by the ante chain unless a fee grant exists)",
        "delegated signing: fee allowances (x/feegrant BasicAllowance without limit or expiry) are written by genesis and never change within a history; x/paloma's VerifyAuthorisedSignatureDecorator then accepts a signer that is not the creator, and the model says the message acts for the creator (its denoms, its balance, its funds); granting / revoking / expiring allowances at run time is not modelled (property C03's subject)",
        "Reimport is a genesis round trip of the WHOLE application (app.ExportAppStateAndValidators at the current height, InitChain of a fresh app.New on a fresh database with the exported validators and consensus parameters, one empty block), not only of x/tokenfactory and x/bank; the harness sets the consensus-node bech32 prefix like the node binary does",
        "the denom creation fee is the production default (params.DenomCreationFee = 10 GRAIN, paid by the creator into the community pool); it is modelled, not configured away: accounts are funded with whole multiples of the fee",
        "genesis set-up: x/mint inflation is set to zero so that the native supply is exactly observable; histories run on both genesis variants: the native denom ugrain with bank metadata (the definition of app.BankModule, as on the live chain) and without (what app.DefaultGenesis produces)",
        "sub-denominations: the model's sub-denom slots are bound per history to literal strings of hostile but valid classes (plain, with '/', '..' segments climbing 1/2/3 levels, './' prefix, '//' inside, trailing '/', empty); a factory denom is observed under the literal name factory/<creator>/<sub-denom as given>, and every other name appearing in the module's creator index, its authority records, bank metadata or bank supply is counted (C16.NoForeignDenoms); sub-denoms longer than the 44 byte limit and non-ASCII strings are not tried",
        "amounts are small integers (TLC); sdk.Int arithmetic of x/bank is not re-verified here",
    ]

    def extra_histories(self, tier):
        d11 = dict(c=1, s=1)
        d12 = dict(c=1, s=2)
        # the whole life cycle on every hostile class (slot 1) next to the class a cleaning join would merge it with (slot 2)
        life = []
        for subs in ((7, 1), (9, 1), (8, 3), (4, 1), (5, 1), (6, 1), (10, 1), (3, 1), (1, 7), (1, 9), (3, 8), (5, 4), (10, 6)):
            for nmeta in (0, 1):
                life.append([G(subs=subs, nmeta=nmeta), S("Create", 1, s=1), S("Create", 1, s=2), S("Create", 1, s=1),
                             S("Mint", 1, amt=2, **d11), S("Mint", 1, amt=1, **d12), S("Burn", 1, amt=1, **d11), S("Mint", 2, amt=1, **d11),
                             S("SetMetadata", 1, **d11), S("ChangeAdmin", 1, new=2, **d11), S("Mint", 2, amt=1, **d11), S("Burn", 1, amt=1, **d11),
                             S("Mint", 1, amt=1, c=0, s=1), S("Burn", 1, amt=1, c=0, s=1), S("SetMetadata", 2, **d11), S("Burn", 1, amt=1, **d12)])
        # genesis round trip after create / mint / hand-over / renounce / metadata, then everybody tries again
        trips = []
        for new in (0, 2):
            for nmeta in (0, 1):
                trips.append([G(nmeta=nmeta, grants=((1, 2),)), S("Create", 1, s=1), S("Mint", 1, amt=2, **d11), S("SetMetadata", 1, **d11),
                              S("ChangeAdmin", 1, new=new, **d11), R, S("Mint", 1, amt=1, **d11), S("Burn", 1, amt=1, **d11),
                              S("ChangeAdmin", 1, new=1, **d11), S("SetMetadata", 1, **d11), S("Mint", 2, amt=1, **d11), S("Burn", 2, amt=1, **d11),
                              S("Create", 1, s=1), S("Create", 1, s=2), R, S("Mint", 1, amt=1, **d12), R, S("Burn", 1, amt=1, **d12)])
        # delegated signing: account 2 holds account 1's fee allowance and signs in its name; account 3 does not
        deleg = [
            [G(grants=((1, 2),)), S("Create", 2, as_=1, s=1), S("Mint", 2, as_=1, amt=2, **d11), S("Mint", 3, as_=1, amt=1, **d11),
             S("Burn", 2, as_=1, amt=1, **d11), S("Mint", 2, amt=1, **d11), S("SetMetadata", 2, as_=1, **d11), S("Mint", 1, as_=2, amt=1, **d11),
             S("ChangeAdmin", 2, as_=1, new=2, **d11), S("Mint", 2, as_=1, amt=1, **d11), S("Mint", 2, amt=1, **d11), S("Burn", 2, amt=1, **d11),
             R, S("Mint", 2, as_=1, amt=1, **d11), S("Burn", 2, amt=1, **d11)],
            [G(funds=(2, 2, 1), grants=((1, 2), (2, 3))), S("Create", 1, s=1), S("Create", 3, as_=2, s=1), S("Mint", 3, as_=2, amt=1, c=2, s=1),
             S("Mint", 3, as_=1, amt=1, **d11), S("Mint", 2, as_=1, amt=2, **d11), S("Burn", 2, as_=1, amt=1, **d11), S("Burn", 3, as_=2, amt=1, c=2, s=1),
             S("Burn", 3, as_=2, amt=1, c=2, s=1)],
        ]
        return life + trips + deleg + [
            # admin hand-over, then the old admin acting, then the new admin burning what it does not own
            [G(), S("Create", 1, s=1), S("Mint", 1, amt=2, **d11), S("ChangeAdmin", 1, new=2, **d11), S("Mint", 1, amt=1, **d11),
             S("Burn", 1, amt=1, **d11), S("Burn", 2, amt=1, **d11), S("Mint", 2, amt=1, **d11), S("Burn", 2, amt=1, **d11),
             S("SetMetadata", 1, **d11), S("SetMetadata", 2, **d11), S("ChangeAdmin", 2, new=1, **d11), S("Burn", 1, amt=2, **d11)],
            # renounced admin: nobody can act any more
            [G(), S("Create", 1, s=1), S("Mint", 1, amt=1, **d11), S("ChangeAdmin", 1, new=0, **d11), S("Mint", 1, amt=1, **d11),
             S("Burn", 1, amt=1, **d11), S("ChangeAdmin", 1, new=1, **d11), S("SetMetadata", 1, **d11), S("Create", 1, s=1)],
            # stranger signs in the admin's name; admin signs in the stranger's name
            [G(), S("Create", 1, s=2), S("Mint", 2, as_=1, amt=1, c=1, s=2), S("Mint", 1, as_=2, amt=1, c=1, s=2),
             S("ChangeAdmin", 2, as_=1, new=2, c=1, s=2), S("Burn", 3, as_=1, amt=1, c=1, s=2), S("Mint", 1, amt=2, c=1, s=2),
             S("Burn", 2, as_=1, amt=1, c=1, s=2), S("Create", 2, as_=1, s=1), S("Create", 2, s=2), S("Mint", 2, amt=1, c=1, s=2)],
            # creation fee: second creation of account 2 and any creation of account 3 are not covered
            [G(), S("Create", 2, s=1), S("Create", 2, s=2), S("Create", 3, s=1), S("Create", 2, s=1), S("Create", 1, s=0),
             S("Mint", 2, amt=1, c=2, s=2), S("Mint", 2, amt=1, c=2, s=1)],
            # non-factory denominations
            [G()] + [S(a, 1, c=0, s=k, amt=(1 if a in ("Mint", "Burn") else 0), new=(1 if a == "ChangeAdmin" else 0))
                     for k in (1, 2, 3, 4) for a in ("Mint", "Burn", "ChangeAdmin", "SetMetadata")],
        ]

    def nontrivial(self, evs):
        ok = [e["act"] for e in evs if e.get("res") == "ok"]
        return "Create" in ok and len(ok) >= 2 and any(e.get("res") == "fail" for e in evs)

    def post_drive(self, events, tier):
        heads = {}
        for e in events:
            heads.setdefault(e["h"], e)
        if any(e["act"] != "Init" or e["i"] != 0 for e in heads.values()):
            raise vk.Broken("a history does not start with the driver's Init observation")
        if not any(e["act"] == "Reimport" and e.get("res") == "ok" for e in events):
            raise vk.Broken("vacuous drive: no genesis round trip executed")
        if not any(e["act"] in ("Mint", "Burn") and e.get("res") == "ok" and e["args"]["who"] != e["args"]["as"] for e in events):
            raise vk.Broken("vacuous drive: no delegated mint / burn was accepted")
        for a in ("Create", "Mint", "Burn", "ChangeAdmin", "SetMetadata"):
            n_ok = sum(1 for e in events if e["act"] == a and e.get("res") == "ok")
            n_fail = sum(1 for e in events if e["act"] == a and e.get("res") == "fail")
            if n_ok == 0 or n_fail == 0:
                raise vk.Broken("vacuous drive: %s succeeded %d times, failed %d times" % (a, n_ok, n_fail))

    validate_chunks = 6       # parallel TLC trace validations (histories are independent)

    def _validate_all(self, events):
        """Trace validation split by history into parallel TLC runs; results merged (indices re-based)."""
        wev = self.with_resets(events)
        hs = sorted({e["h"] for e in wev})
        n = min(self.validate_chunks, max(1, len(wev) // 4000))
        if n <= 1:
            return vk.tlc_validate(self.trace_module, wev, cfg=self.trace_cfg)
        bounds = [hs[(len(hs) * i) // n] for i in range(n)] + [None]
        chunks, offs = [], []
        for i in range(n):
            lo, hi = bounds[i], bounds[i + 1]
            idx = [k for k, e in enumerate(wev) if e["h"] >= lo and (hi is None or e["h"] < hi)]
            chunks.append([wev[k] for k in idx])
            offs.append(idx[0])
        with ThreadPoolExecutor(max_workers=n) as ex:
            parts = list(ex.map(lambda c: vk.tlc_validate(self.trace_module, c, cfg=self.trace_cfg), chunks))
        v = vk.Validation()
        v.accepted = all(p.accepted for p in parts)
        v.details = []
        for p, off in zip(parts, offs):
            v.monfail += [(nm, i + off, ev) for nm, i, ev in p.monfail]
            v.conffail += [(nm, i + off, ev) for nm, i, ev in p.conffail]
            v.states += p.states
            v.wall = max(v.wall, p.wall)
            v.details += getattr(p, "details", [])
            if not p.accepted and not hasattr(v, "reject_tail"):
                v.reject_tail = getattr(p, "reject_tail", "")
        v.details = v.details[:5]
        return v

    def drive(self, histories):
        t0 = time.time()
        ev = super().drive(histories)
        vk.log("drive: %d histories, %d events, %.1fs" % (len(histories), len(ev), time.time() - t0))
        return ev

    def validate(self, events):
        t0 = time.time()
        v = self._validate_all(events)
        if len(events) > 1000:
            vk.log("validate: %d events, %.1fs" % (len(events), time.time() - t0))
        if v.accepted and any(n == "Init" for n, _, _ in v.conffail):
            raise vk.Broken("the genesis built by the driver is not the model's initial state (CONFFAIL Init)")
        return v

    def binding_selftest(self, events, tier):
        byh = {}
        for e in events:
            byh.setdefault(e["h"], []).append(e)

        def find(pred):
            for h, evs in byh.items():
                for k, e in enumerate(evs):
                    if pred(e, evs[:k]):
                        return h, k
            return None, None

        jobs = {}
        # 1. recorded supply of a successfully minted denom off by one -> the supply ledger monitor must fail
        h, k = find(lambda e, pre: e["act"] == "Mint" and e.get("res") == "ok")
        if h is None:
            return {"ok": False, "why": "no successful mint recorded"}
        evs = copy.deepcopy(byh[h])
        a = evs[k]["args"]
        for r in evs[k]["obs"]["den"]:
            if r["c"] == a["c"] and r["s"] == a["s"]:
                r["sup"] += 1
        jobs["corrupted_supply_rejected"] = (evs, lambda v: any(n == "C16.SupplyLedger" for n, _, _ in v.monfail))
        # 2. a rejected privileged message of a non-admin reported as successful -> OnlyAdminActs must fail
        h2, k2 = find(lambda e, pre: e["act"] in ("Mint", "Burn", "ChangeAdmin", "SetMetadata") and e.get("res") == "fail"
                      and e.get("cs") == "tokenfactory" and e.get("code") == 3)
        if h2 is None:
            return {"ok": False, "why": "no unauthorized attempt recorded"}
        evs = copy.deepcopy(byh[h2])
        evs[k2]["res"], evs[k2]["cs"], evs[k2]["code"] = "ok", "", 0
        jobs["forged_success_rejected"] = (evs, lambda v: any(n == "C16.OnlyAdminActs" for n, _, _ in v.monfail))
        # 3. one successful mint dropped from the trace -> ledger / balance monitors must fail (or the trace is rejected)
        h3, k3 = next(((hh, kk) for hh, ee in byh.items() for kk, e in enumerate(ee[:-1])
                       if e["act"] == "Mint" and e.get("res") == "ok"), (None, None))
        if h3 is None:
            return {"ok": False, "why": "no successful mint followed by another step"}
        evs = byh[h3][:k3] + byh[h3][k3 + 1:]
        jobs["dropped_event_rejected"] = (evs, lambda v: (not v.accepted) or any(n in ("C16.SupplyLedger", "C16.OwnBalanceOnly") for n, _, _ in v.monfail))
        # 4. admin recorded as somebody else after a successful creation -> CreateNamespace must fail
        h4, k4 = find(lambda e, pre: e["act"] == "Create" and e.get("res") == "ok")
        evs = copy.deepcopy(byh[h4])
        a = evs[k4]["args"]
        for r in evs[k4]["obs"]["den"]:
            if r["c"] == a["who"] and r["s"] == a["s"]:
                r["admin"] = a["who"] % 3 + 1
        jobs["wrong_admin_rejected"] = (evs, lambda v: any(n == "C16.CreateNamespace" for n, _, _ in v.monfail))
        # 5. a denomination outside the tracked literal names reported in the module's creator index -> NoForeignDenoms must fail
        evs = copy.deepcopy(byh[h4])
        evs[k4]["obs"]["x"][0] += 1
        jobs["foreign_denom_rejected"] = (evs, lambda v: any(n == "C16.NoForeignDenoms" for n, _, _ in v.monfail))
        # 6. the admin of a stored denom recorded differently after a genesis round trip -> ReimportPreserves must fail
        h6, k6 = find(lambda e, pre: e["act"] == "Reimport" and e.get("res") == "ok" and any(r["auth"] == 1 for r in e["obs"]["den"]))
        if h6 is None:
            return {"ok": False, "why": "no genesis round trip with a stored denom recorded"}
        evs = copy.deepcopy(byh[h6])
        r = next(r for r in evs[k6]["obs"]["den"] if r["auth"] == 1)
        r["admin"] = r["admin"] % 3 + 1
        jobs["reimport_change_rejected"] = (evs, lambda v: any(n == "C16.ReimportPreserves" for n, _, _ in v.monfail))
        # 7. an accepted delegated mint credited to the signer instead of the creator -> OwnBalanceOnly must fail
        h7, k7 = find(lambda e, pre: e["act"] == "Mint" and e.get("res") == "ok" and e["args"]["who"] != e["args"]["as"])
        if h7 is None:
            return {"ok": False, "why": "no accepted delegated mint recorded"}
        evs = copy.deepcopy(byh[h7])
        a = evs[k7]["args"]
        for e2 in evs[k7:]:
            for r in e2["obs"]["den"]:
                if r["c"] == a["c"] and r["s"] == a["s"]:
                    r["bal"][a["as"] - 1] -= a["amt"]
                    r["bal"][a["who"] - 1] += a["amt"]
        jobs["mint_to_signer_rejected"] = (evs, lambda v: any(n == "C16.OwnBalanceOnly" for n, _, _ in v.monfail))
        t0 = time.time()
        with ThreadPoolExecutor(max_workers=len(jobs)) as ex:
            vs = dict(zip(jobs, ex.map(lambda j: self.validate(j[0]), jobs.values())))
        out = {name: bool(jobs[name][1](vs[name])) for name in jobs}
        vk.log("binding self-test: %.1fs" % (time.time() - t0))
        out["ok"] = all(out.values())
        return out


CHECK = C16()
