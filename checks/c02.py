"""C02 oracle safety: SkywayOracle.tla."""
from pipeline import Pipeline, Gen
import verifkit as vk


class OracleBase(Pipeline):
    driver_pkg = "drivers/oracle"
    driver_test = "TestDriveOracle"
    trace_module = "SkywayOracleTrace"
    prefixes = ()
    assumptions = [
        "claims are MsgSendToPalomaClaim deposits whose amounts identify the claim (base-3 digits of the receiver balance count applications)",
        "votes run like baseapp.runMsgs (cache context written on success); the tally is the real skyway.EndBlocker on the block context",
        "power changes are real delegations/undelegations/jailings followed by the staking end blocker",
        "governance nonce override through msgServer.OverrideNonceProposal with the test authority; compass change through evm.ActivateChainReferenceID (event bus)",
    ]

    def validate(self, events):
        v = super().validate(events)
        v.monfail = [m for m in v.monfail if m[0].startswith(self.prefixes) or m[0].startswith("Setup.")]
        return v

    def nontrivial(self, evs):
        seen_obs = any(any(a["observed"] for a in e["obs"]["atts"]) for e in evs)
        return seen_obs


class C02(OracleBase):
    pid = "C02"
    prefixes = ("C02.",)
    mc = [("SkywayOracle_mc", "SkywayOracle_mc", ("quick", "thorough")), ("SkywayOracle_mc", "SkywayOracle_act", ("quick", "thorough"))]
    gens = [Gen("SkywayOracleGen", "SkywayOracleGen_cover", "bfs", tiers=("quick", "thorough"), timeout=900),
            Gen("SkywayOracleGen", "SkywayOracleGen_reopen", "bfs", tiers=("quick", "thorough"), timeout=600),
            Gen("SkywayOracleGen", "SkywayOracleGen_rebind", "bfs", tiers=("quick", "thorough"), timeout=600),
            Gen("SkywayOracleGen", "SkywayOracleGen_sim", "simulate", num=1500, depth=16, tiers=("quick",)),
            Gen("SkywayOracleGen", "SkywayOracleGen_sim", "simulate", num=20000, depth=16, tiers=("thorough",))]


class C02Dup(OracleBase):
    """World in which two of the three validators do not reach quorum (30/30/40): votes, resets and re-votes in every
    order (the stored vote list is in arrival order, so both address orders of the first two voters occur)."""
    pid = "C02"
    prefixes = ("C02.",)
    mc = []
    drive_env = {"VERIF_ORACLE_POWERS": "30,30,40"}
    gens = [Gen("SkywayOracleGen", "SkywayOracleGen_dup", "bfs", tiers=("quick", "thorough"), timeout=600)]


from pipeline import Multi


class C02All(Multi):
    pid = "C02"
    parts = [C02(), C02Dup()]


CHECK = C02All()
