"""C05 what validators sign binds the whole message; message ids are never reused.

Three pipelines, one verdict, one evidence file:
  C05Sign  SignBinding.tla (family C05): field tables + perturbation lattice, real GetBytesToSign / GetCheckpoint on every obligation;
  C05Deploy DeployBinding.tla: batch / queued message built, bridge re-deployed, signatures over the bytes of each deployment offered to the real ConfirmBatch / AddMessagesSignatures (E1);
  C05Ids   QueueIds.tla: Put / Replace / Remove / Elect over 2 chains x 4 queue types, replayed on the real consensus keeper (E1)."""
import copy, json, os, time
from pipeline import Pipeline, Gen
from signbinding import SignBindingBase
import verifkit as vk


class C05Sign(SignBindingBase):
    pid = "C05"
    family = "C05"
    prefixes = ("C05.",)
    gens = [Gen("SignBindingGen", "SignBindingGen_c05", "bfs", tiers=("quick", "thorough"))]


class C05Ids(Pipeline):
    pid = "C05"
    mc = [("QueueIds_mc", "QueueIds_mc", ("quick",)), ("QueueIds_mc", "QueueIds_mc_big", ("thorough",))]
    gens = [Gen("QueueIdsGen", "QueueIdsGen_cover", "bfs", tiers=("quick", "thorough"), timeout=600),
            Gen("QueueIdsGen", "QueueIdsGen_sim", "simulate", num=40, depth=12, tiers=("quick",)),
            Gen("QueueIdsGen", "QueueIdsGen_sim", "simulate", num=1500, depth=12, tiers=("thorough",))]
    driver_pkg = "drivers/queueids"
    driver_test = "TestDriveQueueIds"
    trace_module = "QueueIdsTrace"
    quick_cap = 1500
    thorough_cap = 40000
    assumptions = [
        "queues are the four queue types the evm module registers, on two activated chains; skyway batches do not use consensus-queue ids",
        "Replace is Put with MsgIDToReplace (the call estimate.go makes); Elect is the real election: every validator adds an estimate, then CheckAndProcessEstimatedMessages",
        "ids are recorded relative to the counter value the environment's set-up left behind",
    ]

    def run(self, tier):
        # replay files of this half are numbered from 101 so that they do not overwrite those of the signing half
        orig = vk.write_replay
        vk.write_replay = lambda pid, n, events, note=None: orig(pid, n + 100, events, note)
        try:
            return super().run(tier)
        finally:
            vk.write_replay = orig

    def nontrivial(self, evs):
        return sum(1 for e in evs if e.get("res") == "ok") >= 2

    def post_drive(self, events, tier):
        ok = {}
        for e in events:
            if e["act"] != "Init":
                ok.setdefault(e["act"], set()).add(e["res"])
        for act in ("Put", "Replace", "Remove", "Elect"):
            if "ok" not in ok.get(act, ()):
                raise vk.Broken("action %s never succeeded on the real keeper: %s" % (act, ok.get(act)))
        if not any(e["act"] == "Elect" and e["res"] == "ok" and any(m["est"] for m in e["obs"]["live"]) for e in events):
            raise vk.Broken("no gas estimate was ever elected by the real keeper (dead Elect path)")

    def binding_selftest(self, events, tier):
        # (1) a second message with an id already in use; (2) a replaced message that comes back with another id
        byh = {}
        for e in events:
            byh.setdefault(e["h"], []).append(e)
        c1 = c2 = None
        for h, evs in byh.items():
            if c1 is None:
                for k, e in enumerate(evs):
                    if e["act"] == "Put" and e["res"] == "ok" and len(e["obs"]["live"]) >= 2:
                        evs2 = copy.deepcopy(evs[:k + 1])
                        lv = evs2[k]["obs"]["live"]
                        lv[-1]["id"] = lv[-2]["id"]
                        evs2[k]["id"] = lv[-1]["id"]
                        v = self.validate(evs2)
                        c1 = any(n == "C05.IdsUnique" for n, _, _ in v.monfail)
                        break
            if c2 is None:
                for k, e in enumerate(evs):
                    if e["act"] == "Replace" and e["res"] == "ok":
                        evs2 = copy.deepcopy(evs[:k + 1])
                        for m in evs2[k]["obs"]["live"]:
                            if m["id"] == e["args"]["id"]:
                                m["id"] = evs2[k]["obs"]["counter"] + 1
                        evs2[k]["obs"]["counter"] += 1
                        v = self.validate(evs2)
                        c2 = any(n == "C05.ReplaceKeepsId" for n, _, _ in v.monfail)
                        break
            if c1 is not None and c2 is not None:
                break
        return {"ok": bool(c1) and bool(c2), "duplicate_id_noticed": c1, "replace_changing_id_noticed": c2}


class C05Deploy(Pipeline):
    """DeployBinding.tla: the deployment id exercised THROUGH STATE (item built, bridge re-deployed, signatures offered)."""
    pid = "C05"
    mc = [("DeployBinding_mc", "DeployBinding_mc", ("quick", "thorough"))]
    gens = [Gen("DeployBindingGen", "DeployBindingGen_cover", "bfs", tiers=("quick", "thorough"), timeout=600)]
    driver_pkg = "drivers/queueids"
    driver_test = "TestDriveDeployBinding"
    trace_module = "DeployBindingTrace"
    assumptions = [
        "deployment ids are compass-eth-a-<n>; a re-deployment is evm.ActivateChainReferenceID with the next smart contract id",
        "HEAD re-reads the deployment id when a batch confirmation arrives (ConfirmBatch recomputes the checkpoint with ChainInfo.SmartContractUniqueID) "
        "and keeps the turnstone id a queued message was enqueued with (AddMessageSignature verifies GetBytesToSign of the stored message); both are modelled",
    ]

    def run(self, tier):
        orig = vk.write_replay
        vk.write_replay = lambda pid, n, events, note=None: orig(pid, n + 200, events, note)
        try:
            return super().run(tier)
        finally:
            vk.write_replay = orig

    def nontrivial(self, evs):
        return any(e["act"] == "Offer" and e.get("res") == "ok" for e in evs) or any(e["act"] == "Redeploy" for e in evs)

    def post_drive(self, events, tier):
        seen = {}
        for e in events:
            if e["act"] == "Offer":
                seen.setdefault(e["args"]["item"], set()).add(e["res"])
        for item in ("batch", "message"):
            if not {"ok", "refused"} <= seen.get(item, set()):
                raise vk.Broken("offers for %s never both accepted and refused on the real handlers: %s" % (item, seen.get(item)))
        if not any(e["act"] == "Offer" and e["res"] == "ok" and e["obs"]["dep"] > 1 for e in events):
            raise vk.Broken("no signature was accepted after a re-deployment")

    def binding_selftest(self, events, tier):
        # a stored signature over the bytes of a replaced deployment must be noticed
        byh = {}
        for e in events:
            byh.setdefault(e["h"], []).append(e)
        for h, evs in byh.items():
            for k, e in enumerate(evs):
                if e["act"] == "Offer" and e["res"] == "refused" and e["args"]["item"] == "batch" and e["args"]["over"] < e["obs"]["dep"]:
                    evs2 = copy.deepcopy(evs[:k + 1])
                    evs2[k]["res"] = "ok"
                    evs2[k]["obs"]["sigs"] = evs2[k]["obs"]["sigs"] + [{"item": "batch", "val": e["args"]["val"], "over": e["args"]["over"]}]
                    v = self.validate(evs2)
                    c = any(n == "C05.SigBindsDeployment" for n, _, _ in v.monfail)
                    return {"ok": c, "stale_deployment_signature_noticed": c}
        return {"ok": False, "why": "no refused stale batch offer to corrupt"}


def _load():
    with open(os.path.join(vk.EVIDENCE, "C05.json")) as f:
        return json.load(f)


class C05:
    pid = "C05"
    parts = (C05Sign(), C05Ids(), C05Deploy())

    def run(self, tier):
        t0 = time.time()
        rcs, evs = [], []
        for p in self.parts:
            rcs.append(p.run(tier))
            evs.append(_load())
        a, b, c = (e["coverage"] for e in evs)
        cov = {
            "states": a["states"] + b["states"] + c["states"],
            "transitions": a["transitions"] + b["transitions"] + c["transitions"],
            "traces_validated_against_impl": a["traces_validated_against_impl"] + b["traces_validated_against_impl"] + c["traces_validated_against_impl"],
            "samples": a["samples"][:2] + b["samples"][:2] + c["samples"][:1],
            "evaluations": a["evaluations"] + b["evaluations"] + c["evaluations"],
            "distinct_nontrivial": a["distinct_nontrivial"] + b["distinct_nontrivial"] + c["distinct_nontrivial"],
            "rule": "signing half: one history per obligation of the complete SignBinding lattice (family C05), non-trivial = both digests computed; "
                    "id half and deployment-through-state part: " + b["rule"],
            "exhaustive": False,
            "monitor_failures": a["monitor_failures"] + b["monitor_failures"] + c["monitor_failures"],
            "known_finding_hits": dict(dict(a["known_finding_hits"], **b["known_finding_hits"]), **c["known_finding_hits"]),
            "signing_bytes": a,
            "message_ids": b,
            "deployment_through_state": c,
        }
        vk.write_evidence("C05", tier, "model_checking", cov, time.time() - t0, violations=sum(e.get("violations", 0) for e in evs),
                          assumptions=evs[0]["assumptions"] + evs[1]["assumptions"] + evs[2]["assumptions"])
        return max(rcs)

    def replay(self, path):
        with open(path) as f:
            f.readline()
            second = json.loads(f.readline())
        part = self.parts[0]
        if second.get("act") == "Init":
            part = self.parts[2] if "dep" in second.get("obs", {}) else self.parts[1]
        return part.replay(path)


CHECK = C05()
