"""C15 bridge tax and transfer limits: SkywayBridge.tla (limits family)."""
from pipeline import Gen
from c01 import BridgeBase


class C15(BridgeBase):
    pid = "C15"
    prefixes = ("C15.",)
    quick_cap = 15000
    mc = [("SkywayBridge_mc", "SkywayBridge_limits", ("quick", "thorough"))]
    gens = [Gen("SkywayBridgeGen", "SkywayBridgeGen_limits_cover", "bfs", tiers=("quick", "thorough"), timeout=600),
            Gen("SkywayBridgeGen", "SkywayBridgeGen_limbatch_cover", "bfs", tiers=("quick", "thorough"), timeout=600, cap=3000),
            Gen("SkywayBridgeGen", "SkywayBridgeGen_limits_sim", "simulate", num=300, depth=12, tiers=("quick",)),
            Gen("SkywayBridgeGen", "SkywayBridgeGen_limits_sim", "simulate", num=3000, depth=12, tiers=("thorough",))
]
    # users start with 12 units so that a single transfer can exceed a limit of 3 or 5 without running out of funds
    drive_env = {"VERIF_INITBAL": "12"}

    def nontrivial(self, evs):
        return sum(1 for e in evs if e["act"] == "Send" and e.get("res") == "ok") >= 2


def period_part(name, env):
    class P(C15):
        mc = []
        quick_cap = 2500
        thorough_cap = 8000
        trace_cfg = "SkywayBridgeTrace_" + name
        gens = [Gen("SkywayBridgeGen", "SkywayBridgeGen_limits_cover_" + name, "bfs", tiers=("quick", "thorough"), timeout=600)]
        drive_env = {"VERIF_INITBAL": "12", "VERIF_LIMIT_PERIOD": env}
    P.__name__ = "C15_" + name
    return P()


from pipeline import Multi


class C15All(Multi):
    """DAILY with the full generator set; WEEKLY / MONTHLY / YEARLY windows with the boundary cover (jumps of
    window-1 and window blocks). The expected window lengths are constants of the trace configurations."""
    pid = "C15"
    parts = [C15(), period_part("weekly", "WEEKLY"), period_part("monthly", "MONTHLY"), period_part("yearly", "YEARLY")]


CHECK = C15All()
