"""C15 bridge tax and transfer limits: SkywayBridge.tla (limits family)."""
from pipeline import Gen
from c01 import BridgeBase


class C15(BridgeBase):
    pid = "C15"
    prefixes = ("C15.",)
    quick_cap = 12000
    mc = [("SkywayBridge_mc", "SkywayBridge_limits", ("quick", "thorough"))]
    gens = [Gen("SkywayBridgeGen", "SkywayBridgeGen_limits_cover", "bfs", tiers=("quick", "thorough"), timeout=600),
            Gen("SkywayBridgeGen", "SkywayBridgeGen_limits_sim", "simulate", num=300, depth=12, tiers=("quick",)),
            Gen("SkywayBridgeGen", "SkywayBridgeGen_limits_sim", "simulate", num=3000, depth=12, tiers=("thorough",))
]
    # users start with 12 units so that a single transfer can exceed a limit of 3 or 5 without running out of funds
    drive_env = {"VERIF_INITBAL": "12"}

    def nontrivial(self, evs):
        return sum(1 for e in evs if e["act"] == "Send" and e.get("res") == "ok") >= 2


CHECK = C15()
