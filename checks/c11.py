"""C11 votes pooled only for identical claims (pure part): SignBinding.tla, family C11.

Two validators submit the two claims of an obligation to the REAL skyway Keeper.Attest (E1); the raw store keys of the attestations created
(prefix(chain_reference_id) ++ GetAttestationKey(skyway_nonce, ClaimHash())) are read back: one key = the votes were pooled.
Field lists of every EthereumClaim implementation linked into the binary are obtained by reflection."""
from pipeline import Gen
from signbinding import SignBindingBase


class C11(SignBindingBase):
    pid = "C11"
    family = "C11"
    prefixes = ("C11.",)
    gens = [Gen("SignBindingGen", "SignBindingGen_c11", "bfs", tiers=("quick", "thorough"))]


CHECK = C11()
