"""C11 votes pooled only for identical claims (pure part): SignBinding.tla, family C11.

Digest = the store key under which skyway's Attest pools votes: prefix(chain_reference_id) ++ GetAttestationKey(skyway_nonce, ClaimHash()).
Field lists of every EthereumClaim implementation linked into the binary are obtained by reflection."""
from pipeline import Gen
from signbinding import SignBindingBase


class C11(SignBindingBase):
    pid = "C11"
    family = "C11"
    prefixes = ("C11.",)
    gens = [Gen("SignBindingGen", "SignBindingGen_c11", "bfs", tiers=("quick", "thorough"))]


CHECK = C11()
