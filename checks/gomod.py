#!/usr/bin/env python3
"""Derive harness/go.mod and go.sum from /repo's (same dependency versions, module => /repo)."""
import os, re, sys
REPO = os.environ.get("VERIF_REPO", "/repo")
H = os.path.join(os.path.dirname(os.path.dirname(os.path.abspath(__file__))), "harness")


def sync():
    src = open(os.path.join(REPO, "go.mod")).read()
    src = re.sub(r"^module .*$", "module verifharness", src, count=1, flags=re.M)
    src += "\nrequire github.com/palomachain/paloma/v2 v2.0.0\n\nreplace github.com/palomachain/paloma/v2 => %s\n" % REPO
    # pinned, cached extra modules for harness-side tooling
    dst = os.path.join(H, "go.mod")
    if not os.path.exists(dst) or open(dst).read() != src:
        open(dst, "w").write(src)
    s = open(os.path.join(REPO, "go.sum")).read()
    d2 = os.path.join(H, "go.sum")
    if not os.path.exists(d2) or open(d2).read() != s:
        open(d2, "w").write(s)


if __name__ == "__main__":
    sync()
