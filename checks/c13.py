"""C13 validators are never punished for doing what the chain asked (batch checkpoints part): SkywayBridge.tla (sigs family)."""
from pipeline import Gen
from c01 import BridgeBase


class C13(BridgeBase):
    pid = "C13"
    prefixes = ("C13.",)
    mc = [("SkywayBridge_mc", "SkywayBridge_sigs", ("quick", "thorough"))]
    gens = [Gen("SkywayBridgeGen", "SkywayBridgeGen_sigs_cover", "bfs", tiers=("quick", "thorough"), timeout=900),
            Gen("SkywayBridgeGen", "SkywayBridgeGen_sigs_sim", "simulate", num=300, depth=14, tiers=("quick",)),
            Gen("SkywayBridgeGen", "SkywayBridgeGen_sigs_sim", "simulate", num=3000, depth=14, tiers=("thorough",))]

    def nontrivial(self, evs):
        return any(e["act"] == "Evidence" for e in evs) and any(e["act"] == "EndBlock" for e in evs)


CHECK = C13()
