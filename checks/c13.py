"""C13 validators are never punished for doing what the chain asked:
   SkywayBridge.tla (bad-signature evidence vs issued checkpoints) + ConsensusQueue.tla (prune jailing)."""
from pipeline import Gen, Multi
from c01 import BridgeBase
from cq import CQBase


class C13Bridge(BridgeBase):
    pid = "C13"
    quick_cap = 17000
    prefixes = ("C13.",)
    mc = [("SkywayBridge_mc", "SkywayBridge_sigs", ("quick", "thorough"))]
    gens = [Gen("SkywayBridgeGen", "SkywayBridgeGen_rekey_cover", "bfs", tiers=("quick", "thorough"), timeout=900, cap=3000),
            Gen("SkywayBridgeGen", "SkywayBridgeGen_sigs_cover", "bfs", tiers=("quick",), timeout=900, cap=12000),
            Gen("SkywayBridgeGen", "SkywayBridgeGen_sigs_sim", "simulate", num=300, depth=14, tiers=("quick",), cap=1500),
            Gen("SkywayBridgeGen", "SkywayBridgeGen_sigs_cover", "bfs", tiers=("thorough",), timeout=900, cap=20000),
            Gen("SkywayBridgeGen", "SkywayBridgeGen_sigs_sim", "simulate", num=3000, depth=14, tiers=("thorough",), cap=15000)]

    def nontrivial(self, evs):
        return any(e["act"] == "Evidence" for e in evs) and any(e["act"] == "EndBlock" for e in evs)


class C13Queue(CQBase):
    pid = "C13"
    quick_cap = 12000
    prefixes = ("C13.",)
    mc = [("ConsensusQueue_mc", "ConsensusQueue_ev", ("quick", "thorough"))]
    gens = [Gen("ConsensusQueueGen", "ConsensusQueueGen_prune_cover", "bfs", tiers=("quick",), timeout=900, cap=6000),
            Gen("ConsensusQueueGen", "ConsensusQueueGen_electprune_cover", "bfs", tiers=("quick", "thorough"), timeout=600, cap=3000),
            Gen("ConsensusQueueGen", "ConsensusQueueGen_order_cover", "bfs", tiers=("quick", "thorough"), timeout=600, cap=4000),
            Gen("ConsensusQueueGen", "ConsensusQueueGen_sim", "simulate", num=100, depth=18, tiers=("quick",), cap=500),
            Gen("ConsensusQueueGen", "ConsensusQueueGen_prune_cover", "bfs", tiers=("thorough",), timeout=900, cap=20000),
            Gen("ConsensusQueueGen", "ConsensusQueueGen_sim", "simulate", num=1000, depth=18, tiers=("thorough",), cap=6000)]

    def nontrivial(self, evs):
        return any(e["act"] == "EndBlock" and len(e["obs"]["jailed"]) > 0 for e in evs) or \
            any(e["act"] == "Evidence" and e.get("res") == "ok" for e in evs)


class C13(Multi):
    pid = "C13"
    parts = [C13Bridge(), C13Queue()]


CHECK = C13()
