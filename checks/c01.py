"""C01 bridge escrow conservation / all-or-nothing lifecycle: SkywayBridge.tla."""
from pipeline import Pipeline, Gen
import verifkit as vk


class BridgeBase(Pipeline):
    driver_pkg = "drivers/bridge"
    driver_test = "TestDriveBridge"
    trace_module = "SkywayBridgeTrace"
    prefixes = ()          # monitor name prefixes that belong to this property
    assumptions = [
        "user messages run like baseapp.runMsgs: msg-server call on a cache context written only on success; skyway.EndBlocker runs on the block context",
        "bank and evm collaborators are the real keepers behind fault-injecting proxies (constructor injection)",
        "executed-batch and deposit claims are voted by every validator through the real msg server and tallied by the real end-blocker",
        "amounts are small integers (TLC); big-number arithmetic is sampled separately",
    ]

    def validate(self, events):
        v = super().validate(events)
        # keep only the monitors that belong to this property (the others are decided by their own checks)
        v.monfail = [m for m in v.monfail if m[0].startswith(self.prefixes) or m[0].startswith("Setup.")]
        return v

    def nontrivial(self, evs):
        return sum(1 for e in evs if e.get("res") == "ok") >= 1 and any(e["act"] == "EndBlock" for e in evs)


class C01(BridgeBase):
    pid = "C01"
    prefixes = ("C01.",)
    mc = [("SkywayBridge_mc", "SkywayBridge_funds", ("quick", "thorough")),
          ("SkywayBridge_mc", "SkywayBridge_funds_big", ("thorough",))]
    gens = [Gen("SkywayBridgeGen", "SkywayBridgeGen_funds_cover", "bfs", tiers=("quick",), timeout=600),
            Gen("SkywayBridgeGen", "SkywayBridgeGen_funds_cover_big", "bfs", tiers=("thorough",), timeout=1800),
            Gen("SkywayBridgeGen", "SkywayBridgeGen_funds_sim", "simulate", num=600, depth=12, tiers=("quick",)),
            Gen("SkywayBridgeGen", "SkywayBridgeGen_funds_sim", "simulate", num=8000, depth=12, tiers=("thorough",))]

    def match_known(self, finding, failure):
        return super().match_known(finding, failure)


CHECK = C01()
