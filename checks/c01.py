"""C01 bridge escrow conservation / all-or-nothing lifecycle: SkywayBridge.tla."""
from pipeline import Pipeline, Gen
import verifkit as vk


class BridgeBase(Pipeline):
    driver_pkg = "drivers/bridge"
    driver_test = "TestDriveBridge"
    trace_module = "SkywayBridgeTrace"
    prefixes = ()          # monitor name prefixes that belong to this property
    assumptions = [
        "user messages run like baseapp.runMsgs: msg-server call on a cache context written only on success; skyway.EndBlocker runs on the block context",
        "bank and evm collaborators are the real keepers behind fault-injecting proxies (constructor injection)",
        "executed-batch and deposit claims are voted by every validator through the real msg server and tallied by the real end-blocker",
        "amounts are small integers (TLC); big-number arithmetic is sampled separately",
    ]

    def validate(self, events):
        v = super().validate(events)
        # keep only the monitors that belong to this property (the others are decided by their own checks)
        v.monfail = [m for m in v.monfail if m[0].startswith(self.prefixes) or m[0].startswith("Setup.")]
        return v

    def nontrivial(self, evs):
        return sum(1 for e in evs if e.get("res") == "ok") >= 1 and any(e["act"] == "EndBlock" for e in evs)


class C01(BridgeBase):
    pid = "C01"
    prefixes = ("C01.",)
    mc = [("SkywayBridge_mc", "SkywayBridge_funds", ("quick", "thorough")),
          ("SkywayBridge_mc", "SkywayBridge_funds_big", ("thorough",))]
    gens = [Gen("SkywayBridgeGen", "SkywayBridgeGen_funds_cover", "bfs", tiers=("quick",), timeout=600),
            Gen("SkywayBridgeGen", "SkywayBridgeGen_funds_cover_big", "bfs", tiers=("thorough",), timeout=1800),
            Gen("SkywayBridgeGen", "SkywayBridgeGen_funds_sim", "simulate", num=600, depth=12, tiers=("quick",)),
            Gen("SkywayBridgeGen", "SkywayBridgeGen_funds_sim", "simulate", num=8000, depth=12, tiers=("thorough",))]

    def match_known(self, finding, failure):
        return super().match_known(finding, failure)


class C01Faults(BridgeBase):
    """Single-fault enumeration: fault-free base histories are driven once to count the collaborator calls of every
    step (dry run through the proxies); then every (step, k) with 1 <= k <= calls(step) becomes its own history."""
    pid = "C01"
    prefixes = ("C01.",)
    mc = []
    gens = [Gen("SkywayBridgeGen", "SkywayBridgeGen_funds_nofault_sim", "simulate", num=300, depth=10, tiers=("quick",), cap=150),
            Gen("SkywayBridgeGen", "SkywayBridgeGen_funds_nofault_sim", "simulate", num=3000, depth=10, tiers=("thorough",), cap=1500)]
    quick_cap = 6000
    thorough_cap = 80000

    def expand_histories(self, hs, tier):
        import copy
        ev = self.drive(hs)
        calls, lookups = {}, {}
        for e in ev:
            if e["i"] > 0:
                calls[(e["h"], e["i"])] = e.get("calls", 0)
                lookups[(e["h"], e["i"])] = e.get("lookups") or []
        out = []
        self.fault_points = 0
        for h, steps in enumerate(hs):
            for i, st in enumerate(steps):
                n = calls.get((h, i + 1), 0)
                if "k" not in (st.get("args") or {}):
                    continue
                for k in range(1, n + 1):
                    v = copy.deepcopy(steps)
                    v[i]["args"]["k"] = k
                    out.append(v)
                    self.fault_points += 1
                    if k in lookups.get((h, i + 1), []):     # a lookup: also the "not found" answer
                        v2 = copy.deepcopy(v)
                        v2[i]["args"]["fm"] = 1
                        out.append(v2)
                        self.fault_points += 1
                        self.miss_points = getattr(self, "miss_points", 0) + 1
        return out

    def extra_coverage(self, tier):
        return {"single_fault_histories": getattr(self, "fault_points", 0), "lookup_not_found_histories": getattr(self, "miss_points", 0),
                "fault_enumeration": "every collaborator call (bank / evm proxies) of every Send, Cancel and EndBlock step of the fault-free base histories, one fault per history; a fault is an error return and, for lookups with a found flag (relayer address), additionally the answer 'not found'"}

    def nontrivial(self, evs):
        return any(e.get("fired") for e in evs)


from pipeline import Multi


class C01All(Multi):
    pid = "C01"
    parts = [C01(), C01Faults()]


CHECK = C01All()
