"""C01 bridge escrow conservation / all-or-nothing lifecycle: SkywayBridge.tla."""
from pipeline import Pipeline, Gen
import verifkit as vk


class BridgeBase(Pipeline):
    driver_pkg = "drivers/bridge"
    driver_test = "TestDriveBridge"
    trace_module = "SkywayBridgeTrace"
    prefixes = ()          # monitor name prefixes that belong to this property
    assumptions = [
        "user messages run like baseapp.runMsgs: msg-server call on a cache context written only on success; skyway.EndBlocker runs on the block context",
        "bank and evm collaborators are the real keepers behind fault-injecting proxies (constructor injection)",
        "executed-batch and deposit claims are voted by every validator through the real msg server and tallied by the real end-blocker",
        "amounts are small integers (TLC); big-number arithmetic is sampled separately",
    ]

    def validate(self, events):
        v = super().validate(events)
        # keep only the monitors that belong to this property (the others are decided by their own checks)
        v.monfail = [m for m in v.monfail if m[0].startswith(self.prefixes) or m[0].startswith("Setup.")]
        return v

    def nontrivial(self, evs):
        return sum(1 for e in evs if e.get("res") == "ok") >= 1 and any(e["act"] == "EndBlock" for e in evs)


class C01(BridgeBase):
    pid = "C01"
    prefixes = ("C01.",)
    mc = [("SkywayBridge_mc", "SkywayBridge_funds", ("quick", "thorough")),
          ("SkywayBridge_mc", "SkywayBridge_funds_big", ("thorough",))]
    gens = [Gen("SkywayBridgeGen", "SkywayBridgeGen_funds_cover", "bfs", tiers=("quick",), timeout=600),
            Gen("SkywayBridgeGen", "SkywayBridgeGen_funds_cover_big", "bfs", tiers=("thorough",), timeout=1800),
            Gen("SkywayBridgeGen", "SkywayBridgeGen_funds_sim", "simulate", num=600, depth=12, tiers=("quick",)),
            Gen("SkywayBridgeGen", "SkywayBridgeGen_funds_sim", "simulate", num=8000, depth=12, tiers=("thorough",))]

    def match_known(self, finding, failure):
        return super().match_known(finding, failure)


class C01Faults(BridgeBase):
    """Single-fault enumeration: fault-free base histories are driven once to count the collaborator calls of every
    step (dry run through the proxies); then every (step, k) with 1 <= k <= calls(step) becomes its own history."""
    pid = "C01"
    prefixes = ("C01.",)
    mc = []
    gens = [Gen("SkywayBridgeGen", "SkywayBridgeGen_funds_nofault_sim", "simulate", num=300, depth=10, tiers=("quick",), cap=150),
            Gen("SkywayBridgeGen", "SkywayBridgeGen_funds_nofault_sim", "simulate", num=3000, depth=10, tiers=("thorough",), cap=1500)]
    quick_cap = 6000
    thorough_cap = 80000

    def expand_histories(self, hs, tier):
        import copy
        ev = self.drive(hs)
        calls, lookups = {}, {}
        for e in ev:
            if e["i"] > 0:
                calls[(e["h"], e["i"])] = e.get("calls", 0)
                lookups[(e["h"], e["i"])] = e.get("lookups") or []
        out = []
        self.fault_points = 0
        for h, steps in enumerate(hs):
            for i, st in enumerate(steps):
                n = calls.get((h, i + 1), 0)
                if "k" not in (st.get("args") or {}):
                    continue
                for k in range(1, n + 1):
                    v = copy.deepcopy(steps)
                    v[i]["args"]["k"] = k
                    out.append(v)
                    self.fault_points += 1
                    if k in lookups.get((h, i + 1), []):     # a lookup: also the "not found" answer
                        v2 = copy.deepcopy(v)
                        v2[i]["args"]["fm"] = 1
                        out.append(v2)
                        self.fault_points += 1
                        self.miss_points = getattr(self, "miss_points", 0) + 1
        return out

    def extra_coverage(self, tier):
        return {"single_fault_histories": getattr(self, "fault_points", 0), "lookup_not_found_histories": getattr(self, "miss_points", 0),
                "fault_enumeration": "every collaborator call (bank / evm proxies) of every Send, Cancel and EndBlock step of the fault-free base histories, one fault per history; a fault is an error return and, for lookups with a found flag (relayer address), additionally the answer 'not found'"}

    def nontrivial(self, evs):
        return any(e.get("fired") for e in evs)


from pipeline import Multi


class C01Binding(Pipeline):
    """Token re-binding while transfers are pending: TokenBinding.tla (the pool is keyed by contract, the refunded /
    burned denom is looked up again through the reverse index)."""
    pid = "C01"
    mc = [("TokenBinding_mc", "TokenBinding_mc", ("quick", "thorough"))]
    gens = [Gen("TokenBindingGen", "TokenBindingGen_cover", "bfs", tiers=("quick", "thorough"), timeout=600),
            Gen("TokenBindingGen", "TokenBindingGen_sim", "simulate", num=300, depth=14, tiers=("quick",)),
            Gen("TokenBindingGen", "TokenBindingGen_sim", "simulate", num=6000, depth=14, tiers=("thorough",))]
    driver_pkg = "drivers/tokbinding"
    driver_test = "TestDriveTokenBinding"
    trace_module = "TokenBindingTrace"
    assumptions = [
        "the token factory is seen through skyway's TokenFactoryKeeper interface: the creator named in factory/<creator>/<sub> is the admin (hand-overs are decided by C03 / C16)",
        "amount 1, no bridge tax, one chain; batches are not built in this family (SkywayBridge.tla covers them with fixed bindings)",
    ]

    def nontrivial(self, evs):
        return sum(1 for e in evs if e["act"] == "Bind" and e.get("res") == "ok") >= 1 and any(e["act"] == "Cancel" for e in evs)

    def binding_selftest(self, events, tier):
        import copy
        # move one escrowed coin to the other denom in one recorded observation -> EscrowEq must fail;
        # drop one accepted Send event -> the pool holds a transfer the monitors never saw
        hs = {}
        for e in events:
            hs.setdefault(e["h"], []).append(e)
        for h, evs in hs.items():
            k = next((i for i, e in enumerate(evs) if e["act"] == "Send" and e.get("res") == "ok"), None)
            if k is None or k + 1 >= len(evs):
                continue
            a = copy.deepcopy(evs)
            a[k]["obs"]["escrow"] = list(reversed(a[k]["obs"]["escrow"]))
            if a[k]["obs"]["escrow"] == evs[k]["obs"]["escrow"]:
                continue
            v1 = self.validate(a)
            c1 = any(n == "C01.BindEscrowEq" for n, _, _ in v1.monfail)
            b = evs[:k] + evs[k + 1:]
            v2 = self.validate(b)
            c2 = bool(v2.monfail) or not v2.accepted
            return {"ok": c1 and c2, "corrupted_escrow_rejected": c1, "dropped_send_rejected": c2}
        return {"ok": False, "why": "no accepted Send found"}


class C01All(Multi):
    pid = "C01"
    parts = [C01(), C01Faults(), C01Binding()]


CHECK = C01All()
