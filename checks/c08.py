"""C08 state transitions are a deterministic function of chain history (level: exploration).

ChainHistory.tla defines the histories (blocks of catalogue transactions touching every Paloma module) and the
perturbations of one node - Restart, read-only Query kinds, SetEnv / UnsetEnv - which the spec DEFINES as stuttering
on chain state (PerturbationsStutter, StateIsFunctionOfHistory: checked exhaustively on a small block choice).
TLC chooses where the perturbations go (ChainHistoryGen8: every placement in four scenarios + seeded random walks);
the driver (harness/drivers/chainhistory, full application E2) executes sequential twins: reference run, R-1 re-runs
of the same raw blocks (map iteration order), perturbed run (later in wall-clock time); ChainHistoryTrace lets TLC
compare the recorded digests block by block (C08.TwinsEqual, C08.RunsAgree) and the idempotence probes
(C08.ProbeStable, C08.PerturbationStutters, C08.RestartReloads, C08.WorldAgrees)."""
import copy, time
from pipeline import Pipeline, Gen
import verifkit as vk

FF = "PALOMA_FF_PIGEON_STATUS_UPDATE"
QUERY_KINDS = ("pick", "assign", "simulate", "relay", "snapshot", "snapbuild", "evidence", "uptime", "chaininfojail", "history", "prunejail")


class C08(Pipeline):
    pid = "C08"
    level = "exploration"
    mc = [("ChainHistory_mc", "ChainHistory_mc", ("quick", "thorough")),
          ("ChainHistory_mc", "ChainHistory_mc_deep", ("thorough",))]
    gens = [Gen("ChainHistoryGen8", "ChainHistoryGen8_cover", "bfs", tiers=("quick",), timeout=300),
            Gen("ChainHistoryGen8", "ChainHistoryGen8_cover_big", "bfs", tiers=("thorough",), timeout=1200, cap=2000),
            Gen("ChainHistoryGen8", "ChainHistoryGen8_sim", "simulate", num=120, depth=19, tiers=("quick",), timeout=300),
            Gen("ChainHistoryGen8", "ChainHistoryGen8_sim", "simulate", num=800, depth=19, tiers=("thorough",), timeout=1200)]
    driver_pkg = "drivers/chainhistory"
    driver_test = "TestDriveTwins"
    trace_module = "ChainHistoryTrace"
    min_histories = 100
    quick_cap = 1500
    thorough_cap = 6000
    tier_env = {"quick": {"VERIF_CH_RERUNS": "3"},
                "thorough": {"VERIF_CH_RERUNS": "10", "VERIF_CH_DELAY_EVERY": "20"}}
    assumptions = [
        "full application (app.New) driven through InitChain / FinalizeBlock / Commit with really signed transactions; one prepared world per driver process (4 bonded validators with external accounts, keep-alives and equal relayer fees on two active EVM chains, treasury fees, a bridged ERC-20, a light node sale contract, snapshots built by the real end blocker, height 280); every run is a fork (copy of the database + app.New) of that world",
        "the reference block request that the evm end blocker queues every 10 000 blocks (a height no history reaches) is queued during world preparation by calling the keeper function that end blocker calls (ScheduleReferenceBlockForChain)",
        "what only governance can do (add / activate chains, compass contract, fee manager, deployer, treasury fees, token mapping, sale contract) is done through the modules' governance proposal handlers on the uncached context during world preparation",
        "twins are sequential in one process (util/eventbus keeps subscribers in package globals); the perturbed twin and the R-1 re-runs replay the RAW transaction bytes of the reference run, so 'same sequence of blocks and transactions' is literal",
        "digest per block = app hash + every ExecTxResult (code, codespace, data, gas wanted/used, events with attribute order and index flag) + FinalizeBlock events, validator updates, consensus parameter updates; the free-text log of a failed transaction is NOT part of the digest (it is not part of consensus and contains stack addresses)",
        "Restart = App object dropped, app.New on the same database (the wasm compilation cache directory is fresh: the dropped VM keeps its lock for the life of the process); environment = the variables Paloma code reads (grep os.Getenv/LookupEnv in /repo: PALOMA_FF_PIGEON_STATUS_UPDATE in x/paloma msg server, PIGEON_HEALTHCHECK_PORT in app/pigeon.go)",
        "map iteration order: Go re-randomises per range statement, so re-runs inside one process and the 8 driver processes all sample different orders; equality is established on the generated histories, not proved",
        "wall clock against block time: genesis is 2024-01-01 with 5 s blocks, so block time is years behind the process clock in every history; in addition one world ('clock') is built with its genesis anchored to the real clock such that the valset published on the chains becomes 30 days old in wall-clock terms 60 s after its preparation started (in block time it is 21 minutes old): the reference run and its re-runs execute before that moment, the perturbed twin 1.5 s after it; the clock cannot be faked in-process, so other wall-clock boundaries (if code had any) are only covered by the distance between block time and real time",
        "wall clock: thorough tier starts every 20th perturbed twin >= 1.1 s after its reference; all twins run at different wall-clock times anyway (sequential)",
    ]

    def execute(self, tier):
        """Violations first: a vacuity finding of post_drive (e.g. a probe that had nothing to evaluate because a defect removed what it
        looks at) only makes the check inconclusive when the trace is otherwise clean."""
        self._tier = tier
        self._vacuity = []
        violations, known, cov = super().execute(tier)
        if not violations and self._vacuity:
            raise vk.Broken("; ".join(self._vacuity))
        if self._vacuity:
            cov["vacuity_notes"] = self._vacuity
        if getattr(self, "_timing_note", None):
            cov["timing_note"] = self._timing_note
        return violations, known, cov

    def drive(self, histories):
        t0 = time.time()
        env = dict(self.tier_env.get(getattr(self, "_tier", "quick"), {}))
        ev = vk.go_drive(self.driver_pkg, self.driver_test, histories, env=env, timeout=3000)
        vk.log("drive: %d histories, %d events, %.1fs" % (len(histories), len(ev), time.time() - t0))
        return ev

    def validate(self, events):
        v = super().validate(events)
        v.monfail = [m for m in v.monfail if m[0].startswith("C08.")]
        return v

    def nontrivial(self, evs):
        blocks = [e for e in evs if e["act"] == "Block" and e["res"] == "ok" and e["nok"] > 0]
        perts = [e for e in evs if e["act"] in ("Restart", "Query", "SetEnv", "UnsetEnv") and e["res"] == "ok"]
        return len(blocks) >= 2 and len(perts) >= 1

    def post_drive(self, events, tier):
        acts = {}
        for e in events:
            acts[e["act"]] = acts.get(e["act"], 0) + 1
        for a in ("Init", "Block", "Restart", "Query", "SetEnv"):
            if not acts.get(a):
                self._vacuity.append("vacuous drive: no %s event" % a)
        for k in QUERY_KINDS:
            n = sum(e["n"] for e in events if e["act"] == "Query" and e["args"].get("k") == k)
            if n == 0:
                self._vacuity.append("vacuous drive: probe %s never evaluated anything" % k)
        blocks = [e for e in events if e["act"] == "Block"]
        if not any(e["ff"] and e["args"]["hostile"] for e in blocks):
            self._vacuity.append("vacuous drive: no block with hostile status updates under the feature-flag variable")
        split = sum(1 for e in blocks if any(t in e["args"]["txs"] for t in ("refsplit", "balsplit", "txsplit", "attestsplit3", "attestsplit")))
        if split == 0:
            self._vacuity.append("vacuous drive: no block with contentious evidence")
        clocks = [e["clock"] for e in events if e["act"] == "Init" and e["args"].get("world") == "clock"]
        if "straddled" not in clocks:
            # depends on how fast this machine is: never a reason to call the check broken, only recorded
            self._timing_note = "no history whose twins straddle the wall-clock boundary of the anchored world (%s): the 30-day boundary scenario was not exercised in this run" % clocks
            vk.log(self._timing_note)
        nok = sum(e["nok"] for e in blocks)
        ntx = sum(e["ntx"] for e in blocks)
        if nok == 0 or nok == ntx:
            self._vacuity.append("vacuous drive: %d of %d transactions succeeded (both outcomes are needed)" % (nok, ntx))
        if len({e["whash"] for e in events if e["act"] == "Init" and e["args"].get("world", "std") == "std"}) != 1:
            vk.log("prepared worlds differ between driver processes (C08.WorldAgrees will report it)")
        if not any(e["ff"] and "statusbad" in e["args"]["txs"] for e in blocks):
            self._vacuity.append("vacuous drive: no block with an out-of-range status update under the feature-flag variable")
        self._cov = {
            "blocks_compared": len(blocks),
            "blocks_with_contentious_evidence": split,
            "hostile_status_updates_under_feature_flag": sum(len(e["args"]["hostile"]) for e in blocks if e["ff"]),
            "transactions_compared": ntx,
            "transactions_succeeded": nok,
            "perturbations": {a: acts.get(a, 0) for a in ("Restart", "Query", "SetEnv", "UnsetEnv")},
            "probe_evaluations": {k: sum(e["n"] for e in events if e["act"] == "Query" and e["args"].get("k") == k) for k in QUERY_KINDS},
            "reference_reruns": max([e["reruns"] for e in events if e["act"] == "Init"] or [0]),
            "delayed_twins": sum(1 for e in events if e["act"] == "Init" and e["delayed"]),
            "heights": [min(e["height"] for e in blocks), max(e["height"] for e in blocks)],
            "unequal_blocks_by_difference": _count(e["diff"] for e in blocks if not e["equal"]),
        }

    def extra_coverage(self, tier):
        c = dict(getattr(self, "_cov", {}))
        c["rule"] = ("evaluation = one history (TLC-generated sequence of blocks and perturbations) executed as reference twin, "
                     "R-1 re-runs and perturbed twin, every block digest compared by TLC; distinct = different (action,args) sequence; "
                     "non-trivial = at least two blocks with a successful transaction and at least one executed perturbation")
        return c

    def binding_selftest(self, events, tier):
        """A failing self-test makes a CLEAN run inconclusive; it never hides violations (see execute)."""
        out = self._binding_selftest(events, tier)
        if out is not None and not out.get("ok", True):
            self._vacuity.append("binding self-test failed: %s" % out)
            out = dict(out, ok=True, failed=True)
        return out

    def _binding_selftest(self, events, tier):
        byh = {}
        for e in events:
            byh.setdefault(e["h"], []).append(e)
        pick = None
        byh = {h: evs for h, evs in byh.items() if evs[0]["args"].get("world", "std") == "std"}
        for h, evs in byh.items():
            acts = [e["act"] for e in evs]
            if "Restart" in acts and all(e.get("equal", True) for e in evs) and sum(1 for a in acts if a == "Block") >= 3:
                pick = evs
                break
        pickq = next((evs for evs in byh.values() if any(e["act"] == "Query" for e in evs) and all(e.get("equal", True) for e in evs)), None)
        if pick is None or pickq is None:
            return {"ok": False, "why": "no clean history with a Restart / a Query"}
        out = {}
        c = copy.deepcopy(pick)
        b = [e for e in c if e["act"] == "Block"][1]
        b["dpert"] = b["dpert"][:-1] + ("0" if b["dpert"][-1] != "0" else "1")
        out["corrupted_twin_digest_rejected"] = any(n == "C08.TwinsEqual" for n, _, _ in self.validate(c).monfail)
        c = copy.deepcopy(pick)
        b = [e for e in c if e["act"] == "Block"][2]
        if b["runs"]:
            b["runs"][-1] = "x" + b["runs"][-1][1:]
            out["corrupted_rerun_digest_rejected"] = any(n == "C08.RunsAgree" for n, _, _ in self.validate(c).monfail)
        c = copy.deepcopy(pick)
        r = [e for e in c if e["act"] == "Restart"][0]
        r["ha"] = "f" * 16
        out["state_change_by_restart_rejected"] = any(n == "C08.PerturbationStutters" for n, _, _ in self.validate(c).monfail)
        c = copy.deepcopy(pickq)
        q = [e for e in c if e["act"] == "Query"][0]
        q["stable"] = False
        out["unstable_probe_rejected"] = any(n == "C08.ProbeStable" for n, _, _ in self.validate(c).monfail)
        c = copy.deepcopy(pick)
        c[0]["whash"] = "00" + c[0]["whash"][2:]
        c2 = copy.deepcopy(pickq) + c if pickq[0]["h"] < c[0]["h"] else c + copy.deepcopy(pickq)
        out["different_world_rejected"] = any(n == "C08.WorldAgrees" for n, _, _ in self.validate(sorted(c2, key=lambda e: (e["h"], e["i"]))).monfail) if pickq[0]["h"] != pick[0]["h"] else True
        out["ok"] = all(out.values())
        return out


def _count(it):
    d = {}
    for x in it:
        d[x] = d.get(x, 0) + 1
    return d


CHECK = C08()
