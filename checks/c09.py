"""C09 begin- and end-of-block processing never aborts (level: exploration).

ChainHistory.tla: Block(txs) is enabled for every choice of catalogue transactions in every state the version gate
did not close (NoAbort, OnlyGateHalts: exhaustive on a small block choice).  The catalogue
(ChainHistoryCatalogue.tla, generated from the driver and compared with it at every run) lists every message kind of the
Paloma modules with every sender-controlled parameter and its hostile classes {negative, zero, one, huge (2^63, 2^64-1,
2^255), empty/absent, over-long (33-byte address, 70 kB string, 1 MB bytes, 3000 elements), malformed}.
ChainHistoryGen9 lets TLC enumerate  kind x parameter x class x height class {m10, m50, m300, m303, other} x what is queued
{idle, fresh, signed, elected, relayed}.  The driver (full application E2) prepares the stage, delivers the hostile
transaction(s) really signed at the height of the class and lets the pigeons do their duty up to the next heights
= 0 mod 10, 50 (300, 303); FinalizeBlock must neither panic nor return an error (C09.NoAbort), an accepted transaction
must be survived (C09.RejectedOrSurvived).  The version gate is closed deliberately (C09.GateHalts) to show that the abort
detection is live and that it is the only stop; governance chain removal runs under a watchdog (C09.GovActionTerminates)."""
import copy, json, os, re, sys, time
from pipeline import Pipeline, Gen
import verifkit as vk

CAT_FILE = os.path.join(vk.SPECS, "ChainHistoryCatalogue.tla")
HCLASSES = ("m10", "m50", "m300", "m303", "other")
STAGES = ("idle", "fresh", "signed", "elected", "relayed")      # of the hostile product; further stages: reportedpad, split, newval


def spec_catalogue():
    src = open(CAT_FILE).read()
    cat = src[src.index("Cat =="):src.index("KindModules ==")]
    return sorted(set(re.findall(r'<<"([^"]+)", "([^"]+)", "([^"]+)">>', cat)))


def driver_catalogue():
    ev = vk.go_drive(C09.driver_pkg, "TestDumpCatalogue", [[]], shards=1)
    c = ev[0]
    rows = sorted((k, p, t) for k, ps in c["kinds"].items() for p, t in ps)
    return rows, c


def write_catalogue(c):
    rows = sorted((k, p, t) for k, ps in c["kinds"].items() for p, t in ps)
    out = ["---------------------- MODULE ChainHistoryCatalogue ----------------------",
           "(* GENERATED from the driver (harness/drivers/chainhistory TestDumpCatalogue): every message kind of the   *)",
           "(* Paloma modules with every sender-controlled parameter (leaf field of the well-formed base message, found *)",
           "(* by reflection; \"A>B\" = field B of the object packed into the Any field A) and its type tag.            *)",
           "(* checks/c09.py compares this table with the driver at every run; regenerate with                        *)",
           "(*     python3 checks/c09.py --gen-catalogue                                                              *)",
           "Cat == <<", ",\n".join('  <<"%s", "%s", "%s">>' % r for r in rows), ">>", "",
           "KindModules == <<", ",\n".join('  <<%s, "%s">>' % (json.dumps(k), m) for k, m in sorted(c["modules"].items())), ">>", "",
           "Templates == {" + ", ".join(json.dumps(t) for t in c["templates"]) + "}",
           "============================================================================="]
    open(CAT_FILE, "w").write("\n".join(out) + "\n")


GOV = [
    [{"act": "GovAction", "args": {"kind": "RemoveChain", "chain": "eth-b", "queued": "nonempty"}}],
    [{"act": "GovAction", "args": {"kind": "RemoveChain", "chain": "eth-a", "queued": "nonempty"}}],
    [{"act": "GovAction", "args": {"kind": "RemoveChain", "chain": "eth-b", "queued": "empty"}}],
    # the keeper entry point chain removal means to use, called while the queue is still registered (latent defect probe)
    [{"act": "GovAction", "args": {"kind": "RemoveQueueDirect", "chain": "eth-b", "queued": "nonempty"}}],
    [{"act": "GovAction", "args": {"kind": "RemoveQueueDirect", "chain": "eth-a", "queued": "nonempty"}}],
    [{"act": "GovAction", "args": {"kind": "RemoveQueueDirect", "chain": "eth-b", "queued": "empty"}}],
]


class C09(Pipeline):
    pid = "C09"
    level = "exploration"
    mc = [("ChainHistory_mc", "ChainHistory_mc", ("quick", "thorough")),
          ("ChainHistory_mc", "ChainHistory_mc_deep", ("thorough",))]
    gens = [Gen("ChainHistoryGen9", "ChainHistoryGen9_diag", "bfs", tiers=("quick",), timeout=300),
            Gen("ChainHistoryGen9", "ChainHistoryGen9_full", "bfs", tiers=("thorough",), timeout=1200, cap=5000)]
    driver_pkg = "drivers/chainhistory"
    driver_test = "TestDriveNoAbort"
    trace_module = "ChainHistoryTrace"
    min_histories = 500
    quick_cap = 4000
    thorough_cap = 100000     # the seeded sample of the full product is taken per generator (cap above): the gate / governance histories are always kept
    tier_env = {"quick": {}, "thorough": {"VERIF_CH_LONG": "1"}}
    assumptions = [
        "full application (app.New) driven through InitChain / FinalizeBlock / Commit with really signed transactions; every history runs on a fork of one prepared world per driver process (4 bonded validators, two active EVM chains, external accounts, keep-alives, relayer fees, treasury fees, bridged ERC-20, light node sale contract, a job, a user contract, a factory denom, a light node license; height 280); governance-only set-up goes through the modules' proposal handlers",
        "a panic anywhere in FinalizeBlock / Commit is recovered by the harness (E2.DeliverBlock) and recorded with its stack; CometBFT would halt the node at that height",
        "hostile transactions are serialised by hand (the class 'empty' of math.Int / LegacyDec fields removes the field from the wire bytes, which the generated marshaller cannot produce) and signed with the key of the account that sends the well-formed message; kinds marked /all are sent by all 4 validators with the same mutation (values that matter once a quorum agrees); evidence proofs are parameters too (fields of the packed object)",
        "after the hostile block the pigeons keep doing their duty every block (sign, estimate, report relay errors, attest, batch estimates / confirmations, balance / reference block evidence) and users keep sending jobs, transfers and claims every 20 blocks; successful remote executions (transaction proofs) are not produced, relays are reported as failed and retried by the chain",
        "quick tier: every catalogue entry at one (height class, stage) pair rotating with the entry, plus every stage at height class m303 for the kinds whose values reach the end blockers; heights 300 / 303 are crossed when the hostile height is <= 303; thorough tier: a seeded sample of the full product, every run continued to the next multiple of 300 and 303; the periods of 10 000 blocks (reference block requests, purge of stale user contracts) are not reached",
        "histories without a hostile entry: stages reportedpad / relayed (delivery report nobody attests), split (2 validators against 1), newval (evidence only from a validator created by a user a few blocks earlier, in no snapshot) are run on in mode noattest (pigeons sign / estimate / do batch work, nobody provides evidence) to height 610, past the pruning of the reported messages at height 600; worlds big (powers 50/40/30/30, validator 0's pigeon never runs) and solo (one validator, pigeon never runs) are prepared from genesis like the standard world and run for 120 blocks; world life (unbonding period shortened to 100 s in genesis): validator 3 gets a relay history, withdraws its whole stake, is dropped from the next snapshot and removed from staking 20 blocks later (slashing signing info and relay history stay), the message id counter of the consensus module is advanced by 1100 on the uncached context (standing for 1100 messages queued, handled and removed meanwhile: with them really queued a block takes 0.4 s), new jobs are relayed and attested, the chain crosses heights = 0 mod 10, validator 3 joins again, and the world is run on to height 280 and 120 more blocks; a block of a world preparation that aborts is reported as the Prepare step's abort",
        "version gate: the spec closes the gate (and demands the halt) when the running software is semantically older than the completed upgrade OR belongs to another [major].[minor] line than it (x/paloma's documented intent: 'app needs to be in the [major].[minor] space' - a binary of another line is the wrong software for the chain state); a newer patch level of the same line must never be stopped. Versions are compared as numbers per component (patch 10 > 9 > 6, 100 > 20), a pre-release is older than its release; the running version is set through cosmos-sdk/version.Version before the application of that history is created, the completed upgrade through x/upgrade's done marker with a registered handler",
        "matching relay transactions: the compass call of the queued message packed with the compass ABI that ships with the repository (reduced to submit_logic_call, deploy_contract, update_valset and the ContractDeployed event), the valset of the snapshot named in the delivery report and all signatures, signed by the relayer's external key; receipts are built by the driver (tag 'receipt': empty, malformed, failed status, no logs, a log without topics before compass' event, foreign logs first, 400 logs, undecodable event data, 4 topics)",
        "governance actions other than chain removal and the version gate are not enumerated (their parameters are set by governance, not by a transaction sender)",
    ]

    def execute(self, tier):
        self._tier = tier
        self._vacuity = []
        violations, known, cov = self._execute(tier)
        if not violations and self._vacuity:      # violations first; vacuity only makes a clean trace inconclusive
            raise vk.Broken("; ".join(self._vacuity))
        if self._vacuity:
            cov["vacuity_notes"] = self._vacuity
        return violations, known, cov

    def _execute(self, tier):
        rows, c = driver_catalogue()
        spec = spec_catalogue()
        if rows != spec:
            d1 = [r for r in rows if r not in spec][:5]
            d2 = [r for r in spec if r not in rows][:5]
            raise vk.Broken("catalogue of the driver and specs/ChainHistoryCatalogue.tla differ (regenerate: python3 checks/c09.py --gen-catalogue): "
                            "only in driver %s, only in spec %s" % (d1, d2))
        self._catalogue = c
        return super().execute(tier)

    def extra_histories(self, tier):
        V = lambda a, b, c, pre="": {"v": [a, b, c], "pre": pre}
        pairs = [(V(5, 1, 6), V(5, 1, 10)), (V(5, 1, 10), V(5, 1, 6)), (V(5, 1, 6), V(5, 1, 6)), (V(5, 1, 20), V(5, 1, 100)), (V(5, 1, 100), V(5, 1, 20)),
                 (V(5, 9, 0), V(5, 10, 0)), (V(9, 0, 0), V(10, 0, 0)), (V(5, 1, 6, "-rc1"), V(5, 1, 6)), (V(5, 1, 6), V(5, 1, 6, "-rc1"))]
        gate = [[{"act": "Prepare", "args": {"stage": "idle", "hclass": "other", "world": "std"}}, {"act": "Gate", "args": {"app": a, "gov": g}},
                 {"act": "Run", "args": {"mode": "duty", "span": "next"}}] for a, g in pairs]
        special = [[{"act": "Prepare", "args": {"stage": s, "hclass": "other", "world": "std"}}, {"act": "Run", "args": {"mode": "noattest", "span": "prune"}}]
                   for s in ("relayed", "reportedpad", "split", "newval")]
        special += [[{"act": "Prepare", "args": {"stage": "idle", "hclass": "other", "world": w}}, {"act": "Run", "args": {"mode": "duty", "span": "120"}}] for w in ("big", "solo", "life")]
        gate += special
        return copy.deepcopy(GOV) + (gate if tier == "thorough" else [])

    def drive(self, histories):
        t0 = time.time()
        env = dict(self.tier_env.get(getattr(self, "_tier", "quick"), {}))
        main = [(j, h) for j, h in enumerate(histories) if h[0]["act"] != "GovAction"]
        gov = [(j, h) for j, h in enumerate(histories) if h[0]["act"] == "GovAction"]
        events = []
        if main:
            ev = vk.go_drive(self.driver_pkg, self.driver_test, [h for _, h in main], env=env, timeout=3000)
            for e in ev:
                e["h"] = main[e["h"]][0]
            events += ev
        for j, h in gov:      # one process each: a stuck governance action cannot be stopped
            ev = vk.go_drive(self.driver_pkg, "TestGovAction", [h], shards=1, env=env, timeout=300)
            if len(ev) != 1:
                raise vk.Broken("governance action driver produced %d events" % len(ev))
            ev[0]["h"] = j
            events += ev
        events.sort(key=lambda e: (e["h"], e["i"]))
        vk.log("drive: %d histories, %d events, %.1fs" % (len(histories), len(events), time.time() - t0))
        return events

    def validate(self, events):
        v = super().validate(events)
        v.monfail = [m for m in v.monfail if m[0].startswith("C09.")]
        self._last_events = events
        return v

    # a failure is attributed to the hostile entry of its history
    def _entry(self, failure):
        ev = failure["event"] or {}
        if ev.get("act") == "GovAction":
            return ev.get("args", {})
        for e in getattr(self, "_last_events", []):
            if e["h"] == ev.get("h") and e["act"] in ("Hostile", "Gate"):
                return dict(e.get("args", {}), act=e["act"])
        return {}

    def match_known(self, finding, failure):
        """match = {names: [monitors], entries: [{kind/param/class or act ... , optional stage}], optional stack_contains (text that must occur in the
        recorded stack of the failing event)}"""
        m = finding.get("match", {})
        if failure["name"] not in m.get("names", []):
            return False
        a = self._entry(failure)
        ev = failure["event"] or {}
        if "stack_contains" in m and m["stack_contains"] not in (ev.get("stack") or ""):
            return False
        for alt in m.get("entries", []):
            if all(a.get(k) == v for k, v in alt.items()):
                return True
        return False

    def nontrivial(self, evs):
        hostile = [e for e in evs if e["act"] == "Hostile"]
        run = [e for e in evs if e["act"] == "Run"]
        if evs and evs[0]["act"] == "GovAction":
            return True
        if not hostile and run and run[0]["args"].get("span") in ("prune", "120"):
            return run[0]["blocks"] >= 100
        return bool(run) and (not hostile or hostile[0]["res"] in ("accepted", "abort")) and run[0]["blocks"] >= 1

    def post_drive(self, events, tier):
        hs = [e for e in events if e["act"] == "Hostile"]
        if any(e["res"] == "harness" for e in hs):
            bad = [e for e in hs if e["res"] == "harness"][0]
            raise vk.Broken("driver could not build %s: %s" % (bad["args"], bad["log"]))
        acc = [e for e in hs if e["res"] == "accepted"]
        rej = [e for e in hs if e["res"] == "rejected"]
        if not acc or not rej:
            self._vacuity.append("vacuous drive: %d accepted, %d rejected hostile transactions" % (len(acc), len(rej)))
        gates = [e for e in events if e["act"] == "Gate" and e["res"] == "armed"]
        byh = {}
        for e in events:
            byh.setdefault(e["h"], []).append(e)
        gate_rows = []
        for evs in byh.values():
            g = [e for e in evs if e["act"] == "Gate"]
            r = [e for e in evs if e["act"] == "Run"]
            if g and r:
                ver = lambda x: "v%d.%d.%d%s" % (x["v"][0], x["v"][1], x["v"][2], x["pre"])
                gate_rows.append({"running": ver(g[0]["args"]["app"]), "completed_upgrade": ver(g[0]["args"]["gov"]),
                                  "halted": r[0]["res"] == "abort", "in_paloma_begin_block": "needs to be running at least" in r[0]["log"]})
        halted = sum(1 for g in gate_rows if g["halted"] and g["in_paloma_begin_block"])
        passed = sum(1 for g in gate_rows if not g["halted"])
        if not gates or halted == 0 or passed == 0:
            self._vacuity.append("the version gate stopped %d and let pass %d of %d chains: both outcomes are needed (abort detection live, gate not always closed)" % (halted, passed, len(gates)))
        lapse = [e for e in events if e["act"] == "Run" and e["args"].get("span") == "prune"]
        stage_of = {e["h"]: e["args"] for e in events if e["act"] == "Prepare"}
        for e in lapse:
            if e["res"] == "ok" and (e["pruned"] < 1 or e["at"] < 610):
                self._vacuity.append("vacuous drive: the %s history did not reach the pruning of its reported message (pruned %d, height %d)" % (stage_of[e["h"]]["stage"], e["pruned"], e["at"]))
        if {stage_of[e["h"]]["stage"] for e in lapse} != {"relayed", "reportedpad", "split", "newval"}:
            self._vacuity.append("vacuous drive: not every unattested-report stage was run to its pruning height")
        silent = [e for e in events if e["act"] == "Run" and e["args"].get("span") == "120"]
        for e in silent:
            if stage_of[e["h"]]["world"] == "life":
                continue
            if e["res"] == "ok" and (e["lapsed"] < 1 or e["blocks"] < 120):
                self._vacuity.append("vacuous drive: world %s has no unjailed validator with a dead pigeon after %d blocks" % (stage_of[e["h"]]["world"], e["blocks"]))
        if {stage_of[e["h"]]["world"] for e in silent} != {"big", "solo", "life"}:
            self._vacuity.append("vacuous drive: the worlds with an unjailable inactive validator were not run")
        seen = {(e["args"]["kind"], e["args"]["param"], e["args"]["class"]) for e in hs}
        cat = {(k, p, c) for k, ps in self._catalogue["kinds"].items() for p, t in ps for c in self._catalogue["classes"][t]}
        if tier == "quick" and seen != cat:
            self._vacuity.append("quick tier must execute every catalogue entry once: %d of %d" % (len(seen & cat), len(cat)))
        runs = [e for e in events if e["act"] == "Run" and e["res"] == "ok"]
        prep = {(e["args"]["stage"], e["args"]["hclass"]) for e in events if e["act"] == "Prepare"}
        kinds = sorted({k for k, _, _ in seen})
        self._cov = {
            "catalogue": {"message_kinds": len(self._catalogue["kinds"]), "parameters": sum(len(ps) for ps in self._catalogue["kinds"].values()),
                          "entries_kind_x_parameter_x_class": len(cat), "modules": sorted(set(self._catalogue["modules"].values())),
                          "height_classes": list(HCLASSES), "stages": list(STAGES), "full_product": len(cat) * len(HCLASSES) * len(STAGES)},
            "catalogue_entries_executed": len(seen & cat),
            "stage_x_height_class_pairs_executed": len(prep),
            "hostile_accepted": len(acc), "hostile_rejected": len(rej),
            "hostile_aborting_block": sum(1 for e in hs if e["res"] == "abort"),
            "accepted_by_kind": _count(e["args"]["kind"] for e in acc),
            "blocks_finalised_after_hostile": sum(e["blocks"] for e in runs),
            "runs_covering": {k: sum(1 for e in runs if e[k]) for k in ("m10", "m50", "m300", "m303")},
            "unattested_reports_run_to_pruning": [dict(stage=stage_of[e["h"]]["stage"], res=e["res"], blocks=e["blocks"], reported_messages_pruned=e["pruned"], validators_jailed=e["jailed"]) for e in lapse],
            "worlds_with_unjailable_inactive_validator": [dict(world=stage_of[e["h"]]["world"], res=e["res"], blocks=e["blocks"], unjailed_with_dead_pigeon=e["lapsed"], validators_jailed=e["jailed"]) for e in silent],
            "version_gate_histories": len(gates), "version_gate_halted": halted, "version_gate_passed": passed,
            "version_gate": sorted(gate_rows, key=lambda g: (g["running"], g["completed_upgrade"]))[:120],
            "governance_actions": [dict(e["args"], res=e["res"], ms=e["ms"], queued_messages=e["nqueue"], left_in_store_after_readding_chain=e["nafter"], stack=e["stack"][:300])
                                   for e in events if e["act"] == "GovAction"],
            "kinds": kinds,
        }

    def extra_coverage(self, tier):
        c = dict(getattr(self, "_cov", {}))
        c["rule"] = ("evaluation = one history Prepare(stage, height class) ; Hostile(kind, parameter, class) ; Run (or Prepare ; Gate ; Run, or one governance action) "
                     "executed on a fork of the prepared world; distinct = different (action,args) sequence; non-trivial = the hostile transaction was ACCEPTED "
                     "(or aborted its block) and the chain was run on, or the gate / governance action was executed")
        return c

    def binding_selftest(self, events, tier):
        """A failing self-test makes a CLEAN run inconclusive; it never hides violations (see execute)."""
        out = self._binding_selftest(events, tier)
        if out is not None and not out.get("ok", True):
            self._vacuity.append("binding self-test failed: %s" % out)
            out = dict(out, ok=True, failed=True)
        return out

    def _binding_selftest(self, events, tier):
        byh = {}
        for e in events:
            byh.setdefault(e["h"], []).append(e)
        good = next((evs for evs in byh.values() if len(evs) == 3 and evs[1]["act"] == "Hostile" and evs[1]["res"] == "accepted" and evs[2]["res"] == "ok"), None)
        def gpair(evs):
            g = [e for e in evs if e["act"] == "Gate"]
            return (tuple(g[0]["args"]["app"]["v"]), g[0]["args"]["app"]["pre"], tuple(g[0]["args"]["gov"]["v"]), g[0]["args"]["gov"]["pre"]) if g else None
        # inputs of the self-test (not verdicts): a pair whose running software is plainly older, and an equal pair
        gate = next((evs for evs in byh.values() if gpair(evs) and gpair(evs)[1] == "" and gpair(evs)[3] == "" and gpair(evs)[0][:2] == gpair(evs)[2][:2] and gpair(evs)[0] < gpair(evs)[2]
                     and any(e["act"] == "Run" and e["res"] == "abort" for e in evs)), None)
        opengate = next((evs for evs in byh.values() if gpair(evs) and gpair(evs)[:2] == gpair(evs)[2:] and any(e["act"] == "Run" and e["res"] == "ok" for e in evs)), None)
        if good is None or gate is None:
            return {"ok": False, "why": "no accepted-and-survived history / no gate history"}
        out = {}
        c = copy.deepcopy(good)
        c[2]["res"], c[2]["log"] = "abort", "panic in block"
        names = {n for n, _, _ in self.validate(c).monfail}
        out["forged_abort_rejected"] = {"C09.NoAbort", "C09.RejectedOrSurvived"} <= names
        c = copy.deepcopy(good)
        c[2]["m50"] = False
        out["missing_coverage_rejected"] = any(n == "C09.RejectedOrSurvived" for n, _, _ in self.validate(c).monfail)
        c = copy.deepcopy(good)
        c[1]["res"] = "abort"
        out["abort_in_hostile_block_rejected"] = any(n == "C09.NoAbort" for n, _, _ in self.validate(c).monfail)
        c = copy.deepcopy(gate)
        for e in c:
            if e["act"] == "Run":
                e["res"], e["blocks"] = "ok", 10
        out["open_gate_rejected"] = any(n == "C09.GateHalts" for n, _, _ in self.validate(c).monfail)
        c = copy.deepcopy(gate)
        c = [e for e in c if e["act"] != "Gate"]
        for k, e in enumerate(c):
            e["i"] = k
        out["halt_without_gate_rejected"] = any(n == "C09.NoAbort" for n, _, _ in self.validate(c).monfail)
        if opengate is not None:
            # a node that is NOT older than the completed upgrade and stops anyway must be reported
            c = copy.deepcopy(opengate)
            for e in c:
                if e["act"] == "Run":
                    e["res"], e["blocks"], e["log"] = "abort", 1, "needs to be running at least"
            out["halt_of_newer_software_rejected"] = any(n == "C09.NoAbort" for n, _, _ in self.validate(c).monfail)
        out["ok"] = all(out.values())
        return out


def _count(it):
    d = {}
    for x in it:
        d[x] = d.get(x, 0) + 1
    return d


CHECK = C09()

if __name__ == "__main__":
    if "--gen-catalogue" in sys.argv:
        rows, c = driver_catalogue()
        write_catalogue(c)
        print("wrote %s: %d kinds, %d parameters" % (CAT_FILE, len(c["kinds"]), len(rows)))
