#!/usr/bin/env python3
"""Rewrites the generated tables of DESIGN.md (between <!-- BEGIN:x --> / <!-- END:x --> markers) from
known_findings.json, seeded/*/meta.json and checks/manifest_rows.json."""
import json, os, glob, re
V = os.path.dirname(os.path.dirname(os.path.abspath(__file__)))


def findings_table():
    d = json.load(open(os.path.join(V, "known_findings.json")))
    rows = ["| property | id | status | commit | what failed |", "|---|---|---|---|---|"]
    for f in sorted(d["findings"], key=lambda x: (x["property"], x["id"])):
        rows.append("| %s | %s | %s | %s | %s |" % (f["property"], f["id"], f.get("status", "open"), f.get("commit", ""), f["what"].replace("|", "/").replace("\n", " ")[:420]))
    return "\n".join(rows)


def seeded_table():
    rows = ["| seeded change | property | what it needs to manifest | result |", "|---|---|---|---|"]
    for p in sorted(glob.glob(os.path.join(V, "seeded", "*", "meta.json"))):
        m = json.load(open(p))
        rows.append("| %s: %s | %s | %s | %s |" % (m["id"], m["change"].replace("|", "/"), m["property"], m["needs_to_manifest"].replace("|", "/"), m["result"].replace("|", "/")))
    return "\n".join(rows)


def checks_table():
    rows = json.load(open(os.path.join(V, "checks", "manifest_rows.json")))
    out = ["| property | level | what decides it |", "|---|---|---|"]
    for pid in sorted(rows):
        r = rows[pid]
        out.append("| %s | %s | %s |" % (pid, r.get("level", ""), r.get("text", "").replace("|", "/")[:700]))
    return "\n".join(out)


def main():
    p = os.path.join(V, "DESIGN.md")
    s = open(p).read()
    for name, fn in (("findings", findings_table), ("seeded", seeded_table), ("checks", checks_table)):
        b, e = "<!-- BEGIN:%s -->" % name, "<!-- END:%s -->" % name
        if b in s and e in s:
            s = s[:s.index(b) + len(b)] + "\n" + fn() + "\n" + s[s.index(e):]
    open(p, "w").write(s)


if __name__ == "__main__":
    main()
