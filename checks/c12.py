"""C12 keep-alive jailing: Valset.tla (keep-alive part) on the REAL constants; every block is executed by the driver."""
import copy, json, re, zlib
from pipeline import Gen
from c10 import ValsetBase
import verifkit as vk

NUM_ADDR_SETS = 7    # harness/drivers/valset/alive_test.go: NumAddrSets


class C12(ValsetBase):
    pid = "C12"
    prefixes = ("C12.",)
    driver_test = "TestDriveAlive"
    trace_cfg = "ValsetTrace_alive"
    mc = [("Valset_mc", "Valset_alive", ("quick", "thorough")), ("Valset_mc", "Valset_ver", ("quick", "thorough")),
          ("Valset_mc", "Valset_alive_big", ("thorough",))]
    # per-generator caps keep the hand-written regression shapes of extra_histories() out of the sampling
    gens = [Gen("ValsetGen", "ValsetGen_alive_cover", "bfs", tiers=("quick",), timeout=600, cap=200),
            Gen("ValsetGen", "ValsetGen_alive_sim", "simulate", num=40, depth=14, tiers=("quick",), cap=170),
            Gen("ValsetGen", "ValsetGen_ladder_sim", "simulate", num=20, depth=18, tiers=("quick",), cap=40),
            # one validator jailed (check or message) and ANOTHER one unjailing in the same / the next block, then silence
            Gen("ValsetGen", "ValsetGen_swap_cover", "bfs", tiers=("quick", "thorough"), timeout=600),
            # a validator that already has an accepted keep-alive re-sends the SAME version after the minimum was raised above it
            Gen("ValsetGen", "ValsetGen_version_cover", "bfs", tiers=("quick", "thorough"), timeout=600),
            # the same family on the version list with a PRE-RELEASE of the release that is (or becomes) the minimum
            Gen("ValsetGen", "ValsetGen_verpre_cover", "bfs", tiers=("quick", "thorough"), timeout=600),
            # stake vectors with the silent validator at 24.5%, exactly 25%, 25.49% and 26.47% of bonded power
            Gen("ValsetGen", "ValsetGen_share_cover", "bfs", tiers=("quick",), timeout=600, cap=160),
            Gen("ValsetGen", "ValsetGen_share_cover", "bfs", tiers=("thorough",), timeout=600),
            Gen("ValsetGen", "ValsetGen_alive_cover", "bfs", tiers=("thorough",), timeout=900),
            Gen("ValsetGen", "ValsetGen_alive_sim", "simulate", num=500, depth=14, tiers=("thorough",), cap=2600),
            Gen("ValsetGen", "ValsetGen_ladder_sim", "simulate", num=100, depth=18, tiers=("thorough",), cap=400)]
    quick_cap = 2000
    thorough_cap = 20000
    assumptions = [
        "E1 keeper environment: real staking, slashing and valset keepers; 5 validators, MaxValidators 4, unbonding time 600 s",
        "per block: staking end-blocker, then the real valset AppModule.EndBlock, then valset BeginBlock of the next block; no height is skipped",
        "consecutive blocks after which the recorded observation is identical are written as one run (run-length encoding of the per-block log)",
        "operator addresses come from 7 pattern sets (plain; 0x2c at first/middle/last/several positions; 0x00/0xff bytes; prefix/suffix pairs and 32-byte "
        "addresses; an address that is another one + 0x2c + tail; 0x2c in every address; VERIF_SEED-random) assigned round-robin to the generated histories",
        "explicit jailing for another reason goes through valset Keeper.Jail, unjailing through the slashing MsgUnjail",
        "'protected' follows the property text: more than 25% of bonded power, or the validator itself is the last active (bonded, unjailed) one",
    ]

    def extra_histories(self, tier):
        # regression shape: the whole sentence schedule 1m, 5m, 15m, 1h, 24h, 24h (cap) and a reset after good behaviour
        st = lambda act, **a: {"act": act, "args": a}
        lad = [st("InitK", stakes=[1, 1, 1, 1, 1])]
        for dt in (70, 310, 910, 3650, 90000, 90000):
            lad += [st("Jail", v=2), st("Blocks", n=1, dt=dt), st("Unjail", v=2), st("Blocks", n=1, dt=2)]
        lad += [st("Blocks", n=2, dt=90000), st("Jail", v=2), st("Blocks", n=31, dt=2)]
        # regression shape: address set 4, validator 1's address is the piece before the 0x2c of validator 5's address;
        # validator 1 is unjailed three blocks before a liveness check
        frag = [st("InitK", stakes=[1, 1, 1, 1, 1], aset=4), st("Blocks", n=55, dt=2), st("Jail", v=1), st("Blocks", n=1, dt=70), st("Unjail", v=1),
                st("Blocks", n=10, dt=2)]
        # regression shapes: boundaries of the keep-alive lifetime and of the grace period on an unprotected validator (9% of power)
        dom = [10, 1, 1, 1, 1]
        ttl_at = [st("InitK", stakes=dom), st("Blocks", n=9, dt=2), st("KeepAlive", v=2, ver=2), st("Blocks", n=2000, dt=2), st("Blocks", n=1, dt=2), st("Blocks", n=9, dt=2)]
        ttl_before = [st("InitK", stakes=dom), st("Blocks", n=10, dt=2), st("KeepAlive", v=2, ver=2), st("Blocks", n=1999, dt=2), st("Blocks", n=1, dt=2), st("Blocks", n=10, dt=2)]
        grace = [st("InitK", stakes=dom), st("Blocks", n=99, dt=2), st("Unjail", v=2), st("Blocks", n=30, dt=2), st("Blocks", n=1, dt=2), st("Blocks", n=10, dt=2)]
        # regression shapes: network-share protection boundary; validator 1 silent with 24.5%, 25%, 25.49% (26 of 102), 26.47% of bonded power
        shares = []
        for vec in ([25, 25, 25, 25, 1], [25, 26, 25, 26, 1], [26, 25, 25, 26, 1], [27, 25, 25, 25, 1]):
            shares.append([st("InitK", stakes=vec), st("Blocks", n=60, dt=2), st("Blocks", n=10, dt=2)])
            shares.append([st("InitK", stakes=vec), st("Jail", v=1), st("Blocks", n=60, dt=2), st("Jail", v=4), st("Blocks", n=10, dt=2)])
        # regression shapes: jailing of X and unjailing of Y in one block window (the unjailed set keeps its size), then Y silent
        # beyond the grace period plus one check period: Y must be jailed
        swap_sweep = [st("InitK", stakes=dom), st("Blocks", n=99, dt=2), st("Unjail", v=3), st("Blocks", n=41, dt=2), st("Unjail", v=2), st("Blocks", n=45, dt=2)]
        swap_same = [st("InitK", stakes=dom), st("Blocks", n=99, dt=2), st("Unjail", v=3), st("Blocks", n=1, dt=2), st("Jail", v=3), st("Unjail", v=2), st("Blocks", n=50, dt=2)]
        swap_same2 = [st("InitK", stakes=dom), st("Blocks", n=99, dt=2), st("Unjail", v=3), st("Blocks", n=1, dt=2), st("Unjail", v=2), st("Jail", v=3), st("Blocks", n=50, dt=2)]
        swap_next = [st("InitK", stakes=dom), st("Blocks", n=99, dt=2), st("Unjail", v=3), st("Blocks", n=1, dt=2), st("Jail", v=3), st("Blocks", n=1, dt=2), st("Unjail", v=2), st("Blocks", n=50, dt=2)]
        # regression shapes: the minimum relayer version is raised (directly / by a scheduled requirement applied in BeginBlock) above the
        # version of a validator whose keep-alive was accepted before; the unchanged version is re-sent right away, ~2000 blocks later,
        # and the validator must be jailed at the check after its last ACCEPTED keep-alive expired; a relayer that upgrades stays alive
        ka = lambda v, ver: st("KeepAlive", v=v, ver=ver)
        ver_direct = [st("InitK", stakes=dom), st("Blocks", n=9, dt=2), ka(2, 1), ka(3, 1), st("SetMinVersion", ver=2, target=0), ka(2, 1), ka(3, 2),
                      st("Blocks", n=1990, dt=2), ka(2, 1), st("Blocks", n=21, dt=2)]
        ver_sched = [st("InitK", stakes=dom), st("Blocks", n=9, dt=2), ka(2, 1), st("SetMinVersion", ver=3, target=30), ka(2, 1), st("Blocks", n=25, dt=2),
                     ka(2, 1), ka(2, 2), st("Blocks", n=1970, dt=2), ka(2, 1), st("Blocks", n=25, dt=2)]
        # pre-release list (vset 1: index 2 = v1.12.0-rc.1 < index 3 = v1.12.0): with the release as minimum its pre-release is refused as
        # keep-alive and as new (direct or scheduled) minimum
        ver_pre = [st("InitK", stakes=dom, vset=1), st("Blocks", n=9, dt=2), ka(2, 3), ka(3, 2), st("SetMinVersion", ver=3, target=0), ka(3, 2),
                   st("SetMinVersion", ver=2, target=0), st("SetMinVersion", ver=2, target=40), ka(3, 2), st("Blocks", n=35, dt=2), ka(3, 2), ka(2, 3),
                   st("Blocks", n=1990, dt=2), ka(3, 2), st("Blocks", n=21, dt=2)]
        versions = [ver_direct, ver_sched, ver_pre]
        # the boundary shapes run on address sets without 0x2c (plain; 0x00/0xff; 32-byte and prefix/suffix addresses)
        out = [frag]
        for aset in range(NUM_ADDR_SETS):
            for shape in [swap_sweep, swap_same, swap_same2, swap_next] + (shares if aset in (0, 3, 5) else []) + (versions if aset in (0, 1, 3) else []):
                h = copy.deepcopy(shape)
                h[0]["args"]["aset"] = aset
                out.append(h)
        for aset in (0, 2, 3):
            for shape in (lad, ttl_at, ttl_before, grace):
                h = copy.deepcopy(shape)
                h[0]["args"]["aset"] = aset
                out.append(h)
        return out

    def drive(self, histories):
        hs = copy.deepcopy(histories)
        for h in hs:
            if h and h[0]["act"] == "InitK" and "aset" not in h[0]["args"]:
                # the address pattern set is a function of the history itself (stable under sampling and replay)
                h[0]["args"]["aset"] = zlib.crc32(json.dumps(h, sort_keys=True).encode()) % NUM_ADDR_SETS
        return super().drive(hs)

    def nontrivial(self, evs):
        jailed0 = evs[0]["obs"]["jailed"]
        return any(e["act"] == "Blocks" for e in evs) and any(e["obs"]["jailed"] != jailed0 or (e["act"] == "KeepAlive" and e["res"] == "ok") for e in evs)

    def match_known(self, finding, failure):
        m = finding.get("match", {})
        ev = failure["event"] or {}
        if "name_prefix" in m:
            name = failure["name"]
            if not name.startswith(m["name_prefix"]):
                return False
            if m.get("validator_in"):
                k = re.search(r"\.v(\d+)$", name)
                return bool(k) and int(k.group(1)) in (ev.get(m["validator_in"]) or [])
            return True
        return super().match_known(finding, failure)

    def post_drive(self, events, tier):
        sweeps = sum(1 for e in events if e["act"] == "Blocks" and e["to"] >= 60)
        if sweeps == 0:
            raise vk.Broken("dead driver: no run of blocks reached a liveness check")

    def extra_coverage(self, tier):
        return getattr(self, "_cov", {})

    def validate(self, events):
        v = super().validate(events)
        # coverage facts (only from the last full validation)
        sent = {}
        asets = {}
        byh = {}
        for e in events:
            byh.setdefault(e["h"], []).append(e)
        for h, evs in byh.items():
            a = evs[0].get("args", {}).get("aset")
            asets[a] = asets.get(a, 0) + 1
            prev = None
            for e in evs:
                if prev is not None and e["act"] in ("Blocks", "Jail"):
                    t = e.get("t0", 0) if e["act"] == "Blocks" else prev["obs"]["now"]
                    for i, (a0, a1) in enumerate(zip(prev["obs"]["jailed"], e["obs"]["jailed"])):
                        if a1 and not a0:
                            d = e["obs"]["until"][i] - t
                            sent[d] = sent.get(d, 0) + 1
                prev = e
        if len(byh) >= getattr(self, "_cov_n", 0):
            self._cov_n = len(byh)
            self._cov = {"sentences_observed_s": {str(k): n for k, n in sorted(sent.items())}, "histories_per_address_set": {str(k): n for k, n in sorted(asets.items(), key=lambda x: str(x[0]))},
                         "blocks_executed": sum(e["to"] - e["from"] + 1 for e in events if e["act"] == "Blocks")}
        return v

    def binding_selftest(self, events, tier):
        # (1) hide a jailing: clear the jailed flag of a validator jailed by a liveness check -> JailedAtNextSweep must fail
        # (2) drop a KeepAlive event that succeeded -> the later observation of the keep-alive record is unexplained
        byh = {}
        for e in events:
            byh.setdefault(e["h"], []).append(e)
        r1 = r2 = None
        tried2 = 0
        for h, evs in byh.items():
            if evs[0].get("comma"):
                continue
            for k in range(1, len(evs)):
                e, p = evs[k], evs[k - 1]
                new = [i for i, (a0, a1) in enumerate(zip(p["obs"]["jailed"], e["obs"]["jailed"])) if a1 and not a0]
                if r1 is None and e["act"] == "Blocks" and new and e["to"] == e["from"]:
                    c = copy.deepcopy(evs[:k + 1])
                    c[k]["obs"]["jailed"][new[0]] = False
                    c[k]["obs"]["until"][new[0]] = p["obs"]["until"][new[0]]
                    v = self.validate(c)
                    r1 = any(n.startswith("C12.JailedAtNextSweep") for n, _, _ in v.monfail)
                # (a keep-alive that is immediately repeated by the same validator, or that changed nothing observable, can be
                # dropped without trace: the following event explains the same observation - not a candidate; up to 10
                # candidates are tried, the number is recorded)
                if not r2 and tried2 < 10 and e["act"] == "KeepAlive" and e["res"] == "ok" and k + 1 < len(evs) and e["obs"] != p["obs"] \
                        and not (evs[k + 1]["act"] == "KeepAlive" and evs[k + 1]["args"].get("v") == e["args"].get("v")):
                    tried2 += 1
                    d = [dict(x) for x in evs[:k] + evs[k + 1:]]
                    for j, x in enumerate(d):
                        x["i"] = j
                    v2 = self.validate(d)
                    # noticed = a monitor fails, the spec's own action no longer explains the step (conformance), or the trace is rejected
                    r2 = bool(v2.monfail) or bool(v2.conffail) or not v2.accepted
            if r1 is not None and (r2 or tried2 >= 10):
                break
        if r1 is None or r2 is None:
            return {"ok": False, "why": "no suitable history (jailing by a check / accepted keep-alive)", "hidden_jailing": r1, "dropped_keepalive": r2}
        return {"ok": bool(r1 and r2), "hidden_jailing_rejected": r1, "dropped_keepalive_rejected": r2, "dropped_keepalive_candidates_tried": tried2}


CHECK = C12()
