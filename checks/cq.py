"""Shared base for checks served by ConsensusQueue.tla (C04 tally/election, C06 signatures, C13 prune jailing)."""
from pipeline import Pipeline, Gen
import verifkit as vk


class CQBase(Pipeline):
    driver_pkg = "drivers/cqueue"
    driver_test = "TestDriveCQueue"
    trace_module = "ConsensusQueueTrace"
    prefixes = ()
    assumptions = [
        "user messages (signatures, estimates, evidence, error/public-access data) run like baseapp.runMsgs on a cache context; the end blocker is the real consensus.AppModule.EndBlock on the block context",
        "snapshot of 4 validators with shares 5:3:2:1 plus one bonded validator outside the snapshot; evidence are reference-block answers handled by the real evm attester; turnstone messages are real SubmitLogicCall messages signed with real ECDSA keys",
        "treasury community/security fee rates are configured (0.01) so that fees can be attached",
    ]

    def validate(self, events):
        v = super().validate(events)
        v.monfail = [m for m in v.monfail if m[0].startswith(self.prefixes) or m[0].startswith("Setup.")]
        return v

    def nontrivial(self, evs):
        return any(e["act"] == "EndBlock" for e in evs) and sum(1 for e in evs if e.get("res") == "ok") >= 2

    def extra_coverage(self, tier):
        elections = attested = prune_jailings = removed = sig_cleared = 0
        prev = None
        for e in getattr(self, "_events", []):
            o = e["obs"]
            if e["i"] == 0:
                prev = o
                continue
            pm = {m["id"]: m for m in prev["msgs"]}
            nm = {m["id"]: m for m in o["msgs"]}
            for i, m in nm.items():
                if i in pm and pm[i]["elected"] == 0 and m["elected"] != 0:
                    elections += 1
                    if pm[i]["sigs"] and not m["sigs"]:
                        sig_cleared += 1
            removed += len(set(pm) - set(nm))
            if o["refHeight"] != prev["refHeight"]:
                attested += 1
            if len(o["jailed"]) > len(prev["jailed"]):
                prune_jailings += 1
            prev = o
        return {"elections": elections, "elections_that_cleared_signatures": sig_cleared, "attestations_applied": attested,
                "end_blocks_that_jailed": prune_jailings, "messages_removed": removed}

    def post_drive(self, events, tier):
        pass
