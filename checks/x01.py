"""X01 (extra check, not one of the 19 listed properties): compass (bridge contract) deployment lifecycle of x/evm.
CompassLifecycle.tla, real evm / consensus / valset / skyway keepers via drivers/compass, CompassLifecycleTrace.tla.

Stages: exhaustive TLC runs (three bounded configurations) -> TLC-generated histories (cover + simulate) ->
drivers/compass on the real keepers -> trace validation (X01.* monitors, conformance) -> verdict; on top of that the
OBSERVATION configurations (predicates the code does not guarantee: stuck states) are run and their counterexamples
are written into the evidence (never a verdict).

Known findings of this check live in KNOWN below (the check's own list, /verif/known_findings.json is not used)."""
import copy, json, re, shutil
from pipeline import Pipeline, Gen
import verifkit as vk

MAX_WORKERS = 4   # the machine is shared: never more TLC workers / driver shards than this

KNOWN = [
    {"id": "X01-stale-handover-installs-redeployed-address", "property": "X01", "status": "open",
     "what": "x/evm/keeper/attest_compass_handover.go attest() -> SetSmartContractAsActive(id, chain) activates whatever WAITING record of that "
             "contract id exists and installs ITS NewSmartContractAddress; it never compares it with the address the attested CompassHandover "
             "message forwarded the ERC20 / fee-manager ownership to. History: NewCompass, AttestUploadOk (record WAITING, address A1, hand-over "
             "H1 -> A1), RemoveDeployment (MsgRemoveSmartContractDeploymentRequest, unguarded), EndBlockTryDeploy (record re-created, second "
             "upload), AttestUploadOk (record WAITING, address A2, hand-over H2 -> A2), AttestHandoverOk(H1): the chain info gets compass "
             "address A2 although the transaction that was attested handed the tokens over to A1 (X01.HandoverAddrMatches). Needs the "
             "RemoveSmartContractDeployment message (open finding C03-remove-smart-contract-deployment-unguarded); without it the model "
             "check (CompassLifecycle_noremove.cfg) proves the property. Minimal repair: compare deployment.NewSmartContractAddress with the "
             "update_compass target of the attested message in compassHandoverAttester.attest, or delete queued messages of the contract "
             "id together with the record.",
     "match": {"name": "X01.HandoverAddrMatches", "prior": "RemoveDeployment"}},
]

_orig_known = vk.known_findings


def _known(pid):
    if pid == "X01":
        return [f for f in KNOWN if f.get("status", "open") == "open"]
    return _orig_known(pid)


vk.known_findings = _known

OBS = [
    ("stuck", "O_DeploymentHasMessage", "a deployment record without any message that could still move it: HasAnySmartContractDeployment then blocks every later deployment to the chain (only MsgRemoveSmartContractDeployment gets out)"),
    ("waiting", "O_WaitingHasHandover", "a WAITING record whose hand-over message is gone (failed hand-over is only logged; expiry; failed transaction)"),
    ("poison", "O_NoPoison", "an attested message that errors stays in the queue and aborts every later attestation walk (all chains behind it) until it expires"),
    ("orphans", "O_NoOrphans", "RemoveSupportForChain deletes the chain info first, so the queue is not removed; deployment records stay as well and block the chain when it is added again"),
    ("stalehandover", "StepHandoverAddr", "with RemoveDeployment a stale hand-over message activates a re-deployed record (known finding)"),
]


class X01(Pipeline):
    pid = "X01"
    mc = [("CompassLifecycle_mc", "CompassLifecycle_one", ("quick",)),
          ("CompassLifecycle_mc", "CompassLifecycle_mc", ("quick",)),
          ("CompassLifecycle_mc", "CompassLifecycle_noremove", ("quick",)),
          ("CompassLifecycle_mc", "CompassLifecycle_one_big", ("thorough",)),
          ("CompassLifecycle_mc", "CompassLifecycle_mc_big", ("thorough",)),
          ("CompassLifecycle_mc", "CompassLifecycle_noremove_big", ("thorough",))]
    gens = [Gen("CompassLifecycleGen", "CompassLifecycleGen_one_cover", "bfs", tiers=("quick",), timeout=170),
            Gen("CompassLifecycleGen", "CompassLifecycleGen_two_cover", "bfs", tiers=("quick",), timeout=170),
            Gen("CompassLifecycleGen", "CompassLifecycleGen_plain_cover", "bfs", tiers=("quick",), timeout=170),
            Gen("CompassLifecycleGen", "CompassLifecycleGen_remove_cover", "bfs", tiers=("quick",), timeout=170),
            Gen("CompassLifecycleGen", "CompassLifecycleGen_remove_cover_big", "bfs", tiers=("thorough",), timeout=600),
            Gen("CompassLifecycleGen", "CompassLifecycleGen_one_cover_big", "bfs", tiers=("thorough",), timeout=600),
            Gen("CompassLifecycleGen", "CompassLifecycleGen_two_cover_big", "bfs", tiers=("thorough",), timeout=600),
            Gen("CompassLifecycleGen", "CompassLifecycleGen_plain_cover_big", "bfs", tiers=("thorough",), timeout=600),
            Gen("CompassLifecycleGen", "CompassLifecycleGen_sim", "simulate", num=25, depth=16, tiers=("quick",)),
            Gen("CompassLifecycleGen", "CompassLifecycleGen_sim", "simulate", num=400, depth=16, tiers=("thorough",), timeout=900)]
    driver_pkg = "drivers/compass"
    driver_test = "TestDriveCompass"
    trace_module = "CompassLifecycleTrace"
    quick_cap = 4000
    thorough_cap = 30000
    assumptions = [
        "E1 keeper wiring plus the two wirings app.go adds (EvmKeeper.Skyway, attested-message listener); two chains: eth-a runs compass 1 with a published snapshot and one relayable skyway batch, eth-b is known but was never activated (no fee manager, no snapshot)",
        "governance actions go through evm.NewReferenceChainReferenceIDProposalHandler on a cache context, the deploy attempt through evm.AppModule.EndBlock, attestation through the consensus msg server (public access / error data by the assignee, the same evidence from all four validators) followed by consensus.AppModule.EndBlock, expiry through Keeper.PruneJob on the oldest message of a queue, removal through the evm msg server",
        "evidence is a really signed eth transaction (contract creation carrying bytecode + constructor input / compass_update_batch encoded with the shipped ABI from the stored message, valset and signatures) with a successful or failed receipt, or an error proof; every remote transaction has its own nonce",
        "pigeons estimate gas for and sign every message that needs it between blocks; the snapshot always has enough validators with an address on every chain and a relayer can always be picked (deploySmartContractToChain's ErrConsensusNotAchieved branch and a failing PickValidatorForMessage are not exercised)",
        "messages expire one at a time, oldest of a queue first (the code expires every message older than 300 blocks every 50 blocks; the order across queues is over-approximated)",
        "contract addresses / compass unique ids are projected on tokens in order of first appearance in the observed stores",
    ]

    # ---- machinery limits ------------------------------------------------
    def execute(self, tier):
        orig = vk.tlc_mc

        def limited(module, cfg=None, workers=vk.NCPU, timeout=1800, args=()):
            # one worker: the configurations are depth bounded through TLCGet("level"), which is exact only in sequential BFS
            return orig(module, cfg, workers=1, timeout=timeout, args=args)
        vk.tlc_mc = limited
        try:
            return super().execute(tier)
        finally:
            vk.tlc_mc = orig

    def run(self, tier):
        self._dead = []
        rc = super().run(tier)
        if rc == 0 and self._dead:
            raise vk.Broken("dead driver / vacuous histories: never observed %s" % self._dead)
        if rc == 0 and getattr(self, "_selftest_skipped", None):
            raise vk.Broken("binding self-test found no history to corrupt for %s" % self._selftest_skipped)
        return rc

    def drive(self, histories):
        n = len(histories)
        return vk.go_drive(self.driver_pkg, self.driver_test, histories, shards=max(1, min(MAX_WORKERS, n // 20 or 1)), env=self.drive_env)

    # ---- known findings: matched on the monitor and on what happened earlier in the same history -------------
    def validate(self, events):
        self._prior = {}
        acts = []
        last = None
        for e in events:
            if e["h"] != last:
                acts, last = [], e["h"]
            self._prior[id(e)] = list(acts)
            acts.append(e["act"])
        return super().validate(events)

    def match_known(self, finding, failure):
        m = finding.get("match", {})
        ev = failure["event"] or {}
        if m.get("name") != failure["name"]:
            return False
        if "prior" in m and m["prior"] not in self._prior.get(id(ev), []):
            return False
        return True

    # ---- vacuity / dead driver detection ---------------------------------------------------------------------
    def nontrivial(self, evs):
        prev = None
        for e in evs:
            if prev is not None and e["act"].startswith("Attest") and e["res"] == "ok":
                for a, b in zip(prev["obs"]["chains"], e["obs"]["chains"]):
                    if a["active"] != b["active"] or [d["st"] for d in a["deps"]] != [d["st"] for d in b["deps"]]:
                        return True
            prev = e
        return False

    def post_drive(self, events, tier):
        st = {"activated_by_handover": 0, "activated_by_first_upload": 0, "retries_exhausted": 0, "poisoned_walks": 0,
              "records_created": 0, "messages_expired": 0, "relay_gate_closed": 0, "relay_gate_open": 0, "chain_removed": 0, "chain_readded": 0}
        prev = None
        for e in events:
            if e["act"] == "Init":
                prev = e
                continue
            for a, b in zip(prev["obs"]["chains"], e["obs"]["chains"]):
                if a["ex"] and b["ex"] and a["active"] != b["active"]:
                    st["activated_by_handover" if a["snap"] else "activated_by_first_upload"] += 1
                if len(b["deps"]) > len(a["deps"]):
                    st["records_created"] += 1
                if a["ex"] and not b["ex"]:
                    st["chain_removed"] += 1
                if b["ex"] and not a["ex"]:
                    st["chain_readded"] += 1
                if b["deps"] and b["relay"] == 0 and b is e["obs"]["chains"][0]:
                    st["relay_gate_closed"] += 1
                if not b["deps"] and b["relay"] == 1:
                    st["relay_gate_open"] += 1
            if e["act"] == "AttestUploadErr" and e["res"] == "ok":
                c = e["args"]["c"] - 1
                q = prev["obs"]["chains"][c]["queue"]
                k = e["args"]["k"] - 1
                if k < len(q) and q[k]["retries"] >= 2:
                    st["retries_exhausted"] += 1
            if e["act"].startswith("Attest") and e["res"] == "err" and not e["act"].endswith("TxFail"):
                st["poisoned_walks"] += 1
            if e["act"] == "PruneMessage" and e["res"] == "ok":
                st["messages_expired"] += 1
            prev = e
        self._stats = st
        self._dead = [k for k, v in st.items() if v == 0]     # judged in run(): a passing run that never saw these is inconclusive

    # ---- observations: predicates the code does NOT guarantee --------------------------------------------------
    def observations(self):
        out = []
        for cfg, pred, what in OBS:
            r = vk.tlc("CompassLifecycle_mc", "CompassLifecycle_obs_" + cfg, workers=1, timeout=170)
            acts = []
            for m in re.finditer(r'/\\ act = \[c \|-> (\d+), id \|-> (\d+), k \|-> (\d+), name \|-> "(\w+)"\]', r.out):
                if m.group(4) != "Init":
                    acts.append("%s(c=%s,k=%s,id=%s)" % (m.group(4), m.group(1), m.group(3), m.group(2)))
            out.append({"predicate": pred, "meaning": what, "violated_in_model": bool(r.violated), "shortest_counterexample": acts})
            shutil.rmtree(r.dir, ignore_errors=True)
        return out

    def extra_coverage(self, tier):
        obs = self.observations()
        for o in obs:
            print("OBSERVATION: property=X01 %s does not hold: %s  [%s]" % (o["predicate"], o["meaning"], " ; ".join(o["shortest_counterexample"])))
        return {"lifecycle_outcomes": getattr(self, "_stats", {}), "observations": obs,
                "known_findings_own_list": [{"id": f["id"], "status": f["status"]} for f in KNOWN]}

    # ---- binding self-test -------------------------------------------------------------------------------------
    def binding_selftest(self, events, tier):
        """1. pretend the activation left the deployment record behind, 2. pretend a retried upload kept its counter,
        3. drop the event that created a record: the trace spec must notice each."""
        byh = {}
        for e in events:
            byh.setdefault(e["h"], []).append(e)
        out = {}
        pick1 = pick2 = pick3 = None
        for h, evs in byh.items():
            for i in range(1, len(evs)):
                a, b = evs[i - 1], evs[i]
                for c in range(len(b["obs"]["chains"])):
                    ca, cb = a["obs"]["chains"][c], b["obs"]["chains"][c]
                    if pick1 is None and ca["ex"] and cb["ex"] and ca["active"] != cb["active"] and ca["deps"]:
                        pick1 = (h, i, c)
                    if pick2 is None and b["act"] == "AttestUploadErr" and b["res"] == "ok" and b["args"]["c"] - 1 == c and \
                            any(m["kind"] == "upload" and m["retries"] >= 1 for m in cb["queue"]) and len(cb["queue"]) == len(ca["queue"]):
                        pick2 = (h, i, c)
                    if pick3 is None and b["act"] in ("NewCompass", "EndBlockTryDeploy") and len(cb["deps"]) > len(ca["deps"]) and i + 1 < len(evs):
                        pick3 = (h, i, c)
        # a sub-test without a corruptible history is skipped here and makes a PASSING run inconclusive (run()); it must not
        # turn a run that found violations into "broken"
        self._selftest_skipped = [n for n, p in (("kept_record", pick1), ("stuck_retry_counter", pick2), ("dropped_event", pick3)) if p is None]
        if pick1:
            h, i, c = pick1
            sub = copy.deepcopy(byh[h])
            sub[i]["obs"]["chains"][c]["deps"] = copy.deepcopy(sub[i - 1]["obs"]["chains"][c]["deps"])
            v = self.validate(sub)
            out["kept_record_noticed"] = any(n == "X01.ActivationDeletesDeployment" for n, _, _ in v.monfail)
        if pick2:
            h, i, c = pick2
            sub = copy.deepcopy(byh[h])
            for m in sub[i]["obs"]["chains"][c]["queue"]:
                if m["kind"] == "upload" and m["retries"] >= 1:
                    m["retries"] -= 1
            v = self.validate(sub)
            out["stuck_retry_counter_noticed"] = any(n == "X01.RetryProgress" for n, _, _ in v.monfail)
        if pick3:
            h, i, c = pick3
            sub = [copy.deepcopy(e) for k, e in enumerate(byh[h]) if k != i]
            v = self.validate(sub)
            out["dropped_event_noticed"] = bool(v.monfail) or not v.accepted
        out["ok"] = all(out.values())
        out["skipped"] = list(self._selftest_skipped)
        return out


CHECK = X01()
