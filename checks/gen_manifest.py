#!/usr/bin/env python3
"""Regenerates MANIFEST.json from the table below (single source of truth for check registration)."""
import json, os
V = os.path.dirname(os.path.dirname(os.path.abspath(__file__)))
ROWS = json.load(open(os.path.join(V, "checks", "manifest_rows.json")))
props = [json.loads(l)["id"] for l in open(os.path.join(V, "properties.jsonl"))]
checks, na = [], []
for pid in props:
    r = ROWS.get(pid)
    if not r or r.get("not_applicable"):
        na.append({"property_id": pid, "reason": (r or {}).get("not_applicable", "check not built yet in this round; see DESIGN.md section 4 for the plan")})
        continue
    checks.append({
        "property_id": pid,
        "quick_cmd": "./check %s --tier quick" % pid,
        "thorough_cmd": "./check %s --tier thorough" % pid,
        "evidence_file": "/verif/evidence/%s.json" % pid,
        "replay_cmd_template": "./check %s --replay {path}" % pid,
        "engine": r["engine"],
        "level_claimed": {"category": r["level"], "text": r["text"], "design_ref": r.get("design_ref", "DESIGN.md section 4 (%s)" % pid)},
        "level_note": r["note"],
        "technique": r["technique"],
    })
m = {
    "version": 1,
    "setup_cmd": "cd /verif && ./setup.sh",
    "hooks": {
        "guard": "verif",
        "enable": "go test -tags verif (drivers under /verif/harness are built against /repo's working tree with this tag)",
        "baseline_off_cmd": "cd /repo && go test -vet=off -count=1 -timeout 25m ./...",
        "source_commits": json.load(open(os.path.join(V, "checks", "hook_commits.json"))) if os.path.exists(os.path.join(V, "checks", "hook_commits.json")) else [],
        "add_only": True,
    },
    "engines": [
        {"name": "tlc", "path": "/verif/specs", "serves_properties": [c["property_id"] for c in checks],
         "kind_free_text": "explicit TLA+ specifications checked exhaustively with TLC; TLC-generated behaviours replayed into the real code by Go drivers (/verif/harness); recorded traces validated by TLC trace specifications (specs/trace)"},
    ],
    "checks": checks,
    "not_applicable": na,
    "notes": "All verdicts come from TLC evaluating property monitors on traces recorded from the real code; the exhaustive TLC runs decide the design. See DESIGN.md.",
}
json.dump(m, open(os.path.join(V, "MANIFEST.json"), "w"), indent=1)
print("checks:", len(checks), "not_applicable:", len(na))
