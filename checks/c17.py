"""C17 scheduler: jobs are immutable; each run enqueues the stored call plus the caller's identity.

Scheduler.tla (Create / Execute with the checks of x/scheduler and x/evm transcribed in code order, a fixed world
of five target chains) is model checked exhaustively; TLC-generated histories are replayed on the full
application (harness/env E2 + four EVM chains, fresh app per history): accounts through really signed
MsgCreateJob / MsgExecuteJob, the contract through Paloma's wasm custom-message router; SchedulerTrace evaluates
the C17.* monitors on the decoded job store and the decoded new messages of the turnstone queues."""
import copy, time
from concurrent.futures import ThreadPoolExecutor
from pipeline import Pipeline, Gen
import verifkit as vk


def C(who, id, chain=1, target=1, payload=1, mod=False, mev=False, as_=None, via=None, sp="bare"):
    via = via or ("tx" if who <= 2 else "wasm")
    return {"act": "Create", "args": {"who": who, "as": who if as_ is None else as_, "via": via, "id": id, "chain": chain,
                                      "target": target, "payload": payload, "sp": sp, "mod": mod, "mev": mev, "pg": 0}}


def X(who, id, pg=0, as_=None, via=None, sp="bare"):
    via = via or ("tx" if who <= 2 else "wasm")
    return {"act": "Execute", "args": {"who": who, "as": who if as_ is None else as_, "via": via, "id": id, "chain": 0,
                                       "target": 0, "payload": 0, "sp": sp, "mod": False, "mev": False, "pg": pg}}


def P(kind, who, id, chain=2, target=1, payload=1, mod=True, via=None):
    """a discarded branch: Simulate / RolledBack of [CreateJob id, ExecuteJob id]"""
    via = via or ("tx" if who <= 2 else "wasm")
    return {"act": kind, "args": {"who": who, "as": who, "via": via, "id": id, "chain": chain, "target": target, "payload": payload,
                                  "sp": "bare", "mod": mod, "mev": False, "pg": 0}}


def Q(id):
    return {"act": "Query", "args": {"who": 0, "as": 0, "via": "", "id": id, "chain": 0, "target": 0, "payload": 0, "sp": "", "mod": False, "mev": False, "pg": 0}}


SPELLINGS = ("bare", "0x", "0X", "odd", "upper", "empty")


class C17(Pipeline):
    pid = "C17"
    mc = [("Scheduler_mc", "Scheduler_mc", ("quick", "thorough")),
          ("Scheduler_mc", "Scheduler_mc_spell", ("thorough",)),
          ("Scheduler_mc", "Scheduler_mc_full", ("thorough",))]
    gens = [Gen("SchedulerGen", "SchedulerGen_cover", "bfs", tiers=("quick",), timeout=300, cap=1200),
            Gen("SchedulerGen", "SchedulerGen_cover", "bfs", tiers=("thorough",), timeout=300),
            Gen("SchedulerGen", "SchedulerGen_ghost_cover", "bfs", tiers=("quick",), timeout=300, cap=350),
            Gen("SchedulerGen", "SchedulerGen_ghost_cover", "bfs", tiers=("thorough",), timeout=300),
            Gen("SchedulerGen", "SchedulerGen_sim", "simulate", num=200, depth=14, tiers=("quick",), timeout=300),
            Gen("SchedulerGen", "SchedulerGen_sim", "simulate", num=1500, depth=14, tiers=("thorough",), timeout=1200)]
    driver_pkg = "drivers/scheduler"
    driver_test = "TestDriveScheduler"
    trace_module = "SchedulerTrace"
    drive_env = {"GOGC": "300"}
    min_histories = 200
    assumptions = [
        "accounts act through really signed transactions (SIGN_MODE_DIRECT), one per block, through FinalizeBlock/Commit of the full application (app.New: real ante chain, message router, begin/end blockers of all modules); every history runs on a fresh application with 3 bonded validators and 2 user accounts whose keys derive from VERIF_SEED",
        "contract callers: no wasm VM is run; the contract's CosmosMsg::Custom JSON (scheduler_msg create_job / execute_job and the legacy {job_id,payload} message) is handed to Paloma's message router rebuilt exactly as app.buildWasmMessageDecorator builds it (that function is unexported) with a 32-byte contract address, on a branch of the state that is written only if the dispatch succeeds (as x/wasm does for a message of an executing contract), then a block is delivered",
        "set-up through keepers (harness/env/e2_evm.go, what governance / pigeons do on a live chain): chains eth-main, bnb-main, matic-main added and activated with a compass, op-main added but not activated; every validator has an external account on all four, relayer fees on all but matic-main, a keep-alive and metrix records; validator 0 carries the MEV trait on eth-main only; the valset snapshot with the accounts is current, eth-main still runs on the previous snapshot (so x/evm issues one just-in-time UpdateValset there)",
        "observation of the turnstone queues: messages whose id was not in the queue before the request's block; no pigeon signs or attests, so nothing leaves the queues (a disappearing message is reported by the ExactlyOneCall monitor)",
        "x/scheduler has no activity check on the execution path: a job for the added-but-inactive chain op-main is executed and its call is queued with an empty turnstone id; the model follows the code here, the property text does not cover it",
        "discarded branches: Simulate runs the really signed two-message transaction [MsgCreateJob id, MsgExecuteJob id] through the application's simulation entry point (BaseApp.Simulate, the gas-estimation path; CheckTx does not execute messages in this SDK), or the contract's two custom messages on a cache context that is dropped; RolledBack delivers [MsgCreateJob id, MsgExecuteJob id, MsgExecuteJob of an unknown id] in a block (the last message always fails); each is followed by an empty block; Query is the keeper's QueryGetJobByID handler on the committed state; the model defines all three as stuttering and every monitor judges against the job store read directly from the committed state",
        "job ids, contract addresses and payloads are drawn from small fixed sets (3 ids + one id failing validation, 2 contract addresses, 2 stored payloads + one caller payload + one non-JSON caller payload); ABI bytes of the job definition are not varied",
        "the hex of a payload document is written in six spellings (bare even-length lower case, 0x prefix, 0X prefix, odd number of digits, upper case digits, empty string), for the stored payload of a job and for the caller's payload of a MsgExecuteJob (the wasm bindings hex-encode raw bytes themselves); what a spelling DENOTES is fixed by go-ethereum's common.FromHex, the decoding x/evm applies on the pinned tree: the driver applies it to the hexPayload string it reads back from the STORED job record and the monitors compare the queued call's payload bytes with that",
    ]

    def extra_histories(self, tier):
        sps = [
            # every spelling of the stored payload of a fixed and of a modifiable job, executed by owner, stranger and contract;
            # every spelling of the caller's payload on the modifiable one
            [C(1, 1, chain=2, sp=sp), C(2, 2, chain=1, payload=2, mod=True, sp=sp), X(1, 1), X(2, 1), X(2, 2), X(1, 2), X(3, 2, pg=1),
             X(3, 2, pg=1, via="legacy")] + [X(1, 2, pg=1, sp=q) for q in SPELLINGS] + [X(2, 1, pg=1, sp=sp), C(3, 3, chain=2, target=2, payload=2, sp=sp), X(3, 3, pg=1), X(1, 3)]
            for sp in SPELLINGS]
        ghosts = [
            # a job created and run on a branch that is never committed (gas simulation / rolled back delivery / dropped contract
            # dispatch), then the free id is taken for real by somebody else with another contract and payload: executions and
            # queries must see the committed job only; perturbations also between creation and execution and naming stored ids
            [P(kind, a, 1, chain=c), Q(1), C(b, 1, chain=2, target=2, payload=2, mod=True), Q(1), X(a, 1), X(b, 1), X(3, 1, pg=1), X(b, 1, pg=1), P(kind, a, 1, chain=c),
             X(a, 1), Q(1), P("Simulate", 3, 2), C(a, 2, chain=1, target=2, payload=1), X(3, 2, pg=1), X(b, 2), Q(2), Q(3)]
            for kind, a, b, c in (("Simulate", 1, 2, 2), ("Simulate", 1, 2, 3), ("RolledBack", 1, 2, 2), ("RolledBack", 2, 3, 3), ("Simulate", 3, 1, 2), ("Simulate", 2, 3, 1))]
        return sps + ghosts + [
            # modifiable job on the chain with the stale valset: first call brings the valset update, later ones do not
            [C(1, 1, mod=True), C(2, 1, chain=2), X(2, 1), X(2, 1, pg=1), X(3, 1, pg=1), X(3, 1, pg=1, via="legacy"), X(3, 1, pg=0),
             X(1, 1, pg=2), X(1, 2), X(2, 1, as_=1), X(3, 1, pg=1, as_=1), X(1, 1)],
            # contract-owned MEV job without a MEV relayer; inactive chain; bad ids; wrong creator; duplicates
            [C(3, 1, chain=2, target=2, payload=2, mev=True), C(3, 2, chain=4, mev=True), C(1, 2, chain=4), X(1, 1), X(1, 2),
             X(3, 2, pg=1, as_=1), C(1, 0), C(2, 2, chain=3, as_=1), C(2, 1, chain=3), C(1, 2, chain=5, mod=True), X(2, 2), X(2, 2)],
            # failing requests first (the valset update must not leak out of a failed request), then the first success
            [C(1, 1, chain=1, mev=True, mod=True), C(2, 2, chain=1), X(2, 2, pg=1), X(1, 1, pg=2), X(3, 2, pg=1), X(3, 1, pg=0), X(2, 1, as_=1),
             X(3, 1, pg=1), X(1, 2), X(2, 1), C(3, 3, chain=1, target=2, payload=2, mod=True, mev=True), X(1, 3, pg=1), X(3, 3, pg=1, via="legacy")],
            [C(1, 1, chain=3), X(1, 1), C(1, 2, chain=5, mod=True), X(2, 2, pg=1), C(2, 0, chain=5, mev=True), C(3, 0), C(3, 1, chain=5, mev=True)],
        ]

    def match_known(self, finding, failure):
        """Known findings of C17 are matched on the monitor, the request shape AND the observed call."""
        if not super().match_known(finding, failure):
            return False
        ev = failure["event"] or {}
        obs = finding.get("match", {}).get("observed_call")
        if obs:
            calls = [m for m in ev.get("obs", {}).get("added", []) if m.get("type") == "slc"]
            if len(calls) != 1 or any(calls[0].get(k) != v for k, v in obs.items()):
                return False
        return True

    def nontrivial(self, evs):
        ok = [e["act"] for e in evs if e.get("res") == "ok"]
        return "Create" in ok and "Execute" in ok

    def post_drive(self, events, tier):
        heads = {}
        for e in events:
            heads.setdefault(e["h"], e)
        if any(e["act"] != "Init" or e["i"] != 0 for e in heads.values()):
            raise vk.Broken("a history does not start with the driver's Init observation")
        for a in ("Create", "Execute"):
            for via in ("tx", "wasm"):
                n_ok = sum(1 for e in events if e["act"] == a and e["args"]["via"] == via and e.get("res") == "ok")
                n_fail = sum(1 for e in events if e["act"] == a and e["args"]["via"] == via and e.get("res") == "fail")
                if n_ok == 0 or n_fail == 0:
                    raise vk.Broken("vacuous drive: %s via %s succeeded %d times, failed %d times" % (a, via, n_ok, n_fail))
        okx = [e for e in events if e["act"] == "Execute" and e.get("res") == "ok"]
        if {e["args"]["who"] for e in okx} != {1, 2, 3} or {e["args"]["pg"] for e in okx} != {0, 1}:
            raise vk.Broken("successful executions do not cover all callers / payload modes: %s %s" % ({e["args"]["who"] for e in okx}, {e["args"]["pg"] for e in okx}))

    def spelling_coverage(self, events):
        """(stored spelling, caller spelling or '-') of the successful executions."""
        cov = {}
        for e in events:
            if e["act"] == "Execute" and e.get("res") == "ok":
                j = [x for x in e["obs"]["jobs"] if x["id"] == e["args"]["id"]]
                if j:
                    k = "%s/%s" % (j[0]["sp"], e["args"]["sp"] if e["args"]["pg"] == 1 and e["args"]["via"] == "tx" else "-")
                    cov[k] = cov.get(k, 0) + 1
        return cov

    def output_coverage(self, events):
        """Coverage conditions on what the code produced; only enforced on a trace without monitor failures."""
        calls = [m for e in events for m in e["obs"]["added"] if m["type"] == "slc"]
        if not calls or not any(m["type"] == "valset" for e in events for m in e["obs"]["added"]):
            return "no logic call / no just-in-time valset update observed in any turnstone queue"
        if not {m["sfx"] for m in calls} >= {1, 2, 3} or not {m["body"] for m in calls} >= {0, 1, 2, 100, 101, 102, 1000}:
            return "observed calls do not cover all callers / payloads: %s %s" % ({m["sfx"] for m in calls}, {m["body"] for m in calls})
        byh = {}
        for e in events:
            byh.setdefault(e["h"], []).append(e)
        reuse = {"Simulate": 0, "RolledBack": 0}
        for evs in byh.values():
            ghost = {}                      # id -> (kind, who) of a discarded creation while the id was free
            real = set()
            for p, e in zip(evs, evs[1:]):
                a = e["args"]
                stored = {j["id"] for j in p["obs"]["jobs"]}
                if e["act"] in reuse and a["id"] not in stored:
                    ghost[a["id"]] = (e["act"], a["who"])
                if e["act"] == "Create" and e["res"] == "ok" and a["id"] in ghost and ghost[a["id"]][1] != a["who"]:
                    real.add(a["id"])
                if e["act"] in ("Execute", "Query") and e["res"] in ("ok", "found") and a["id"] in real:
                    reuse[ghost[a["id"]][0]] += 1
        self._reuse = reuse
        if min(reuse.values()) == 0:
            return "no execution / query of an id that was first created on a discarded branch and then for real by somebody else: %s" % reuse
        if not any(e["act"] == "Simulate" and e.get("inner") == "sim ok" for e in events):
            return "no simulated [CreateJob, ExecuteJob] transaction succeeded inside the simulation"
        cov = self.spelling_coverage(events)
        need = {"%s/-" % sp for sp in SPELLINGS} | {"%s/%s" % (a, b) for a in ("bare", "0x") for b in SPELLINGS}
        if not need <= set(cov):
            return "successful executions do not cover the payload spellings: missing %s" % sorted(need - set(cov))
        return None

    def extra_coverage(self, tier):
        ev = getattr(self, "_events", [])
        vias = {}
        for e in ev:
            if e["act"] != "Init":
                k = "%s/%s:%s" % (e["act"], e["args"]["via"], e.get("res"))
                vias[k] = vias.get(k, 0) + 1
        return {"uses_of_ids_first_created_on_a_discarded_branch": getattr(self, "_reuse", {}), "requests_by_path": vias, "executions_by_stored_spelling/caller_spelling": self.spelling_coverage(ev),
                "queued_messages_observed": {t: sum(1 for e in ev for m in e["obs"]["added"] if m["type"] == t) for t in ("slc", "valset")}}

    validate_chunks = 4

    def _validate_all(self, events):
        wev = self.with_resets(events)
        hs = sorted({e["h"] for e in wev})
        n = min(self.validate_chunks, max(1, len(wev) // 3000))
        if n <= 1:
            return vk.tlc_validate(self.trace_module, wev, cfg=self.trace_cfg)
        bounds = [hs[(len(hs) * i) // n] for i in range(n)] + [None]
        chunks, offs = [], []
        for i in range(n):
            lo, hi = bounds[i], bounds[i + 1]
            idx = [k for k, e in enumerate(wev) if e["h"] >= lo and (hi is None or e["h"] < hi)]
            chunks.append([wev[k] for k in idx])
            offs.append(idx[0])
        with ThreadPoolExecutor(max_workers=n) as ex:
            parts = list(ex.map(lambda c: vk.tlc_validate(self.trace_module, c, cfg=self.trace_cfg), chunks))
        v = vk.Validation()
        v.accepted = all(p.accepted for p in parts)
        v.details = []
        for p, off in zip(parts, offs):
            v.monfail += [(nm, i + off, ev) for nm, i, ev in p.monfail]
            v.conffail += [(nm, i + off, ev) for nm, i, ev in p.conffail]
            v.states += p.states
            v.wall = max(v.wall, p.wall)
            v.details += getattr(p, "details", [])
            if not p.accepted and not hasattr(v, "reject_tail"):
                v.reject_tail = getattr(p, "reject_tail", "")
        v.details = v.details[:5]
        return v

    def drive(self, histories):
        t0 = time.time()
        ev = super().drive(histories)
        vk.log("drive: %d histories, %d events, %.1fs" % (len(histories), len(ev), time.time() - t0))
        return ev

    def validate(self, events):
        t0 = time.time()
        v = self._validate_all(events)
        if not hasattr(self, "_main"):
            self._main = v          # the first validation is the one of the driven trace
        if len(events) > 1000:
            vk.log("validate: %d events, %.1fs" % (len(events), time.time() - t0))
        if v.accepted and any(n == "Init" for n, _, _ in v.conffail):
            raise vk.Broken("the world built by the driver is not the model's initial state (CONFFAIL Init)")
        return v

    def binding_selftest(self, events, tier):
        byh = {}
        for e in events:
            byh.setdefault(e["h"], []).append(e)

        def find(pred):
            for h, evs in byh.items():
                for k, e in enumerate(evs):
                    if pred(e, evs[:k]):
                        return h, k
            return None, None

        def slc(e):
            return [m for m in e["obs"]["added"] if m["type"] == "slc"]

        dirty = bool(getattr(self, "_main", None) and self._main.monfail)
        skipped = []
        if not dirty:
            why = self.output_coverage(events)
            if why:
                return {"ok": False, "why": why}

        def missing(why):
            if dirty:
                skipped.append(why)
                return None
            return {"ok": False, "why": why}

        jobs = {}
        # 1. the recorded suffix of a call names the job's owner instead of the requester -> CallerAppended
        h, k = find(lambda e, pre: e["act"] == "Execute" and e["res"] == "ok" and e["args"]["via"] == "tx" and slc(e)
                    and any(j["id"] == e["args"]["id"] and j["owner"] != e["args"]["who"] for j in e["obs"]["jobs"]))
        if h is None:
            r = missing("no successful execution by a non-owner recorded")
            if r:
                return r
        else:
            evs = copy.deepcopy(byh[h])
            own = [j["owner"] for j in evs[k]["obs"]["jobs"] if j["id"] == evs[k]["args"]["id"]][0]
            for m in slc(evs[k]):
                m["sfx"] = own
            jobs["owner_suffix_rejected"] = (evs, lambda v: any(n == "C17.CallerAppended" for n, _, _ in v.monfail))
        # 2. a stored job's payload changes in a later observation -> JobsImmutable
        h2, k2 = find(lambda e, pre: e["act"] == "Execute" and len(e["obs"]["jobs"]) >= 1)
        if h2 is None:
            r = missing("no execution request with a stored job recorded")
            if r:
                return r
        else:
            evs = copy.deepcopy(byh[h2])
            j = evs[k2]["obs"]["jobs"][0]
            j["payload"] = 2 if j["payload"] == 1 else 1
            jobs["mutated_job_rejected"] = (evs, lambda v: any(n == "C17.JobsImmutable" for n, _, _ in v.monfail))
        # 3. a fixed job's call recorded with the caller's payload -> CallIsStoredCall; 5. the call doubled -> ExactlyOneCall
        h3, k3 = find(lambda e, pre: e["act"] == "Execute" and e["res"] == "ok" and e["args"]["pg"] == 0 and len(slc(e)) == 1)
        if h3 is None:
            r = missing("no successful execution without caller payload recorded")
            if r:
                return r
        else:
            evs = copy.deepcopy(byh[h3])
            for m in slc(evs[k3]):
                m["body"] = 0
            jobs["foreign_payload_rejected"] = (evs, lambda v: any(n == "C17.CallIsStoredCall" for n, _, _ in v.monfail))
            evs = copy.deepcopy(byh[h3])
            evs[k3]["obs"]["added"] = evs[k3]["obs"]["added"] + slc(evs[k3])
            jobs["double_call_rejected"] = (evs, lambda v: any(n == "C17.ExactlyOneCall" for n, _, _ in v.monfail))
        # 4. a failed request recorded with a queued call -> FailureEnqueuesNothing
        h4, k4 = find(lambda e, pre: e["act"] == "Execute" and e["res"] == "fail" and any(x["act"] == "Execute" and slc(x) for x in pre))
        if h4 is None:
            r = missing("no failed execution after a successful one recorded")
            if r:
                return r
        else:
            evs = copy.deepcopy(byh[h4])
            donor = [m for x in evs[:k4] for m in slc(x)][0]
            evs[k4]["obs"]["added"] = [copy.deepcopy(donor)]
            jobs["call_after_failure_rejected"] = (evs, lambda v: any(n == "C17.FailureEnqueuesNothing" for n, _, _ in v.monfail))
        # 6. a successful duplicate creation that overwrote the owner -> IdUnique / JobsImmutable
        h6, k6 = find(lambda e, pre: e["act"] == "Create" and e["res"] == "fail" and e["cs"] == "scheduler" and e["code"] == 1200)
        if h6 is None:
            r = missing("no duplicate creation recorded")
            if r:
                return r
        else:
            evs = copy.deepcopy(byh[h6])
            evs[k6]["res"], evs[k6]["cs"], evs[k6]["code"] = "ok", "", 0
            jobs["forged_duplicate_rejected"] = (evs, lambda v: any(n == "C17.IdUnique" for n, _, _ in v.monfail))
        # 7. the call of a job whose stored payload is spelled with a prefix / odd length recorded with no calldata
        h7, k7 = find(lambda e, pre: e["act"] == "Execute" and e["res"] == "ok" and e["args"]["pg"] == 0 and len(slc(e)) == 1
                      and any(j["id"] == e["args"]["id"] and j["sp"] in ("0x", "0X", "odd") for j in e["obs"]["jobs"]))
        if h7 is None:
            r = missing("no successful execution of a job with a prefixed / odd stored payload recorded")
            if r:
                return r
        else:
            evs = copy.deepcopy(byh[h7])
            for m in slc(evs[k7]):
                m["body"], m["blen"] = 1000, 0
            jobs["dropped_calldata_rejected"] = (evs, lambda v: any(n == "C17.CallIsStoredCall" for n, _, _ in v.monfail))
        # 8. the job query answering with another owner than the stored one -> JobsImmutable
        h8, k8 = find(lambda e, pre: e["act"] == "Query" and e["res"] == "found")
        if h8 is None:
            r = missing("no successful job query recorded")
            if r:
                return r
        else:
            evs = copy.deepcopy(byh[h8])
            evs[k8]["q"]["owner"] = evs[k8]["q"]["owner"] % 3 + 1
            jobs["stale_query_rejected"] = (evs, lambda v: any(n == "C17.JobsImmutable" for n, _, _ in v.monfail))
        # 9. a simulated creation that shows up in the store -> DiscardedIsInvisible / IdUnique
        h9, k9 = find(lambda e, pre: e["act"] == "Simulate" and not any(j["id"] == e["args"]["id"] for j in e["obs"]["jobs"]) and e["args"]["chain"] == 2)
        if h9 is None:
            r = missing("no simulation of a free id recorded")
            if r:
                return r
        else:
            evs = copy.deepcopy(byh[h9])
            a9 = evs[k9]["args"]
            ghost = {"id": a9["id"], "idf": a9["id"], "owner": a9["who"], "chain": a9["chain"], "target": a9["target"], "payload": a9["payload"], "sp": "bare",
                     "den": a9["payload"], "mod": a9["mod"], "mev": False}
            for x in evs[k9:]:
                if not any(j["id"] == a9["id"] for j in x["obs"]["jobs"]):
                    x["obs"]["jobs"] = sorted(x["obs"]["jobs"] + [dict(ghost)], key=lambda j: j["id"])
            jobs["leaked_simulation_rejected"] = (evs, lambda v: any(n in ("C17.DiscardedIsInvisible", "C17.IdUnique") for n, _, _ in v.monfail))
        if not jobs:
            return {"ok": True, "skipped": skipped}
        t0 = time.time()
        with ThreadPoolExecutor(max_workers=len(jobs)) as ex:
            vs = dict(zip(jobs, ex.map(lambda j: self.validate(j[0]), jobs.values())))
        out = {name: bool(jobs[name][1](vs[name])) for name in jobs}
        vk.log("binding self-test: %.1fs" % (time.time() - t0))
        out["ok"] = all(out.values()) or dirty     # on a trace with monitor failures the verdict must come out
        if skipped:
            out["skipped"] = skipped
        return out


CHECK = C17()
