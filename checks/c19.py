"""C19 Mempool: Mempool.tla (contract + algorithm), real app/mempool via drivers/mempool."""
import copy
from pipeline import Pipeline, Gen
import verifkit as vk


class C19(Pipeline):
    pid = "C19"
    mc = [("Mempool_mc", "Mempool_mc", ("quick",)), ("Mempool_mc", "Mempool_mc_big", ("thorough",))]
    gens = [Gen("MempoolGen", "MempoolGen_cover", "bfs", tiers=("quick",)),
            Gen("MempoolGen", "MempoolGen_cover_big", "bfs", tiers=("thorough",), timeout=1800),
            Gen("MempoolGen", "MempoolGen_sim", "simulate", num=400, depth=14, tiers=("quick",)),
            Gen("MempoolGen", "MempoolGen_sim", "simulate", num=6000, depth=14, tiers=("thorough",))]
    driver_pkg = "drivers/mempool"
    driver_test = "TestDriveMempool"
    trace_module = "MempoolTrace"
    assumptions = ["(sender, sequence) unique among pending transactions (the generator never inserts a duplicate key)",
                   "priority of the 'other' class is CheckTx priority 0",
                   "app wiring (app.go installs DefaultPriorityMempool) is confirmed by the C19 wiring probe in the driver package"]

    def nontrivial(self, evs):
        return any(e["act"] == "Select" and len(e["out"]) >= 2 for e in evs)

    def binding_selftest(self, events, tier):
        # swap two entries of one recorded Select output with different senders and classes -> must be noticed
        evs = copy.deepcopy(events)
        done = None
        for e in evs:
            if e["act"] == "Select" and len(e["out"]) >= 2:
                o = e["out"]
                for i in range(len(o) - 1):
                    if o[i]["c"] > o[i + 1]["c"] and o[i]["s"] != o[i + 1]["s"]:
                        o[i], o[i + 1] = o[i + 1], o[i]
                        done = e["h"]
                        break
            if done is not None:
                break
        if done is None:
            return {"ok": False, "why": "no corruptible select found"}
        sub = [e for e in evs if e["h"] == done]
        v = self.validate(sub)
        caught = any(n == "SelectContract" for n, _, _ in v.monfail)
        # drop one Insert event: count / contract must break
        sub2 = [e for e in events if e["h"] == done]
        k = next(i for i, e in enumerate(sub2) if e["act"] == "Insert")
        sub2 = sub2[:k] + sub2[k + 1:]
        v2 = self.validate(sub2)
        caught2 = bool(v2.monfail) or not v2.accepted
        return {"ok": caught and caught2, "corrupted_order_rejected": caught, "dropped_event_rejected": caught2}


CHECK = C19()
