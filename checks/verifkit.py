"""Shared machinery for the /verif checks.

Every check is a pipeline
    exhaustive TLC run of the subsystem spec      (design level: invariants on all interleavings)
 -> TLC-generated histories (BFS enumeration or seeded -simulate)
 -> Go driver executing each history against the real code built from /repo's working tree
 -> TLC trace validation of the recorded ndjson (monitors decide, conformance reports drift)
 -> evidence/<id>.json + verdict.

Exit codes: 0 held, 1 violation (reproduced, not a known finding), 2 the check itself is
broken / inconclusive (build failure, timeout, dead driver, vacuity).
"""
import json, os, re, shutil, subprocess, sys, tempfile, time, atexit, hashlib

VERIF = os.path.dirname(os.path.dirname(os.path.abspath(__file__)))
SPECS = os.path.join(VERIF, "specs")
HARNESS = os.path.join(VERIF, "harness")
EVIDENCE = os.path.join(VERIF, "evidence")
REPLAYS = os.path.join(EVIDENCE, "replays")
REPO = os.environ.get("VERIF_REPO", "/repo")
NCPU = os.cpu_count() or 4

GOENV = dict(os.environ, GOFLAGS="-mod=mod", GOPROXY="off", GOSUMDB="off", GOTOOLCHAIN="local",
             CGO_ENABLED=os.environ.get("CGO_ENABLED", "1"))


class Broken(Exception):
    """The check could not reach a verdict (exit 2)."""


_scratch = None


def scratch():
    global _scratch
    if _scratch is None:
        base = os.environ.get("VERIF_SCRATCH_BASE", tempfile.gettempdir())
        _scratch = tempfile.mkdtemp(prefix="verif-", dir=base)
        atexit.register(lambda: shutil.rmtree(_scratch, ignore_errors=True))
    return _scratch


def seed():
    try:
        return int(os.environ.get("VERIF_SEED", "1"))
    except ValueError:
        return 1


def log(*a):
    print("[check]", *a, file=sys.stderr, flush=True)


# ---------------------------------------------------------------------------
# TLC
# ---------------------------------------------------------------------------
class TLCResult:
    def __init__(self, rc, out):
        self.rc = rc
        self.out = out
        m = re.search(r"(\d+) states generated, (\d+) distinct states found", out)
        self.generated = int(m.group(1)) if m else 0
        self.distinct = int(m.group(2)) if m else 0
        m = re.search(r"depth of the complete state graph search is (\d+)", out)
        self.depth = int(m.group(1)) if m else 0
        self.violated = re.findall(r"Invariant (\S+) is violated", out) + \
            re.findall(r"Action property (\S+) is violated", out) + \
            re.findall(r"Temporal properties were violated", out)
        self.errors = [l for l in out.splitlines() if l.startswith("Error:")]
        self.completed = "Model checking completed. No error has been found." in out or \
            "Finished in" in out and not self.errors

    def prints(self, tag):
        """Lines printed by PrintT(<<tag, ...>>) -> list of parsed payload strings."""
        res = []
        pat = re.compile(r'^<<"%s", (.*)>>$' % re.escape(tag))
        for l in self.out.splitlines():
            m = pat.match(l.strip())
            if m:
                res.append(m.group(1))
        return res


def _spec_dir(extra_files=()):
    """Copy all specs into a scratch dir (TLC litters its working directory)."""
    d = tempfile.mkdtemp(prefix="tlc-", dir=scratch())
    for root in (SPECS, os.path.join(SPECS, "mc"), os.path.join(SPECS, "gen"), os.path.join(SPECS, "trace")):
        if os.path.isdir(root):
            for f in os.listdir(root):
                if f.endswith((".tla", ".cfg")):
                    shutil.copy(os.path.join(root, f), d)
    for f in extra_files:
        shutil.copy(f, d)
    return d


def tlc(module, cfg=None, workers=None, args=(), timeout=900, extra_files=(), constants=None,
        java_opts=(), deque=False):
    """Run TLC on specs/<...>/<module>.tla with <cfg>.cfg. Returns TLCResult.
    `constants`: dict written into a generated module  <module>_consts  is not supported; use cfg."""
    d = _spec_dir(extra_files)
    cfg = cfg or module
    meta = os.path.join(d, "meta")
    tmpd = os.path.join(d, "tmp")
    os.makedirs(tmpd, exist_ok=True)
    jopts = ["-XX:+UseParallelGC", "-Djava.io.tmpdir=" + tmpd, "-Xss64m"] + list(java_opts)
    if deque:
        jopts.append("-Dtlc2.tool.queue.IStateQueue=StateDeque")
    cmd = ["java"] + jopts + ["-cp", "/opt/veriftools/tla/tla2tools.jar:/opt/veriftools/tla/CommunityModules-deps.jar",
                             "tlc2.TLC", "-metadir", meta, "-config", cfg + ".cfg"]
    if workers:
        cmd += ["-workers", str(workers)]
    cmd += list(args) + [module + ".tla"]
    t0 = time.time()
    try:
        p = subprocess.run(cmd, cwd=d, stdout=subprocess.PIPE, stderr=subprocess.STDOUT, timeout=timeout, text=True)
    except subprocess.TimeoutExpired as e:
        subprocess.run(["pkill", "-f", "metadir " + meta], check=False)
        raise Broken("TLC timeout after %ss on %s/%s" % (timeout, module, cfg))
    r = TLCResult(p.returncode, p.stdout)
    r.wall = time.time() - t0
    r.dir = d
    r.cmd = " ".join(cmd[cmd.index("tlc2.TLC"):])
    return r


def tlc_mc(module, cfg=None, workers=NCPU, timeout=1800, args=()):
    """Exhaustive model check; any violated invariant of the *design* is a broken spec (exit 2)
    unless the caller handles it."""
    if os.environ.get("VERIF_DEV_SKIP_MC") == "1":
        # development aid for seeded-change experiments (the design-level run does not depend on /repo);
        # never set by a registered command, and recorded in the evidence as a skipped run
        import types
        log("mc %s/%s: SKIPPED (VERIF_DEV_SKIP_MC)" % (module, cfg or module))
        return types.SimpleNamespace(generated=0, distinct=0, depth=0, wall=0.0, out="skipped", violated=[], errors=[], dir="")
    r = tlc(module, cfg, workers=workers, timeout=timeout, args=args)
    if r.violated or r.errors or "No error has been found" not in r.out:
        tail = "\n".join(r.out.splitlines()[-60:])
        raise Broken("model check %s/%s failed:\n%s" % (module, cfg or module, tail))
    log("mc %s/%s: %d generated, %d distinct, depth %d, %.1fs" % (module, cfg or module, r.generated, r.distinct, r.depth, r.wall))
    shutil.rmtree(r.dir, ignore_errors=True)
    return r


def tlc_generate(module, cfg=None, mode="bfs", num=200, depth=8, timeout=900, tag="HIST", args=()):
    """Run a generator config; returns de-duplicated list of histories (parsed JSON)."""
    a = list(args)
    if mode == "simulate":
        a += ["-simulate", "num=%d" % num, "-depth", str(depth), "-seed", str(seed())]
    r = tlc(module, cfg, workers=1, timeout=timeout, args=a)
    if r.errors and "No error has been found" not in r.out and mode != "simulate":
        raise Broken("generator %s failed:\n%s" % (module, "\n".join(r.out.splitlines()[-40:])))
    hs, seen = [], set()
    for payload in r.prints(tag):
        # payload is a TLA+ string literal holding JSON: "...." with \" escapes
        s = payload.strip()
        if s.startswith('"') and s.endswith('"'):
            s = json.loads(s)
        if s in seen:
            continue
        seen.add(s)
        hs.append(json.loads(s))
    log("gen %s/%s(%s): %d histories (%d states) %.1fs" % (module, cfg or module, mode, len(hs), r.generated, r.wall))
    shutil.rmtree(r.dir, ignore_errors=True)
    if not hs:
        raise Broken("generator %s produced no histories:\n%s" % (module, "\n".join(r.out.splitlines()[-40:])))
    return hs


# ---------------------------------------------------------------------------
# Go driver
# ---------------------------------------------------------------------------
_built = {}


def go_build_driver(pkg):
    """go test -c the driver package against /repo's working tree (tag verif). Returns binary path."""
    if pkg in _built:
        return _built[pkg]
    sync_gosum()
    out = os.path.join(scratch(), pkg.replace("/", "_") + ".test")
    t0 = time.time()
    p = subprocess.run(["go", "test", "-tags", "verif", "-c", "-o", out, "./" + pkg], cwd=HARNESS, env=GOENV,
                       stdout=subprocess.PIPE, stderr=subprocess.STDOUT, text=True)
    if p.returncode != 0:
        raise Broken("go build of driver %s failed:\n%s" % (pkg, p.stdout[-6000:]))
    log("built driver %s in %.1fs" % (pkg, time.time() - t0))
    _built[pkg] = out
    return out


def sync_gosum():
    import gomod
    gomod.sync()
    return

def _old_sync_gosum():
    src = os.path.join(REPO, "go.sum")
    dst = os.path.join(HARNESS, "go.sum")
    try:
        if open(src, "rb").read() != open(dst, "rb").read():
            shutil.copy(src, dst)
    except FileNotFoundError:
        shutil.copy(src, dst)


def go_drive(pkg, test, histories, shards=None, timeout=1800, env=None, trace_name=None):
    """Run driver `test` of package `pkg` over `histories` (list of JSON values); returns list of
    trace events (dicts) in history order.  Sharded over processes."""
    binp = go_build_driver(pkg)
    n = len(histories)
    shards = shards or max(1, min(NCPU, n // 20 or 1))
    d = tempfile.mkdtemp(prefix="drive-", dir=scratch())
    procs = []
    for i in range(shards):
        part = [(j, histories[j]) for j in range(n) if j % shards == i]
        hin = os.path.join(d, "hist%d.ndjson" % i)
        with open(hin, "w") as f:
            for j, h in part:
                f.write(json.dumps({"h": j, "steps": h}) + "\n")
        tout = os.path.join(d, "trace%d.ndjson" % i)
        e = dict(GOENV, VERIF_HIST=hin, VERIF_TRACE=tout, VERIF_SEED=str(seed()))
        if env:
            e.update(env)
        p = subprocess.Popen([binp, "-test.run", "^" + test + "$", "-test.count=1", "-test.timeout", "%ds" % timeout],
                             cwd=os.path.join(HARNESS, pkg), env=e, stdout=subprocess.PIPE, stderr=subprocess.STDOUT, text=True)
        procs.append((p, tout))
    events = []
    for p, tout in procs:
        try:
            o, _ = p.communicate(timeout=timeout + 60)
        except subprocess.TimeoutExpired:
            p.kill()
            raise Broken("driver %s timed out" % test)
        if p.returncode != 0:
            raise Broken("driver %s failed (rc %d):\n%s" % (test, p.returncode, o[-8000:]))
        with open(tout) as f:
            for l in f:
                if l.strip():
                    events.append(json.loads(l))
    events.sort(key=lambda e: (e["h"], e["i"]))
    shutil.rmtree(d, ignore_errors=True)
    return events


# ---------------------------------------------------------------------------
# Trace validation
# ---------------------------------------------------------------------------
class Validation:
    def __init__(self):
        self.monfail = []   # list of (name, line_index(1-based into events), event)
        self.conffail = []
        self.accepted = False
        self.states = 0
        self.wall = 0.0
        self.out = ""


def tlc_validate(trace_module, events, cfg=None, timeout=1800, trace_file="trace.ndjson", java_opts=()):
    """Validate a recorded trace with specs/trace/<trace_module>.tla.
    The trace spec prints <<"MONFAIL", name, l>> for every violated property monitor and
    <<"CONFFAIL", name, l>> for conformance drift, and must consume all lines."""
    d = tempfile.mkdtemp(prefix="trace-", dir=scratch())
    tf = os.path.join(d, trace_file)
    with open(tf, "w") as f:
        for e in events:
            f.write(json.dumps(e, sort_keys=True) + "\n")
    r = tlc(trace_module, cfg, workers=1, timeout=timeout, extra_files=[tf], java_opts=java_opts)
    v = Validation()
    v.out = r.out
    v.states = r.generated
    v.wall = r.wall
    for tag, dst in (("MONFAIL", v.monfail), ("CONFFAIL", v.conffail)):
        for payload in r.prints(tag):
            m = re.match(r'"([^"]*)", (\d+)', payload)
            if m:
                idx = int(m.group(2))
                dst.append((m.group(1), idx, events[idx - 1] if 0 < idx <= len(events) else None))
    v.details = [" ".join(m.group(0).split())[:1500] for m in re.finditer(r'<<\s*"DETAIL".{0,1500}', r.out, re.S)][:5]
    v.accepted = ("No error has been found" in r.out) and not r.errors and not r.violated
    if not v.accepted:
        v.reject_tail = "\n".join(r.out.splitlines()[-40:])
    shutil.rmtree(r.dir, ignore_errors=True)
    shutil.rmtree(d, ignore_errors=True)
    return v


# ---------------------------------------------------------------------------
# Known findings, verdict, evidence
# ---------------------------------------------------------------------------
def known_findings(pid):
    p = os.path.join(VERIF, "known_findings.json")
    if not os.path.exists(p):
        return []
    data = json.load(open(p))
    return [f for f in data.get("findings", []) if f.get("property") == pid and f.get("status", "open") == "open"]


def write_replay(pid, n, events, note=None):
    os.makedirs(REPLAYS, exist_ok=True)
    p = os.path.join(REPLAYS, "%s-%d.ndjson" % (pid, n))
    with open(p, "w") as f:
        if note:
            f.write(json.dumps({"note": note}) + "\n")
        for e in events:
            f.write(json.dumps(e, sort_keys=True) + "\n")
    return p


def write_evidence(pid, tier, level, coverage, wall, violations=0, assumptions=()):
    os.makedirs(EVIDENCE, exist_ok=True)
    ev = {"property_id": pid, "tier": tier, "seed": seed(), "level": level, "coverage": coverage,
          "assumptions": list(assumptions), "wall_s": round(wall, 2), "violations": violations}
    tmp = os.path.join(EVIDENCE, pid + ".json.tmp")
    with open(tmp, "w") as f:
        json.dump(ev, f, indent=1, sort_keys=True, default=str)
    os.replace(tmp, os.path.join(EVIDENCE, pid + ".json"))


def history_of(events, h):
    return [e for e in events if e["h"] == h]


def steps_of(events, h):
    return [{"act": e["act"], "args": e.get("args")} for e in events if e["h"] == h]


def classify(pid, failures, match_known):
    """Split monitor failures into known findings and new violations.
    failures: list of dicts describing a failure (must include 'name', 'event').
    match_known(finding, failure) -> bool."""
    kf = known_findings(pid)
    new, known = [], {}
    for f in failures:
        hit = None
        for k in kf:
            if match_known(k, f):
                hit = k
                break
        if hit is None:
            new.append(f)
        else:
            known.setdefault(hit["id"], (hit, []))[1].append(f)
    return new, known
