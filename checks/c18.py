"""C18 light-node licence funds: escrowed 1:1, released once, vesting, to the licensee.

LightNode.tla (direct licences, activation, authentication, bridge-attested sales, the three configuration
proposals, outside gifts, time) is model checked exhaustively; TLC-generated histories are replayed on the full
application (harness/env E2 + two active EVM chains, fresh app per history, one block per action): signed
MsgAddLightNodeClientLicense / MsgRegisterLightNodeClient / MsgAuthLightNodeClient, sales as signed
MsgLightNodeSaleClaim of every validator tallied by the skyway end blocker; LightNodeTrace evaluates the C18.*
monitors on the observed bank / auth / x/paloma / x/feegrant state after every block."""
import copy, time
from concurrent.futures import ThreadPoolExecutor
from pipeline import Pipeline, Gen
import verifkit as vk


def S(act, who=0, as_=None, c=0, amt=0, m=0, ch=0, k=0, q=0, via="", d=None, sc=None):
    """sc (SetSale only): the complete sale-contract list the proposal installs, contract id per chain 1..3 (0 = not listed)"""
    if d is None:
        d = 1 if act in ("AddLicense", "Sale", "Gift") else 0       # 1 = bond denom, 2 = uusdc
    if act == "SetSale" and sc is None:
        raise ValueError("SetSale needs the complete list")
    return {"act": act, "args": {"who": who, "as": who if as_ is None else as_, "c": c, "amt": amt, "m": m, "ch": ch, "k": k, "q": q, "via": via, "d": d,
                                 "sc": list(sc) if sc is not None else []}}


CFG = [S("SetFunders", 1, as_=2), S("SetFeegranter"), S("SetSale", sc=(1, 0, 0))]
ACTS = ("AddLicense", "Register", "Auth", "Sale", "SetFunders", "SetFeegranter", "SetSale", "Gift", "Advance")


class C18(Pipeline):
    pid = "C18"
    mc = [("LightNode_mc", "LightNode_mc", ("quick", "thorough")),
          ("LightNode_mc", "LightNode_mc_chains", ("thorough",)),
          ("LightNode_mc", "LightNode_mc_deep", ("thorough",))]
    gens = [Gen("LightNodeGen", "LightNodeGen_cover", "bfs", tiers=("quick",), timeout=300, cap=450),
            Gen("LightNodeGen", "LightNodeGen_sale_cover", "bfs", tiers=("quick",), timeout=300, cap=350),
            Gen("LightNodeGen", "LightNodeGen_vest_cover", "bfs", tiers=("quick",), timeout=300, cap=250),
            Gen("LightNodeGen", "LightNodeGen_denom_cover", "bfs", tiers=("quick", "thorough"), timeout=300),
            Gen("LightNodeGen", "LightNodeGen_same_cover", "bfs", tiers=("quick", "thorough"), timeout=300),
            Gen("LightNodeGen", "LightNodeGen_cfg_cover", "bfs", tiers=("quick",), timeout=300, cap=330),
            Gen("LightNodeGen", "LightNodeGen_cfg_cover", "bfs", tiers=("thorough",), timeout=300),
            Gen("LightNodeGen", "LightNodeGen_sim", "simulate", num=100, depth=16, tiers=("quick",), timeout=300),
            Gen("LightNodeGen", "LightNodeGen_cover", "bfs", tiers=("thorough",), timeout=600),
            Gen("LightNodeGen", "LightNodeGen_sale_cover", "bfs", tiers=("thorough",), timeout=600),
            Gen("LightNodeGen", "LightNodeGen_vest_cover", "bfs", tiers=("thorough",), timeout=600),
            Gen("LightNodeGen", "LightNodeGen_sim", "simulate", num=1500, depth=16, tiers=("thorough",), timeout=1200)]
    driver_pkg = "drivers/lightnode"
    driver_test = "TestDriveLightNode"
    trace_module = "LightNodeTrace"
    drive_env = {"GOGC": "300"}
    min_histories = 200
    assumptions = [
        "every action is exactly one block of the full application (app.New: real ante chain, message router, begin/end blockers of all modules) with 3 bonded validators; every history runs on a fresh application; keys derive from VERIF_SEED; block time advances 5 s per block, an Advance step delivers one block whose time is the requested quarter of a client's vesting window",
        "who may create a licence: MsgAddLightNodeClientLicense has no authority check in the msg server - any account may send it and pays the amount itself; the message accepts a coin of ANY denomination: two are exercised, the bond denom ugrain (users 1..3 hold 3, 0.5 and 2 GRAIN) and a second genesis-funded denom uusdc (users 1, 2 hold 1 and 2 units); escrow, licence sums, balances, original vesting and locked coins are modelled, observed and monitored per denomination; sales and gifts are in the bond denom",
        "activation / authentication: really signed MsgRegisterLightNodeClient / MsgAuthLightNodeClient by the client key (fresh keys 11, 12 have no account before a licence creates it) and by other accounts naming the client as Metadata.Creator; no fee grants FROM the tracked clients exist (x/paloma's VerifyAuthorisedSignatureDecorator lets a grantee act for the granter; that delegation is property C03's subject)",
        "sale: every one of the 3 validators signs a MsgLightNodeSaleClaim (skyway_nonce = its last nonce + 1, compass id of the activated chain) in one block; the skyway end blocker of that block tallies and runs handleLightNodeSale in the attestation's cache context; quorum rules are property C02's subject",
        "the configuration the monitors judge sales against is the one the MODEL holds after the last proposal of each kind (funders list, fee granter, complete per-chain sale-contract list over 3 chains; later proposals replace the list by arbitrary subsets and changed addresses); what the real stores hold after every block is read back and compared with it as conformance",
        "vesting months are 0, 1 and 24; 0 is valid input: on the pinned tree the account becomes a continuous vesting account with start = end (everything locked in the activation block, free afterwards), which is what the model says",
        "configuration (funders, fee granter, sale contracts): the governance proposal HANDLERS registered in the app's gov router (x/paloma NewPalomaProposalHandler, x/skyway NewSkywayProposalHandler) are called with the proposal content on the set-up context and committed by the next block; proposal submission, deposit and voting are not replayed",
        "chain set-up through keepers (harness/env/e2_evm.go): eth-main and bnb-main added and activated with a compass, validators with external accounts, relayer fees, keep-alive, metrix records and a current published snapshot",
        "outside gift: the module account is a blocked receiver for bank MsgSend (observed: rejected); a gift is therefore a keeper-level bank transfer on the set-up context, what another module could do",
        "linear unlocking is checked through the driver's decoding of the real ContinuousVestingAccount (calendar months between start and end; elapsed fraction as reduced num/den): exactly (up to the SDK's one-coin rounding) at the quarters of the targeted client's window, start and end; for other instants only 0 <= locked <= original and monotonicity (TLC has 32-bit integers)",
        "amounts are whole GRAIN (1, 2, and 0); sdk.Int arithmetic of x/bank and the vesting formula of x/auth/vesting are trusted beyond the observed points",
    ]

    def extra_histories(self, tier):
        return [
            # a licence with ZERO vesting months (valid input) next to another pending licence in the same denom: activated once, every
            # further attempt (directly, after time has passed, after the other one activated) is refused and moves nothing
            [S("AddLicense", 1, c=11, amt=1, m=0), S("AddLicense", 3, c=12, amt=2, m=1), S("Register", 11), S("Register", 11), S("Auth", 11), S("Advance", c=11, q=4),
             S("Register", 11), S("Register", 12), S("Register", 11), S("Register", 12), S("Advance", c=12, q=2)],
            [S("AddLicense", 1, c=11, amt=2, m=24), S("AddLicense", 3, c=12, amt=1, m=0), S("Register", 12), S("Register", 12), S("Register", 12), S("Register", 11),
             S("Register", 11), S("AddLicense", 1, c=12, amt=1, m=0), S("Advance", c=11, q=2)],
            CFG + [S("AddLicense", 3, c=11, amt=1, m=0, d=1), S("Sale", c=12, amt=2, ch=1, k=1), S("Register", 11), S("Register", 11), S("Register", 12), S("Register", 12), S("Register", 11)],
            # the sale-contract list is REPLACED by later proposals: sales from current, retired and never configured contracts of each chain
            [S("SetFunders", 1), S("SetFeegranter"), S("SetSale", sc=(1, 1, 1)), S("Sale", c=11, amt=1, ch=3, k=2), S("SetSale", sc=(1, 0, 0)), S("Sale", c=11, amt=1, ch=3, k=1),
             S("Sale", c=11, amt=1, ch=2, k=1), S("SetSale", sc=(2, 0, 1)), S("Sale", c=11, amt=1, ch=1, k=1), S("Sale", c=11, amt=1, ch=2, k=1), S("Sale", c=11, amt=1, ch=3, k=1),
             S("SetSale", sc=(0, 0, 0)), S("Sale", c=12, amt=1, ch=3, k=1), S("Sale", c=12, amt=1, ch=1, k=2), S("SetSale", sc=(0, 2, 0)), S("Sale", c=12, amt=1, ch=2, k=2)],
            [S("SetFunders", 1), S("SetFeegranter"), S("SetSale", sc=(1, 2, 0)), S("SetSale", sc=(0, 2, 0)), S("Sale", c=11, amt=1, ch=1, k=1), S("SetSale", sc=(0, 1, 1)),
             S("Sale", c=11, amt=1, ch=2, k=2), S("SetSale", sc=(0, 0, 1)), S("Sale", c=11, amt=1, ch=2, k=1), S("Sale", c=11, amt=1, ch=3, k=1)],
            # two pending licences in different denominations, one activates (then the other): each is paid in its own coin
            [S("AddLicense", 1, c=11, amt=1, m=1), S("AddLicense", 2, c=12, amt=1, m=1, d=2), S("Register", 12), S("Advance", c=12, q=2), S("Register", 11),
             S("Advance", c=11, q=2), S("Advance", c=12, q=4), S("Advance", c=11, q=5)],
            [S("AddLicense", 2, c=11, amt=2, m=24, d=2), S("AddLicense", 3, c=12, amt=2, m=1), S("Register", 11), S("Gift", 1, amt=1, via="keeper"), S("Advance", c=11, q=1),
             S("Register", 12), S("Advance", c=11, q=2), S("AddLicense", 1, c=12, amt=1, m=1, d=2)],
            # the other denom without a bond-denom licence pending; payer without that denom; zero amount in that denom
            [S("AddLicense", 3, c=11, amt=1, m=1, d=2), S("AddLicense", 1, c=11, amt=0, m=1, d=2), S("AddLicense", 1, c=11, amt=1, m=24, d=2), S("AddLicense", 1, c=12, amt=1, m=1, d=2),
             S("Register", 11), S("Advance", c=11, q=2), S("Advance", c=11, q=4)],
            CFG + [S("AddLicense", 2, c=11, amt=1, m=1, d=2), S("Sale", c=12, amt=2, ch=1, k=1), S("Register", 11), S("Register", 12), S("Advance", c=11, q=2), S("Advance", c=12, q=1)],
            # direct licences: payer without funds, existing account, zero amount, duplicate; activation by others / twice; vesting window
            [S("AddLicense", 1, c=11, amt=1, m=1), S("AddLicense", 3, c=11, amt=1, m=1), S("AddLicense", 2, c=12, amt=1, m=1), S("AddLicense", 1, c=3, amt=1, m=1),
             S("AddLicense", 1, c=12, amt=0, m=1), S("Register", 12), S("Register", 3, as_=11), S("Auth", 11), S("Register", 11), S("Register", 11), S("Auth", 11),
             S("Advance", c=11, q=1), S("Advance", c=11, q=2), S("Advance", c=11, q=4), S("Gift", 3, amt=1, via="tx"), S("Gift", 3, amt=1, via="keeper"),
             S("AddLicense", 2, as_=1, c=12, amt=1, m=24), S("AddLicense", 3, c=12, amt=1, m=24), S("Register", 12), S("Advance", c=12, q=2), S("Advance", c=12, q=5)],
            # sale: configuration completed step by step, wrong contract / chain, client with account, poor funder, amount 0, resale, activation
            [S("Sale", c=11, amt=1, ch=1, k=1), S("SetSale", sc=(1, 0, 0)), S("Sale", c=11, amt=1, ch=1, k=1), S("SetFeegranter"), S("Sale", c=11, amt=1, ch=1, k=1),
             S("SetFunders", 2), S("Sale", c=11, amt=1, ch=1, k=1), S("SetFunders", 2, as_=1), S("Sale", c=11, amt=0, ch=1, k=1), S("Sale", c=11, amt=1, ch=1, k=2),
             S("Sale", c=11, amt=1, ch=2, k=1), S("Sale", c=3, amt=1, ch=1, k=1), S("Sale", c=11, amt=2, ch=1, k=1), S("Sale", c=11, amt=1, ch=1, k=1), S("Register", 11),
             S("Advance", c=11, q=1), S("Advance", c=11, q=2), S("Advance", c=11, q=5), S("Sale", c=12, amt=1, ch=1, k=1), S("Sale", c=11, amt=1, ch=1, k=1)],
            # direct and sold licences interleaved with a gift: escrow = licences + gift throughout
            CFG + [S("AddLicense", 3, c=11, amt=2, m=24), S("Sale", c=12, amt=2, ch=1, k=1), S("Gift", 1, amt=1, via="keeper"), S("Register", 12), S("Sale", c=11, amt=1, ch=1, k=1),
                   S("Register", 11), S("Auth", 12), S("Advance", c=12, q=2), S("Advance", c=11, q=2), S("SetSale", sc=(0, 1, 0)), S("Sale", c=11, amt=1, ch=1, k=1), S("SetSale", sc=(0, 0, 0))],
        ]

    def nontrivial(self, evs):
        ok = {e["act"] for e in evs if e.get("res") == "ok" and e["act"] in ("AddLicense", "Register")}
        sold = any(e["act"] == "Sale" and e["obs"].get("nlic", 0) > 0 for e in evs)
        return "Register" in ok or ("AddLicense" in ok and len([e for e in evs if e.get("res") == "ok"]) >= 2) or sold

    def post_drive(self, events, tier):
        heads = {}
        for e in events:
            heads.setdefault(e["h"], e)
        if any(e["act"] != "Init" or e["i"] != 0 for e in heads.values()):
            raise vk.Broken("a history does not start with the driver's Init observation")
        for a in ("AddLicense", "Register", "Auth", "Gift"):
            n_ok = sum(1 for e in events if e["act"] == a and e.get("res") == "ok")
            n_fail = sum(1 for e in events if e["act"] == a and e.get("res") == "fail")
            if n_ok == 0 or n_fail == 0:
                raise vk.Broken("vacuous drive: %s succeeded %d times, failed %d times" % (a, n_ok, n_fail))

    def output_coverage(self, events):
        """Coverage conditions on what the code produced; only enforced on a trace without monitor failures."""
        byh = {}
        for e in events:
            byh.setdefault(e["h"], []).append(e)
        applied = noop = 0
        for evs in byh.values():
            for p, e in zip(evs, evs[1:]):
                if e["act"] == "Sale" and e.get("res") == "ok":
                    if e["obs"]["nlic"] > p["obs"]["nlic"]:
                        applied += 1
                    else:
                        noop += 1
        self._sales = {"applied": applied, "attested_without_effect": noop}
        if applied == 0 or noop == 0:
            return "vacuous drive: %d sales created a licence, %d attested sales without effect" % (applied, noop)
        fr = {(c["num"], c["den"]) for e in events for c in e["obs"].get("cl", []) if c["acct"] == 2}
        if not {(0, 1), (1, 4), (1, 2), (1, 1)} <= fr:
            return "vesting not observed at start / quarter / middle / end: %s" % sorted(fr)[:12]
        # an activation while licences in two different denominations are pending, for either denomination
        mixed = set()
        for evs in byh.values():
            for p, e in zip(evs, evs[1:]):
                if e["act"] == "Register" and e.get("res") == "ok":
                    dens = {c["lden"] for c in p["obs"]["cl"] if c["lic"] == 1}
                    if len(dens) >= 2:
                        mixed.add([c["oden"] for c in e["obs"]["cl"] if c["c"] == e["args"]["as"]][0])
        self._mixed = sorted(mixed)
        # zero-month licence: activated with another licence of the same denom pending, then attempted again
        zero = 0
        # sales reported from a contract that an earlier proposal listed for that chain and the last one does not
        retired = current = never = 0
        for evs in byh.values():
            listed, cur = set(), [0, 0, 0]
            for p, e in zip(evs, evs[1:]):
                a = e["args"]
                if e["act"] == "SetSale" and e.get("res") == "ok":
                    cur = list(a["sc"])
                    listed |= {(i + 1, k) for i, k in enumerate(cur) if k}
                if e["act"] == "Sale" and e.get("res") == "ok":
                    key = (a["ch"], a["k"])
                    if cur[a["ch"] - 1] == a["k"]:
                        current += 1
                    elif key in listed:
                        retired += 1
                    else:
                        never += 1
                if e["act"] == "Register" and e.get("res") != "ok" and a["who"] == a["as"]:
                    me = [c for c in p["obs"]["cl"] if c["c"] == a["as"]]
                    if me and me[0]["acct"] == 2 and me[0]["endm"] == 0 and any(c["lic"] == 1 and c["lden"] == me[0]["oden"] for c in p["obs"]["cl"]):
                        zero += 1
        self._cfgsales = {"current": current, "retired": retired, "never_configured": never}
        self._zero = zero
        if min(current, retired, never) == 0:
            return "sales do not cover current / retired / never configured contracts: %s" % self._cfgsales
        if zero == 0:
            return "no re-activation attempt of a zero-month licence with another licence of its denomination pending"
        if not {1, 2} <= mixed:
            return "no activation with pending licences in two denominations for both denominations: %s" % sorted(mixed)
        fr2 = {(c["num"], c["den"]) for e in events for c in e["obs"].get("cl", []) if c["acct"] == 2 and c["oden"] == 2}
        if not {(0, 1), (1, 2), (1, 1)} <= fr2:
            return "vesting of the second denomination not observed at start / middle / end: %s" % sorted(fr2)[:12]
        return None

    def extra_coverage(self, tier):
        ev = getattr(self, "_events", [])
        fr = {}
        for e in ev:
            for c in e["obs"].get("cl", []):
                if c["acct"] == 2 and c["den"] <= 4:
                    k = "%d/%d" % (c["num"], c["den"])
                    fr[k] = fr.get(k, 0) + 1
        lic_d = {}
        for e in ev:
            if e["act"] == "AddLicense" and e.get("res") == "ok":
                k = "denom%d" % e["args"]["d"]
                lic_d[k] = lic_d.get(k, 0) + 1
        return {"sales": getattr(self, "_sales", {}), "vesting_observations_at_fraction": fr, "direct_licences_by_denom": lic_d,
                "activations_with_two_denoms_pending_of_denom": getattr(self, "_mixed", []),
                "attested_sales_by_contract_status": getattr(self, "_cfgsales", {}),
                "reactivation_attempts_zero_month_with_same_denom_pending": getattr(self, "_zero", 0)}

    validate_chunks = 4

    def _validate_all(self, events):
        wev = self.with_resets(events)
        hs = sorted({e["h"] for e in wev})
        n = min(self.validate_chunks, max(1, len(wev) // 3000))
        if n <= 1:
            return vk.tlc_validate(self.trace_module, wev, cfg=self.trace_cfg)
        bounds = [hs[(len(hs) * i) // n] for i in range(n)] + [None]
        chunks, offs = [], []
        for i in range(n):
            lo, hi = bounds[i], bounds[i + 1]
            idx = [k for k, e in enumerate(wev) if e["h"] >= lo and (hi is None or e["h"] < hi)]
            chunks.append([wev[k] for k in idx])
            offs.append(idx[0])
        with ThreadPoolExecutor(max_workers=n) as ex:
            parts = list(ex.map(lambda c: vk.tlc_validate(self.trace_module, c, cfg=self.trace_cfg), chunks))
        v = vk.Validation()
        v.accepted = all(p.accepted for p in parts)
        v.details = []
        for p, off in zip(parts, offs):
            v.monfail += [(nm, i + off, ev) for nm, i, ev in p.monfail]
            v.conffail += [(nm, i + off, ev) for nm, i, ev in p.conffail]
            v.states += p.states
            v.wall = max(v.wall, p.wall)
            v.details += getattr(p, "details", [])
            if not p.accepted and not hasattr(v, "reject_tail"):
                v.reject_tail = getattr(p, "reject_tail", "")
        v.details = v.details[:5]
        return v

    def drive(self, histories):
        t0 = time.time()
        ev = super().drive(histories)
        vk.log("drive: %d histories, %d events, %.1fs" % (len(histories), len(ev), time.time() - t0))
        return ev

    def validate(self, events):
        t0 = time.time()
        v = self._validate_all(events)
        if not hasattr(self, "_main"):
            self._main = v          # the first validation is the one of the driven trace
        if len(events) > 1000:
            vk.log("validate: %d events, %.1fs" % (len(events), time.time() - t0))
        if v.accepted and any(n == "Init" for n, _, _ in v.conffail):
            raise vk.Broken("the world built by the driver is not the model's initial state (CONFFAIL Init)")
        return v

    def binding_selftest(self, events, tier):
        byh = {}
        for e in events:
            byh.setdefault(e["h"], []).append(e)

        def find(pred):
            for h, evs in byh.items():
                for k, e in enumerate(evs):
                    if pred(e, evs[:k]):
                        return h, k
            return None, None

        def cl(e, c):
            return [r for r in e["obs"]["cl"] if r["c"] == c][0]

        def has(names):
            return lambda v: any(n in names for n, _, _ in v.monfail)

        dirty = bool(getattr(self, "_main", None) and self._main.monfail)
        skipped = []
        why = self.output_coverage(events)
        if why and not dirty:
            return {"ok": False, "why": why}

        def missing(why):
            if dirty:
                skipped.append(why)
                return None
            return {"ok": False, "why": why}

        jobs = {}
        # 1. escrow off by one coin after a successful licence creation
        h, k = find(lambda e, pre: e["act"] == "AddLicense" and e["res"] == "ok")
        if h is None:
            r = missing("no direct licence recorded")
            if r:
                return r
        else:
            evs = copy.deepcopy(byh[h])
            evs[k]["obs"]["escrow"][evs[k]["args"]["d"] - 1] -= 1
            jobs["short_escrow_rejected"] = (evs, has({"C18.EscrowCovers"}))
        # 2. vesting start recorded at an earlier instant than the activation block; 3. activation by another signer's message
        h2, k2 = find(lambda e, pre: e["act"] == "Register" and e["res"] == "ok" and e["args"]["who"] == e["args"]["as"])
        if h2 is None:
            r = missing("no activation recorded")
            if r:
                return r
        else:
            evs = copy.deepcopy(byh[h2])
            c = evs[k2]["args"]["as"]
            for x in evs[k2:]:
                cl(x, c)["start"] -= 5
            jobs["early_vesting_start_rejected"] = (evs, has({"C18.ActivationVests"}))
            evs = copy.deepcopy(byh[h2])
            evs[k2]["args"]["who"] = 3
            jobs["foreign_activation_rejected"] = (evs, has({"C18.ActivateOnceBySelf"}))
        # 4. an attested sale without authorised contract recorded with the licence of a configured one
        h4, k4 = find(lambda e, pre: e["act"] == "Sale" and e["res"] == "ok" and len(pre) >= 1 and e["obs"]["nlic"] > pre[-1]["obs"]["nlic"]
                      and any(x["act"] == "SetSale" for x in pre))
        if h4 is None:
            r = missing("no effective sale recorded")
            if r:
                return r
        else:
            # (the configuration the monitors use is the list of the LAST proposal: that proposal is rewritten to an empty list)
            evs = copy.deepcopy(byh[h4])
            last = max(i for i, x in enumerate(evs[:k4]) if x["act"] == "SetSale")
            evs[last]["args"]["sc"] = [0, 0, 0]
            jobs["unconfigured_sale_rejected"] = (evs, has({"C18.SaleOnlyIfConfigured"}))
        # 5. locked coins at the middle of the window off by 3 coins
        h5, k5 = find(lambda e, pre: any(r["acct"] == 2 and (r["num"], r["den"]) == (1, 2) for r in e["obs"]["cl"]))
        if h5 is None:
            r = missing("no observation at the middle of a vesting window")
            if r:
                return r
        else:
            evs = copy.deepcopy(byh[h5])
            for r in evs[k5]["obs"]["cl"]:
                if r["acct"] == 2 and (r["num"], r["den"]) == (1, 2):
                    r["locked"][r["oden"] - 1] += 3
                    r["spendable"][r["oden"] - 1] -= 3
            jobs["nonlinear_unlock_rejected"] = (evs, has({"C18.ActivationVests"}))
        # 6. a failed request that left an account behind
        h6, k6 = find(lambda e, pre: e["act"] == "AddLicense" and e["res"] == "fail" and e["args"]["c"] in (11, 12) and cl(e, e["args"]["c"])["acct"] == 0)
        if h6 is None:
            r = missing("no failed licence creation for a fresh address recorded")
            if r:
                return r
        else:
            evs = copy.deepcopy(byh[h6])
            cl(evs[k6], evs[k6]["args"]["c"])["acct"] = 1
            jobs["leftover_account_rejected"] = (evs, has({"C18.FailureIsNoOp", "C18.ObservedTypes"}))
        # 8. a licence of the second denom recorded as paid out / vesting in the bond denom (original vesting denom swapped)
        h8, k8 = find(lambda e, pre: e["act"] == "Register" and e["res"] == "ok" and cl(e, e["args"]["as"])["oden"] == 2)
        if h8 is None:
            r = missing("no activation of a licence in the second denomination recorded")
            if r:
                return r
        else:
            evs = copy.deepcopy(byh[h8])
            c = evs[k8]["args"]["as"]
            for x in evs[k8:]:
                r = cl(x, c)
                r["oden"] = 1
                for f in ("locked", "bal", "spendable"):
                    r[f] = r[f][::-1]
            jobs["wrong_denom_payout_rejected"] = (evs, has({"C18.ActivationVests", "C18.EscrowCovers"}))
        # 7. the activation event dropped from the trace
        h7, k7 = next(((hh, kk) for hh, ee in byh.items() for kk, e in enumerate(ee[:-1]) if e["act"] == "Register" and e["res"] == "ok"), (None, None))
        if h7 is None:
            r = missing("no activation followed by another step recorded")
            if r:
                return r
        else:
            evs = byh[h7][:k7] + byh[h7][k7 + 1:]
            jobs["dropped_activation_rejected"] = (evs, lambda v: (not v.accepted) or len(v.monfail) > 0)
        if not jobs:
            return {"ok": True, "skipped": skipped}
        t0 = time.time()
        with ThreadPoolExecutor(max_workers=len(jobs)) as ex:
            vs = dict(zip(jobs, ex.map(lambda j: self.validate(j[0]), jobs.values())))
        out = {name: bool(jobs[name][1](vs[name])) for name in jobs}
        vk.log("binding self-test: %.1fs" % (time.time() - t0))
        out["ok"] = all(out.values()) or dirty     # on a trace with monitor failures the verdict must come out
        if skipped:
            out["skipped"] = skipped
        return out


CHECK = C18()
