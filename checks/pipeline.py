"""Generic model-based check: mc -> generate -> drive -> validate -> verdict."""
import json, time, sys, os, copy, random
import verifkit as vk


class Gen:
    def __init__(self, module, cfg, mode="bfs", num=200, depth=10, tiers=("quick", "thorough"), timeout=900, cap=None):
        self.module, self.cfg, self.mode, self.num, self.depth, self.tiers, self.timeout, self.cap = module, cfg, mode, num, depth, tiers, timeout, cap


class Pipeline:
    pid = None
    level = "model_checking"
    # exhaustive configs: list of (module, cfg, tiers)
    mc = []
    gens = []                 # list of Gen
    driver_pkg = None
    driver_test = None
    trace_module = None
    trace_cfg = None
    assumptions = []
    min_histories = 20        # vacuity floor
    reset_fields = {}         # extra fields for inserted Reset events
    quick_cap = 4000          # cap on number of histories replayed in quick tier
    thorough_cap = 60000
    drive_env = {}

    # ---- hooks ---------------------------------------------------------
    def extra_histories(self, tier):
        """Hand-written / derived histories added to the generated ones (e.g. regression shapes)."""
        return []

    def nontrivial(self, hist_events):
        """A history is non-trivial if at least two of its steps succeeded."""
        return sum(1 for e in hist_events if str(e.get("res", e.get("ok", ""))).startswith(("ok", "select"))) >= 2

    def match_known(self, finding, failure):
        """finding['match'] = {'name': monitor, 'act': action, ...extra keys compared with event args}"""
        m = finding.get("match", {})
        ev = failure["event"] or {}
        if "name" in m and m["name"] != failure["name"]:
            return False
        if "act" in m and m["act"] != ev.get("act"):
            return False
        for k, v in m.get("event", {}).items():
            if ev.get(k) != v:
                return False
        for k, v in m.get("args", {}).items():
            if (ev.get("args") or {}).get(k) != v:
                return False
        return True

    def expand_histories(self, hs, tier):
        """Hook: derive further histories from the generated ones (e.g. single-fault enumeration after a dry run)."""
        return hs

    def post_drive(self, events, tier):
        """Sanity on the recorded trace (dead driver detection). Raise vk.Broken if vacuous."""
        return

    def extra_coverage(self, tier):
        return {}

    def binding_selftest(self, events, tier):
        """Corrupt one recorded field / drop one event: the trace spec must notice. Returns dict."""
        return None

    # ---- machinery -----------------------------------------------------
    def with_resets(self, events):
        out, last = [], None
        for e in events:
            if e["h"] != last:
                if e["i"] != 0:      # drivers that record their own initial observation emit i = 0 themselves
                    r = {"h": e["h"], "i": 0, "act": "Reset"}
                    r.update(self.reset_fields)
                    out.append(r)
                last = e["h"]
            out.append(e)
        return out

    def drive(self, histories):
        return vk.go_drive(self.driver_pkg, self.driver_test, histories, env=self.drive_env)

    def validate(self, events):
        return vk.tlc_validate(self.trace_module, self.with_resets(events), cfg=self.trace_cfg)

    def execute(self, tier):
        """Runs the pipeline; returns (violations, known, coverage)."""
        t0 = time.time()
        pid = self.pid
        states = transitions = 0
        mc_runs = []
        for module, cfg, tiers in self.mc:
            if tier not in tiers:
                continue
            r = vk.tlc_mc(module, cfg)
            states += r.distinct
            transitions += r.generated
            mc_runs.append({"module": module, "cfg": cfg, "distinct": r.distinct, "generated": r.generated, "depth": r.depth, "wall_s": round(r.wall, 1)})
        hs = []
        gen_runs = []
        for g in self.gens:
            if tier not in g.tiers:
                continue
            got = vk.tlc_generate(g.module, g.cfg, mode=g.mode, num=g.num, depth=g.depth, timeout=g.timeout)
            total = len(got)
            if g.cap and len(got) > g.cap:
                got = random.Random(vk.seed()).sample(got, g.cap)
            gen_runs.append({"module": g.module, "cfg": g.cfg, "mode": g.mode, "histories": total, "used": len(got)})
            hs += got
        hs += self.extra_histories(tier)
        cap = self.quick_cap if tier == "quick" else self.thorough_cap
        if len(hs) > cap:
            rnd = random.Random(vk.seed())
            hs = rnd.sample(hs, cap)
        if len(hs) < self.min_histories:
            raise vk.Broken("only %d histories generated" % len(hs))
        hs = self.expand_histories(hs, tier)
        events = self.drive(hs)
        self._events = events
        self.post_drive(events, tier)
        v = self.validate(events)
        if not v.accepted:
            raise vk.Broken("trace rejected by %s (spec/driver mismatch, not a verdict):\n%s" % (self.trace_module, getattr(v, "reject_tail", "")))
        wev = self.with_resets(events)
        failures = []
        for name, idx, ev in v.monfail:
            failures.append({"name": name, "idx": idx, "event": ev, "h": ev["h"] if ev else None})
        new, known = vk.classify(pid, failures, self.match_known)
        # reproduce new failures: re-drive the failing histories in a fresh process, re-validate
        violations = []
        if new:
            hset = sorted({f["h"] for f in new})[:20]
            sub = [hs[h] for h in hset]
            ev2 = self.drive(sub)
            v2 = self.validate(ev2)
            rep = {}
            w2 = self.with_resets(ev2)
            for name, idx, ev in v2.monfail:
                rep.setdefault(ev["h"], set()).add(name)
            for k, h in enumerate(hset):
                names = {f["name"] for f in new if f["h"] == h}
                if rep.get(k, set()) & names:
                    # still check the reproduced failures against known findings
                    fl = [{"name": n, "idx": i, "event": e, "h": e["h"]} for n, i, e in v2.monfail if e["h"] == k]
                    n2, _ = vk.classify(pid, fl, self.match_known)
                    if n2:
                        path = vk.write_replay(pid, len(violations) + 1, vk.history_of(ev2, k),
                                               note={"monitors": sorted({f["name"] for f in n2}), "history": vk.steps_of(ev2, k)})
                        violations.append((h, sorted({f["name"] for f in n2}), path))
            if not violations:
                raise vk.Broken("monitor failures %s did not reproduce on replay" % sorted({f["name"] for f in new}))
        nontriv = set()
        byh = {}
        for e in events:
            byh.setdefault(e["h"], []).append(e)
        for h, evs in byh.items():
            if self.nontrivial(evs):
                nontriv.add(json.dumps([[e["act"], e.get("args")] for e in evs], sort_keys=True))
        acts = {}
        for e in events:
            k = e["act"] + ":" + str(e.get("res", e.get("ok", "")))[:12]
            acts[k] = acts.get(k, 0) + 1
        drift = {}
        for name, idx, ev in v.conffail:
            drift[name] = drift.get(name, 0) + 1
        selftest = self.binding_selftest(events, tier)
        cov = {
            "states": max(states, 1) if mc_runs else states,
            "transitions": max(transitions, 1) if mc_runs else transitions,
            "traces_validated_against_impl": len(byh),
            "samples": [vk.steps_of(events, h) for h in list(byh)[:: max(1, len(byh) // 3)][:3]],
            "evaluations": len(byh),
            "distinct_nontrivial": len(nontriv),
            "rule": "histories are generated by TLC from the spec (cover = one shortest history per distinct model state, simulate = seeded random walks) and replayed against the real code; distinct = different (action,args) sequence; non-trivial = at least two steps succeeded",
            "trace_events": len(events),
            "trace_states_checked": v.states,
            "model_check_runs": mc_runs,
            "generator_runs": gen_runs,
            "action_result_counts": acts,
            "monitor_failures": len(v.monfail),
            "known_finding_hits": {k: len(fl) for k, (f, fl) in known.items()},
            "conformance_drift": drift,
            "conformance_drift_details": getattr(v, "details", []),
            "exhaustive": False,
        }
        if selftest is not None:
            cov["binding_selftest"] = selftest
        cov.update(self.extra_coverage(tier))
        if selftest is not None and not selftest.get("ok", True):
            raise vk.Broken("binding self-test failed: %s" % selftest)
        return violations, known, cov

    def run(self, tier):
        t0 = time.time()
        violations, known, cov = self.execute(tier)
        return finish(self.pid, tier, self.level, [(violations, known, cov)], self.assumptions, t0)

    def replay(self, path):
        """Re-run the history stored in a replay file and validate it again."""
        steps = None
        with open(path) as f:
            first = json.loads(f.readline())
            if "note" in first:
                steps = first["note"]["history"]
        if steps is None:
            raise vk.Broken("replay file has no history")
        # the recorded history lists the driver's own Init / the pipeline's Reset event: not steps to execute
        steps = [s for s in steps if not (s.get("act") in ("Init", "Reset") and not s.get("args"))]
        ev = self.drive([steps])
        v = self.validate(ev)
        fl = [{"name": n, "idx": i, "event": e, "h": e["h"]} for n, i, e in v.monfail]
        new, known = vk.classify(self.pid, fl, self.match_known)
        for f in fl:
            print("monitor %s failed at step %s %s" % (f["name"], f["event"].get("i"), f["event"].get("act")))
        if new:
            print("VIOLATION property=%s replay=%s" % (self.pid, path))
            return 1
        return 0


def finish(pid, tier, level, parts, assumptions, t0):
    """Merge the results of one or more pipelines serving one property, write evidence, print verdict lines."""
    cov = {}
    violations, known = [], {}
    if len(parts) == 1:
        cov = parts[0][2]
    else:
        for k in ("states", "transitions", "traces_validated_against_impl", "evaluations", "distinct_nontrivial", "trace_events", "monitor_failures"):
            cov[k] = sum(p[2].get(k, 0) for p in parts)
        cov["samples"] = [s for p in parts for s in p[2].get("samples", [])[:2]]
        cov["rule"] = parts[0][2].get("rule", "")
        cov["exhaustive"] = False
        cov["parts"] = [{k: v for k, v in p[2].items() if k not in ("samples", "rule")} for p in parts]
    for v, k, _ in parts:
        violations += v
        known.update(k)
    vk.write_evidence(pid, tier, level, cov, time.time() - t0, violations=len(violations), assumptions=assumptions)
    for k, (f, fl) in known.items():
        print("KNOWN-FINDING: property=%s %s" % (pid, f["what"]))
    if violations:
        for h, names, path in violations:
            print("VIOLATION property=%s replay=%s" % (pid, path))
            vk.log("violated monitors:", names)
        return 1
    return 0


class Multi:
    """One property decided by several pipelines (different spec modules / drivers)."""
    pid = None
    level = "model_checking"
    parts = []          # Pipeline instances (their pid must equal self.pid so replays/known findings are attributed)

    def run(self, tier):
        t0 = time.time()
        res = [p.execute(tier) for p in self.parts]
        assumptions = []
        for p in self.parts:
            for a in p.assumptions:
                if a not in assumptions:
                    assumptions.append(a)
        return finish(self.pid, tier, self.level, res, assumptions, t0)

    def replay(self, path):
        rc = 0
        for p in self.parts:
            try:
                rc = max(rc, p.replay(path))
            except Exception as e:      # a replay file belongs to one of the parts only
                vk.log("replay not applicable to", p.trace_module, ":", str(e)[:200])
        return rc
