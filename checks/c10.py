"""C10 validator snapshots faithful, immutable, correctly projected to chains: Valset.tla (snapshot part)
+ power normalisation at real magnitude (samples from the real publish path, checked by Apalache against PowerOf)."""
import copy, json, os, re, shutil, subprocess, tempfile, time
from pipeline import Pipeline, Gen
import verifkit as vk


class ValsetBase(Pipeline):
    driver_pkg = "drivers/valset"
    trace_module = "ValsetTrace"
    prefixes = ()

    def validate(self, events):
        v = super().validate(events)
        v.monfail = [m for m in v.monfail if m[0].startswith(self.prefixes) or m[0].startswith("Setup.")]
        return v


class C10(ValsetBase):
    pid = "C10"
    prefixes = ("C10.",)
    driver_test = "TestDriveSnap"
    trace_cfg = "ValsetTrace"
    mc = [("Valset_mc", "Valset_snap", ("quick", "thorough")), ("Valset_mc", "Valset_snap_big", ("thorough",))]
    # per-generator caps keep the hand-written regression shapes of extra_histories() out of the sampling
    gens = [Gen("ValsetGen", "ValsetGen_proj_cover", "bfs", tiers=("quick",), timeout=600, cap=1400),
            Gen("ValsetGen", "ValsetGen_snap_cover", "bfs", tiers=("quick",), timeout=600, cap=1800),
            Gen("ValsetGen", "ValsetGen_snap_sim", "simulate", num=60, depth=14, tiers=("quick",), cap=1000),
            # account records change AFTER snapshots were built: balance reports, rotated keys, traits
            Gen("ValsetGen", "ValsetGen_touch_cover", "bfs", tiers=("quick",), timeout=600, cap=350),
            # builds that store a snapshot with one / no validator: chain nobody is registered on, everybody jailed or deregistered
            Gen("ValsetGen", "ValsetGen_shrink_cover", "bfs", tiers=("quick",), timeout=600, cap=450),
            Gen("ValsetGen", "ValsetGen_proj_cover", "bfs", tiers=("thorough",), timeout=600),
            Gen("ValsetGen", "ValsetGen_snap_cover", "bfs", tiers=("thorough",), timeout=600, cap=6000),
            Gen("ValsetGen", "ValsetGen_touch_cover", "bfs", tiers=("thorough",), timeout=600),
            Gen("ValsetGen", "ValsetGen_shrink_cover", "bfs", tiers=("thorough",), timeout=600),
            Gen("ValsetGen", "ValsetGen_snap_sim", "simulate", num=400, depth=14, tiers=("thorough",), cap=5000)]
    quick_cap = 8000
    thorough_cap = 30000

    def extra_histories(self, tier):
        st = lambda act, **a: {"act": act, "args": a}
        one = [1, 1, 1, 1]
        return [
            # a chain nobody has an account on is activated: the next build stores an EMPTY snapshot with the highest id
            [st("InitS", stakes=one, reg="first"), st("Activate", c=2), st("Build", x=0), st("Publish", force=True), st("Build", x=0),
             st("Register", v=1, cs=[1, 2]), st("Build", x=0)],
            # everybody jailed
            [st("InitS", stakes=one, reg="all"), st("Activate", c=1), st("JailF", v=1), st("JailF", v=2), st("JailF", v=3), st("Build", x=0),
             st("StakingEB", dt=1), st("Build", x=0), st("Publish", force=True)],
            # everybody deregistered from the active chain
            [st("InitS", stakes=[1, 2, 3, 7], reg="all"), st("Activate", c=2), st("Register", v=2, cs=[1]), st("Register", v=3, cs=[]),
             st("Register", v=4, cs=[1]), st("Build", x=0), st("SetOnChain", id=2, c=2), st("Build", x=0)],
            # balance reports, key rotation and traits after snapshots were built and went live
            [st("InitS", stakes=one, reg="all"), st("SetBalance", v=1, c=1, bal=7), st("Activate", c=1), st("Rotate", v=2, mode="key"), st("Build", x=0),
             st("SetOnChain", id=2, c=1), st("SetBalance", v=2, c=1, bal=8), st("Rotate", v=1, mode="trait"), st("SetBalance", v=1, c=2, bal=9),
             st("Build", x=0), st("Rotate", v=1, mode="key"), st("SetBalance", v=3, c=2, bal=3), st("Publish", force=True)],
        ]
    samples = {"quick": 150, "thorough": 600}
    assumptions = [
        "E1 keeper environment: real staking, slashing, valset, evm, consensus, treasury and metrix keepers; 4 validators, MaxValidators 3, two remote chains",
        "stakes are whole multiples of 10^6 ugrain in the generated histories (TLC integers); arbitrary magnitudes are covered by the power samples",
        "the skyway keeper's reaction to the chain-activation event is detached (package-global event bus, several worlds per process)",
        "relayer selection for the valset message succeeds whenever a member has an account on the chain (it is only compared as conformance)",
        "power samples: every share >= 10^6 (a validator needs consensus power to be bonded)",
    ]

    def nontrivial(self, evs):
        return any(e["act"] in ("Build", "Publish") and e["res"] == "ok" for e in evs)

    def post_drive(self, events, tier):
        sent = sum(1 for e in events if e["obs"]["queue"])
        built = sum(1 for e in events if e["act"] == "Build" and e["res"] == "ok")
        if sent == 0 or built == 0:
            raise vk.Broken("dead driver: %d events with valset messages, %d snapshots built" % (sent, built))
        new_msgs = partial = refused = 0
        prev = None
        for e in events:
            if prev is not None and prev["h"] == e["h"] and e["act"] in ("Build", "Publish"):
                old = {m["c"]: m["mid"] for m in prev["obs"]["queue"]}
                now = {m["c"]: m for m in e["obs"]["queue"]}
                for c, m in now.items():
                    if old.get(c) != m["mid"]:
                        new_msgs += 1
                        snap = [s for s in e["obs"]["snaps"] if s["id"] == m["id"]]
                        if snap and len(m["vals"]) < len(snap[0]["vals"]):
                            partial += 1
                if e["act"] == "Publish" and e["args"].get("force"):
                    refused += sum(1 for c in e["obs"]["active"] if c not in now)
            prev = e
        self._trace_cov = {"valset_messages_sent": new_msgs, "partial_projections_sent": partial, "forced_publish_without_message_on_active_chain": refused}

    def binding_selftest(self, events, tier):
        # (1) change a share inside an OLD stored snapshot in a later observation -> Immutable must fail
        # (2) drop a successful Build event -> the next event shows a snapshot nobody may have written
        byh = {}
        for e in events:
            byh.setdefault(e["h"], []).append(e)
        r1 = r2 = None
        for h, evs in byh.items():
            ks = [k for k, e in enumerate(evs) if e["act"] == "Build" and e["res"] == "ok" and k + 1 < len(evs) and evs[k + 1]["act"] != "Build"]
            if not ks:
                continue
            k = ks[0]
            c = copy.deepcopy(evs)
            c[k + 1]["obs"]["snaps"][0]["vals"][0]["share"] += 1
            v = self.validate(c)
            r1 = any(n == "C10.Immutable" for n, _, _ in v.monfail)
            d = [dict(e) for e in evs[:k] + evs[k + 1:]]
            for j, e in enumerate(d):
                e["i"] = j
            v2 = self.validate(d)
            r2 = bool(v2.monfail) or not v2.accepted
            break
        if r1 is None:
            return {"ok": False, "why": "no history with a snapshot build followed by another step"}
        return {"ok": bool(r1 and r2), "corrupted_old_snapshot_rejected": r1, "dropped_build_rejected": r2}

    # ---- arithmetic at real magnitude -------------------------------------------------------------
    def record_samples(self, n, sample_file=None):
        binp = vk.go_build_driver(self.driver_pkg)
        out = os.path.join(vk.scratch(), "samples-%d.ndjson" % time.time_ns())
        env = dict(vk.GOENV, VERIF_TRACE=out, VERIF_SEED=str(vk.seed()), VERIF_SAMPLES=str(n))
        if sample_file:
            env["VERIF_SAMPLE_FILE"] = sample_file
        p = subprocess.run([binp, "-test.run", "^TestPowerSamples$", "-test.count=1", "-test.timeout", "900s"],
                           cwd=os.path.join(vk.HARNESS, self.driver_pkg), env=env, stdout=subprocess.PIPE, stderr=subprocess.STDOUT, text=True, timeout=1000)
        if p.returncode != 0:
            raise vk.Broken("sample driver failed:\n%s" % p.stdout[-4000:])
        return [json.loads(l) for l in open(out) if l.strip()]

    @staticmethod
    def _tla_sample(r):
        seq = lambda xs: "<<" + ", ".join(str(int(x)) for x in xs) + ">>"
        bseq = lambda xs: "<<" + ", ".join("TRUE" if x else "FALSE" for x in xs) + ">>"
        b = lambda x: "TRUE" if x else "FALSE"
        return "  [shares |-> %s, total |-> %d, sentA |-> %s, a |-> %s, inB |-> %s, sentB |-> %s, b |-> %s]" % (
            seq(r["shares"]), int(r["total"]), b(r["sentA"]), seq(r["a"]), bseq(r["inB"]), b(r["sentB"]), seq(r["b"]))

    def apalache(self, recs):
        """Evaluate SamplesAgree on the samples; returns {set name: [sample indices into recs]}."""
        d = tempfile.mkdtemp(prefix="apa-", dir=vk.scratch())
        tmpl = open(os.path.join(vk.SPECS, "arith", "PowerSamples.tla.tmpl")).read()
        with open(os.path.join(d, "PowerSamples.tla"), "w") as f:
            f.write(tmpl.replace("SAMPLES", ",\n".join(self._tla_sample(r) for r in recs)))
        tmpd = os.path.join(d, "tmp")
        os.makedirs(tmpd)
        env = dict(os.environ, JVM_ARGS="-Djava.io.tmpdir=%s -Xmx3g" % tmpd, _JAVA_OPTIONS="-Djava.io.tmpdir=%s" % tmpd, TMPDIR=tmpd)
        t0 = time.time()
        try:
            p = subprocess.run(["apalache-mc", "check", "--length=0", "--inv=SamplesAgree", "--out-dir=" + os.path.join(d, "out"), "PowerSamples.tla"],
                               cwd=d, env=env, stdout=subprocess.PIPE, stderr=subprocess.STDOUT, text=True, timeout=1500)
        except subprocess.TimeoutExpired:
            raise vk.Broken("apalache timeout")
        res = {k: [] for k in ("badTotal", "plus1", "badPower", "badSum", "badGate", "driftGate")}
        if "EXITCODE: OK" in p.stdout:
            pass
        elif "EXITCODE: ERROR (12)" in p.stdout:
            itf = None
            for root, _, files in os.walk(os.path.join(d, "out")):
                for fn in files:
                    if fn == "violation1.itf.json":
                        itf = os.path.join(root, fn)
            if not itf:
                raise vk.Broken("apalache reported a violation without a trace:\n%s" % p.stdout[-2000:])
            st = json.load(open(itf))["states"][0]
            for k in res:
                res[k] = sorted(int(x["#bigint"]) if isinstance(x, dict) else int(x) for x in st[k]["#set"])
        else:
            raise vk.Broken("apalache failed:\n%s" % p.stdout[-3000:])
        vk.log("apalache: %d samples %.1fs %s" % (len(recs), time.time() - t0, {k: len(v) for k, v in res.items()}))
        shutil.rmtree(d, ignore_errors=True)
        return res

    def arithmetic(self, tier, sample_file=None):
        recs = self.record_samples(self.samples[tier], sample_file)
        failures, drift = [], 0

        def fail(name, r):
            ev = {"act": "PowerSample", "h": r["i"], "i": r["i"], "ge63": r["ge63"], "kind": r["kind"],
                  "args": {"shares": r.get("shares", r["in"]), "inB": r["inB"]}, "sample": r}
            failures.append({"name": name, "idx": r["i"], "event": ev, "h": r["i"]})
        ok = []
        for r in recs:
            if r["panic"]:
                fail("C10.PowerNoPanic", r)
            elif not r["built"]:
                raise vk.Broken("sample %d: snapshot was not built: %s" % (r["i"], r))
            elif any(str(x).startswith("stray") for x in r["a"] + r["b"]):
                fail("C10.ProjectionCorrect", r)
            else:
                ok.append(r)
        per = 40     # Apalache time grows faster than linearly with the number of samples in one module
        parts = [ok[k:k + per] for k in range(0, len(ok), per)]
        from concurrent.futures import ThreadPoolExecutor
        with ThreadPoolExecutor(max_workers=4) as ex:
            results = list(ex.map(self.apalache, parts))
        for part, res in zip(parts, results):
            names = {"badTotal": "C10.SnapshotFaithful.total", "plus1": "C10.PowerRoundedDown.plus1", "badPower": "C10.PowerRoundedDown.other",
                     "badSum": "C10.PowersSumBound", "badGate": "C10.PublishGate"}
            for key, name in names.items():
                for i in res[key]:
                    fail(name, part[i - 1])
            drift += len(res["driftGate"])
        kinds = {}
        for r in recs:
            kinds[r["kind"]] = kinds.get(r["kind"], 0) + 1
        info = {"samples": len(recs), "evaluated_by_apalache": len(ok), "kinds": kinds,
                "sent_second_chain": sum(1 for r in ok if r["sentB"]), "gated_second_chain": sum(1 for r in ok if not r["sentB"]),
                "gate_conformance_drift": drift, "failures": len(failures)}
        return failures, info

    def extra_coverage(self, tier):
        return {"power_samples": getattr(self, "_arith_info", {}), "projection": getattr(self, "_trace_cov", {})}

    def run(self, tier):
        t0 = time.time()
        failures, self._arith_info = self.arithmetic(tier)
        rc = super().run(tier)
        new, known = vk.classify(self.pid, failures, self.match_known)
        for k, (f, fl) in known.items():
            print("KNOWN-FINDING: property=%s %s" % (self.pid, f["what"]))
        n = 0
        for f in new[:10]:
            n += 1
            path = vk.write_replay(self.pid, 900 + n, [f["event"]], note={"kind": "power-sample", "monitors": [f["name"]], "sample": f["event"]["sample"]})
            print("VIOLATION property=%s replay=%s" % (self.pid, path))
            vk.log("violated monitor:", f["name"], f["event"]["args"])
        # fold the arithmetic verdict into the evidence file written by the generic pipeline
        p = os.path.join(vk.EVIDENCE, self.pid + ".json")
        ev = json.load(open(p))
        ev["violations"] += len(new)
        ev["wall_s"] = round(time.time() - t0, 2)
        ev["coverage"]["power_samples"]["known_finding_hits"] = {k: len(fl) for k, (f, fl) in known.items()}
        hits = ev["coverage"].get("known_finding_hits", {})
        hits.update({k: len(fl) for k, (f, fl) in known.items()})
        ev["coverage"]["known_finding_hits"] = hits
        with open(p + ".tmp", "w") as f:
            json.dump(ev, f, indent=1, sort_keys=True, default=str)
        os.replace(p + ".tmp", p)
        return 1 if new else rc

    def replay(self, path):
        first = json.loads(open(path).readline())
        note = first.get("note", {})
        if note.get("kind") != "power-sample":
            return super().replay(path)
        s = note["sample"]
        sf = os.path.join(vk.scratch(), "sample-in.json")
        json.dump([{"shares": s["in"], "inB": s["inB"], "kind": s["kind"]}], open(sf, "w"))
        failures, _ = self.arithmetic("quick", sample_file=sf)
        new, known = vk.classify(self.pid, failures, self.match_known)
        for f in failures:
            print("monitor %s failed on sample %s" % (f["name"], f["event"]["args"]))
        if new:
            print("VIOLATION property=%s replay=%s" % (self.pid, path))
            return 1
        return 0


CHECK = C10()
