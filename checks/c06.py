"""C06 every stored signature is valid for the item as it currently stands:
   ConsensusQueue.tla (queued messages) + SkywayBridge.tla (batch confirmations)."""
from pipeline import Gen, Multi
from cq import CQBase
from c01 import BridgeBase


class C06Queue(CQBase):
    pid = "C06"
    prefixes = ("C06.",)
    mc = [("ConsensusQueue_mc", "ConsensusQueue_sig", ("quick", "thorough"))]
    gens = [Gen("ConsensusQueueGen", "ConsensusQueueGen_uvsig_cover", "bfs", tiers=("quick", "thorough"), timeout=900),
            Gen("ConsensusQueueGen", "ConsensusQueueGen_sig_cover", "bfs", tiers=("quick",), timeout=900, cap=2000),
            Gen("ConsensusQueueGen", "ConsensusQueueGen_sig_sim", "simulate", num=100, depth=16, tiers=("quick",), cap=800),
            Gen("ConsensusQueueGen", "ConsensusQueueGen_sim", "simulate", num=100, depth=18, tiers=("quick",), cap=400),
            Gen("ConsensusQueueGen", "ConsensusQueueGen_sig_cover", "bfs", tiers=("thorough",), timeout=1800, cap=20000),
            Gen("ConsensusQueueGen", "ConsensusQueueGen_sig_sim", "simulate", num=1500, depth=16, tiers=("thorough",), cap=10000),
            Gen("ConsensusQueueGen", "ConsensusQueueGen_sim", "simulate", num=1000, depth=18, tiers=("thorough",), cap=6000)]

    def nontrivial(self, evs):
        return any(e["act"] == "Sign" and e.get("res") == "ok" for e in evs)


class C06Resnap(CQBase):
    """World without the late validator: key re-registration + snapshot rebuild + re-assignment to the same relayer
    (whose remote address - part of the signing bytes - has changed)."""
    pid = "C06"
    prefixes = ("C06.",)
    mc = []
    trace_cfg = "ConsensusQueueTrace_nolate"
    drive_env = {"VERIF_CQ_NOLATE": "1"}
    gens = [Gen("ConsensusQueueGen", "ConsensusQueueGen_resnap_cover", "bfs", tiers=("quick", "thorough"), timeout=600)]

    def nontrivial(self, evs):
        return any(e["act"] == "Sign" and e.get("res") == "ok" for e in evs)


class C06Bridge(BridgeBase):
    pid = "C06"
    prefixes = ("C06.",)
    mc = [("SkywayBridge_mc", "SkywayBridge_sigs", ("quick", "thorough"))]
    gens = [Gen("SkywayBridgeGen", "SkywayBridgeGen_sigs_cover", "bfs", tiers=("quick",), timeout=900, cap=1500),
            Gen("SkywayBridgeGen", "SkywayBridgeGen_sigs_sim", "simulate", num=300, depth=14, tiers=("quick",), cap=1000),
            Gen("SkywayBridgeGen", "SkywayBridgeGen_sigs_cover", "bfs", tiers=("thorough",), timeout=900, cap=15000),
            Gen("SkywayBridgeGen", "SkywayBridgeGen_sigs_sim", "simulate", num=3000, depth=14, tiers=("thorough",), cap=10000)]

    def nontrivial(self, evs):
        return any(e["act"] == "Confirm" and e.get("res") == "ok" for e in evs)


class C06(Multi):
    pid = "C06"
    parts = [C06Queue(), C06Resnap(), C06Bridge()]


CHECK = C06()
