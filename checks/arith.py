"""Arithmetic at real magnitudes: record (inputs, real output) samples with a Go driver and let Apalache evaluate the
TLA+ operators on them (TLC is limited to 32-bit integers)."""
import json, os, subprocess, tempfile, shutil, time
import verifkit as vk


def record_samples(pkg, test, tier):
    binp = vk.go_build_driver(pkg)
    d = tempfile.mkdtemp(prefix="arith-", dir=vk.scratch())
    out = os.path.join(d, "samples.json")
    e = dict(vk.GOENV, VERIF_TRACE=out, VERIF_SEED=str(vk.seed()), VERIF_TIER=tier)
    p = subprocess.run([binp, "-test.run", "^" + test + "$", "-test.count=1"], cwd=os.path.join(vk.HARNESS, pkg), env=e,
                       stdout=subprocess.PIPE, stderr=subprocess.STDOUT, text=True, timeout=600)
    if p.returncode != 0:
        raise vk.Broken("sample driver %s failed:\n%s" % (test, p.stdout[-4000:]))
    return json.load(open(out))


def tla_bool(b):
    return "TRUE" if b else "FALSE"


def apalache_check(template, subst, inv="SamplesAgree", timeout=600):
    """Instantiate specs/arith/<template>.tla.tmpl and run apalache-mc check --length=0 --inv=<inv>.
    Returns (ok, failing idx or None, output)."""
    import glob, re
    d = tempfile.mkdtemp(prefix="apa-", dir=vk.scratch())
    src = open(os.path.join(vk.SPECS, "arith", template + ".tla.tmpl")).read()
    for k, v in subst.items():
        src = src.replace("@" + k + "@", v)
    with open(os.path.join(d, template + ".tla"), "w") as f:
        f.write(src)
    cmd = ["apalache-mc", "check", "--length=0", "--inv=" + inv, "--out-dir=" + os.path.join(d, "out"), template + ".tla"]
    env = dict(os.environ, JVM_ARGS="-Xmx4g -Djava.io.tmpdir=" + d)
    try:
        p = subprocess.run(cmd, cwd=d, stdout=subprocess.PIPE, stderr=subprocess.STDOUT, text=True, timeout=timeout, env=env)
    except subprocess.TimeoutExpired:
        raise vk.Broken("apalache timeout on " + template)
    out = p.stdout
    idx = None
    for f in glob.glob(os.path.join(d, "out", "**", "violation*.tla"), recursive=True) + glob.glob(os.path.join(d, "out", "**", "counterexample*.tla"), recursive=True):
        m = re.search(r"idx\s*=\s*(\d+)", open(f).read())
        if m:
            idx = int(m.group(1))
            break
    shutil.rmtree(d, ignore_errors=True)
    if "The outcome is: NoError" in out:
        return True, None, out
    if idx is not None:
        return False, idx, out
    raise vk.Broken("apalache failed on %s:\n%s" % (template, out[-3000:]))


def consensus_arith(tier):
    """C04 arithmetic: returns dict(samples, failures[list of sample dicts])."""
    samples = record_samples("drivers/arith", "TestArithSamples", tier)
    med = [s for s in samples if s["kind"] == "median"]
    quo = [s for s in samples if s["kind"] == "quorum"]

    def med_tla(ss):
        return "<< " + ", ".join("[sorted |-> <<%s>>, median |-> %s, elected |-> %s, failed |-> %s]" % (
            ", ".join(s["sorted"]), s["median"], s["elected"], tla_bool(s["err"] != "")) for s in ss) + " >>"

    def quo_tla(ss):
        return "<< " + ", ".join("[sum |-> %s, total |-> %s, reached |-> %s]" % (s["sum"], s["total"], tla_bool(s["reached"])) for s in ss) + " >>"
    t0 = time.time()
    n = len(med) + len(quo)
    failures, excluded = [], []
    for _ in range(3):      # report up to three failing samples
        ok, idx, out = apalache_check("ConsensusArith", {"MEDIAN": med_tla(med), "QUORUM": quo_tla(quo), "N": str(n),
                                                         "EXCLUDED": "{" + ", ".join(map(str, excluded)) + "}"})
        if ok:
            break
        excluded.append(idx)
        failures.append(med[idx - 1] if idx <= len(med) else quo[idx - 1 - len(med)])
    return {"samples": len(samples), "median_samples": len(med), "quorum_samples": len(quo), "failures": failures, "wall_s": round(time.time() - t0, 1),
            "example": med[:2] + quo[:2]}
