"""C14 assignment to an eligible relayer, relay gating, fee formula: RelayGate.tla (+ RelayGateFees via Apalache).

mc      : RelayGate_mc  assign (all table combinations, 4 validators), gate / gate3 (all queues of <= 4 / <= 3
          messages), dyn (the actions themselves)
generate: RelayGateGen  assign cover (one history per table combination), gate cover (all queues of <= 2 messages
          brought into every state through the real message servers), mix (seeded random walks)
drive   : harness/drivers/relaygate on E1 (real valset / treasury / metrix / evm / consensus keepers)
validate: RelayGateTrace (monitors C14.*)
fees    : samples at real magnitude recorded from the real end-blocker, checked by Apalache against the operators
          of RelayGateFees (specs/arith/FeeSamples.tla.tmpl)
"""
import copy, json, os, random, re, shutil, subprocess, tempfile, time
from pipeline import Pipeline, Gen
import verifkit as vk

S18 = 10 ** 18


def _d18(s):
    """decimal string -> integer * 10^18 (sample construction only, never an oracle)"""
    neg = s.startswith("-")
    s = s.lstrip("-")
    a, _, b = s.partition(".")
    v = int(a or "0") * S18 + int((b + "0" * 18)[:18])
    return -v if neg else v


def _fmt18(v):
    return "%d.%018d" % (v // S18, v % S18)


class C14(Pipeline):
    pid = "C14"
    mc = [("RelayGate_mc", "RelayGate_assign", ("quick", "thorough")),
          ("RelayGate_mc", "RelayGate_gate", ("quick", "thorough")),
          ("RelayGate_mc", "RelayGate_gate3", ("thorough",)),
          ("RelayGate_mc", "RelayGate_dyn", ("quick", "thorough")),
          ("RelayGate_mc", "RelayGate_retry", ("quick", "thorough")),
          ("RelayGate_mc", "RelayGate_assign_big", ("thorough",)),
          ("RelayGate_mc", "RelayGate_gate_big", ("thorough",))]
    gens = [Gen("RelayGateGen", "RelayGateGen_assign_cover", "bfs", tiers=("quick",), timeout=300),
            Gen("RelayGateGen", "RelayGateGen_gate_cover", "bfs", tiers=("quick",), timeout=300),
            Gen("RelayGateGen", "RelayGateGen_retry_cover", "bfs", tiers=("quick", "thorough"), timeout=300),
            Gen("RelayGateGen", "RelayGateGen_fees_cover", "bfs", tiers=("quick", "thorough"), timeout=300),
            Gen("RelayGateGen", "RelayGateGen_sim", "simulate", num=150, depth=14, tiers=("quick",), timeout=300),
            Gen("RelayGateGen", "RelayGateGen_assign_cover_big", "bfs", tiers=("thorough",), timeout=900),
            Gen("RelayGateGen", "RelayGateGen_gate_cover_big", "bfs", tiers=("thorough",), timeout=900),
            Gen("RelayGateGen", "RelayGateGen_sim", "simulate", num=1200, depth=14, tiers=("thorough",), timeout=1200)]
    driver_pkg = "drivers/relaygate"
    driver_test = "TestDriveRelayGate"
    trace_module = "RelayGateTrace"
    trace_cfg = "RelayGateTrace"
    quick_cap = 8000
    thorough_cap = 20000
    min_histories = 200
    assumptions = [
        "six validators of equal power; target chain eth-b is supported but not active (a chain being onboarded), eth-a is active: "
        "snapshot membership = account on eth-a, so every table combination is reachable through the real snapshot build",
        "metrix offers no removal of a validator record: a missing record is produced by deleting the raw store entry after the real "
        "OnSnapshotBuilt listener created it; uptime / success rate / execution time are equal for all validators (score = fee term + "
        "feature-set term), monitored as conformance (UniformMetrics, FeatureIsMev)",
        "messages of other producers (UpdateValset, UploadSmartContract, logic calls with a given assignee) enter through the real "
        "consensus.PutMessageInQueue; estimates / delivery / error reports through the real consensus message server; election through "
        "the real CheckAndProcessEstimatedMessages",
        "'pending' older message of the same sender = not yet reported (no public access data / error data) and not held back by a "
        "validator-set update, as DESIGN.md section C14 fixes it",
        "small-integer multiplicators (x100) in TLC histories; 18-decimal multiplicators and gas up to 2^63 are checked on samples by Apalache; "
        "results that do not fit 64 bits are out of scope here (C09)",
    ]

    def __init__(self):
        self._fee = None

    # ---- trace ---------------------------------------------------------------------------------
    chunk_events = 15000      # events per TLC trace validation run (bounded memory; chunks run in parallel)

    def _validate_chunks(self, events):
        events = self.with_resets(events)
        chunks, cur, last = [], [], None
        for e in events:
            if e["h"] != last and len(cur) >= self.chunk_events:
                chunks.append(cur)
                cur = []
            last = e["h"]
            cur.append(e)
        if cur:
            chunks.append(cur)
        if len(chunks) <= 1:
            return vk.tlc_validate(self.trace_module, events, cfg=self.trace_cfg)
        from concurrent.futures import ThreadPoolExecutor
        with ThreadPoolExecutor(max_workers=4) as ex:
            parts = list(ex.map(lambda c: vk.tlc_validate(self.trace_module, c, cfg=self.trace_cfg), chunks))
        v = vk.Validation()
        v.accepted, v.details, off = True, [], 0
        for c, p in zip(chunks, parts):
            v.monfail += [(n, i + off, e) for n, i, e in p.monfail]
            v.conffail += [(n, i + off, e) for n, i, e in p.conffail]
            v.states += p.states
            v.wall += p.wall
            v.details += p.details
            if not p.accepted:
                v.accepted = False
                v.reject_tail = getattr(p, "reject_tail", "")
            off += len(c)
        v.details = v.details[:5]
        return v

    def validate(self, events):
        v = self._validate_chunks(events)
        setup = [m for m in v.monfail if m[0].startswith("Setup.")]
        if setup:
            raise vk.Broken("harness set-up monitor failed (not a verdict): %s at trace line %d" % (setup[0][0], setup[0][1]))
        v.monfail = [m for m in v.monfail if m[0].startswith("C14.")]
        return v

    def nontrivial(self, evs):
        return any(e["act"] == "Assign" and e["res"] == "assigned" for e in evs) or \
            any(e["act"] == "Query" and any(len(x) for x in e["offered"]) for e in evs)

    def post_drive(self, events, tier):
        c = {}
        for e in events:
            k = e["act"] + ":" + str(e.get("res"))
            c[k] = c.get(k, 0) + 1
        offered = sum(1 for e in events if e["act"] == "Query" and any(len(x) for x in e["offered"]))
        withheld = sum(1 for e in events if e["act"] == "Query" and len(e["obs"]["queue"]) > sum(len(x) for x in e["offered"]))
        elected = sum(1 for e in events if e["act"] == "EndBlock" and any(m["fees"][0] > 0 for m in e["obs"]["queue"]))
        # requests arriving when no validator qualifies (counted on the recorded tables, whatever the code answered)
        prev, hopeless, crossed = None, 0, 0
        for e in events:
            if e["act"] == "Assign" and prev is not None and prev["h"] == e["h"]:
                o = prev["obs"]
                home = e["args"]["c"] == "h"
                if not any(o["snap"][i]["member"] and (home or o["snap"][i]["acct"]) and (o["feeh"][i] if home else o["fee"][i]) and o["perf"][i]
                           for i in range(len(o["fee"]))):
                    hopeless += 1
                # MEV-enforcing request while some snapshot member carries the trait only on its OTHER chain account
                if e["args"]["mev"] and any(o["snap"][i]["member"] and o["snap"][i]["acct"] and
                                            (o["snap"][i]["mevT"] if home else o["snap"][i]["mevH"]) and
                                            not (o["snap"][i]["mevH"] if home else o["snap"][i]["mevT"]) for i in range(len(o["fee"]))):
                    crossed += 1
            prev = e
        if hopeless < 50:
            raise vk.Broken("vacuous trace: only %d requests without any qualifying validator" % hopeless)
        if crossed < 50:
            raise vk.Broken("vacuous trace: only %d MEV requests facing a validator whose trait sits on its other chain account" % crossed)
        self._crossed = crossed
        # retries after an attested relay failure: enqueued / dropped because nobody qualifies for a MEV-enforcing call;
        # one validator elected on both chains in ONE end block while its two multiplicators differ
        prev, retried, mevdropped, twochain = None, 0, 0, 0
        for e in events:
            if prev is not None and prev["h"] == e["h"]:
                po, o = prev["obs"], e["obs"]
                if e["act"] == "EndBlockAtt":
                    old = {m["id"] for m in po["queue"] + po["queueh"]}
                    retried += sum(1 for m in o["queue"] + o["queueh"] if m["id"] not in old)
                    # attested MEV-enforcing calls due for a retry while NO snapshot member qualifies on that chain
                    # (counted on the recorded tables, whatever the code did)
                    members = [i for i in range(len(po["fee"])) if po["snap"][i]["member"]]
                    for key, home in (("queue", False), ("queueh", True)):
                        for m in po[key]:
                            k = len([v for v in m["ev"] if v - 1 in members])
                            if m["kind"] == "slc" and m["mev"] and m["retries"] < 2 and k > 0 and 3 * k >= 2 * len(members) and \
                                    not any((home or po["snap"][i]["acct"]) and (po["feeh"][i] if home else po["fee"][i]) and po["perf"][i]
                                            and (po["snap"][i]["mevH"] if home else po["snap"][i]["mevT"]) for i in members):
                                mevdropped += 1
                if e["act"] == "EndBlock":
                    el = set()
                    for key in ("queue", "queueh"):
                        pm = {m["id"]: m for m in po[key]}
                        for m in o[key]:
                            if m["kind"] == "slc" and m["est"] > 0 and m["assignee"] and pm.get(m["id"], {"est": 1})["est"] == 0:
                                el.add((key, m["assignee"]))
                    for a in {x[1] for x in el}:
                        if {k for k, x in el if x == a} == {"queue", "queueh"} and po["fee"][a - 1] != po["feeh"][a - 1]:
                            twochain += 1
            prev = e
        if retried < 100 or mevdropped < 5 or twochain < 5:
            raise vk.Broken("vacuous trace: %d retries enqueued, %d MEV retries dropped for lack of a qualifying validator, "
                            "%d same-block elections of one validator on both chains with different multiplicators" % (retried, mevdropped, twochain))
        self._retry_stats = {"retries_enqueued": retried, "attested_mev_calls_due_for_retry_while_nobody_qualifies": mevdropped,
                             "same_block_two_chain_elections_with_different_multiplicators": twochain}
        need = {"Assign:assigned": 50, "Estimate:ok": 50, "Estimate:fail": 5, "Deliver:ok": 20, "Query:query": 100}
        for k, n in need.items():
            if c.get(k, 0) < n:
                raise vk.Broken("vacuous trace: only %d events %s" % (c.get(k, 0), k))
        if offered < 50 or withheld < 50 or elected < 20:
            raise vk.Broken("vacuous trace: queries offering %d, queries withholding %d, elections with fees %d" % (offered, withheld, elected))
        self._panics = [e for e in events if e["act"] == "EndBlock" and e["res"] == "panic"]

    def binding_selftest(self, events, tier):
        byh = {}
        for e in events:
            byh.setdefault(e["h"], []).append(e)
        res = {}
        # 1) a message offered to a validator that is not its assignee
        for h, evs in byh.items():
            q = next((e for e in evs if e["act"] == "Query" and any(len(x) for x in e["offered"])), None)
            if q is None:
                continue
            c = copy.deepcopy(evs)
            qq = next(e for e in c if e["i"] == q["i"])
            src = next(i for i, x in enumerate(qq["offered"]) if x)
            dst = (src + 1) % len(qq["offered"])
            qq["offered"][dst] = qq["offered"][dst] + [qq["offered"][src][0]]
            v = self.validate(c)
            res["foreign_offer_rejected"] = any(n == "C14.OnlyAssignee" for n, _, _ in v.monfail)
            break
        # 2) the relayer address recorded on an assigned message is not the snapshot's
        for h, evs in byh.items():
            a = next((e for e in evs if e["act"] == "Assign" and e["res"] == "assigned" and e["args"]["c"] == "t"), None)
            if a is None:
                continue
            c = copy.deepcopy(evs)
            before = {m["id"] for e in c if e["i"] == a["i"] - 1 for m in e["obs"]["queue"]}
            for e in c:
                if e["i"] >= a["i"]:
                    for m in e["obs"]["queue"]:
                        if m["id"] not in before:
                            m["remote"] = 2 if m["remote"] == 1 else 1
            v = self.validate(c)
            res["wrong_relayer_address_rejected"] = any(n == "C14.RemoteAddressFromSnapshot" for n, _, _ in v.monfail)
            break
        # 3) a dropped Assign event: the next step shows two new messages
        for h, evs in byh.items():
            k = next((i for i in range(len(evs) - 1) if evs[i]["act"] == "Assign" and evs[i]["res"] == "assigned"
                      and evs[i + 1]["act"] == "Assign" and evs[i + 1]["res"] == "assigned"), None)
            if k is None:
                continue
            c = evs[:k] + evs[k + 1:]
            v = self.validate(c)
            res["dropped_event_rejected"] = bool(v.monfail) or not v.accepted
            break
        # 4) attached fee one unit too low (floor instead of ceil)
        for h, evs in byh.items():
            eb = next((e for e in evs if e["act"] == "EndBlock" and any(m["fees"][0] > 0 for m in e["obs"]["queue"])), None)
            if eb is None:
                continue
            c = copy.deepcopy(evs)
            prev = {m["id"]: m for e in c if e["i"] == eb["i"] - 1 for m in e["obs"]["queue"]}
            tgt = next((m["id"] for m in eb["obs"]["queue"] if m["fees"][0] > 0 and prev.get(m["id"], {"est": 1})["est"] == 0), None)
            if tgt is None:
                continue
            for e in c:
                if e["i"] >= eb["i"]:
                    for m in e["obs"]["queue"]:
                        if m["id"] == tgt:
                            m["fees"][0] -= 1
            v = self.validate(c)
            res["floored_fee_rejected"] = any(n == "C14.FeesCeil" for n, _, _ in v.monfail)
            break
        # 5) the assignee of a MEV-enforcing job carries the trait on its OTHER chain account only
        for h, evs in byh.items():
            a = next((e for e in evs if e["act"] == "Assign" and e["res"] == "assigned" and e["args"]["mev"] and e["i"] > 1), None)
            if a is None:
                continue
            c = copy.deepcopy(evs)
            key = "queue" if a["args"]["c"] == "t" else "queueh"
            prev = next(e for e in c if e["i"] == a["i"] - 1)
            old = {m["id"] for m in prev["obs"][key]}
            who = next((m["assignee"] for m in a["obs"][key] if m["id"] not in old), 0)
            if not who:
                continue
            own, oth = ("mevT", "mevH") if a["args"]["c"] == "t" else ("mevH", "mevT")
            prev["obs"]["snap"][who - 1][own], prev["obs"]["snap"][who - 1][oth] = False, True
            v = self.validate(c)
            res["trait_on_other_chain_rejected"] = any(n == "C14.AssigneeEligible" for n, _, _ in v.monfail)
            break
        # 6) a retried MEV-enforcing call whose new assignee does not carry the trait on that chain
        for h, evs in byh.items():
            hit = None
            for a in evs:
                if a["act"] != "EndBlockAtt" or a["i"] < 2:
                    continue
                prev = next(e for e in evs if e["i"] == a["i"] - 1)
                for key in ("queue", "queueh"):
                    old = {m["id"] for m in prev["obs"]["queue"] + prev["obs"]["queueh"]}
                    for m in a["obs"][key]:
                        if m["id"] not in old and m["mev"] and m["assignee"]:
                            hit = (a["i"], key, m["assignee"])
            if hit is None:
                continue
            c = copy.deepcopy(evs)
            prev = next(e for e in c if e["i"] == hit[0] - 1)
            prev["obs"]["snap"][hit[2] - 1]["mevT" if hit[1] == "queue" else "mevH"] = False
            v = self.validate(c)
            res["retry_to_non_mev_rejected"] = any(n == "C14.AssigneeEligible" for n, _, _ in v.monfail)
            break
        # 7) fees of a home chain message computed with the assignee's TARGET chain multiplicator
        for h, evs in byh.items():
            hit = None
            for a in evs:
                if a["act"] != "EndBlock" or a["i"] < 2:
                    continue
                prev = next(e for e in evs if e["i"] == a["i"] - 1)
                pm = {m["id"]: m for m in prev["obs"]["queueh"]}
                for m in a["obs"]["queueh"]:
                    if m["kind"] == "slc" and m["est"] > 0 and m["assignee"] and pm.get(m["id"], {"est": 1})["est"] == 0 \
                            and prev["obs"]["fee"][m["assignee"] - 1] not in (0, prev["obs"]["feeh"][m["assignee"] - 1]):
                        hit = (a["i"], m["assignee"])
            if hit is None:
                continue
            c = copy.deepcopy(evs)
            prev = next(e for e in c if e["i"] == hit[0] - 1)
            prev["obs"]["feeh"][hit[1] - 1] = prev["obs"]["fee"][hit[1] - 1]
            v = self.validate(c)
            res["other_chain_multiplicator_rejected"] = any(n == "C14.FeesCeil" for n, _, _ in v.monfail)
            break
        want = ("foreign_offer_rejected", "wrong_relayer_address_rejected", "dropped_event_rejected", "floored_fee_rejected",
                "trait_on_other_chain_rejected", "retry_to_non_mev_rejected", "other_chain_multiplicator_rejected")
        res["ok"] = all(res.get(k) for k in want)
        return res

    # ---- fee samples at real magnitude ------------------------------------------------------------
    def fee_inputs(self, tier):
        rnd = random.Random(vk.seed() * 7919 + 14)
        ms = ["1.0", "1.1", "1.000000000000000001", "0.333333333333333333", "1.999999999999999999", "0.000000000000000001",
              "2.5", "1.234567890123456789", "0.999999999999999999", "1.05"]
        gs = [1, 2, 3, 7, 21000, 10 ** 6 + 1, 2 ** 31, 2 ** 32 + 1, 2 ** 53 + 1, 2 ** 62, 2 ** 63 - 1, 2 ** 63, 2 ** 63 + 1]
        rates = [("0.01", "0.01"), ("0.333333333333333333", "0.01"), ("0.01", "0.333333333333333333"), ("0.000000000000000001", "1.0"),
                 ("0.1", "0.666666666666666667"), ("0.03", "0.005")]
        out = []
        k = 0
        for m in ms:
            for g in gs:
                c, s = rates[k % len(rates)]
                k += 1
                out.append((m, c, s, g))
        n_rand = 40 if tier == "quick" else 500
        for _ in range(n_rand):
            m = _fmt18(rnd.randrange(S18 // 2, 3 * S18))
            g = rnd.choice([rnd.randrange(1, 2 ** 20), rnd.randrange(2 ** 31, 2 ** 33), rnd.randrange(2 ** 52, 2 ** 54), rnd.randrange(2 ** 61, 2 ** 63)])
            c = _fmt18(rnd.choice([S18 // 100, S18 // 3, rnd.randrange(1, S18), 1]))
            s = _fmt18(rnd.choice([S18 // 100, S18 // 3, rnd.randrange(1, S18), 2 * S18 // 3 + 1]))
            out.append((m, c, s, g))
        # keep the relayer fee inside 64 bits (what happens beyond belongs to C09, see the probe below)
        out = [x for x in out if (_d18(x[0]) * x[3]) // S18 + 1 < 2 ** 64]
        return [{"m": m, "c": c, "s": s, "g": str(g)} for m, c, s, g in out]

    PROBE = [{"m": "3.0", "c": "0.01", "s": "0.01", "g": str(2 ** 63)},
             {"m": "1.1", "c": "0.01", "s": "0.01", "g": str(2 ** 64 - 1)},
             {"m": "100000000000000000000.0", "c": "0.01", "s": "0.01", "g": "21000"},
             {"m": "-1.5", "c": "0.01", "s": "0.01", "g": "1000"},
             {"m": "0.0", "c": "0.01", "s": "0.01", "g": "1000"}]

    def run_fee_driver(self, inputs):
        binp = vk.go_build_driver(self.driver_pkg)
        d = tempfile.mkdtemp(prefix="fees-", dir=vk.scratch())
        fin, fout = os.path.join(d, "in.ndjson"), os.path.join(d, "out.ndjson")
        with open(fin, "w") as f:
            for x in inputs:
                f.write(json.dumps(x) + "\n")
        e = dict(vk.GOENV, VERIF_FEE_IN=fin, VERIF_FEE_OUT=fout, VERIF_SEED=str(vk.seed()))
        p = subprocess.run([binp, "-test.run", "^TestFeeSamples$", "-test.count=1", "-test.timeout", "600s"],
                           cwd=os.path.join(vk.HARNESS, self.driver_pkg), env=e, stdout=subprocess.PIPE, stderr=subprocess.STDOUT, text=True, timeout=700)
        if p.returncode != 0:
            raise vk.Broken("fee sample driver failed:\n%s" % p.stdout[-4000:])
        recs = [json.loads(l) for l in open(fout) if l.strip()]
        shutil.rmtree(d, ignore_errors=True)
        if len(recs) != len(inputs):
            raise vk.Broken("fee sample driver returned %d of %d samples" % (len(recs), len(inputs)))
        return recs

    def apalache(self, recs, timeout=600):
        """True iff the TLA+ operators reproduce every recorded sample."""
        d = tempfile.mkdtemp(prefix="apalache-", dir=vk.scratch())
        try:
            tmpl = open(os.path.join(vk.SPECS, "arith", "FeeSamples.tla.tmpl")).read()
            rows = ",\n".join("  [m |-> %s, c |-> %s, s |-> %s, g |-> %s, r |-> %s, cf |-> %s, sf |-> %s]" %
                              (r["m18"], r["c18"], r["s18"], r["g"], r["r"], r["cf"], r["sf"]) for r in recs)
            with open(os.path.join(d, "FeeSamples.tla"), "w") as f:
                f.write(tmpl.replace("%SAMPLES%", rows))
            shutil.copy(os.path.join(vk.SPECS, "RelayGateFees.tla"), d)
            os.makedirs(os.path.join(d, "tmp"))
            # the launcher creates its SANY* directory with `mktemp -t`, i.e. under $TMPDIR
            env = dict(os.environ, TMPDIR=os.path.join(d, "tmp"))
            try:
                p = subprocess.run(["apalache-mc", "check", "--length=0", "--inv=SamplesAgree", "--out-dir=" + os.path.join(d, "out"), "FeeSamples.tla"],
                                   cwd=d, env=env, stdout=subprocess.PIPE, stderr=subprocess.STDOUT, text=True, timeout=timeout)
            except subprocess.TimeoutExpired:
                raise vk.Broken("apalache timeout on %d samples" % len(recs))
            if "The outcome is: NoError" in p.stdout:
                return True
            if "The outcome is: Error" in p.stdout and "Checker has found an error" in p.stdout:
                return False
            raise vk.Broken("apalache failed:\n%s" % p.stdout[-3000:])
        finally:
            shutil.rmtree(d, ignore_errors=True)

    def find_bad(self, recs, known_bad=False):
        """one sample the operators do not reproduce (bisection: about log2(n) Apalache runs), [] if all agree"""
        if not known_bad and self.apalache(recs):
            return []
        if len(recs) == 1:
            return recs
        mid = len(recs) // 2
        left = self.find_bad(recs[:mid])
        return left if left else self.find_bad(recs[mid:], known_bad=True)

    def fee_check(self, tier):
        t0 = time.time()
        inputs = self.fee_inputs(tier)
        recs = self.run_fee_driver(inputs + self.PROBE)
        probe = recs[len(inputs):]
        recs = recs[:len(inputs)]
        good = [r for r in recs if r["outcome"] == "fees"]
        odd = [r for r in recs if r["outcome"] != "fees"]
        if len(good) < 0.9 * len(recs) or len(good) < 100:
            raise vk.Broken("fee samples: only %d of %d produced fees (%s)" % (len(good), len(recs), odd[:2]))
        bad = []
        batch = 200
        for i in range(0, len(good), batch):
            if not bad:                       # one counterexample is enough for the verdict
                bad += self.find_bad(good[i:i + batch])
        # self-test of the arithmetic binding: a floored relayer fee must be noticed
        probe_rec = dict(next(r for r in good if int(r["m18"]) * int(r["g"]) % S18 != 0))
        probe_rec["r"] = str(int(probe_rec["r"]) - 1)
        selftest = not self.apalache([probe_rec])
        vk.log("fee samples: %d checked by Apalache, %d not reproduced, %d without fees, selftest %s, %.1fs" %
               (len(good), len(bad), len(odd), selftest, time.time() - t0))
        for r in probe:
            vk.log("C09 probe: multiplicator %s gas %s -> %s %s" % (r["in"]["m"], r["in"]["g"], r["outcome"], r["err"]))
        return {"samples": len(good), "not_reproduced": bad, "without_fees": odd, "floor_selftest_rejected": selftest,
                "max_gas": max(int(r["g"]) for r in good), "wall_s": round(time.time() - t0, 1),
                "c09_probe": [{"multiplicator": r["in"]["m"], "gas": r["in"]["g"], "outcome": r["outcome"], "detail": r["err"]} for r in probe]}

    def extra_coverage(self, tier):
        self._fee = self.fee_check(tier)
        cov = {"mev_requests_with_trait_on_other_chain_account": getattr(self, "_crossed", 0),
               "retry_and_two_chain_fee_coverage": getattr(self, "_retry_stats", {}),
               "fee_samples_apalache": {k: v for k, v in self._fee.items() if k != "not_reproduced"},
               "fee_samples_not_reproduced": self._fee["not_reproduced"][:10]}
        panics = getattr(self, "_panics", [])
        if panics:
            cov["observations"] = ["consensus end-blocker panicked in %d recorded EndBlock steps (%s); reported as conformance drift "
                                   "EndBlock.nopanic, belongs to C09" % (len(panics), panics[0]["err"])]
        return cov

    def run(self, tier):
        rc = super().run(tier)
        fee = self._fee or {}
        if fee and not fee.get("floor_selftest_rejected", True):
            raise vk.Broken("fee sample self-test: a floored fee was not rejected by the Apalache check")
        bad = fee.get("not_reproduced") or []
        if bad:
            path = vk.write_replay(self.pid, 900, [], note={"monitors": ["C14.FeeSamplesAgree"], "fee_samples": bad[:20], "history": []})
            p = os.path.join(vk.EVIDENCE, self.pid + ".json")
            ev = json.load(open(p))
            ev["violations"] = ev.get("violations", 0) + 1
            json.dump(ev, open(p, "w"), indent=1, sort_keys=True, default=str)
            print("VIOLATION property=%s replay=%s" % (self.pid, path))
            vk.log("fee samples not reproduced by FeesFor18:", bad[:3])
            return 1
        return rc

    def replay(self, path):
        first = json.loads(open(path).readline())
        note = first.get("note", {})
        if note.get("fee_samples"):
            recs = self.run_fee_driver([r["in"] for r in note["fee_samples"]])
            good = [r for r in recs if r["outcome"] == "fees"]
            bad = self.find_bad(good) if good else []
            for r in bad:
                print("fee sample not reproduced: %s" % json.dumps(r))
            if bad:
                print("VIOLATION property=%s replay=%s" % (self.pid, path))
                return 1
            return 0
        return super().replay(path)


CHECK = C14()
