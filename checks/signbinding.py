"""Shared base of the SignBinding checks (C05 signing bytes, C11 claim pooling key, C04 evidence identity).

SignBinding.tla holds the field tables and the perturbation lattice; TLC proves the table well formed and
every obligation bound in the model of the code as it should be, emits one history per obligation, the
Go driver evaluates the REAL digest functions on both items of every obligation, and SignBindingTrace.tla
decides."""
import copy
from pipeline import Pipeline, Gen
import verifkit as vk


class SignBindingBase(Pipeline):
    driver_pkg = "drivers/signbinding"
    driver_test = "TestDriveSignBinding"
    trace_module = "SignBindingTrace"
    family = None            # "C05" / "C11" / "C04"
    prefixes = ()
    mc = [("SignBinding_mc", "SignBinding_mc", ("quick", "thorough"))]
    min_histories = 10
    assumptions = [
        "injectivity over all byte strings is NOT claimed: every field is substituted with one second concrete realistic value "
        "(alone, in every pair, and all together), plus crafted boundary-shift pairs for neighbouring free-text values",
        "which fields must influence the digest (Required) is transcribed by hand from the property statement and from what the "
        "code hands to the remote contract / reads in the handlers; the complete field list is checked against reflection over the real types",
        "the dummy gas estimate (0 is signed as 300000 before election) is part of the specification; the two estimate values used are 210000 and 250000",
    ]

    def validate(self, events):
        v = super().validate(events)
        v.monfail = [m for m in v.monfail if m[0].startswith(self.prefixes) or m[0].startswith("Setup.")]
        return v

    def match_known(self, finding, failure):
        """match = {...} as in Pipeline.match_known, or {"any_of": [match, match, ...]} (one finding that shows in several obligations)"""
        m = finding.get("match", {})
        if "any_of" in m:
            return any(Pipeline.match_known(self, dict(finding, match=x), failure) for x in m["any_of"])
        return Pipeline.match_known(self, finding, failure)

    def nontrivial(self, evs):
        return all(e.get("res") == "ok" for e in evs) and any(e["act"] == "Check" for e in evs)

    def post_drive(self, events, tier):
        if not any(e["act"] == "Survey" for e in events):
            raise vk.Broken("no Survey event recorded")
        bad = [e for e in events if e["act"] == "Check" and e["res"] == "ok" and not e["base_hex"]]
        if bad:
            raise vk.Broken("driver recorded empty digests: %s" % bad[:2])

    def extra_coverage(self, tier):
        return {"exhaustive": True,
                "obligation_space": "complete lattice of SignBinding.tla for family %s (every non-empty subset of size <= 2 of the required fields "
                                    "of every kind plus the full set, every boundary-shift set%s)" % (self.family, ", every pair of proof types" if self.family == "C04" else "")}

    def binding_selftest(self, events, tier):
        # (1) a digest that does not change must be noticed; (2) a field missing from the reflected list must be noticed
        good = next((e for e in events if e["act"] == "Check" and e["res"] == "ok" and e["differs"] and e["args"]["mode"] == "subst"), None)
        if good is None:
            return {"ok": False, "why": "no good subst event to corrupt"}
        e1 = copy.deepcopy(good)
        e1["differs"] = False
        v1 = Pipeline.validate(self, [e1])
        c1 = any(n.endswith((".Binding", ".EvidenceIdentity")) for n, _, _ in v1.monfail)
        e2 = copy.deepcopy(good)
        e2["fields_seen"] = e2["fields_seen"][1:] + ["verif_new_field"]
        v2 = Pipeline.validate(self, [e2])
        c2 = any(n.endswith(".FieldTableComplete") for n, _, _ in v2.monfail)
        sv = next(e for e in events if e["act"] == "Survey")
        e3 = copy.deepcopy(sv)
        e3["kinds_seen"] = e3["kinds_seen"] + ["MsgVerifNewClaim"]
        v3 = Pipeline.validate(self, [e3])
        c3 = any(n.endswith(".KindTableComplete") for n, _, _ in v3.monfail)
        res = {"ok": c1 and c2 and c3, "unchanged_digest_noticed": c1, "unlisted_field_noticed": c2, "unlisted_kind_noticed": c3}
        if self.family == "C11":
            # (4) an attestation filed under a key that is not the key of its stored body; (5) a voter whose submission
            #     differs from the stored body in an effect-bearing field
            g = next((e for e in events if e["act"] == "Check" and e["res"] == "ok" and e["differs"] and e.get("atts")), None)
            if g is None:
                return dict(res, ok=False, why="no event with observed attestations")
            e4 = copy.deepcopy(g)
            e4["atts"][0]["body_key"] = e4["atts"][0]["body_key"][:-2] + ("00" if not e4["atts"][0]["body_key"].endswith("00") else "01")
            c4 = any(n == "C11.StoredBodyIsVotedBody" for n, _, _ in Pipeline.validate(self, [e4]).monfail)
            e5 = copy.deepcopy(g)
            e5["atts"][0]["voters"][0] = [["skyway_nonce"]]
            c5 = any(n == "C11.StoredBodyIsVotedBody" for n, _, _ in Pipeline.validate(self, [e5]).monfail)
            e6 = copy.deepcopy(g)
            e6["atts"][0]["voters"][0] = [["skyway_nonce"], ["orchestrator", "metadata.creator"]]     # voter identity may differ; one agreeing submission suffices
            e7 = copy.deepcopy(g)
            sb = next(x for x in e7["subs"] if x["accepted"])
            sb["homes"] = [["amount", "compass_id"]]                   # an accepted vote that sits only on somebody else's claim
            c7 = any(n == "C11.StoredBodyIsVotedBody" for n, _, _ in Pipeline.validate(self, [e7]).monfail)
            e8 = copy.deepcopy(g)
            next(x for x in e8["subs"] if x["accepted"])["homes"] = []  # an accepted vote that is recorded nowhere
            c8 = any(n == "C11.StoredBodyIsVotedBody" for n, _, _ in Pipeline.validate(self, [e8]).monfail)
            c6 = not any(n == "C11.StoredBodyIsVotedBody" for n, _, _ in Pipeline.validate(self, [e6]).monfail)
            res.update(ok=res["ok"] and c4 and c5 and c6 and c7 and c8, foreign_key_noticed=c4, voter_body_mismatch_noticed=c5, voter_identity_tolerated=c6,
                       misplaced_vote_noticed=c7, lost_vote_noticed=c8)
        return res
