"""C03 only the principal (or governance) changes state held in its name.

Auth.tla (one table row per message kind, the ante decision and the msg servers as they are meant to work)
is model checked exhaustively: every kind x signer, creator, named principal in {A, B, Gov} x every reachable
fee-grant relation between A and B.  TLC generates one history per (grant relation, kind, signer, creator, named)
tuple; the Go driver turns every tuple into a really signed transaction on a fresh full application (harness/env
E2: ante chain incl. VerifyAuthorisedSignatureDecorator, router, msg server; signer Gov = a real x/gov proposal)
and records the projection of the state attributed to A, B and the governance authority before and after the
block; AuthTrace evaluates C03.NoForeignWrite / C03.GrantNeeded / C03.GovOnly on the observed step.
The table is cross-checked against the application's interface registry and message router; an unlisted
message type is a coverage gap (Setup.KindTableComplete: evidence, exit 2 in the thorough tier), never a violation."""
import copy, os, time
from concurrent.futures import ThreadPoolExecutor
from pipeline import Pipeline, Gen
import verifkit as vk


def D(kind, s, c, n):
    return {"act": "Deliver", "args": {"kind": kind, "s": s, "c": c, "n": n}}


def Gr(act, g, e):
    return {"act": act, "args": {"g": g, "e": e, "ak": "basic"}}


class C03(Pipeline):
    pid = "C03"
    mc = [("Auth_mc", "Auth_mc", ("quick",)), ("Auth_mc", "Auth_mc_full", ("thorough",))]
    gens = [Gen("AuthGen", "AuthGen_cover", "bfs", tiers=("quick",), timeout=170),
            Gen("AuthGen", "AuthGen_cover_big", "bfs", tiers=("thorough",), timeout=600)]
    driver_pkg = "drivers/auth"
    driver_test = "TestDriveAuth"
    trace_module = "AuthTrace"
    min_histories = 500
    validate_chunks = 4
    assumptions = [
        "every tuple is one really signed transaction (SIGN_MODE_DIRECT, Metadata.Signers = {signer}, Metadata.Creator = creator; for the three MsgUpdateParams the authority field is the named principal and the signer signs) delivered alone in its own block through FinalizeBlock/Commit of the full application (app.New: sdk ante chain, x/paloma VerifyAuthorisedSignatureDecorator, message router, msg server); every history runs on a fresh application whose keys derive from VERIF_SEED",
        "principals: A and B are bonded genesis validators (consensus power 10 each; operator account = validator address bytes) and at the same time plain users; a bystander validator V2 holds 50 of 70 power so that one vote of A or B never reaches an oracle quorum and V2 alone passes governance proposals; Gov is the x/gov module account (authority of every Paloma module)",
        "signer Gov is the real governance path: a bystander account submits and funds MsgSubmitProposal carrying the message (Metadata.Signers = {gov module address}), V2 votes yes, x/gov executes the message through the router at the end of the voting period (10 s = 2 blocks, genesis parameter); the ante chain does not run for proposal messages; ok = proposal PASSED, fail = proposal FAILED or refused at submission",
        "fee grants are made and revoked by really signed MsgGrantAllowance / MsgRevokeAllowance (BasicAllowance) of the granter through x/feegrant, which is what the decorator consults; 'expired' = an allowance whose expiration lies between the block that stores it and the next block, delivered to in that next block",
        "set-up only governance / genesis could do is done through keepers in E2.Setup between blocks: add EVM chain eth-a, register every validator's external account, relayer fee 1.10, keep-alive and snapshot, save compass contract 1 and activate the chain with it (fee manager, deployer address), treasury fees, bridge mapping ugrain <-> 0x1111.., light-node fee granter and funder accounts; governance parameters (voting period, minimum deposit) in genesis",
        "per-kind preparation through keepers (what the principals themselves did earlier): pending skyway transfers of A and B (AddToOutgoingPool), an outgoing batch (a transfer of V2, BuildOutgoingTXBatch), token factory denoms factory/<A|B>/sa with 5 minted, scheduler jobs job-1/job-2, user smart contracts of A and B, a queued SubmitLogicCall / reference-block message, a second compass contract in deployment (RemoveSmartContractDeployment), light-node licence records / client records / legacy fee grants of A and B written directly (CreateLightNodeClientLicense only serves addresses without an account)",
        "the projection of the state attributed to a principal p is read through the keepers before and after the block: oracle votes and last event nonce of p, batch confirmations / batch gas estimates of p, signatures / evidence / gas estimates / public-access and error data carrying p's validator address on queued messages, keep-alive, external accounts, relayer fee record, staking status; pending transfers, jobs, user contracts (with deployments), factory denoms (admin, bank metadata, supply), erc20 mapping of p's denoms, light-node licence and client record, bank balances, account record; for Gov additionally module params of skyway / paloma / tokenfactory / treasury fees, EVM chain infos, last compass contract, deployment records, bridge mappings of non-factory denoms, last observed skyway nonce, the replenish marker and the light-node granter/funders. The signer's own account record (sequence) is not counted as a change. An empty block changes none of these (monitor Setup.Quiescent on every history)",
        "the whole-multistore diff recorded as `suspect` (changed keys of the Paloma module stores whose key or value contains A's / B's address bytes or bech32 strings) is a discovery aid, not a verdict",
        "two-message transactions (action Deliver2): one really signed transaction of A carrying an honest message of A (creator = named = A) and a message in B's name (creator = named = B, Metadata.Signers = {A}), in both orders, the second position ranging over one kind per module (quick) / every plain kind (thorough), under the same fee-grant relations; the world holds the objects of both kinds",
        "ownership that was handed over (kinds ...Handed): the factory denoms factory/<A>/sh and factory/<B>/sh were created (5 minted) by A resp. B, who then gave the admin role to the other principal with MsgChangeAdmin (set-up through the tokenfactory msg server), and the new admin minted 5 more; the named principal of these kinds is the CURRENT admin, whose denom name carries the other principal. Factory denoms (admin, bank metadata, supply) and both bridge mapping records of a denom (denom -> erc20, erc20 -> denom) are attributed to the denom's current admin. No other Paloma object has a transferable owner (scheduler jobs, user smart contracts, light-node licences, pool transfers and validator records have no hand-over message)",
        "key collisions (action DeliverK): for every kind that creates or upserts an object under a sender-chosen key in a namespace shared by all principals (scheduler job id; factory sub-denom; the ERC-20 address a factory denom is bound to; light-node client address; external-chain address of a validator; validator address of a relayer fee record; base denom of bank metadata) the key is a variant of the key of an object the named principal already owns: equal, letter case changed, leading / trailing blank, './' segment, 'x/../' segment ('../<owner>/sa' for a sub-denom); the world holds that object for A and for B (jobs job-1/job-2, denoms factory/<p>/sa - bound to an ERC-20 of the admin's choosing for the ERC-20 kind, with an unbound factory/<p>/su to bind -, licence records, registered external addresses, relayer fee records); message ids / contract ids are assigned by the chain and have no sender-chosen key",
        "fee allowances of every kind x/feegrant knows are granted by really signed MsgGrantAllowance: basic, periodic (period 1 h, 1000 ugrain), allowed-msg (allowed message /cosmos.bank.v1beta1.MsgSend) wrapping a basic or a periodic one, each without expiration, with an expiration one hour ahead, and expiring between the storing block and the next block; under the non-basic kinds the signer acts in the grantor's name with one message kind per module (the decorator does not look at the kind of the message); the model does not restrict an allowed-msg allowance to its allowed messages (any stored unexpired allowance authorises, as the decorator is written)",
        "perturbation Reimport: after a successful delivery of A in its own name (every kind; no allowances stored) the whole application state is exported with app.ExportAppStateAndValidators (ExportGenesis of every module, not for zero height) and imported into a fresh application on a fresh database (InitChain = InitGenesis of every module, exported validators and consensus parameters, initial height = exported height), one empty block is delivered, and the projections of A, B and Gov before the export and after that block are compared: Reimport is defined as stuttering on all attributed state",
        "nested execution paths that bypass the ante chain by design (x/authz MsgExec, x/gov proposals submitted by others, wasm-dispatched messages) authorise through their own grant / vote / contract rules and are not enumerated, except governance execution itself",
        "MsgSubmitBadSignatureEvidence carrying the named validator's own external-chain signature over a batch that never existed jails that validator: treated like a batch confirmation (the named validator's own signature over the exact item) - the monitors allow this write; the variant signed with the creator's own key and the legacy Sender field naming somebody else must leave the named principal untouched",
    ]

    # ---- histories ------------------------------------------------------
    def extra_histories(self, tier):
        return [
            [{"act": "Registry", "args": {}}],
            # refused grant operations (second allowance for the same pair, revoking what was never granted / already revoked)
            [Gr("Grant", 2, 1), Gr("Grant", 2, 1), D("VaKeepAlive", 1, 2, 2)],
            [Gr("Revoke", 2, 1), D("VaKeepAlive", 1, 2, 2)],
            [Gr("Grant", 2, 1), Gr("Revoke", 2, 1), Gr("Revoke", 2, 1), D("TrUpsertRelayerFee", 1, 2, 2)],
            [Gr("GrantExp", 2, 1), Gr("Revoke", 2, 1), D("VaKeepAlive", 1, 2, 2)],
            # an expired allowance one block later (removed by the fee-grant end blocker)
            [Gr("GrantExp", 2, 1), Gr("Grant", 1, 2), D("VaKeepAlive", 1, 2, 2)],
            # re-granted after revocation
            [Gr("Grant", 2, 1), Gr("Revoke", 2, 1), Gr("Grant", 2, 1), D("VaKeepAlive", 1, 2, 2)],
        ]

    def nontrivial(self, evs):
        return any(e["act"] in ("Deliver", "Deliver2", "DeliverK") and e.get("cls") not in ("build", "block") for e in evs)

    def drive(self, histories):
        t0 = time.time()
        env = dict(self.drive_env, TMPDIR=vk.scratch(), GOGC="200")
        ev = vk.go_drive(self.driver_pkg, self.driver_test, histories, env=env)
        vk.log("drive: %d histories, %d events, %.1fs" % (len(histories), len(ev), time.time() - t0))
        return ev

    # ---- vacuity --------------------------------------------------------
    def post_drive(self, events, tier):
        heads = {}
        for e in events:
            heads.setdefault(e["h"], e)
        if any(e["act"] != "Init" or e["i"] != 0 for e in heads.values()):
            raise vk.Broken("a history does not start with the driver's Init observation")
        per = {}
        for e in events:
            if e["act"] == "Deliver":
                k = per.setdefault(e["args"]["kind"], {"ok": 0, "fail": 0, "ante": 0})
                k["ok" if e["res"] == "ok" else "fail"] += 1
                if e.get("cls") == "ante":
                    k["ante"] += 1
        self._per_kind = per
        reg = [e for e in events if e["act"] == "Registry"]
        if not reg:
            raise vk.Broken("no Registry event recorded")
        kinds = {t["kind"] for t in reg[0]["table"]}
        missing = sorted(kinds - set(per))
        if missing:
            raise vk.Broken("vacuous drive: kinds never delivered: %s" % missing)
        never_ok = {"SkLegacyBatchSendToEthClaim", "PaAddLicenseFor"}
        for k, c in sorted(per.items()):
            if c["ok"] == 0 and k not in never_ok:
                raise vk.Broken("vacuous drive: kind %s never succeeded" % k)
        for a in ("Grant", "GrantExp", "Revoke"):
            if not any(e["act"] == a and e["res"] == "ok" for e in events):
                raise vk.Broken("vacuous drive: %s never succeeded" % a)
        d2 = [e for e in events if e["act"] == "Deliver2"]
        d2ok, d2fail = sum(1 for e in d2 if e["res"] == "ok"), sum(1 for e in d2 if e["res"] == "fail")
        self._two = {"transactions": len(d2), "ok": d2ok, "fail": d2fail, "second_kinds": sorted({e["args"]["k2"] for e in d2})}
        if d2ok < 5 or len(self._two["second_kinds"]) < 8:
            raise vk.Broken("vacuous drive: two-message transactions: %s" % self._two)
        ri = [e for e in events if e["act"] == "Reimport"]
        aks = sorted({e["args"]["ak"] + ("!" if e["act"] == "GrantExp" else "") for e in events if e["act"] in ("Grant", "GrantExp") and e["res"] == "ok"})
        self._reimport = {"round_trips": len(ri), "ok": sum(1 for e in ri if e["res"] == "ok"), "worlds": sorted({e["args"]["kind"] for e in ri}),
                          "allowance_kinds_granted": aks}
        if self._reimport["ok"] < 20 or len(aks) < 12:
            raise vk.Broken("vacuous drive: reimport / allowance kinds: %s" % {k: (v if k != "worlds" else len(v)) for k, v in self._reimport.items()})
        dk = [e for e in events if e["act"] == "DeliverK"]
        self._keyed = {"deliveries": len(dk), "ok": sum(1 for e in dk if e["res"] == "ok"), "fail": sum(1 for e in dk if e["res"] != "ok"),
                       "kinds": sorted({e["args"]["kind"] for e in dk}), "variants": sorted({e["args"]["v"] for e in dk}),
                       "accepted": sorted({"%s:%s:%s" % (e["args"]["kind"], e["args"]["v"], "own" if e["args"]["n"] == e["args"]["c"] else "foreign")
                                           for e in dk if e["res"] == "ok"})}
        if len(self._keyed["kinds"]) < 7 or len(self._keyed["variants"]) < 6 or self._keyed["ok"] < 5 or self._keyed["fail"] < 5:
            raise vk.Broken("vacuous drive: key collisions: %s" % self._keyed)
        dl = [e for e in events if e["act"] == "Deliver"]
        granted = sum(1 for e in dl if e["res"] == "ok" and e["args"]["s"] != e["args"]["c"] and e["args"]["s"] != 3)
        viagov = sum(1 for e in dl if e.get("via") == "gov" and e["res"] == "ok")
        if granted < 20 or viagov < 5:
            raise vk.Broken("vacuous drive: %d deliveries on a fee grant, %d by governance" % (granted, viagov))
        # rejections missing altogether would make the evidence vacuous, but they are exactly what a broken authorisation
        # layer looks like: reported as BROKEN only if the monitors found nothing (see execute)
        self._soft = ["kind %s was never rejected" % k for k, c in sorted(per.items()) if c["fail"] == 0]
        if d2fail == 0:
            self._soft.append("no two-message transaction was ever rejected")
        by_decorator = sum(1 for c in per.values() if c["ante"] > 0)
        if by_decorator < 40:
            self._soft.append("only %d kinds were ever rejected by the decorator" % by_decorator)

    def extra_coverage(self, tier):
        ev = getattr(self, "_events", [])
        reg = next((e for e in ev if e["act"] == "Registry"), None)
        out = {"per_kind_results": getattr(self, "_per_kind", {}), "coverage_gaps": getattr(self, "_gaps", []),
               "two_message_transactions": getattr(self, "_two", {}), "key_collisions": getattr(self, "_keyed", {}),
               "reimport_and_allowance_kinds": getattr(self, "_reimport", {})}
        if reg:
            urls = {t["url"] for t in reg["table"]}
            out["message_types"] = {"registered_by_paloma_modules": len(reg["reg"]), "served_by_router": len(reg["routed"]),
                                    "urls_in_table": len(urls), "kinds_in_table": len(reg["table"]),
                                    "registered_not_in_table": sorted(set(reg["reg"]) - urls)}
        sus = {}
        for e in ev:
            if e["act"] == "Deliver" and e["args"]["s"] == 1 and e["args"]["c"] == 1 and e.get("suspect", {}).get("B"):
                sus.setdefault(e["args"]["kind"], set()).update(e["suspect"]["B"])
        out["suspect_keys_touching_B_when_A_signs_for_itself"] = {k: sorted(v)[:4] for k, v in sorted(sus.items())}
        return out

    # ---- validation -----------------------------------------------------
    def _raw_validate(self, events):
        """Trace validation split by history into parallel TLC runs; results merged (indices re-based)."""
        wev = self.with_resets(events)
        hs = sorted({e["h"] for e in wev})
        n = min(self.validate_chunks, max(1, len(wev) // 1500))
        if n <= 1:
            return vk.tlc_validate(self.trace_module, wev, cfg=self.trace_cfg)
        bounds = [hs[(len(hs) * i) // n] for i in range(n)] + [None]
        chunks, offs = [], []
        for i in range(n):
            lo, hi = bounds[i], bounds[i + 1]
            idx = [k for k, e in enumerate(wev) if e["h"] >= lo and (hi is None or e["h"] < hi)]
            chunks.append([wev[k] for k in idx])
            offs.append(idx[0])
        with ThreadPoolExecutor(max_workers=n) as ex:
            parts = list(ex.map(lambda c: vk.tlc_validate(self.trace_module, c, cfg=self.trace_cfg), chunks))
        v = vk.Validation()
        v.accepted = all(p.accepted for p in parts)
        v.details = []
        for p, off in zip(parts, offs):
            v.monfail += [(nm, i + off, ev) for nm, i, ev in p.monfail]
            v.conffail += [(nm, i + off, ev) for nm, i, ev in p.conffail]
            v.states += p.states
            v.wall = max(v.wall, p.wall)
            v.details += getattr(p, "details", [])
            if not p.accepted and not hasattr(v, "reject_tail"):
                v.reject_tail = getattr(p, "reject_tail", "")
        v.details = v.details[:8]
        return v

    def validate(self, events):
        t0 = time.time()
        v = self._raw_validate(events)
        if len(events) > 1000:
            vk.log("validate: %d events, %.1fs" % (len(events), time.time() - t0))
        setup = [m for m in v.monfail if m[0].startswith("Setup.")]
        gaps = [m for m in setup if m[0] == "Setup.KindTableComplete"]
        other = [m for m in setup if m[0] != "Setup.KindTableComplete"]
        if v.accepted and other:
            nm, idx, ev = other[0]
            raise vk.Broken("harness set-up monitor %s failed (not a verdict) at trace line %d: %s" %
                            (nm, idx, {k: ev.get(k) for k in ("act", "args", "prep", "idle", "cls", "log")} if ev else None))
        if gaps:
            ev = gaps[0][2]
            self._gaps = sorted(set(ev.get("reg", [])) - {t["url"] for t in ev.get("table", [])}) or ["table and registry differ"]
            vk.log("COVERAGE GAP: message types registered by Paloma modules but not in the kind table:", self._gaps)
            if getattr(self, "_tier", "quick") == "thorough":
                raise vk.Broken("coverage gap: message types without a row in the kind table: %s" % self._gaps)
        v.monfail = [m for m in v.monfail if m[0].startswith("C03.")]
        return v

    def execute(self, tier):
        self._tier = tier
        self._soft = []
        violations, known, cov = super().execute(tier)
        if self._soft and not violations:
            raise vk.Broken("vacuous drive: " + "; ".join(self._soft[:5]))
        cov["vacuity_notes"] = self._soft
        return violations, known, cov

    # ---- known findings -------------------------------------------------
    def match_known(self, finding, failure):
        m = finding.get("match", {})
        alts = m.get("any_of", [m])
        ev = failure["event"] or {}
        a = ev.get("args") or {}
        for alt in alts:
            if not Pipeline.match_known(self, {"match": {k: v for k, v in alt.items() if k != "where"}}, failure):
                continue
            w = alt.get("where", {})
            ok = True
            if "named_is_creator" in w and (a.get("n") == a.get("c")) != w["named_is_creator"]:
                ok = False
            if "signer_is_gov" in w and (a.get("s") == 3) != w["signer_is_gov"]:
                ok = False
            if "grant_seen" in w:      # state of the allowance creator -> signer the transaction saw (0 none, 1 valid, 2 expired)
                g = ev.get("g") or {}
                seen = g.get("ba") if (a.get("c"), a.get("s")) == (2, 1) else g.get("ab") if (a.get("c"), a.get("s")) == (1, 2) else None
                if seen != w["grant_seen"]:
                    ok = False
            if ok:
                return True
        return False

    # ---- binding self-test ----------------------------------------------
    def binding_selftest(self, events, tier):
        byh = {}
        for e in events:
            byh.setdefault(e["h"], []).append(e)

        def find(pred):
            for h, evs in byh.items():
                for k, e in enumerate(evs):
                    if e["act"] == "Deliver" and pred(e, evs):
                        return h, k
            return None, None

        jobs, skipped = {}, []
        # (a sample that the recorded trace does not contain is skipped, not failed: a broken authorisation layer must end
        # in VIOLATION, not in a failed self-test; at least three corruptions must have been tried)
        # 1. an honest delivery (A signs for itself, B untouched): B's recorded projection altered -> NoForeignWrite
        h, k = find(lambda e, evs: e["res"] == "ok" and e["args"]["s"] == 1 and e["args"]["c"] == 1 and e["args"]["n"] == 1
                    and e["args"]["kind"] == "VaKeepAlive" and not any(c.startswith("B.") for c in e["chg"]))
        if h is None:
            skipped.append("altered_foreign_state_noticed")
        else:
            evs = copy.deepcopy(byh[h])
            evs[k]["obs"]["post"]["B"][8] += 7
            jobs["altered_foreign_state_noticed"] = (evs, lambda v: any(n == "C03.NoForeignWrite" for n, _, _ in v.monfail))
        # 2. a delivery in B's name without any grant reported as successful -> GrantNeeded
        h, k = find(lambda e, evs: e["args"]["s"] == 1 and e["args"]["c"] == 2 and e["g"]["ba"] == 0 and e.get("cls") not in ("build", "block"))
        if h is None:
            skipped.append("forged_success_without_grant_noticed")
        else:
            evs = copy.deepcopy(byh[h])
            evs[k]["res"], evs[k]["cs"], evs[k]["code"], evs[k]["cls"] = "ok", "", 0, "ok"
            jobs["forged_success_without_grant_noticed"] = (evs, lambda v: any(n == "C03.GrantNeeded" for n, _, _ in v.monfail))
        # 3. the Grant step dropped from a history whose delivery relied on it -> continuity / GrantNeeded
        h, k = find(lambda e, evs: e["res"] == "ok" and e["args"]["s"] == 1 and e["args"]["c"] == 2 and e["g"]["ba"] == 1
                    and len(evs) == 3 and evs[1]["act"] == "Grant")
        if h is None:
            skipped.append("dropped_grant_noticed")
        else:
            evs = [byh[h][0], byh[h][2]]
            jobs["dropped_grant_noticed"] = (evs, lambda v: (not v.accepted) or any(n in ("Setup.GrantsContinuous", "C03.GrantNeeded") for n, _, _ in v.monfail))
        # 4. a governance-only message of A reported as successful -> GovOnly
        h, k = find(lambda e, evs: e["args"]["kind"] == "SkNonceOverride" and e["args"]["s"] == 1 and e["args"]["c"] == 1)
        if h is None:
            skipped.append("forged_governance_success_noticed")
        else:
            evs = copy.deepcopy(byh[h])
            evs[k]["res"], evs[k]["cs"], evs[k]["code"], evs[k]["cls"] = "ok", "", 0, "ok"
            jobs["forged_governance_success_noticed"] = (evs, lambda v: any(n == "C03.GovOnly" for n, _, _ in v.monfail))
        # 5. a message type missing from the registry event's table -> coverage gap monitor
        h = next((hh for hh, ee in byh.items() if any(e["act"] == "Registry" for e in ee)), None)
        if h is None:
            skipped.append("unlisted_message_type_noticed")
        else:
            evs = copy.deepcopy(byh[h])
            evs[1]["reg"].append("/palomachain.paloma.skyway.MsgBrandNew")
            jobs["unlisted_message_type_noticed"] = (evs, lambda v: any(n == "Setup.KindTableComplete" for n, _, _ in v.monfail))
        # 6. a two-message transaction without any grant reported as successful -> GrantNeeded
        h6 = next(((hh, kk) for hh, ee in byh.items() for kk, e in enumerate(ee)
                   if e["act"] == "Deliver2" and e["g"] == {"ab": 0, "ba": 0} and e.get("cls") not in ("build", "block")), None)
        if h6 is None:
            skipped.append("forged_two_message_success_noticed")
        else:
            evs = copy.deepcopy(byh[h6[0]])
            k = h6[1]
            evs[k]["res"], evs[k]["cs"], evs[k]["code"], evs[k]["cls"] = "ok", "", 0, "ok"
            jobs["forged_two_message_success_noticed"] = (evs, lambda v: any(n == "C03.GrantNeeded" for n, _, _ in v.monfail))
        # 7. the bridge mapping of a handed-over denom altered in the current admin's projection -> NoForeignWrite
        h7 = next(((hh, kk) for hh, ee in byh.items() for kk, e in enumerate(ee)
                   if e["act"] == "Deliver" and e["args"]["kind"] == "SkSetERC20ToTokenDenomHanded" and e["args"]["s"] == 1
                   and e["args"]["c"] == 1 and e["args"]["n"] == 2 and e["res"] == "fail"), None)
        if h7 is None:
            skipped.append("altered_handed_over_mapping_noticed")
        else:
            evs = copy.deepcopy(byh[h7[0]])
            evs[h7[1]]["obs"]["post"]["B"][17] += 9      # component erc20 of the current admin B
            jobs["altered_handed_over_mapping_noticed"] = (evs, lambda v: any(n == "C03.NoForeignWrite" for n, _, _ in v.monfail))
        # 8. a job-id collision (A's CreateJob with a case variant of B's job id): B's job altered in the record -> NoForeignWrite
        h8 = next(((hh, kk) for hh, ee in byh.items() for kk, e in enumerate(ee)
                   if e["act"] == "DeliverK" and e["args"] == {"kind": "ScCreateJob", "s": 1, "c": 1, "n": 2, "v": "case"}), None)
        if h8 is None:
            skipped.append("overwritten_colliding_object_noticed")
        else:
            evs = copy.deepcopy(byh[h8[0]])
            evs[h8[1]]["obs"]["post"]["B"][13] += 9      # component jobs of B
            jobs["overwritten_colliding_object_noticed"] = (evs, lambda v: any(n == "C03.NoForeignWrite" for n, _, _ in v.monfail))
        # 9. a genesis round trip after which B's recorded denoms differ -> NoForeignWrite
        h9 = next(((hh, kk) for hh, ee in byh.items() for kk, e in enumerate(ee)
                   if e["act"] == "Reimport" and e["res"] == "ok" and e["args"]["kind"] == "TfMintHanded"), None)
        if h9 is None:
            skipped.append("state_lost_in_reimport_noticed")
        else:
            evs = copy.deepcopy(byh[h9[0]])
            evs[h9[1]]["obs"]["post"]["B"][15] += 9      # component denoms of B
            jobs["state_lost_in_reimport_noticed"] = (evs, lambda v: any(n == "C03.NoForeignWrite" for n, _, _ in v.monfail))
        # 10. a delivery on an expired periodic allowance reported as successful -> GrantNeeded
        h10 = next(((hh, kk) for hh, ee in byh.items() for kk, e in enumerate(ee)
                    if e["act"] == "Deliver" and kk >= 1 and ee[kk - 1]["act"] == "GrantExp" and ee[kk - 1]["args"]["ak"] == "periodic"
                    and e["g"]["ba"] == 2), None)
        if h10 is None:
            skipped.append("forged_success_on_expired_periodic_noticed")
        else:
            evs = copy.deepcopy(byh[h10[0]])
            k = h10[1]
            evs[k]["res"], evs[k]["cs"], evs[k]["code"], evs[k]["cls"] = "ok", "", 0, "ok"
            jobs["forged_success_on_expired_periodic_noticed"] = (evs, lambda v: any(n == "C03.GrantNeeded" for n, _, _ in v.monfail))
        if len(jobs) < 3:
            return {"ok": False, "why": "samples missing in the recorded trace: %s" % skipped}
        t0 = time.time()
        with ThreadPoolExecutor(max_workers=len(jobs)) as ex:
            vs = dict(zip(jobs, ex.map(lambda j: vk.tlc_validate(self.trace_module, self.with_resets(j[0]), cfg=self.trace_cfg), jobs.values())))
        out = {name: bool(jobs[name][1](vs[name])) for name in jobs}
        vk.log("binding self-test: %.1fs" % (time.time() - t0))
        out["ok"] = all(out.values())
        out["skipped"] = skipped
        return out


CHECK = C03()
