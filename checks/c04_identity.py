"""C04 evidence identity ("byte-identical evidence"): SignBinding.tla, family C04.

Not a registered check: checks/c04.py calls  run_identity(tier)  and folds the result into C04's verdict/evidence.
`differs` is decided by the REAL util/libcons.VerifyEvidence (two validators with one share each submit the two proofs of
an obligation: they are pooled iff consensus is reached), cross-checked against BytesToHash().

    run_identity(tier) -> {"obligations": n, "failures": [...], "events": [...], "states":.., "transitions":.., "drift": {...}}

failures: list of {"name": monitor, "idx":.., "event": recorded event, "h": history index}; monitor names are
C04.EvidenceIdentity, C04.FieldTableComplete, C04.KindTableComplete and Setup.*.  Known findings are NOT filtered here
(the caller classifies with vk.classify(pid, failures, Pipeline.match_known) against known_findings.json, where the
entries of property C04 match on name + args.kind/fields/mode)."""
import sys
from pipeline import Pipeline, Gen
from signbinding import SignBindingBase
import verifkit as vk


class C04Identity(SignBindingBase):
    pid = "C04"
    family = "C04"
    prefixes = ("C04.",)
    gens = [Gen("SignBindingGen", "SignBindingGen_c04", "bfs", tiers=("quick", "thorough"))]


IDENTITY = C04Identity()


def run_identity(tier="quick"):
    p = IDENTITY
    states = transitions = 0
    for module, cfg, tiers in p.mc:
        if tier in tiers:
            r = vk.tlc_mc(module, cfg)
            states += r.distinct
            transitions += r.generated
    hs = []
    for g in p.gens:
        if tier in g.tiers:
            hs += vk.tlc_generate(g.module, g.cfg, mode=g.mode, num=g.num, depth=g.depth, timeout=g.timeout)
    if len(hs) < 10:
        raise vk.Broken("only %d evidence-identity obligations generated" % len(hs))
    events = p.drive(hs)
    p.post_drive(events, tier)
    v = p.validate(events)
    if not v.accepted:
        raise vk.Broken("trace rejected by %s:\n%s" % (p.trace_module, getattr(v, "reject_tail", "")))
    st = p.binding_selftest(events, tier)
    if not st.get("ok"):
        raise vk.Broken("evidence identity binding self-test failed: %s" % st)
    failures = [{"name": n, "idx": i, "event": e, "h": e["h"] if e else None} for n, i, e in v.monfail]
    drift = {}
    for n, i, e in v.conffail:
        drift[n] = drift.get(n, 0) + 1
    return {"obligations": sum(1 for e in events if e["act"] == "Check"), "failures": failures, "events": events,
            "histories": hs, "states": states, "transitions": transitions, "drift": drift, "selftest": st,
            "details": getattr(v, "details", [])}


if __name__ == "__main__":
    r = run_identity(sys.argv[1] if len(sys.argv) > 1 else "quick")
    print("obligations", r["obligations"], "failures", len(r["failures"]))
    for f in r["failures"]:
        print(f["name"], f["event"]["args"], f["event"].get("detail", ""))
