#!/bin/bash
# usage: run.sh <module> <cfg> [extra tlc args]   (scratch helper, removed at the end)
set -e
D=/verif/.work/run-$$
rm -rf $D; mkdir -p $D/tmp
cp /verif/specs/*.tla /verif/specs/mc/* /verif/specs/gen/* /verif/specs/trace/* $D/ 2>/dev/null || true
for f in /verif/.work/*.ndjson; do [ -f "$f" ] && cp $f $D/; done
cd $D
M=$1; C=$2; shift; shift
timeout ${TMO:-180} java -XX:+UseParallelGC -Xss64m -Djava.io.tmpdir=$D/tmp -cp /opt/veriftools/tla/tla2tools.jar:/opt/veriftools/tla/CommunityModules-deps.jar tlc2.TLC -metadir $D/meta -workers ${W:-8} -config $C.cfg "$@" $M.tla > $D/out.txt 2>&1 || true
cp $D/out.txt /verif/.work/last.txt
cd /; rm -rf $D
