import sys, time
sys.path.insert(0, '/verif/checks')
import verifkit as vk
mod, cfg = sys.argv[1], sys.argv[2]
workers = int(sys.argv[3]) if len(sys.argv) > 3 else 8
to = int(sys.argv[4]) if len(sys.argv) > 4 else 170
try:
    r = vk.tlc(mod, cfg, workers=workers, timeout=to)
    lines = r.out.splitlines()
    print("\n".join(lines[-int(sys.argv[5]) if len(sys.argv) > 5 else -25:]))
    print("wall %.1fs" % r.wall)
except vk.Broken as e:
    print("BROKEN", e)
