import sys,os,json,time
sys.path.insert(0,'/verif/checks')
os.makedirs('/verif/.vs_scratch',exist_ok=True)
os.environ['VERIF_SCRATCH_BASE']='/verif/.vs_scratch'
import verifkit as vk, c10
rs=[json.loads(l) for l in open('/verif/.vs_scratch/samples.ndjson')]
ok=[r for r in rs if not r['panic']]
n=int(sys.argv[1])
t=time.time()
print(c10.CHECK.apalache(ok[:n]), round(time.time()-t,1))
