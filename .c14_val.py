import sys, json, time, collections
sys.path.insert(0, '/verif/checks')
import verifkit as vk
d = json.load(open(sys.argv[1]))
ev = d['ev']
t0 = time.time()
v = vk.tlc_validate('RelayGateTrace', ev, cfg='RelayGateTrace')
print("accepted", v.accepted, "states", v.states, "%.1fs" % (time.time() - t0))
print("monfail", collections.Counter(n for n, _, _ in v.monfail))
print("conffail", collections.Counter(n for n, _, _ in v.conffail))
for x in v.details[:3]: print(x[:1200])
if not v.accepted: print(v.reject_tail)
for n, i, e in (v.monfail + v.conffail)[:4]:
    print(n, i, json.dumps({k: e[k] for k in e if k != 'obs'}))
