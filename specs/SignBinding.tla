----------------------------- MODULE SignBinding -----------------------------
(***************************************************************************)
(* "The digest binds every field" for the pure encodings of Paloma:        *)
(*                                                                         *)
(*  C05  what validators sign for a queued cross-chain message             *)
(*       (x/evm/types/turnstone_abi.go, QueuedSignedMessage.GetBytesToSign)*)
(*       and for a bridge batch (x/skyway/types/batch.go GetCheckpoint);   *)
(*  C11  the key under which bridge claims are pooled                      *)
(*       (store prefix = chain, attestation key = nonce ++ ClaimHash);     *)
(*  C04  the evidence identity util/libcons groups proofs by               *)
(*       (sha256(BytesToHash()), four proof types).                        *)
(*                                                                         *)
(* TLA+ holds the field tables and the complete perturbation lattice;      *)
(* the real functions are evaluated on every lattice point by              *)
(* harness/drivers/signbinding and judged by specs/trace/SignBindingTrace. *)
(*                                                                         *)
(* Tables (CONSTANT-free operators), per kind k of item:                   *)
(*   Fields(k)   every field of the item (proto names, nested messages     *)
(*               flattened with ".", expanded repeated messages "[]",      *)
(*               "@x" = value handed to the digest function as argument);  *)
(*   Required(k) fields the property says must influence the digest;       *)
(*   Bound(k)    fields the digest covers in the code AS IT SHOULD BE;     *)
(*   FreeText(k) fields whose values are unvalidated strings / bytes;      *)
(*   JoinOrder(k) / Adjacent(k) the order in which values are joined where *)
(*               the digest input is a plain join, and the neighbours;     *)
(*   ShiftSets(k) the runs of neighbours over which a boundary can be      *)
(*               moved using only values the fields admit.                 *)
(***************************************************************************)
EXTENDS Integers, Sequences, FiniteSets, TLC

-----------------------------------------------------------------------------
(* Kinds *)
KindsC05 == {"SubmitLogicCall", "UpdateValset", "CompassHandover",
             "UploadUserSmartContract", "UploadSmartContract", "OutgoingTxBatch"}
KindsC11 == {"MsgSendToPalomaClaim", "MsgBatchSendToRemoteClaim",
             "MsgLightNodeSaleClaim", "MsgBatchSendToEthClaim"}
KindsC04 == {"TxExecutedProof", "SmartContractExecutionErrorProof",
             "ValidatorBalancesAttestationRes", "ReferenceBlockAttestationRes"}
Kinds    == KindsC05 \cup KindsC11 \cup KindsC04
Families == {"C05", "C11", "C04"}
KindsOf(f) == CASE f = "C05" -> KindsC05 [] f = "C11" -> KindsC11 [] f = "C04" -> KindsC04
FamilyOf(k) == CASE k \in KindsC05 -> "C05" [] k \in KindsC11 -> "C11" [] OTHER -> "C04"

-----------------------------------------------------------------------------
(* Field tables *)

\* consensus.QueuedSignedMessage (the envelope) and evm.Message (the packed msg)
QsmFields == {"id", "addedAtBlockHeight", "addedAt", "signData", "evidence",
              "publicAccessData.valAddress", "publicAccessData.data", "publicAccessData.valsetID",
              "requireSignatures", "errorData.valAddress", "errorData.data",
              "handled_at_block_height", "gasEstimates", "flagMask", "gasEstimate"}
MsgFields == {"msg.turnstoneID", "msg.chainReferenceID", "msg.compassAddr", "msg.assignee",
              "msg.assigned_at_block_height", "msg.assigneeRemoteAddress"}

Pre(p, S) == {p \o s : s \in S}

ClaimMeta == {"orchestrator", "metadata.creator", "metadata.signers", "event_nonce"}

Fields(k) ==
  CASE k = "SubmitLogicCall" ->
         QsmFields \cup MsgFields \cup Pre("msg.submitLogicCall.",
           {"hexContractAddress", "abi", "payload", "deadline", "senderAddress", "contractAddress",
            "executionRequirements.enforceMEVRelay", "retries",
            "fees.relayerFee", "fees.communityFee", "fees.securityFee"})
    [] k = "UpdateValset" ->
         QsmFields \cup MsgFields \cup Pre("msg.updateValset.valset.", {"validators", "powers", "valsetID"})
    [] k = "CompassHandover" ->
         QsmFields \cup MsgFields \cup Pre("msg.compassHandover.",
           {"forwardCallArgs[].hexContractAddress", "forwardCallArgs[].payload", "deadline", "id"})
    [] k = "UploadUserSmartContract" ->
         QsmFields \cup MsgFields \cup Pre("msg.uploadUserSmartContract.",
           {"bytecode", "deployerAddress", "deadline", "senderAddress", "blockHeight", "id", "retries",
            "fees.relayerFee", "fees.communityFee", "fees.securityFee"})
    [] k = "UploadSmartContract" ->
         QsmFields \cup MsgFields \cup Pre("msg.uploadSmartContract.",
           {"bytecode", "abi", "constructorInput", "id", "retries"})
    [] k = "OutgoingTxBatch" ->
         {"batch_nonce", "batch_timeout", "token_contract", "paloma_block_created", "chain_reference_id",
          "bytes_to_sign", "assignee", "gas_estimate", "assignee_remote_address", "@turnstoneID",
          "transactions[].id", "transactions[].sender", "transactions[].dest_address",
          "transactions[].erc20_token.contract", "transactions[].erc20_token.amount",
          "transactions[].erc20_token.chain_reference_id", "transactions[].bridge_tax_amount"}
    [] k = "MsgSendToPalomaClaim" ->
         ClaimMeta \cup {"skyway_nonce", "eth_block_height", "token_contract", "amount",
                         "ethereum_sender", "paloma_receiver", "chain_reference_id", "compass_id"}
    [] k = "MsgBatchSendToRemoteClaim" ->
         ClaimMeta \cup {"skyway_nonce", "eth_block_height", "batch_nonce", "token_contract",
                         "chain_reference_id", "compass_id"}
    [] k = "MsgLightNodeSaleClaim" ->
         ClaimMeta \cup {"skyway_nonce", "eth_block_height", "client_address", "amount",
                         "smart_contract_address", "chain_reference_id", "compass_id"}
    [] k = "MsgBatchSendToEthClaim" ->     \* legacy claim type, still a registered EthereumClaim; has no compass id
         ClaimMeta \cup {"skyway_nonce", "eth_block_height", "batch_nonce", "token_contract",
                         "chain_reference_id"}
    [] k = "TxExecutedProof" -> {"serializedTX", "serializedReceipt"}
    [] k = "SmartContractExecutionErrorProof" -> {"errorMessage"}
    [] k = "ValidatorBalancesAttestationRes" -> {"blockHeight", "balances"}
    [] k = "ReferenceBlockAttestationRes" -> {"blockHeight", "blockHash"}

\* voter identity and transaction metadata (C11: excluded by the property)
Excluded(k) == IF k \in KindsC11 THEN ClaimMeta ELSE {}

(***************************************************************************)
(* Required: C05 = every value the remote contract is handed on delivery   *)
(* (VerifyAgainstTX in x/evm/types/eth_txable.go re-encodes exactly these; *)
(* batch_call for batches) plus the deployment id where the contract's     *)
(* signing scheme has it (logic_call, deploy_contract, checkpoint,         *)
(* batch_call; compass_update_batch has none).  UploadSmartContract is a   *)
(* plain contract creation (no signatures handed to a contract): reference *)
(* only.  C11 = every field but Excluded.  C04 = every field an attester   *)
(* reads from the winning proof.                                           *)
(***************************************************************************)
Required(k) ==
  CASE k = "SubmitLogicCall" ->
         {"id", "msg.turnstoneID", "msg.assigneeRemoteAddress"} \cup Pre("msg.submitLogicCall.",
           {"hexContractAddress", "payload", "deadline", "senderAddress",
            "fees.relayerFee", "fees.communityFee", "fees.securityFee"})
    [] k = "UpdateValset" ->
         {"gasEstimate", "msg.turnstoneID", "msg.assigneeRemoteAddress"} \cup
         Pre("msg.updateValset.valset.", {"validators", "powers", "valsetID"})
    [] k = "CompassHandover" ->
         {"gasEstimate", "msg.assigneeRemoteAddress"} \cup Pre("msg.compassHandover.",
           {"forwardCallArgs[].hexContractAddress", "forwardCallArgs[].payload", "deadline"})
    [] k = "UploadUserSmartContract" ->
         {"id", "msg.turnstoneID", "msg.assigneeRemoteAddress"} \cup Pre("msg.uploadUserSmartContract.",
           {"bytecode", "deployerAddress", "deadline", "senderAddress",
            "fees.relayerFee", "fees.communityFee", "fees.securityFee"})
    [] k = "UploadSmartContract" -> {"id", "msg.uploadSmartContract.bytecode"}
    [] k = "OutgoingTxBatch" ->
         {"token_contract", "transactions[].dest_address", "transactions[].erc20_token.amount",
          "batch_nonce", "batch_timeout", "assignee_remote_address", "gas_estimate", "@turnstoneID"}
    [] k \in KindsC11 -> Fields(k) \ Excluded(k)
    [] k = "TxExecutedProof" -> {"serializedTX", "serializedReceipt"}
    [] k = "SmartContractExecutionErrorProof" -> {"errorMessage"}
    [] k = "ValidatorBalancesAttestationRes" -> {"balances"}
    [] k = "ReferenceBlockAttestationRes" -> {"blockHeight", "blockHash"}

\* the model of the code as it should be: the digest covers what is required
\* (and, for balances, the height the answer was taken at)
Bound(k) ==
  CASE k = "ValidatorBalancesAttestationRes" -> {"blockHeight", "balances"}
    [] OTHER -> Required(k)

\* values that are not validated before they reach the digest and may contain any character
FreeText(k) ==
  CASE k = "MsgSendToPalomaClaim"      -> {"paloma_receiver", "compass_id", "chain_reference_id"}
    [] k = "MsgBatchSendToRemoteClaim" -> {"compass_id", "chain_reference_id"}
    [] k = "MsgLightNodeSaleClaim"     -> {"client_address", "smart_contract_address", "compass_id", "chain_reference_id"}
    [] k = "MsgBatchSendToEthClaim"    -> {"chain_reference_id"}
    [] k = "SmartContractExecutionErrorProof" -> {"errorMessage"}
    [] k = "ValidatorBalancesAttestationRes"  -> {"balances"}
    [] k = "ReferenceBlockAttestationRes"     -> {"blockHash"}
    [] OTHER -> {}      \* ABI encodings and RLP are self-delimiting; addresses are fixed width

\* the order in which the fields are joined into the digest input where the encoding is (or was, before it was
\* made unambiguous) a plain join of the values; <<>> for ABI / RLP encodings
JoinOrder(k) ==
  CASE k = "MsgSendToPalomaClaim" ->
         <<"skyway_nonce", "eth_block_height", "token_contract", "amount", "ethereum_sender", "paloma_receiver", "compass_id">>
    [] k = "MsgBatchSendToRemoteClaim" ->
         <<"skyway_nonce", "eth_block_height", "batch_nonce", "token_contract", "compass_id">>
    [] k = "MsgLightNodeSaleClaim" ->
         <<"skyway_nonce", "eth_block_height", "client_address", "amount", "smart_contract_address", "compass_id">>
    [] k = "MsgBatchSendToEthClaim" ->
         <<"skyway_nonce", "eth_block_height", "batch_nonce", "token_contract">>
    [] k = "ValidatorBalancesAttestationRes" -> <<"blockHeight", "balances">>
    [] k = "ReferenceBlockAttestationRes"    -> <<"blockHeight", "blockHash">>
    [] k = "TxExecutedProof"                 -> <<"serializedTX", "serializedReceipt">>
    [] OTHER -> <<>>

\* repeated fields: their elements are neighbours of each other
Repeated(k) == IF k = "ValidatorBalancesAttestationRes" THEN {"balances"} ELSE {}

\* pairs of fields that are concatenated next to each other
Adjacent(k) ==
  LET J == JoinOrder(k) IN
    {<<J[i], J[i + 1]>> : i \in 1..(Len(J) - 1)} \cup {<<f, f>> : f \in Repeated(k)}

\* digits-only fields: they cannot carry a separator themselves but can be re-cut out of a neighbour
Numeric(k) == {"skyway_nonce", "eth_block_height", "batch_nonce", "amount", "blockHeight"} \cap Fields(k)

(***************************************************************************)
(* A boundary can be moved over a run of neighbours J[i..j] (i < j) iff    *)
(* both ends can absorb / give up characters and everything in between can *)
(* be re-cut: the run starts and ends in a free-text field and every inner *)
(* field is numeric or free text.  Further: a numeric field joined WITHOUT *)
(* separator to a free-text one, and the elements of a repeated free-text  *)
(* field.  ("x/y","z") ~ ("x","y/z");  ("c/5",7,"z") ~ ("c",5,"7/z");      *)
(* (12,"0ab") ~ (120,"ab").                                                *)
(***************************************************************************)
NoSeparator(k) == k = "ReferenceBlockAttestationRes"
ShiftSets(k) ==
  LET J == JoinOrder(k)
      Runs == {<<i, j>> \in (1..Len(J)) \X (1..Len(J)) :
                 /\ i < j
                 /\ J[i] \in FreeText(k) /\ J[j] \in FreeText(k)
                 /\ \A x \in (i + 1)..(j - 1) : J[x] \in FreeText(k) \cup Numeric(k)}
      NF == {p \in Adjacent(k) : NoSeparator(k) /\ p[1] \in Numeric(k) /\ p[2] \in FreeText(k)}
  IN  {{J[x] : x \in r[1]..r[2]} : r \in Runs}
      \cup {{p[1], p[2]} : p \in NF}
      \cup {{f} : f \in Repeated(k) \cap FreeText(k)}

(***************************************************************************)
(* Value classes.  Besides "a second distinct value" some fields have      *)
(* classes of values that an encoder may wrongly identify:                 *)
(*  TextFields(k)    strings of a claim: a pair differing ONLY in letter   *)
(*                   case ("case") and a pair differing ONLY by leading /  *)
(*                   trailing whitespace ("space") are different claims    *)
(*                   (a mixed-case or padded bech32 receiver is            *)
(*                   undecodable -> community pool) and must not be pooled;*)
(*  Bytes32Fields(k) byte strings delivered left-padded to 32 bytes (the   *)
(*                   fee payer, eth_txable.go): values differing only      *)
(*                   after byte 20 ("tail"), only in the first 12 bytes    *)
(*                   ("head") and values shorter than 20 bytes ("short")   *)
(*                   are delivered differently and must sign differently.  *)
(***************************************************************************)
TextNames == {"paloma_receiver", "ethereum_sender", "token_contract", "client_address",
              "smart_contract_address", "compass_id", "chain_reference_id"}
TextFields(k) == IF k \in KindsC11 THEN Required(k) \cap TextNames ELSE {}
Bytes32Fields(k) ==
  CASE k = "SubmitLogicCall"         -> {"msg.submitLogicCall.senderAddress"}
    [] k = "UploadUserSmartContract" -> {"msg.uploadUserSmartContract.senderAddress"}
    [] OTHER -> {}
TextModes  == {"case", "space"}
BytesModes == {"tail", "head", "short"}

(***************************************************************************)
(* Values that a join which "cleans" its input like a file path            *)
(* (path.Join: drops empty elements, removes "." segments, resolves "..",  *)
(* collapses "//", strips a trailing "/") would identify.  Per free-text   *)
(* field: "dot" v ~ ./v ~ v/. ; "trail" v ~ v/ ~ /v ; "dotdot" v ~ x/../v ; *)
(* "dslash" a/b ~ a//b.  Per pair of neighbouring free-text fields (and    *)
(* per repeated free-text field) "empty": an element that is empty while   *)
(* its content sits in the neighbour: ("",v) ~ (v,""), (v,w) ~ ("",v/w).   *)
(* All of these are different items with different effect and must keep    *)
(* different digests.                                                      *)
(***************************************************************************)
PathModes == {"dot", "trail", "dotdot", "dslash"}
PathFields(k) == IF k \in KindsC11 THEN TextFields(k) ELSE IF k \in KindsC04 THEN FreeText(k) ELSE {}
EmptySets(k) ==
  IF k \in KindsC11 \cup KindsC04
  THEN {{p[1], p[2]} : p \in {q \in Adjacent(k) : q[1] \in FreeText(k) /\ q[2] \in FreeText(k)}}
  ELSE {}
ClassModes == TextModes \cup BytesModes \cup PathModes \cup {"empty"}

(***************************************************************************)
(* History prefixes.  Pooling is decided by state, so obligations are also *)
(* evaluated after a history: "subst-redeploy" = a claim c0 was observed   *)
(* at nonce n under bridge deployment d1, the bridge was re-deployed as d2 *)
(* (evm.ActivateChainReferenceID: skyway resets its nonces, c0's observed  *)
(* attestation stays in the store), then the pair (a, b) re-uses nonce n:  *)
(* a differs from c0 (deployment id, height), b differs from a in the      *)
(* obligation's fields.  Votes for a and b must each sit on an attestation *)
(* whose stored body is exactly their claim, never on c0's.                *)
(* The legacy claim type has no deployment id and is never tallied once a  *)
(* deployment id is recorded.                                              *)
(***************************************************************************)
RedeployKinds == KindsC11 \ {"MsgBatchSendToEthClaim"}
RedeploySets(k) == IF k \in RedeployKinds THEN {{x} : x \in Required(k)} \cup {Required(k)} ELSE {}

-----------------------------------------------------------------------------
(* Obligations *)
SubstSets(k) == {F \in SUBSET Required(k) : F # {} /\ Cardinality(F) <= 2} \cup ({Required(k)} \ {{}})

CrossPairs == {P \in SUBSET KindsC04 : Cardinality(P) = 2}

OblOf(f) ==
  UNION {{[kind |-> k, fields |-> F, mode |-> "subst"] : F \in SubstSets(k)} : k \in KindsOf(f)}
  \cup UNION {{[kind |-> k, fields |-> F, mode |-> "shift"] : F \in ShiftSets(k)} : k \in KindsOf(f)}
  \cup UNION {{[kind |-> k, fields |-> {x}, mode |-> m] : x \in TextFields(k), m \in TextModes} : k \in KindsOf(f)}
  \cup UNION {{[kind |-> k, fields |-> {x}, mode |-> m] : x \in Bytes32Fields(k), m \in BytesModes} : k \in KindsOf(f)}
  \cup UNION {{[kind |-> k, fields |-> {x}, mode |-> m] : x \in PathFields(k), m \in PathModes \ {"dslash"}} : k \in KindsOf(f)}
     \* both values of a "dslash" pair contain a '/': only meaningful where such a value is admitted at all
  \cup UNION {{[kind |-> k, fields |-> {x}, mode |-> "dslash"] : x \in PathFields(k) \cap FreeText(k)} : k \in KindsOf(f)}
  \cup UNION {{[kind |-> k, fields |-> F, mode |-> "empty"] : F \in EmptySets(k)} : k \in KindsOf(f)}
  \cup UNION {{[kind |-> k, fields |-> F, mode |-> "subst-redeploy"] : F \in RedeploySets(k)} : k \in KindsOf(f)}
  \cup (IF f = "C04" THEN {[kind |-> "ProofType", fields |-> P, mode |-> "cross"] : P \in CrossPairs} ELSE {})

Obl == UNION {OblOf(f) : f \in Families}

SurveyOf(f) == [kind |-> f, fields |-> {}, mode |-> "survey"]
NoObl == [kind |-> "-", fields |-> {}, mode |-> "none"]

(***************************************************************************)
(* Binds(o): the digest of the code as it should be separates the two      *)
(* items of the obligation.                                                *)
(*  subst: some substituted field is covered;                              *)
(*  shift: the fields are covered and the encoding delimits them           *)
(*         (length prefix / ABI / escaping): in the model every encoding   *)
(*         is delimited;                                                   *)
(*  cross: the evidence identity carries the proof type;                   *)
(*  case / space / tail / head / short / dot / trail / dotdot / dslash /    *)
(*  empty: the fields are covered raw, each in its own place.              *)
(***************************************************************************)
Delimited(k) == TRUE
TypeTagged   == TRUE
Binds(o) ==
  CASE o.mode \in {"subst", "subst-redeploy"} -> o.fields \cap Bound(o.kind) # {}   \* (history does not change what the digest covers)
    [] o.mode = "shift" -> o.fields \subseteq Bound(o.kind) /\ Delimited(o.kind)
    [] o.mode = "cross" -> TypeTagged
    [] o.mode \in ClassModes -> o.fields \subseteq Bound(o.kind) /\ Delimited(o.kind)  \* the digest covers the raw values, unnormalised, in full, each in its place
    [] OTHER -> TRUE

-----------------------------------------------------------------------------
(* State machine: a plain enumeration of the obligations *)
VARIABLE cur
vars == <<cur>>

Init == cur = NoObl
Check(o) == cur' = o
Survey(f) == cur' = SurveyOf(f)
Next == (\E o \in Obl : Check(o)) \/ (\E f \in Families : Survey(f))
Spec == Init /\ [][Next]_vars

-----------------------------------------------------------------------------
(* Properties of the table / design *)
TableOK ==
  \A k \in Kinds :
    /\ Required(k) \subseteq Fields(k)
    /\ Bound(k) \subseteq Fields(k)
    /\ FreeText(k) \subseteq Fields(k)
    /\ Excluded(k) \subseteq Fields(k)
    /\ Required(k) \cap Excluded(k) = {}
    /\ \A p \in Adjacent(k) : p[1] \in Fields(k) /\ p[2] \in Fields(k)
    /\ \A S \in ShiftSets(k) : S \subseteq Required(k)
    /\ TextFields(k) \subseteq Required(k) /\ Bytes32Fields(k) \subseteq Required(k)
    /\ PathFields(k) \subseteq Required(k) /\ \A S \in EmptySets(k) : S \subseteq Required(k)
    /\ (k \in KindsC11 => FreeText(k) \subseteq TextFields(k))
    /\ Required(k) # {}

\* C11 quantifies over every field other than voter identity and tx metadata
C11AllFields == \A k \in KindsC11 : Required(k) = Fields(k) \ Excluded(k)

\* every required field is bound, alone and in combination; every boundary is delimited
Binding == cur.mode \in {"subst", "subst-redeploy", "shift", "cross"} \cup ClassModes => Binds(cur)
AllBind == \A o \in Obl : Binds(o)

TypeOK == cur = NoObl \/ cur \in Obl \/ \E f \in Families : cur = SurveyOf(f)
=============================================================================
