-------------------------------- MODULE Auth --------------------------------
(***************************************************************************)
(* Property C03: only the principal (or governance) changes state held in  *)
(* its name.                                                                *)
(*                                                                         *)
(* One transaction of the Paloma chain as the authorisation layers see it: *)
(*   sdk ante chain (signature of every address in Metadata.Signers; for    *)
(*   the three MsgUpdateParams the signer is the `authority` field),        *)
(*   x/paloma VerifyAuthorisedSignatureDecorator (Metadata.Creator must be  *)
(*   a signer or must have fee-granted a signer),                           *)
(*   message router, msg server (acts for Metadata.Creator; governance-only *)
(*   messages compare creator / authority with the x/gov module account).   *)
(* A message executed by x/gov (a passed proposal) does not run the ante    *)
(* chain: x/gov requires its own address as the message's signer.           *)
(*                                                                         *)
(* Principals: A, B (both a bonded validator and a plain user) and Gov (the *)
(* governance authority).  `grants` is the fee-grant relation between A and *)
(* B as the NEXT transaction will see it ("expired": still stored, past its *)
(* expiration - the fee-grant end blocker removes it at the end of that     *)
(* block).  `owned[p][k]` is a version counter of the state attributed to   *)
(* principal p that message kind k writes.                                  *)
(*                                                                         *)
(* KindTable has one row per message kind the driver builds; every sdk.Msg  *)
(* type registered by the Paloma modules is the url of at least one row     *)
(* (cross-checked against the application's interface registry and message  *)
(* router by the trace specification, monitors Setup.KindTable...).        *)
(* The model is the system AS IT IS MEANT TO WORK: a handler that acts for  *)
(* an in-body address accepts only if that address is the creator.          *)
(***************************************************************************)
EXTENDS Integers, Sequences, FiniteSets, TLC

CONSTANTS MaxOps

A   == 1
B   == 2
Gov == 3
P       == {A, B, Gov}
Users   == {A, B}
Pairs   == {<<A, B>>, <<B, A>>}          \* <<granter, grantee>>
GStates == {"none", "active", "revoked", "expired"}

\* Components of the state attributed to a principal (order = order of the driver's projection)
Comps == <<"votes", "nonce", "bconf", "best", "sigs", "evid", "gest", "pad", "alive", "ext", "fee", "val",
           "xfers", "jobs", "usc", "denoms", "lnode", "erc20", "bal", "acct",
           "params", "chains", "compass", "deploy", "bridge", "observed", "replen", "lnset", "dmeta">>
CompSet == {Comps[i] : i \in DOMAIN Comps}
(* Components the genesis export of their module does NOT carry on the examined tree (observed with the Reimport perturbation *)
(* on the unchanged tree and reported): x/valset exports parameters and pigeon requirements only (keep-alives, external chain  *)
(* accounts are re-registered by the pigeons), x/consensus exports no queue (signatures, evidence, gas estimates, public-access  *)
(* and error data of queued messages), x/evm exports neither user smart contracts nor the complete chain info, x/scheduler      *)
(* exports parameters only (jobs), and x/tokenfactory InitGenesis re-creates the bank metadata of every factory denom (metadata  *)
(* set by the admin is reset).  Reimport is compared on all other components.                                                    *)
NotInGenesis == {"alive", "ext", "sigs", "evid", "gest", "pad", "usc", "jobs", "chains", "dmeta"}
GovComps == {"params", "chains", "compass", "deploy", "bridge", "observed", "replen", "lnset"}

(* A row: kind      the driver's name of the tuple class                                             *)
(*        url       type URL of the sdk.Msg                                                           *)
(*        routed    the message router serves it                                                      *)
(*        gov       governance-only (as meant)                                                        *)
(*        auth      "none" | "field" (in-body authority, must equal creator and x/gov)                *)
(*                  | "signer" (authority IS the transaction signer) | "signerc" (same, and must      *)
(*                  equal the creator)                                                                *)
(*        target    "none" | "field" (an in-body field names the principal) | "object" (the body      *)
(*                  refers to an object owned by the named principal)                                 *)
(*        self      succeeds only if the named principal is the creator                               *)
(*        carrier   carries the named validator's own external-chain signature over the exact item:   *)
(*                  writes the named validator's state (the one exception of the property)            *)
(*        never     rejected for every principal that exists on the chain                             *)
(*        wr        components of the writer's state the kind may change (besides acct / bal)         *)
(* Kinds named ...Handed refer to an object whose ownership was handed over: the factory denom         *)
(* factory/<X>/sh whose admin role X gave to the named principal (MsgChangeAdmin); the creator baked    *)
(* into the identifier is NOT the owner any more - the named principal (current admin) is.              *)
R(kind, url, routed, gov, auth, target, self, carrier, never, wr) ==
  [kind |-> kind, url |-> url, routed |-> routed, gov |-> gov, auth |-> auth, target |-> target,
   self |-> self, carrier |-> carrier, never |-> never, wr |-> wr]
T == TRUE
F == FALSE
Sk(x) == "/palomachain.paloma.skyway." \o x
Co(x) == "/palomachain.paloma.consensus." \o x
Ev(x) == "/palomachain.paloma.evm." \o x
Pa(x) == "/palomachain.paloma.paloma." \o x
Tf(x) == "/palomachain.paloma.tokenfactory." \o x
Sc(x) == "/palomachain.paloma.scheduler." \o x
Va(x) == "/palomachain.paloma.valset." \o x
Tr(x) == "/palomachain.paloma.treasury." \o x

Rows == <<
  \*  kind                              url                                          routed gov auth      target    self carr never wr
  R("SkSendToRemote",                   Sk("MsgSendToRemote"),                        T, F, "none",    "none",   F, F, F, {"xfers"}),
  R("SkConfirmBatch",                   Sk("MsgConfirmBatch"),                        T, F, "none",    "field",  F, T, F, {"bconf"}),
  R("SkConfirmBatchForged",             Sk("MsgConfirmBatch"),                        T, F, "none",    "field",  T, F, F, {"bconf"}),
  R("SkEstimateBatchGas",               Sk("MsgEstimateBatchGas"),                    T, F, "none",    "field",  F, F, F, {"best"}),
  R("SkSendToPalomaClaim",              Sk("MsgSendToPalomaClaim"),                   T, F, "none",    "field",  T, F, F, {"votes", "nonce"}),
  R("SkBatchSendToRemoteClaim",         Sk("MsgBatchSendToRemoteClaim"),              T, F, "none",    "field",  T, F, F, {"votes", "nonce"}),
  R("SkLightNodeSaleClaim",             Sk("MsgLightNodeSaleClaim"),                  T, F, "none",    "field",  T, F, F, {"votes", "nonce"}),
  R("SkCancelSendToRemote",             Sk("MsgCancelSendToRemote"),                  T, F, "none",    "object", T, F, F, {"xfers"}),
  R("SkBadSigEvidence",                 Sk("MsgSubmitBadSignatureEvidence"),          T, F, "none",    "field",  F, T, F, {"val"}),
  R("SkBadSigEvidenceSender",           Sk("MsgSubmitBadSignatureEvidence"),          T, F, "none",    "field",  F, F, F, {"val"}),
  R("SkUpdateParams",                   Sk("MsgUpdateParams"),                        T, T, "signer",  "field",  F, F, F, {}),
  R("SkNonceOverride",                  Sk("MsgNonceOverrideProposal"),               T, T, "none",    "none",   F, F, F, {}),
  R("SkReplenishLostGrains",            Sk("MsgReplenishLostGrainsProposal"),         T, T, "none",    "none",   F, F, F, {}),
  R("SkSetERC20Mapping",                Sk("MsgSetERC20MappingProposal"),             T, T, "field",   "field",  F, F, F, {}),
  R("SkSetERC20ToTokenDenom",           Sk("MsgSetERC20ToTokenDenom"),                T, F, "none",    "object", T, F, F, {"erc20"}),
  R("SkSetERC20ToTokenDenomHanded",     Sk("MsgSetERC20ToTokenDenom"),                T, F, "none",    "object", T, F, F, {"erc20"}),
  R("SkLegacyBatchSendToEthClaim",      Sk("MsgBatchSendToEthClaim"),                 F, F, "none",    "field",  F, F, T, {}),
  R("CoAddSignatures",                  Co("MsgAddMessagesSignatures"),               T, F, "none",    "field",  T, F, F, {"sigs"}),
  R("CoAddGasEstimates",                Co("MsgAddMessageGasEstimates"),              T, F, "none",    "field",  F, F, F, {"gest"}),
  R("CoAddEvidence",                    Co("MsgAddEvidence"),                         T, F, "none",    "none",   F, F, F, {"evid"}),
  R("CoSetPublicAccessData",            Co("MsgSetPublicAccessData"),                 T, F, "none",    "none",   F, F, F, {"pad"}),
  R("CoSetErrorData",                   Co("MsgSetErrorData"),                        T, F, "none",    "none",   F, F, F, {"pad"}),
  R("EvRemoveSmartContractDeployment",  Ev("MsgRemoveSmartContractDeploymentRequest"), T, T, "none",   "none",   F, F, F, {}),
  R("EvDeployNewSmartContract",         Ev("MsgDeployNewSmartContractProposalV2"),    T, T, "field",   "field",  F, F, F, {}),
  R("EvProposeReferenceBlock",          Ev("MsgProposeNewReferenceBlockAttestation"), T, T, "field",   "field",  F, F, F, {}),
  R("EvUploadUserSmartContract",        Ev("MsgUploadUserSmartContractRequest"),      T, F, "none",    "none",   F, F, F, {"usc"}),
  R("EvRemoveUserSmartContract",        Ev("MsgRemoveUserSmartContractRequest"),      T, F, "none",    "object", T, F, F, {"usc"}),
  R("EvDeployUserSmartContract",        Ev("MsgDeployUserSmartContractRequest"),      T, F, "none",    "object", T, F, F, {"usc"}),
  R("PaAddStatusUpdate",                Pa("MsgAddStatusUpdate"),                     T, F, "none",    "none",   F, F, F, {}),
  R("PaRegisterLightNodeClient",        Pa("MsgRegisterLightNodeClient"),             T, F, "none",    "none",   F, F, F, {"lnode"}),
  R("PaAddLicenseFor",                  Pa("MsgAddLightNodeClientLicense"),           T, F, "none",    "field",  F, F, T, {}),
  R("PaAddLicenseNew",                  Pa("MsgAddLightNodeClientLicense"),           T, F, "none",    "none",   F, F, F, {}),
  R("PaAuthLightNodeClient",            Pa("MsgAuthLightNodeClient"),                 T, F, "none",    "none",   F, F, F, {"lnode"}),
  R("PaSetLegacyLightNodeClients",      Pa("MsgSetLegacyLightNodeClients"),           T, T, "none",    "none",   F, F, F, {}),
  R("PaUpdateParams",                   Pa("MsgUpdateParams"),                        T, T, "signerc", "field",  F, F, F, {}),
  R("TfCreateDenom",                    Tf("MsgCreateDenom"),                         T, F, "none",    "none",   F, F, F, {"denoms", "dmeta"}),
  R("TfMint",                           Tf("MsgMint"),                                T, F, "none",    "object", T, F, F, {"denoms"}),
  R("TfBurn",                           Tf("MsgBurn"),                                T, F, "none",    "object", T, F, F, {"denoms"}),
  R("TfChangeAdmin",                    Tf("MsgChangeAdmin"),                         T, F, "none",    "object", T, F, F, {"denoms", "dmeta"}),
  R("TfSetDenomMetadata",               Tf("MsgSetDenomMetadata"),                    T, F, "none",    "object", T, F, F, {"denoms", "dmeta"}),
  R("TfMintHanded",                     Tf("MsgMint"),                                T, F, "none",    "object", T, F, F, {"denoms"}),
  R("TfBurnHanded",                     Tf("MsgBurn"),                                T, F, "none",    "object", T, F, F, {"denoms"}),
  R("TfChangeAdminHanded",              Tf("MsgChangeAdmin"),                         T, F, "none",    "object", T, F, F, {"denoms", "dmeta"}),
  R("TfSetDenomMetadataHanded",         Tf("MsgSetDenomMetadata"),                    T, F, "none",    "object", T, F, F, {"denoms", "dmeta"}),
  R("TfUpdateParams",                   Tf("MsgUpdateParams"),                        T, T, "signerc", "field",  F, F, F, {}),
  R("ScCreateJob",                      Sc("MsgCreateJob"),                           T, F, "none",    "field",  F, F, F, {"jobs"}),
  R("ScExecuteJob",                     Sc("MsgExecuteJob"),                          T, F, "none",    "object", F, F, F, {}),
  R("VaAddExternalChainInfo",           Va("MsgAddExternalChainInfoForValidator"),    T, F, "none",    "field",  T, F, F, {"ext"}),
  R("VaKeepAlive",                      Va("MsgKeepAlive"),                           T, F, "none",    "none",   F, F, F, {"alive"}),
  R("TrUpsertRelayerFee",               Tr("MsgUpsertRelayerFee"),                    T, F, "none",    "field",  T, F, F, {"fee"})
>>

\* registered as sdk.Msg by a Paloma module although they are no transaction messages (attestation results used as
\* evidence payloads; no signer annotation, no handler): listed so that the registry cross-check is exact
NotMessages == {Ev("ValidatorBalancesAttestationRes"), Ev("ReferenceBlockAttestationRes")}

Kinds == {Rows[i].kind : i \in DOMAIN Rows}
KT == [k \in Kinds |-> LET i == CHOOSE j \in DOMAIN Rows : Rows[j].kind = k IN Rows[i]]
TableUrls  == {Rows[i].url : i \in DOMAIN Rows}
RoutedUrls == {Rows[i].url : i \in {j \in DOMAIN Rows : Rows[j].routed}}

VARIABLES grants,      \* [Pairs -> GStates] as the next transaction sees the allowances
          gkind,       \* [Pairs -> AKinds \cup {"-"}] which kind of fee allowance is stored for the pair ("-" = none)
          owned,       \* [P -> [Kinds -> Nat]] version counters of attributed state
          last,        \* the executed action
          res,         \* "ok" | "fail" | "init"
          nops
vars == <<grants, gkind, owned, last, res, nops>>

(* Kinds of fee allowance x/feegrant knows: basic, periodic, allowed-msg wrapping a basic or a periodic one; a trailing "+"  *)
(* means the allowance carries an expiration that lies far in the future (it is valid).  The KIND of the allowance is         *)
(* irrelevant for the authorisation (any stored, unexpired allowance of the creator for the signer counts) - which is exactly *)
(* what has to hold for every kind: an allowance of any kind that has passed its expiration authorises nobody.                *)
BaseKinds == {"basic", "periodic", "amsgb", "amsgp"}
AKinds == BaseKinds \cup {"basic+", "periodic+", "amsgb+", "amsgp+"}

\* k1 / ord: Deliver2 (the honest message's kind; 1 = honest message first, 2 = forged first), DeliverK (k1 = key variant),
\* Grant / GrantExp (k1 = allowance kind)
NoAct == [act |-> "Init", kind |-> "", s |-> 0, c |-> 0, n |-> 0, k1 |-> "", ord |-> 0]
Act(a, k, s, c, n) == [act |-> a, kind |-> k, s |-> s, c |-> c, n |-> n, k1 |-> "", ord |-> 0]
Act2(k1, k2, s, c, ord) == [act |-> "Deliver2", kind |-> k2, s |-> s, c |-> c, n |-> c, k1 |-> k1, ord |-> ord]

Init == /\ grants = [pr \in Pairs |-> "none"]
        /\ gkind = [pr \in Pairs |-> "-"]
        /\ owned = [p \in P |-> [k \in Kinds |-> 0]]
        /\ last = NoAct /\ res = "init" /\ nops = 0

\* what the fee-grant end blocker does at the end of every block: expired allowances are removed
Prune(g) == [pr \in Pairs |-> IF g[pr] = "expired" THEN "none" ELSE g[pr]]
PruneK(g, gk) == [pr \in Pairs |-> IF g[pr] = "expired" THEN "-" ELSE gk[pr]]

Grant(g, e, ak) ==
  /\ <<g, e>> \in Pairs /\ ak \in AKinds
  /\ LET okk == grants[<<g, e>>] # "active" IN        \* x/feegrant refuses a second allowance for the same pair
     /\ grants' = IF okk THEN [Prune(grants) EXCEPT ![<<g, e>>] = "active"] ELSE Prune(grants)
     /\ gkind' = IF okk THEN [PruneK(grants, gkind) EXCEPT ![<<g, e>>] = ak] ELSE PruneK(grants, gkind)
     /\ res' = IF okk THEN "ok" ELSE "fail"
  /\ last' = [Act("Grant", "", g, e, 0) EXCEPT !.k1 = ak] /\ nops' = nops + 1 /\ UNCHANGED owned

\* an allowance (of any kind) whose expiration lies between the block that stores it and the next block
GrantExp(g, e, ak) ==
  /\ <<g, e>> \in Pairs /\ ak \in BaseKinds
  /\ LET okk == grants[<<g, e>>] # "active" IN
     /\ grants' = IF okk THEN [Prune(grants) EXCEPT ![<<g, e>>] = "expired"] ELSE Prune(grants)
     /\ gkind' = IF okk THEN [PruneK(grants, gkind) EXCEPT ![<<g, e>>] = ak] ELSE PruneK(grants, gkind)
     /\ res' = IF okk THEN "ok" ELSE "fail"
  /\ last' = [Act("GrantExp", "", g, e, 0) EXCEPT !.k1 = ak] /\ nops' = nops + 1 /\ UNCHANGED owned

Revoke(g, e) ==
  /\ <<g, e>> \in Pairs
  /\ LET okk == grants[<<g, e>>] \in {"active", "expired"} IN
     /\ grants' = IF okk THEN [Prune(grants) EXCEPT ![<<g, e>>] = "revoked"] ELSE Prune(grants)
     /\ gkind' = IF okk THEN [PruneK(grants, gkind) EXCEPT ![<<g, e>>] = "-"] ELSE PruneK(grants, gkind)
     /\ res' = IF okk THEN "ok" ELSE "fail"
  /\ last' = Act("Revoke", "", g, e, 0) /\ nops' = nops + 1 /\ UNCHANGED owned

(* Perturbation: the chain state is exported (genesis export of every module) and imported into a fresh application - what  *)
(* an upgrade by export / a new network started from an export does.  DEFINED as stuttering on every principal's attributed   *)
(* state; the stored allowances survive it (an expired one is removed by the end blocker of the first block).                *)
Reimport ==
  /\ UNCHANGED owned
  /\ grants' = Prune(grants) /\ gkind' = PruneK(grants, gkind)
  /\ res' = "ok" /\ last' = Act("Reimport", "", 0, 0, 0) /\ nops' = nops + 1

Granted(g, c, s) == <<c, s>> \in Pairs /\ g[<<c, s>>] = "active"

\* the ante chain: every signer signed; the creator is a signer or fee-granted one.  Governance executes
\* messages directly (x/gov only checks that the message's signer is its own address).
Authorised(g, k, s, c, n) ==
  IF s = Gov THEN (KT[k].auth \in {"signer", "signerc"} => n = Gov)
  ELSE /\ (KT[k].auth \in {"signer", "signerc"} => n = s)      \* the authority field is the signer of the transaction
       /\ (s = c \/ Granted(g, c, s))

\* the msg server, as meant
HandlerOK(k, s, c, n) ==
  LET r == KT[k] IN
  /\ r.routed /\ ~r.never
  /\ IF r.gov
     THEN CASE r.auth = "none"    -> c = Gov
            [] r.auth = "field"   -> c = Gov /\ n = Gov
            [] r.auth = "signer"  -> n = Gov
            [] r.auth = "signerc" -> n = Gov /\ c = Gov
     ELSE /\ c \in Users                        \* only A and B are validators / own objects in the world
          /\ (r.self => n = c)
          /\ (r.carrier \/ r.target = "object" => n \in Users)   \* Gov is no validator and owns no object

\* whose attributed state a successful message writes
Writers(k, s, c, n) ==
  LET r == KT[k] IN
  IF r.carrier THEN {n}
  ELSE IF r.gov THEN P        \* governance settings, and whatever governance decides about anybody
  ELSE {c}

Deliver(k, s, c, n) ==
  LET okk == Authorised(grants, k, s, c, n) /\ HandlerOK(k, s, c, n)
      ws  == Writers(k, s, c, n) IN
  /\ owned' = IF okk THEN [p \in P |-> IF p \in ws THEN [owned[p] EXCEPT ![k] = @ + 1] ELSE owned[p]] ELSE owned
  /\ res' = IF okk THEN "ok" ELSE "fail"
  /\ grants' = Prune(grants) /\ gkind' = PruneK(grants, gkind)
  /\ last' = Act("Deliver", k, s, c, n) /\ nops' = nops + 1

(* One transaction carrying TWO messages, both signed by s only: message k1 in s's own name (creator = named = s) and   *)
(* message k2 in c's name (creator = named = c # s), in either order.  The ante decorator decides every message of the  *)
(* transaction on its own; a transaction is atomic: it is accepted only if every message is, and then both are executed. *)
Deliver2(k1, k2, s, c, ord) ==
  LET ok1 == Authorised(grants, k1, s, s, s) /\ HandlerOK(k1, s, s, s)
      ok2 == Authorised(grants, k2, s, c, c) /\ HandlerOK(k2, s, c, c)
      okk == ok1 /\ ok2
      w1  == Writers(k1, s, s, s)
      w2  == Writers(k2, s, c, c)
      bump(f, k, on) == IF on THEN [f EXCEPT ![k] = @ + 1] ELSE f IN
  /\ s \in Users /\ c \in Users /\ s # c /\ ord \in {1, 2}
  /\ owned' = IF okk THEN [p \in P |-> bump(bump(owned[p], k1, p \in w1), k2, p \in w2)] ELSE owned
  /\ res' = IF okk THEN "ok" ELSE "fail"
  /\ grants' = Prune(grants) /\ gkind' = PruneK(grants, gkind)
  /\ last' = Act2(k1, k2, s, c, ord) /\ nops' = nops + 1

(* Key collisions.  Some kinds CREATE or UPSERT an object under a key the sender chooses, in a namespace shared by all        *)
(* principals: a scheduler job id, a factory sub-denom (path-like: factory/<creator>/<sub>), the ERC-20 address a factory    *)
(* denom is bound to, a light-node client address, a validator's external-chain address, the validator address of a relayer *)
(* fee record, the base denom of bank metadata (path-like).  DeliverK(k, s, c, n, v) is Deliver(k, s, c, ..) whose key is   *)
(* variant v of the key of an object the principal n ALREADY owns:                                                           *)
(*   "eq" exactly equal, "case" letter case changed, "lws" / "tws" leading / trailing blank, "dot" a "./" segment,          *)
(*   "dotdot" a "x/../" segment (for a sub-denom: "../<n>/<sub>").                                                           *)
(* As meant, a key that is not n's own key byte for byte names a DIFFERENT object (or is refused by the key grammar); it is  *)
(* never normalised onto n's object.  Whatever the outcome, only the creator's state is written.  KeyTable says, per keyed   *)
(* kind, which variants are accepted when the collided object is the creator's own (own) / somebody else's (foreign).        *)
Variants == {"eq", "case", "lws", "tws", "dot", "dotdot"}
KR(shape, own, foreign) == [shape |-> shape, own |-> own, foreign |-> foreign]
KeyTable == [k \in {"ScCreateJob", "TfCreateDenom", "SkSetERC20ToTokenDenom", "PaAddLicenseFor", "VaAddExternalChainInfo",
                    "TrUpsertRelayerFee", "TfSetDenomMetadata"} |->
  CASE k = "ScCreateJob"            -> KR("flat", {}, {})                                       \* ids are unique; grammar [a-z0-9_-]
    [] k = "TfCreateDenom"          -> KR("path", {"case", "dot"}, {"case", "dot"})   \* other sub-denoms of the creator's own namespace; ".." is refused
    [] k = "SkSetERC20ToTokenDenom" -> KR("flat", {}, {})                                       \* an ERC-20 is bound once, hex is case-insensitive
    [] k = "PaAddLicenseFor"        -> KR("flat", {}, {})                                       \* the address has an account
    [] k = "VaAddExternalChainInfo" -> KR("flat", Variants, {"lws", "tws", "dot", "dotdot"})    \* a registered address is taken in every spelling
    [] k = "TrUpsertRelayerFee"     -> KR("flat", {"eq", "case"}, {})                           \* own record only; bech32 is case-insensitive
    [] k = "TfSetDenomMetadata"     -> KR("path", {"eq"}, {})]                                  \* admin of exactly that denom
Keyed == DOMAIN KeyTable
KeyAccepted(k, c, n, v) == v \in (IF n = c THEN KeyTable[k].own ELSE KeyTable[k].foreign)

DeliverK(k, s, c, n, v) ==
  LET okk == /\ s = c \/ Granted(grants, c, s)
             /\ c \in Users /\ KeyAccepted(k, c, n, v) IN
  /\ k \in Keyed /\ s \in Users /\ c \in Users /\ n \in Users /\ v \in Variants
  /\ owned' = IF okk THEN [owned EXCEPT ![c][k] = @ + 1] ELSE owned
  /\ res' = IF okk THEN "ok" ELSE "fail"
  /\ grants' = Prune(grants) /\ gkind' = PruneK(grants, gkind)
  /\ last' = [Act("DeliverK", k, s, c, n) EXCEPT !.k1 = v] /\ nops' = nops + 1

\* kinds that can stand in a two-message transaction (plain user / validator messages)
Plain == {k \in Kinds : ~KT[k].gov /\ KT[k].routed /\ ~KT[k].never /\ ~KT[k].carrier}

GrantOps == \E pr \in Pairs : \/ \E ak \in AKinds : Grant(pr[1], pr[2], ak)
                              \/ \E ak \in BaseKinds : GrantExp(pr[1], pr[2], ak)
                              \/ Revoke(pr[1], pr[2])
Next == \/ GrantOps
        \/ Reimport
        \/ \E k \in Kinds, s \in P, c \in P, n \in P : Deliver(k, s, c, n)
        \/ \E k1 \in Plain, k2 \in Plain, s \in Users, c \in Users, ord \in {1, 2} : Deliver2(k1, k2, s, c, ord)
        \/ \E k \in Keyed, s \in Users, c \in Users, n \in Users, v \in Variants : DeliverK(k, s, c, n, v)

Spec == Init /\ [][Next]_vars

-----------------------------------------------------------------------------
(* Properties: action formulas over the state before / after a step, the executed action last' and    *)
(* its result res'; TLC checks [][F]_vars on every transition, the trace specification evaluates the   *)
(* same formulas on the observed projections.                                                          *)

TypeOK == /\ grants \in [Pairs -> GStates]
          /\ \A pr \in Pairs : /\ (grants[pr] \in {"none", "revoked"}) = (gkind[pr] = "-")
                               /\ (grants[pr] = "active" => gkind[pr] \in AKinds)
                               /\ (grants[pr] = "expired" => gkind[pr] \in BaseKinds)
          /\ \A p \in P, k \in Kinds : owned[p][k] \in Nat
          /\ res \in {"init", "ok", "fail"}

TableOK == /\ \A i, j \in DOMAIN Rows : Rows[i].kind = Rows[j].kind => i = j
           /\ \A i \in DOMAIN Rows : LET r == Rows[i] IN
                /\ r.auth \in {"none", "field", "signer", "signerc"} /\ r.target \in {"none", "field", "object"}
                /\ r.wr \subseteq CompSet
                /\ (r.self => r.target # "none") /\ (r.carrier => r.target = "field" /\ ~r.self)
                /\ (r.auth # "none" => r.gov /\ r.target = "field")
                /\ (~r.routed => r.never)
           /\ NotMessages \cap TableUrls = {}
           /\ Keyed \subseteq {k \in Kinds : ~KT[k].gov /\ KT[k].routed /\ ~KT[k].carrier} /\ \A k \in Keyed : KeyTable[k].own \cup KeyTable[k].foreign \subseteq Variants

IsDeliver == last'.act \in {"Deliver", "Deliver2", "DeliverK"}
D == last'
\* who stands behind a transaction: its signer, and the creator if it is the signer or fee-granted the signer;
\* everybody if the governance authority executes it
Authorisers(g, t) == IF t.s = Gov THEN P
                     ELSE {t.s} \cup (IF t.s = t.c \/ Granted(g, t.c, t.s) THEN {t.c} ELSE {})
Changed(p) == owned'[p] # owned[p]

\* a transaction authorised by A never adds, alters or removes anything attributed to a different principal
\* (exception: the named validator's own external-chain signature over the exact item)
NoForeignWrite == \A p \in P : Changed(p) =>
   /\ IsDeliver
   /\ \/ p \in Authorisers(grants, D)
      \/ KT[D.kind].carrier /\ p = D.n
\* without the creator's signature or fee grant the message is rejected and nothing changes
GrantNeeded == (IsDeliver /\ D.s # Gov /\ D.s # D.c /\ ~Granted(grants, D.c, D.s)) =>
   res' = "fail" /\ owned' = owned
\* governance-only kinds are rejected for everybody else; governance settings change by governance only
GovOnly == (IsDeliver /\ D.s # Gov) => /\ (KT[D.kind].gov => res' = "fail")
                                        /\ ~Changed(Gov)
\* a rejected message changes nothing
FailureIsNoop == res' = "fail" => owned' = owned

PA_NoForeignWrite == [][NoForeignWrite]_vars
PA_GrantNeeded    == [][GrantNeeded]_vars
PA_GovOnly        == [][GovOnly]_vars
PA_FailureIsNoop  == [][FailureIsNoop]_vars
=============================================================================
