------------------------------ MODULE RelayGate ------------------------------
(***************************************************************************)
(* C14: messages are assigned to, and only relayable by, an eligible       *)
(* relayer; fees attached at gas-estimate election.                        *)
(*                                                                         *)
(* (a) Assignment  x/evm/keeper/msg_assigner.go + keeper.go                *)
(*     tables:  cur   current registration of every validator (valset      *)
(*                    external chain infos: home chain, target chain       *)
(*                    account, MEV trait)                                  *)
(*              snap  the current snapshot (copy of cur taken by the       *)
(*                    snapshot build; members = validators that support    *)
(*                    all active chains)                                   *)
(*              fee   relayer multiplicator on record for the target chain *)
(*                    (treasury; 0 = no record for that chain)             *)
(*              perf  validator metrics record exists (metrix)             *)
(*     Assign(chain, sender, mev, t) = AddSmartContractExecutionToConsensus *)
(*     for the target chain "t" or the home chain "h" at                    *)
(*     block time t:  score the snapshot members that have metrics and a   *)
(*     fee record, keep those with an account on the chain (and the MEV    *)
(*     trait if demanded), sort by score desc / address asc, take element  *)
(*     t mod min(TopK, n); the signed relayer address is the snapshot's.   *)
(* (b) Relay gate  x/consensus/keeper/concensus_keeper.go                  *)
(*     GetMessagesForRelaying + filters/*: AlgoForRelay is the coded loop  *)
(*     (stateful per-sender table, short-circuit order), ForRelay is the   *)
(*     declarative contract; TLC proves them equal on every queue.         *)
(* (c) Fees  x/consensus/keeper/estimate.go: EndBlock elects the median    *)
(*     once 2/3 of the snapshot power has estimated and attaches           *)
(*     FeesFor(multiplicator of the assignee, community, security, gas).   *)
(*                                                                         *)
(* Validator ids are integers; their order is the order of the validator   *)
(* address strings (tie-break of the ranking).                             *)
(***************************************************************************)
EXTENDS Integers, Sequences, FiniteSets, TLC, RelayGateFees

CONSTANTS
  Vals,            \* 1..N
  FeeLevels,       \* multiplicators * Scale a validator may have on record (positive)
  BaseFee,         \* multiplicator of the initial world
  TopK,            \* 5 (topValidatorPoolSize)
  Times,           \* block times (unix seconds mod 60)
  Senders,         \* sender ids of logic calls (positive); 0 = no sender address
  Gases,           \* gas values validators submit
  Scale,           \* decimal scale of multiplicators and rates in the model (real code: 10^18)
  CommRate, SecRate,   \* community / security fee rate * Scale
  MaxQ             \* bound on the queue length (model checking / generation only)

VARIABLES
  cur,     \* [Vals -> [home : BOOLEAN, acct : 0..2, mevH : BOOLEAN, mevT : BOOLEAN]]
           \*   home: account on the home chain "h" (active); acct: account on the target chain "t" (0 none,
           \*   1 primary, 2 alternate address); mevH / mevT: MEV trait of the home / target chain ACCOUNT
  snap,    \* [Vals -> [member : BOOLEAN, acct : 0..2, mevH : BOOLEAN, mevT : BOOLEAN]]
  fee,     \* [Vals -> {0} \cup FeeLevels]   fee record for the target chain
  feeH,    \* [Vals -> Nat]                  fee record for the home chain (never varied by the actions)
  perf,    \* [Vals -> BOOLEAN]
  queue,   \* set of messages of the target chain's queue (unique ids; queue order = id order)
  queueH,  \* logic calls assigned on the home chain's queue (ids from the same counter)
  nextId,
  nrows,   \* number of validators whose table row has been loaded (set-up phase)
  res      \* result of the last action

vars == <<cur, snap, fee, feeH, perf, queue, queueH, nextId, nrows, res>>
tabs == <<cur, snap, fee, feeH, perf>>
Chains == {"t", "h"}

N == Cardinality(Vals)
Kinds == {"slc", "valset", "other"}      \* SubmitLogicCall / UpdateValset / any other evm message (UploadSmartContract)
NoFees == <<0, 0, 0>>
Row == [home : BOOLEAN, acct : 0..2, mevH : BOOLEAN, mevT : BOOLEAN, fee : {0} \cup FeeLevels, feeH : {0} \cup FeeLevels,
        perf : BOOLEAN]
BaseRow == [home |-> TRUE, acct |-> 1, mevH |-> FALSE, mevT |-> FALSE, fee |-> BaseFee, feeH |-> BaseFee, perf |-> TRUE]
MaxRetries == 2     \* cMaxSubmitLogicCallRetries

MinOf(S) == CHOOSE x \in S : \A y \in S : x <= y
MaxOf(S) == CHOOSE x \in S : \A y \in S : y <= x

\* traits are attributes of the chain ACCOUNTS (ExternalChainInfo.Traits): no account, no trait
CurOf(r) == [home |-> r.home, acct |-> r.acct, mevH |-> r.mevH /\ r.home, mevT |-> r.mevT /\ r.acct # 0]
\* createNewSnapshot: bonded, unjailed validators that support all active chains, with a copy of their chain infos
SnapOf(c) == [v \in Vals |-> IF c[v].home THEN [member |-> TRUE, acct |-> c[v].acct, mevH |-> c[v].mevH, mevT |-> c[v].mevT]
                                        ELSE [member |-> FALSE, acct |-> 0, mevH |-> FALSE, mevT |-> FALSE]]
\* account (address id) and MEV trait of snapshot entry v ON CHAIN c
AcctOn(sn, v, c) == IF c = "h" THEN (IF sn[v].member THEN 1 ELSE 0) ELSE sn[v].acct
MevOn(sn, v, c) == IF c = "h" THEN sn[v].mevH ELSE sn[v].mevT

\* mev: the call demands MEV relaying (travels with the message); retries: how often it has been re-assigned after an
\* attested relay failure; ev: validators that attested an execution-error proof for it
Msg(id, kind, s, a, ra, ne) ==
  [id |-> id, kind |-> kind, sender |-> s, assignee |-> a, remote |-> ra, needsEst |-> ne,
   est |-> 0, pad |-> FALSE, err |-> FALSE, fees |-> NoFees, subs |-> {}, mev |-> FALSE, retries |-> 0, ev |-> {}]
\* a logic call assigned by the chain (first execution or retry)
CallMsg(id, s, a, ra, mv, rt) == [Msg(id, "slc", s, a, ra, TRUE) EXCEPT !.mev = mv, !.retries = rt]

-----------------------------------------------------------------------------
(* (a) eligibility, ranking, pick -- parametrised by the tables so that the trace *)
(*     specification can evaluate them on observed tables                          *)
Members(sn) == {v \in Vals : sn[v].member}
\* buildValidatorsInfos: snapshot members with a metrics record and a fee record for the chain
Info(sn, fe, pe) == {v \in Members(sn) : pe[v] /\ fe[v] # 0}
\* filterValidatorsForJob: the account on the chain of the job, and the MEV trait OF THAT ACCOUNT if demanded
\* (`fe` is the fee table of chain c)
EligibleT(sn, fe, pe, c, mevReq) == {v \in Info(sn, fe, pe) : AcctOn(sn, v, c) # 0 /\ (mevReq => MevOn(sn, v, c))}
\* the property's wording, conjunct by conjunct
PickOK(sn, fe, pe, c, p, mevReq) ==
  /\ sn[p].member
  /\ AcctOn(sn, p, c) # 0
  /\ fe[p] # 0
  /\ pe[p]
  /\ (mevReq => MevOn(sn, p, c))

\* rankValidators: score = (1 - (fee-min)/(max-min)) + (feat-minFeat)/(maxFeat-minFeat), each term 0 if its
\* window is a point (uptime, success rate, execution time are equal in the worlds considered: terms 0);
\* multiplied by the two spans to stay in the integers.  The feature set (metrix.OnSnapshotBuilt) is the share of
\* the validator's accounts that carry the MEV trait at snapshot time: 0, 1/2 or 1, here doubled.
Feat2(sn, v) ==
  LET n == 1 + (IF sn[v].acct # 0 THEN 1 ELSE 0)
      k == (IF sn[v].mevH THEN 1 ELSE 0) + (IF sn[v].mevT THEN 1 ELSE 0)
  IN  (2 * k) \div n
ScoresT(sn, fe, pe) ==
  LET I == Info(sn, fe, pe)
      F == {fe[w] : w \in I}
      G == {Feat2(sn, w) : w \in I}
      span == IF I = {} THEN 0 ELSE MaxOf(F) - MinOf(F)
      gspan == IF I = {} THEN 0 ELSE MaxOf(G) - MinOf(G)
      uF == IF span > 0 THEN span ELSE 1
      uG == IF gspan > 0 THEN gspan ELSE 1
  IN  [v \in Vals |-> IF v \notin I THEN 0
                      ELSE (IF span > 0 THEN (MaxOf(F) - fe[v]) * uG ELSE 0)
                         + (IF gspan > 0 THEN (Feat2(sn, v) - MinOf(G)) * uF ELSE 0)]
\* sort order: score descending, then address ascending
Better(sc, a, b) == sc[a] > sc[b] \/ (sc[a] = sc[b] /\ a < b)

RECURSIVE RankSeq(_, _)
RankSeq(sc, S) ==
  IF S = {} THEN <<>>
  ELSE LET b == CHOOSE x \in S : \A y \in S \ {x} : Better(sc, x, y)
       IN  <<b>> \o RankSeq(sc, S \ {b})
RankedT(sn, fe, pe, c, mevReq) == RankSeq(ScoresT(sn, fe, pe), EligibleT(sn, fe, pe, c, mevReq))
\* winnerIdx = blocktime mod min(len, topValidatorPoolSize)
PickFrom(r, t) == r[(t % (IF Len(r) < TopK THEN Len(r) ELSE TopK)) + 1]
PickT(sn, fe, pe, c, mevReq, t) == PickFrom(RankedT(sn, fe, pe, c, mevReq), t)

FeeTab(c) == IF c = "h" THEN feeH ELSE fee
Eligible(c, mevReq) == EligibleT(snap, FeeTab(c), perf, c, mevReq)
Pick(c, mevReq, t) == PickT(snap, FeeTab(c), perf, c, mevReq, t)

-----------------------------------------------------------------------------
(* (b) the relay gate, parametrised by the queue *)
ValsetIds(Q) == {m.id : m \in {x \in Q : x.kind = "valset"}}
\* id of the oldest pending validator-set update (0: none); "pending" = still in the queue
VMin(Q) == IF ValsetIds(Q) = {} THEN 0 ELSE MinOf(ValsetIds(Q))
NotBlockedV(vm, m) == vm = 0 \/ m.id <= vm                                  \* IsNotBlockedByValset, as coded
NotBlocked(Q, m) == NotBlockedV(VMin(Q), m)
Unprocessed(m) == ~m.pad /\ ~m.err                                         \* IsUnprocessed
HasEst(m) == ~m.needsEst \/ m.est > 0                                      \* HasGasEstimate
HasSender(m) == m.kind = "slc" /\ m.sender # 0
\* no older, still pending (not yet reported, not held back by a validator-set update) call of the same sender
OldestOfSenderV(Q, vm, m) ==
  HasSender(m) => ~\E o \in Q : o.id < m.id /\ HasSender(o) /\ o.sender = m.sender /\ Unprocessed(o) /\ NotBlockedV(vm, o)
OldestOfSender(Q, m) == OldestOfSenderV(Q, VMin(Q), m)

ForRelayQ(Q, v) ==
  LET vm == VMin(Q) IN
  {m.id : m \in {x \in Q : /\ x.assignee = v /\ HasEst(x) /\ Unprocessed(x) /\ NotBlockedV(vm, x) /\ OldestOfSenderV(Q, vm, x)}}

\* the coded loop: messages in id order, look-up table of senders already served; filters short-circuit in the
\* coded order  IsNotBlockedByValset && IsUnprocessed && IsOldestMsgPerSender && HasGasEstimate && IsAssignedTo
RECURSIVE SortById(_)
SortById(Q) == IF Q = {} THEN <<>>
               ELSE LET m == CHOOSE x \in Q : \A y \in Q : x.id <= y.id IN <<m>> \o SortById(Q \ {m})
RECURSIVE GateLoop(_, _, _, _, _, _)
GateLoop(vm, s, i, lut, acc, v) ==
  IF i > Len(s) THEN acc
  ELSE LET m == s[i] IN
    IF ~(NotBlockedV(vm, m) /\ Unprocessed(m)) THEN GateLoop(vm, s, i + 1, lut, acc, v)
    ELSE IF HasSender(m) /\ m.sender \in lut THEN GateLoop(vm, s, i + 1, lut, acc, v)
    ELSE LET lut2 == IF HasSender(m) THEN lut \cup {m.sender} ELSE lut
             take == HasEst(m) /\ m.assignee = v
         IN  GateLoop(vm, s, i + 1, lut2, IF take THEN acc \cup {m.id} ELSE acc, v)
AlgoForRelayQ(Q, v) == GateLoop(VMin(Q), SortById(Q), 1, {}, {}, v)
AlgoAllQ(Q) == LET vm == VMin(Q)  s == SortById(Q) IN [v \in Vals |-> GateLoop(vm, s, 1, {}, {}, v)]

ForRelay(v) == ForRelayQ(queue, v)
AlgoForRelay(v) == AlgoForRelayQ(queue, v)

-----------------------------------------------------------------------------
(* (c) election of the gas estimate and fees *)
RECURSIVE SortSubs(_)
SortSubs(S) == IF S = {} THEN <<>>
               ELSE LET m == CHOOSE e \in S : \A f \in S : e.g <= f.g IN <<m.g>> \o SortSubs(S \ {m})
MedianOf(S) ==      \* palomath.Median
  LET w == SortSubs(S)  n == Len(w)  c == n \div 2 IN
  IF n % 2 = 0 THEN (w[c] + w[c + 1]) \div 2 ELSE w[c + 1]
\* libcons.VerifyGasEstimates: power of the snapshot members among the submitters (equal shares)
Quorum(sn, S) ==
  LET k == Cardinality({s.v : s \in S} \cap Members(sn)) IN k > 0 /\ 3 * k >= 2 * Cardinality(Members(sn))
ElectOneT(sn, fe, m) ==
  IF ~m.needsEst \/ m.subs = {} \/ m.est > 0 \/ ~Quorum(sn, m.subs) THEN m
  ELSE LET g == MedianOf(m.subs) IN
       IF g = 0 THEN m
       ELSE IF m.kind # "slc" THEN [m EXCEPT !.est = g]
       ELSE IF m.assignee \notin Vals \/ fe[m.assignee] = 0 THEN m      \* fee lookup fails: nothing committed for this message
       ELSE [m EXCEPT !.est = g, !.fees = FeesFor(fe[m.assignee], CommRate, SecRate, g, Scale)]
ElectAllT(sn, fe, Q) == {ElectOneT(sn, fe, m) : m \in Q}

-----------------------------------------------------------------------------
Init ==
  /\ cur = [v \in Vals |-> CurOf(BaseRow)]
  /\ snap = SnapOf([v \in Vals |-> CurOf(BaseRow)])
  /\ fee = [v \in Vals |-> BaseFee]
  /\ perf = [v \in Vals |-> TRUE]
  /\ feeH = [v \in Vals |-> BaseFee]
  /\ queue = {} /\ queueH = {} /\ nextId = 1 /\ nrows = 0 /\ res = "init"

(* tables: written through the keepers, then the snapshot is built, then metrics records are dropped *)
Setup(T) ==
  /\ nrows = 0 /\ nextId = 1
  /\ cur' = [v \in Vals |-> CurOf(T[v])]
  /\ snap' = SnapOf(cur')
  /\ fee' = [v \in Vals |-> T[v].fee]
  /\ feeH' = [v \in Vals |-> T[v].feeH]
  /\ perf' = [v \in Vals |-> T[v].perf]
  /\ nrows' = N /\ res' = "setup"
  /\ UNCHANGED <<queue, queueH, nextId>>

\* the same, validator by validator (exhaustive enumeration of the tables)
SetRow(v, r) ==
  /\ nrows = v - 1 /\ nextId = 1
  /\ cur' = [cur EXCEPT ![v] = CurOf(r)]
  /\ snap' = SnapOf(cur')
  /\ fee' = [fee EXCEPT ![v] = r.fee]
  /\ feeH' = [feeH EXCEPT ![v] = r.feeH]
  /\ perf' = [perf EXCEPT ![v] = r.perf]
  /\ nrows' = v /\ res' = "setup"
  /\ UNCHANGED <<queue, queueH, nextId>>

\* a validator changes its registration (target chain account, traits of its accounts); the snapshot is not rebuilt
Rereg(v, a, mh, mt) ==
  /\ cur' = [cur EXCEPT ![v].acct = a, ![v].mevH = mh /\ cur[v].home, ![v].mevT = mt /\ a # 0]
  /\ res' = "rereg"
  /\ UNCHANGED <<snap, fee, feeH, perf, queue, queueH, nextId, nrows>>

\* TriggerSnapshotBuild: installed only if it differs; metrix.OnSnapshotBuilt (re)creates the members' records
Resnap ==
  /\ IF SnapOf(cur) = snap THEN UNCHANGED <<snap, perf>>
     ELSE /\ snap' = SnapOf(cur)
          /\ perf' = [v \in Vals |-> perf[v] \/ cur[v].home]
  /\ res' = "resnap"
  /\ UNCHANGED <<cur, fee, feeH, queue, queueH, nextId, nrows>>

\* the assignment proper (PickValidatorForMessage + PutMessageInQueue) as a function on the queues: used by the
\* first execution and by the retry after an attested failure
AssignSt(st, c, s, mevReq, t, rt) ==
  IF Eligible(c, mevReq) = {} THEN st
  ELSE LET p == Pick(c, mevReq, t)
           m == CallMsg(st.next, s, p, AcctOn(snap, p, c), mevReq, rt) IN
       [qt |-> IF c = "t" THEN st.qt \cup {m} ELSE st.qt, qh |-> IF c = "h" THEN st.qh \cup {m} ELSE st.qh, next |-> st.next + 1]
QSt == [qt |-> queue, qh |-> queueH, next |-> nextId]

Assign(c, s, mevReq, t) ==
  /\ LET r == AssignSt(QSt, c, s, mevReq, t, 0) IN
     /\ queue' = r.qt /\ queueH' = r.qh /\ nextId' = r.next
     /\ res' = IF Eligible(c, mevReq) = {} THEN "noeligible" ELSE "assigned"
  /\ UNCHANGED <<tabs, nrows>>

\* a validator changes the multiplicator it has on record for a chain (treasury; effective at the next election)
SetFee(v, c, f) ==
  /\ IF c = "t" THEN fee' = [fee EXCEPT ![v] = f] /\ UNCHANGED feeH
                ELSE feeH' = [feeH EXCEPT ![v] = f] /\ UNCHANGED fee
  /\ res' = "setfee"
  /\ UNCHANGED <<cur, snap, perf, queue, queueH, nextId, nrows>>

\* a message put into the queue of chain c by any other producer, assignee given
Put(c, kind, s, a, ne) ==
  /\ LET m == Msg(nextId, kind, s, a, 1, ne) IN
     IF c = "t" THEN queue' = queue \cup {m} /\ UNCHANGED queueH
                ELSE queueH' = queueH \cup {m} /\ UNCHANGED queue
  /\ nextId' = nextId + 1 /\ res' = "put"
  /\ UNCHANGED <<tabs, nrows>>

\* pure state transformers (used for composite generator steps as well)
EstimateQ(Q, v, id, g) ==
  {IF m.id = id THEN [m EXCEPT !.subs = @ \cup {[v |-> v, g |-> g]}] ELSE m : m \in Q}
EstimateOK(Q, v, id) == \E m \in Q : m.id = id /\ m.needsEst /\ ~\E s \in m.subs : s.v = v
DeliverQ(Q, id) == {IF m.id = id THEN [m EXCEPT !.pad = TRUE] ELSE m : m \in Q}
FailQ(Q, id) == {IF m.id = id /\ ~m.pad /\ ~m.err THEN [m EXCEPT !.err = TRUE] ELSE m : m \in Q}
AttestQ(Q, v, id) == {IF m.id = id THEN [m EXCEPT !.ev = @ \cup {v}] ELSE m : m \in Q}
Ids(Q) == {m.id : m \in Q}

\* estimates are submitted for a message of either queue
Estimate(v, id, g) ==
  /\ IF EstimateOK(queue \cup queueH, v, id)
     THEN queue' = EstimateQ(queue, v, id, g) /\ queueH' = EstimateQ(queueH, v, id, g) /\ res' = "ok"
     ELSE UNCHANGED <<queue, queueH>> /\ res' = "fail"
  /\ UNCHANGED <<tabs, nextId, nrows>>

\* CheckAndProcessEstimatedMessages: every queue, each message with the multiplicator its assignee has on record
\* FOR THE CHAIN OF THAT QUEUE
EndBlock ==
  /\ queue' = ElectAllT(snap, fee, queue)
  /\ queueH' = ElectAllT(snap, feeH, queueH)
  /\ res' = "eb"
  /\ UNCHANGED <<tabs, nextId, nrows>>

Deliver(id) ==
  /\ IF \E m \in queue : m.id = id THEN queue' = DeliverQ(queue, id) /\ res' = "ok"
     ELSE UNCHANGED queue /\ res' = "fail"
  /\ UNCHANGED <<tabs, nextId, nrows, queueH>>

Fail(id) ==
  /\ IF \E m \in queue : m.id = id THEN queue' = FailQ(queue, id) /\ res' = "ok"
     ELSE UNCHANGED queue /\ res' = "fail"
  /\ UNCHANGED <<tabs, nextId, nrows, queueH>>

\* a validator attests an execution-error proof for a message (consensus message server AddEvidence)
AttestErr(v, id) ==
  /\ IF id \in Ids(queue \cup queueH)
     THEN queue' = AttestQ(queue, v, id) /\ queueH' = AttestQ(queueH, v, id) /\ res' = "ok"
     ELSE UNCHANGED <<queue, queueH>> /\ res' = "fail"
  /\ UNCHANGED <<tabs, nextId, nrows>>

\* CheckAndProcessAttestedMessages at block time t: queue by queue (home chain first), message by message in id
\* order; a message whose error proof is attested by 2/3 of the snapshot power leaves the queue; a logic call below the
\* retry limit is assigned again (attemptRetry -> AddSmartContractExecutionToConsensus) -- under exactly the rules of a
\* first assignment, on the tables as they are NOW; if nobody qualifies it is dropped
EvQuorum(sn, S) == LET k == Cardinality(S \cap Members(sn)) IN k > 0 /\ 3 * k >= 2 * Cardinality(Members(sn))
RECURSIVE AttestLoop(_, _, _, _, _)
AttestLoop(st, s, i, c, t) ==
  IF i > Len(s) THEN st
  ELSE LET m == s[i] IN
    IF ~EvQuorum(snap, m.ev) THEN AttestLoop(st, s, i + 1, c, t)
    ELSE LET gone == [st EXCEPT !.qt = {x \in @ : x.id # m.id}, !.qh = {x \in @ : x.id # m.id}]
             nxt == IF m.kind = "slc" /\ m.retries < MaxRetries
                    THEN AssignSt(gone, c, m.sender, m.mev, t, m.retries + 1) ELSE gone
         IN  AttestLoop(nxt, s, i + 1, c, t)
AttestAll(t) ==
  LET s1 == AttestLoop(QSt, SortById(queueH), 1, "h", t) IN AttestLoop(s1, SortById(queue), 1, "t", t)
EndBlockAtt(t) ==
  /\ LET r == AttestAll(t) IN queue' = r.qt /\ queueH' = r.qh /\ nextId' = r.next
  /\ res' = "eba"
  /\ UNCHANGED <<tabs, nrows>>

Query == res' = "query" /\ UNCHANGED <<tabs, queue, queueH, nextId, nrows>>

Next ==
  \/ \E T \in [Vals -> Row] : Setup(T)
  \/ \E v \in Vals, a \in 0..2, mh \in BOOLEAN, mt \in BOOLEAN : Rereg(v, a, mh, mt)
  \/ Resnap
  \/ \E c \in Chains, s \in Senders, mv \in BOOLEAN, t \in Times : Assign(c, s, mv, t)
  \/ \E c \in Chains, k \in Kinds, s \in Senders \cup {0}, a \in Vals, ne \in BOOLEAN : (c = "h" => k = "slc") /\ Put(c, k, s, a, ne)
  \/ \E v \in Vals, c \in Chains, f \in FeeLevels : SetFee(v, c, f)
  \/ \E v \in Vals, id \in 1..nextId : AttestErr(v, id)
  \/ \E t \in Times : EndBlockAtt(t)
  \/ \E v \in Vals, id \in 1..nextId, g \in Gases : Estimate(v, id, g)
  \/ EndBlock
  \/ \E id \in 1..nextId : Deliver(id) \/ Fail(id)
  \/ Query

Spec == Init /\ [][Next]_vars

-----------------------------------------------------------------------------
(* Properties *)
TypeOK ==
  /\ \A m, o \in queue \cup queueH : m.id = o.id => m = o
  /\ queue \cap queueH = {}
  /\ \A m \in queue \cup queueH : m.id < nextId /\ m.kind \in Kinds
  /\ \A v \in Vals : ~snap[v].member => snap[v].acct = 0

\* (a) for every request (chain, MEV flag, block time) that could arrive now
Ranked(c, mevReq) == RankedT(snap, FeeTab(c), perf, c, mevReq)
AssigneeEligible ==
  \A c \in Chains, mv \in BOOLEAN : LET r == Ranked(c, mv) IN
    r # <<>> => \A t \in Times : PickOK(snap, FeeTab(c), perf, c, PickFrom(r, t), mv)
\* the ranking is sorted, holds each eligible validator once, and the pick is one of the best min(TopK, n)
PickAmongBest ==
  \A c \in Chains, mv \in BOOLEAN : LET r == Ranked(c, mv)  sc == ScoresT(snap, FeeTab(c), perf) IN
    /\ Len(r) = Cardinality(Eligible(c, mv)) /\ {r[i] : i \in DOMAIN r} = Eligible(c, mv)
    /\ \A i, j \in DOMAIN r : i < j => Better(sc, r[i], r[j])
    /\ r # <<>> => \A t \in Times :
          Cardinality({w \in Eligible(c, mv) : Better(sc, w, PickFrom(r, t))}) < TopK
\* every one of the best min(TopK, n) is picked at some block time
PickSpreads ==
  \A c \in Chains, mv \in BOOLEAN : LET r == Ranked(c, mv) IN
    \A i \in DOMAIN r : i <= TopK => \E t \in Times : PickFrom(r, t) = r[i]
NoEligibleMeansNone ==
  \A c \in Chains, mv \in BOOLEAN : (Eligible(c, mv) = {}) <=> ~\E p \in Vals : PickOK(snap, FeeTab(c), perf, c, p, mv)
\* a trait carried by the account on the OTHER chain never qualifies
MevIsPerChain ==
  \A c \in Chains : \A v \in Eligible(c, TRUE) : MevOn(snap, v, c)
\* all of the above with the ranking evaluated once per request class (same conjuncts; big exhaustive configuration)
AssignAll ==
  \A c \in Chains, mv \in BOOLEAN :
    LET fe == FeeTab(c)
        E == EligibleT(snap, fe, perf, c, mv)
        sc == ScoresT(snap, fe, perf)
        r == RankSeq(sc, E) IN
    /\ Len(r) = Cardinality(E) /\ {r[i] : i \in DOMAIN r} = E
    /\ \A i, j \in DOMAIN r : i < j => Better(sc, r[i], r[j])
    /\ (E = {}) <=> ~\E p \in Vals : PickOK(snap, fe, perf, c, p, mv)
    /\ (mv => \A v \in E : MevOn(snap, v, c))
    /\ \A i \in DOMAIN r : i <= TopK => \E t \in Times : PickFrom(r, t) = r[i]
    /\ r # <<>> => \A t \in Times :
          /\ PickOK(snap, fe, perf, c, PickFrom(r, t), mv)
          /\ Cardinality({w \in E : Better(sc, w, PickFrom(r, t))}) < TopK
\* action level: EVERY message the chain assigns -- first execution (Assign) or retry after an attested failure
\* (EndBlockAtt) -- goes to a validator that qualifies on the tables of that moment for the chain of the job and the
\* requirement the message carries, with the snapshot's address; nothing is enqueued if nobody qualifies
NewOn(Q, Q2, old) == {m \in Q2 : m.id \notin old}
AssignedAreEligible ==
  [][res' \in {"assigned", "eba"} =>
       LET old == Ids(queue \cup queueH) IN
       /\ \A m \in NewOn(queue, queue', old) : m.kind = "slc" /\ m.assignee \in Vals
              /\ PickOK(snap, fee, perf, "t", m.assignee, m.mev) /\ m.remote = AcctOn(snap, m.assignee, "t")
       /\ \A m \in NewOn(queueH, queueH', old) : m.kind = "slc" /\ m.assignee \in Vals
              /\ PickOK(snap, feeH, perf, "h", m.assignee, m.mev) /\ m.remote = AcctOn(snap, m.assignee, "h")]_vars
\* a retry carries the sender and the MEV requirement of the message it replaces
RetryKeepsRequirements ==
  [][res' = "eba" =>
       LET old == Ids(queue \cup queueH) IN
       /\ \A m \in NewOn(queue, queue', old) : \E o \in queue \ queue' :
              o.kind = "slc" /\ m.sender = o.sender /\ m.mev = o.mev /\ m.retries = o.retries + 1 /\ m.retries <= MaxRetries
       /\ \A m \in NewOn(queueH, queueH', old) : \E o \in queueH \ queueH' :
              o.kind = "slc" /\ m.sender = o.sender /\ m.mev = o.mev /\ m.retries = o.retries + 1 /\ m.retries <= MaxRetries]_vars
\* fees attached by an end block use the multiplicator the assignee has on record for the chain of the message
FeesOfTheChain ==
  [][res' = "eb" =>
       /\ \A m \in queue : \A n \in queue' : (n.id = m.id /\ m.est = 0 /\ n.est > 0 /\ n.kind = "slc") =>
              n.fees = FeesFor(fee[n.assignee], CommRate, SecRate, n.est, Scale)
       /\ \A m \in queueH : \A n \in queueH' : (n.id = m.id /\ m.est = 0 /\ n.est > 0 /\ n.kind = "slc") =>
              n.fees = FeesFor(feeH[n.assignee], CommRate, SecRate, n.est, Scale)]_vars
NoFeesBeforeElection == \A m \in queue \cup queueH : m.est = 0 => m.fees = NoFees
RemoteAddressFromSnapshot ==
  [][res' = "assigned" =>
       LET nt == queue' \ queue  nh == queueH' \ queueH IN
       /\ Cardinality(nt \cup nh) = 1
       /\ \A m \in nt : m.assignee \in Vals /\ m.remote # 0 /\ m.remote = AcctOn(snap, m.assignee, "t")
       /\ \A m \in nh : m.assignee \in Vals /\ m.remote # 0 /\ m.remote = AcctOn(snap, m.assignee, "h")
       /\ \A m \in nt \cup nh : m.kind = "slc" /\ m.needsEst /\ m.est = 0 /\ m.fees = NoFees]_vars
NoEligibleNoEnqueue == [][res' = "noeligible" => queue' = queue /\ queueH' = queueH /\ nextId' = nextId]_vars

\* (b) for every validator that could ask now; `off` = what the coded loop offers
MsgOfQ(Q, id) == CHOOSE m \in Q : m.id = id
OnlyAssigneeP(Q, off) == \A v \in Vals : \A id \in off[v] : MsgOfQ(Q, id).assignee = v
OnlyWithEstimateP(Q, off) == \A v \in Vals : \A id \in off[v] : MsgOfQ(Q, id).needsEst => MsgOfQ(Q, id).est > 0
OnlyUnprocessedP(Q, off) == \A v \in Vals : \A id \in off[v] : ~MsgOfQ(Q, id).pad /\ ~MsgOfQ(Q, id).err
NotAheadOfPendingValsetUpdateP(Q, off) ==
  \A v \in Vals : \A id \in off[v] : \A u \in Q : u.kind = "valset" => id <= u.id
OldestPerSenderFirstP(Q, off) ==
  \A v \in Vals : \A id \in off[v] : OldestOfSender(Q, MsgOfQ(Q, id))
OfferedExistP(Q, off) == \A v \in Vals : off[v] \subseteq {m.id : m \in Q}
OfferedOnceP(off) == \A v, w \in Vals : v # w => off[v] \cap off[w] = {}

Offered == AlgoAllQ(queue)
OnlyAssignee == OnlyAssigneeP(queue, Offered)
OnlyWithEstimate == OnlyWithEstimateP(queue, Offered)
OnlyUnprocessed == OnlyUnprocessedP(queue, Offered)
NotAheadOfPendingValsetUpdate == NotAheadOfPendingValsetUpdateP(queue, Offered)
OldestPerSenderFirst == OldestPerSenderFirstP(queue, Offered)
\* the coded loop is exactly the declarative gate
GateIsContract == \A v \in Vals : Offered[v] = ForRelay(v)
\* a message is offered to at most one validator
OfferedOnce == OfferedOnceP(Offered)
\* all of the above with the loop evaluated once (same conjuncts; for the big exhaustive configuration)
GateAll ==
  LET off == AlgoAllQ(queue) IN
  /\ OnlyAssigneeP(queue, off) /\ OnlyWithEstimateP(queue, off) /\ OnlyUnprocessedP(queue, off)
  /\ NotAheadOfPendingValsetUpdateP(queue, off) /\ OldestPerSenderFirstP(queue, off)
  /\ OfferedOnceP(off) /\ \A v \in Vals : off[v] = ForRelay(v)

\* (c) fees are attached exactly at election, by the formula (fee table constant after set-up in this spec)
FeesAtElection ==
  \A m \in queue :
    /\ m.est = 0 => m.fees = NoFees
    /\ (m.est > 0 /\ m.kind = "slc") =>
         /\ m.fees = FeesFor(fee[m.assignee], CommRate, SecRate, m.est, Scale)
         /\ IsCeilOf(m.fees[1], fee[m.assignee], m.est, Scale)
         /\ IsCeilOf(m.fees[2], CommRate, m.fees[1], Scale)
         /\ IsCeilOf(m.fees[3], SecRate, m.fees[1], Scale)
    /\ m.kind # "slc" => m.fees = NoFees
CeilIsCeil ==
  \A m \in FeeLevels \cup {CommRate, SecRate}, x \in 0..(2 * Scale + 3) : IsCeilOf(CeilMulDec(m, x, Scale), m, x, Scale)
=============================================================================
