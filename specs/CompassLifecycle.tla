-------------------------- MODULE CompassLifecycle --------------------------
(***************************************************************************)
(* Deployment lifecycle of the "compass" (bridge smart contract) of x/evm. *)
(* One action per critical section of the Go code:                         *)
(*   NewCompass          gov DeployNewSmartContractProposal:               *)
(*                       SaveNewSmartContract + SetAsCompassContract       *)
(*                       (-> tryDeployingSmartContractToAllChains)         *)
(*   EndBlockTryDeploy   evm.AppModule.EndBlock (EVERY block) ->           *)
(*                       TryDeployingLastCompassContractToAllChains        *)
(*   Attest<Kind><Out>   quorum evidence for ONE queued message arrives and *)
(*                       consensus.EndBlock -> CheckAndProcessAttested-    *)
(*                       Messages walks ALL queues (chains in store order, *)
(*                       messages in id order), attestMessageWrapper per   *)
(*                       message on its own cache context; the walk aborts *)
(*                       at the first error.  Out: Ok (TxExecutedProof,    *)
(*                       receipt successful), Err (SmartContractExecution- *)
(*                       ErrorProof), TxFail (TxExecutedProof, receipt     *)
(*                       failed -> ErrEthTxFailed)                         *)
(*   PruneMessage        consensus.EndBlock every 50 blocks -> PruneOld-   *)
(*                       Messages -> PruneJob (oldest message of a queue)  *)
(*   RemoveDeployment    MsgRemoveSmartContractDeploymentRequest           *)
(*   SetFeeManager / AddChain / RemoveChain   governance proposals         *)
(* The model is implementation shaped: it states what the code does, the   *)
(* properties below are what that code guarantees; stuck states the code   *)
(* allows are stated as the O_* predicates (expected to be violated, see   *)
(* specs/mc/CompassLifecycle_obs*.cfg).                                    *)
(***************************************************************************)
EXTENDS Integers, Sequences, FiniteSets, TLC

CONSTANTS NChains,     \* chains 1..NChains in chain-info store order (= order of the attestation walk)
          MaxId,       \* compass contract ids 1..MaxId
          MaxRetries,  \* cMaxSubmitLogicCallRetries = 2 (attemptRetry uses that constant)
          InitActive,  \* <<..>> active contract id per chain at start (0 = chain known but never activated)
          Removable,   \* chains a RemoveChainProposal may name (bounding)
          SkyInit      \* last observed skyway nonce per chain at start (reset to 0 by the activation event)

Chains == 1..NChains

VARIABLES last,   \* id of the last compass contract (GetLastCompassContract); ids are handed out consecutively
          info,   \* [Chains -> [ex, fee, active, addr]] chain info: exists, fee manager set, ActiveSmartContractID, SmartContractAddr (token)
          snap,   \* [Chains -> BOOLEAN] a valset snapshot is published on the chain (valset store; survives chain removal)
          dep,    \* [Chains -> SUBSET [id, st, addr]] deployment records (store is keyed by a counter: nothing forces <= 1)
          queue,  \* [Chains -> Seq([kind, id, retries, addr, ev])] turnstone queue; survives chain removal (hidden meanwhile)
          seq,    \* number of contract addresses recorded so far (tokens 1..seq)
          sky,    \* [Chains -> Nat] skyway last observed nonce
          act,    \* last action [name, c, k, id]
          res     \* its result
vars == <<last, info, snap, dep, queue, seq, sky, act, res>>

NoInfo == [ex |-> FALSE, fee |-> FALSE, active |-> 0, addr |-> 0]
FreshInfo == [ex |-> TRUE, fee |-> FALSE, active |-> 0, addr |-> 0]
Upload(id, r) == [kind |-> "upload", id |-> id, retries |-> r, addr |-> 0, ev |-> "none"]
Handover(id, a) == [kind |-> "handover", id |-> id, retries |-> 0, addr |-> a, ev |-> "none"]
Act(n, c, k, id) == [name |-> n, c |-> c, k |-> k, id |-> id]
RECURSIVE CountTrue(_, _)
CountTrue(f, n) == IF n = 0 THEN 0 ELSE (IF f[n] > 0 THEN 1 ELSE 0) + CountTrue(f, n - 1)

Init ==
  /\ last = 1
  /\ info = [c \in Chains |-> [ex |-> TRUE, fee |-> InitActive[c] > 0, active |-> InitActive[c],
                               addr |-> IF InitActive[c] > 0 THEN CountTrue(InitActive, c) ELSE 0]]
  /\ snap = [c \in Chains |-> InitActive[c] > 0]
  /\ dep = [c \in Chains |-> {}]
  /\ queue = [c \in Chains |-> <<>>]
  /\ seq = CountTrue(InitActive, NChains)
  /\ sky = [c \in Chains |-> SkyInit]
  /\ act = Act("Init", 0, 0, 0) /\ res = "init"

-----------------------------------------------------------------------------
(* tryDeployingSmartContractToAllChains(id) on chain infos `inf`: a chain is skipped when it has ANY deployment
   record or its active contract is not older; deploySmartContractToChain needs the fee manager (the error is
   collected, other chains go on), then creates the IN_FLIGHT record and the upload message (retries 0).
   Assumed: the snapshot has enough validators for every chain and a relayer can be picked. *)
CanDeploy(inf, c, id) == inf[c].ex /\ dep[c] = {} /\ inf[c].active < id /\ inf[c].fee
TryDeployAll(inf, id) ==
  /\ dep' = [c \in Chains |-> IF id > 0 /\ CanDeploy(inf, c, id) THEN {[id |-> id, st |-> "inflight", addr |-> 0]} ELSE dep[c]]
  /\ queue' = [c \in Chains |-> IF id > 0 /\ CanDeploy(inf, c, id) THEN Append(queue[c], Upload(id, 0)) ELSE queue[c]]

NewCompass ==
  /\ last < MaxId
  /\ last' = last + 1
  /\ TryDeployAll(info, last + 1)
  /\ act' = Act("NewCompass", 0, 0, 0) /\ res' = "ok"
  /\ UNCHANGED <<info, snap, seq, sky>>

EndBlockTryDeploy ==
  /\ TryDeployAll(info, last)
  /\ act' = Act("EndBlockTryDeploy", 0, 0, 0) /\ res' = "eb"
  /\ UNCHANGED <<last, info, snap, seq, sky>>

-----------------------------------------------------------------------------
(* The attestation walk.  st = [info, snap, dep, queue, seq, sky, err]. *)
DepsOf(D, id) == {d \in D : d.id = id}

\* SetSmartContractAsActive succeeded: ActivateChainReferenceID (no-op on the chain info when the active id is not
\* older, but the event is published either way) and the record is deleted
Activate(st, c, id, a) ==
  [st EXCEPT !.info[c] = IF @.active >= id THEN @ ELSE [@ EXCEPT !.active = id, !.addr = a],
             !.dep[c] = @ \ DepsOf(@, id),
             !.sky[c] = 0]

\* result of routing one message with winning evidence: new state, whether the message stays, messages appended, error
Out(st, keep, add, err) == [st |-> st, keep |-> keep, add |-> add, err |-> err]
Process(st, c, m) ==
  LET D == DepsOf(st.dep[c], m.id) IN
  IF m.ev = "txfail" THEN Out(st, FALSE, <<>>, TRUE)           \* ErrEthTxFailed: cache written (message gone), walk aborted
  ELSE IF m.kind = "upload" /\ m.ev = "err" THEN
    IF m.retries >= MaxRetries THEN Out([st EXCEPT !.dep[c] = @ \ D], FALSE, <<>>, FALSE)
    ELSE Out(st, FALSE, <<Upload(m.id, m.retries + 1)>>, FALSE)   \* re-queued whether or not the record still exists
  ELSE IF m.kind = "upload" /\ m.ev = "ok" THEN
    IF D = {} \/ \E d \in D : d.st # "inflight" THEN Out(st, TRUE, <<>>, TRUE)   \* ErrCannotActive...: nothing written, message stays
    ELSE LET a == st.seq + 1
             s1 == [st EXCEPT !.seq = a, !.dep[c] = (@ \ D) \cup {[id |-> m.id, st |-> "waiting", addr |-> a]}] IN
         IF ~st.snap[c] THEN Out(Activate([s1 EXCEPT !.snap[c] = TRUE], c, m.id, a), FALSE, <<>>, FALSE)
         ELSE Out(s1, FALSE, <<Handover(m.id, a)>>, FALSE)
  ELSE IF m.kind = "handover" /\ m.ev = "err" THEN Out(st, FALSE, <<>>, FALSE)   \* logged, nothing else
  ELSE \* handover, ok
    IF D = {} \/ \E d \in D : d.st # "waiting" THEN Out(st, TRUE, <<>>, TRUE)
    ELSE Out(Activate(st, c, m.id, (CHOOSE d \in D : TRUE).addr), FALSE, <<>>, FALSE)

\* messages of one queue as loaded at the start of the walk: kept (walked, stay), rest (to walk), added (appended meanwhile)
RECURSIVE Walk(_, _, _, _, _)
Walk(st, c, kept, rest, added) ==
  IF rest = <<>> THEN [st EXCEPT !.queue[c] = kept \o added]
  ELSE LET m == Head(rest) IN
       IF m.ev = "none" THEN Walk(st, c, Append(kept, m), Tail(rest), added)
       ELSE LET r == Process(st, c, m)
                k2 == IF r.keep THEN Append(kept, m) ELSE kept IN
            IF r.err THEN [r.st EXCEPT !.queue[c] = k2 \o Tail(rest) \o added \o r.add, !.err = TRUE]
            ELSE Walk(r.st, c, k2, Tail(rest), added \o r.add)

RECURSIVE PassFrom(_, _)
PassFrom(st, c) ==
  IF c > NChains THEN st
  ELSE IF ~st.info[c].ex THEN PassFrom(st, c + 1)       \* queues are derived from the chain infos
  ELSE LET s2 == Walk(st, c, <<>>, st.queue[c], <<>>) IN
       IF s2.err THEN s2 ELSE PassFrom(s2, c + 1)

Attest(name, kind, c, k, o) ==
  /\ info[c].ex /\ k \in DOMAIN queue[c] /\ queue[c][k].kind = kind /\ queue[c][k].ev = "none"
  /\ LET r == PassFrom([info |-> info, snap |-> snap, dep |-> dep, queue |-> [queue EXCEPT ![c][k].ev = o],
                        seq |-> seq, sky |-> sky, err |-> FALSE], 1) IN
     /\ info' = r.info /\ snap' = r.snap /\ dep' = r.dep /\ queue' = r.queue /\ seq' = r.seq /\ sky' = r.sky
     /\ res' = IF r.err THEN "err" ELSE "ok"
  /\ act' = Act(name, c, k, queue[c][k].id)
  /\ UNCHANGED last

AttestUploadOk(c, k)       == Attest("AttestUploadOk", "upload", c, k, "ok")
AttestUploadErr(c, k)      == Attest("AttestUploadErr", "upload", c, k, "err")
AttestUploadTxFail(c, k)   == Attest("AttestUploadTxFail", "upload", c, k, "txfail")
AttestHandoverOk(c, k)     == Attest("AttestHandoverOk", "handover", c, k, "ok")
AttestHandoverErr(c, k)    == Attest("AttestHandoverErr", "handover", c, k, "err")
AttestHandoverTxFail(c, k) == Attest("AttestHandoverTxFail", "handover", c, k, "txfail")
AttestNames == {"AttestUploadOk", "AttestUploadErr", "AttestUploadTxFail", "AttestHandoverOk", "AttestHandoverErr", "AttestHandoverTxFail"}

-----------------------------------------------------------------------------
\* the oldest message of a queue expires unattested: PruneJob deletes the message and nothing else
PruneMessage(c) ==
  /\ info[c].ex /\ queue[c] # <<>>
  /\ queue' = [queue EXCEPT ![c] = Tail(@)]
  /\ act' = Act("PruneMessage", c, 1, queue[c][1].id) /\ res' = "ok"
  /\ UNCHANGED <<last, info, snap, dep, seq, sky>>

\* anybody's MsgRemoveSmartContractDeploymentRequest: the record goes, queued messages stay
RemoveDeployment(c, id) ==
  /\ dep' = [dep EXCEPT ![c] = @ \ DepsOf(@, id)]
  /\ act' = Act("RemoveDeployment", c, 0, id) /\ res' = "ok"
  /\ UNCHANGED <<last, info, snap, queue, seq, sky>>

SetFeeManager(c) ==
  /\ IF info[c].ex THEN info' = [info EXCEPT ![c].fee = TRUE] /\ res' = "ok"
     ELSE UNCHANGED info /\ res' = "fail"
  /\ act' = Act("SetFeeManager", c, 0, 0)
  /\ UNCHANGED <<last, snap, dep, queue, seq, sky>>

\* RemoveSupportForChain deletes the chain info FIRST, so RemoveConsensusQueue no longer finds the queue: the messages
\* stay in the store (invisible until the chain is added again); deployment records and the published snapshot stay too
RemoveChain(c) ==
  /\ IF info[c].ex THEN info' = [info EXCEPT ![c] = NoInfo] /\ res' = "ok"
     ELSE UNCHANGED info /\ res' = "fail"
  /\ act' = Act("RemoveChain", c, 0, 0)
  /\ UNCHANGED <<last, snap, dep, queue, seq, sky>>

\* AddSupportForNewChain: fresh chain info (no fee manager), then TryDeployingLastCompassContractToAllChains
AddChain(c) ==
  /\ IF info[c].ex THEN UNCHANGED <<info, dep, queue>> /\ res' = "fail"
     ELSE /\ info' = [info EXCEPT ![c] = FreshInfo]
          /\ TryDeployAll([info EXCEPT ![c] = FreshInfo], last)
          /\ res' = "ok"
  /\ act' = Act("AddChain", c, 0, 0)
  /\ UNCHANGED <<last, snap, seq, sky>>

NextNoRemoveDeployment ==
  \/ NewCompass \/ EndBlockTryDeploy
  \/ \E c \in Chains : \E k \in DOMAIN queue[c] :
       \/ AttestUploadOk(c, k) \/ AttestUploadErr(c, k) \/ AttestUploadTxFail(c, k)
       \/ AttestHandoverOk(c, k) \/ AttestHandoverErr(c, k) \/ AttestHandoverTxFail(c, k)
  \/ \E c \in Chains : PruneMessage(c) \/ SetFeeManager(c) \/ AddChain(c)
  \/ \E c \in Removable : RemoveChain(c)
Next == NextNoRemoveDeployment \/ \E c \in Chains, id \in 1..MaxId : RemoveDeployment(c, id)
Spec == Init /\ [][Next]_vars

-----------------------------------------------------------------------------
(* Invariants *)
TypeOK ==
  /\ last \in 1..MaxId /\ seq \in Nat
  /\ \A c \in Chains : /\ info[c].active \in 0..MaxId /\ info[c].addr \in 0..seq
                       /\ \A d \in dep[c] : d.id \in 1..MaxId /\ d.st \in {"inflight", "waiting"} /\ d.addr \in 0..seq
                       /\ \A i \in DOMAIN queue[c] : /\ queue[c][i].kind \in {"upload", "handover"}
                                                     /\ queue[c][i].ev \in {"none", "ok", "err", "txfail"}
                                                     /\ queue[c][i].id \in 1..MaxId
AtMostOneDeployment == \A c \in Chains : Cardinality(dep[c]) <= 1
WaitingHasAddress == \A c \in Chains : \A d \in dep[c] : (d.st = "waiting") = (d.addr # 0)
RetriesBounded == \A c \in Chains : \A i \in DOMAIN queue[c] : queue[c][i].retries \in 0..MaxRetries
DeploymentNewer == \A c \in Chains : \A d \in dep[c] : d.id <= last /\ (info[c].ex => d.id > info[c].active)
ActiveKnown == \A c \in Chains : info[c].active <= last /\ ((info[c].active > 0) = (info[c].addr # 0))
                                 /\ (info[c].active > 0 => snap[c])
HandoverHasTarget == \A c \in Chains : \A i \in DOMAIN queue[c] : queue[c][i].kind = "handover" => queue[c][i].addr \in 1..seq
\* no relay of skyway batches while a deployment record exists: OutgoingTxBatches hands out nothing iff Relayable is false
Relayable(c) == dep[c] = {}

(* Step properties (checked as [][..]_vars) *)
Has(q, kind, id) == \E i \in DOMAIN q : q[i].kind = kind /\ q[i].id = id
Changed(c) == info[c].ex /\ info'[c].ex /\ info'[c].active # info[c].active
ActiveNeverDecreases == \A c \in Chains : info[c].ex /\ info'[c].ex => info'[c].active >= info[c].active
\* the active contract changes only in an attestation step, to the id of a deployment record that existed and is deleted;
\* with a snapshot on the chain the record was WAITING (i.e. its upload was attested before) and a hand-over message
\* of that id is consumed and the recorded address is installed; without one, the record was IN_FLIGHT and an upload message is consumed
ActivationPath ==
  \A c \in Chains : Changed(c) =>
    LET id == info'[c].active  D == DepsOf(dep[c], id) IN
    /\ act'.name \in AttestNames
    /\ D # {} /\ DepsOf(dep'[c], id) = {}
    /\ IF snap[c] THEN /\ Has(queue[c], "handover", id)
                       /\ info'[c].addr \in {d.addr : d \in D} \cup (seq + 1)..seq'
       ELSE /\ \A d \in D : d.st = "inflight"
            /\ snap'[c] /\ info'[c].addr \in (seq + 1)..seq'
            /\ Has(queue[c], "upload", id)
\* (one walk may attest several messages: a record can go IN_FLIGHT -> WAITING -> active within one step, which is why the
\*  properties speak about the messages present before the step and not about the record's status before the step)
\* a record becomes WAITING only by an attested upload of its id, with a fresh address
WaitingOnlyByUpload ==
  \A c \in Chains : \A d \in dep'[c] :
    (d.st = "waiting" /\ d \notin dep[c]) =>
       /\ act'.name \in AttestNames
       /\ [id |-> d.id, st |-> "inflight", addr |-> 0] \in dep[c]
       /\ d.addr \in (seq + 1)..seq' /\ Has(queue[c], "upload", d.id)
\* a hand-over message appears only in an attestation step, for an upload message that was there, towards a fresh address
HandoverOnlyAfterUpload ==
  \A c \in Chains : \A i \in DOMAIN queue'[c] :
    (queue'[c][i].kind = "handover" /\ queue'[c][i].addr > seq) =>
       act'.name \in AttestNames /\ Has(queue[c], "upload", queue'[c][i].id) /\ snap[c]
\* records appear only IN_FLIGHT, only by the deploy actions, only on a chain without a record, together with an upload(id, 0)
CreationPath ==
  \A c \in Chains : \A d \in dep'[c] :
    (DepsOf(dep[c], d.id) = {}) =>
       /\ act'.name \in {"NewCompass", "EndBlockTryDeploy", "AddChain"}
       /\ dep[c] = {} /\ d.st = "inflight" /\ d.id = last'
       /\ Len(queue'[c]) = Len(queue[c]) + 1 /\ queue'[c][Len(queue'[c])] = Upload(d.id, 0)
\* the oracle nonce is reset exactly when the active contract changes
NonceResetAtActivation == \A c \in Chains : info[c].ex /\ info'[c].ex => ((sky'[c] # sky[c]) => Changed(c)) /\ (Changed(c) => sky'[c] = 0)
\* holds only without RemoveDeployment: the address installed by a hand-over is the one a consumed hand-over message forwarded to
Strip(m) == [kind |-> m.kind, id |-> m.id, addr |-> m.addr]
Gone(c) == {Strip(queue[c][i]) : i \in DOMAIN queue[c]} \ {Strip(queue'[c][i]) : i \in DOMAIN queue'[c]}
HandoverAddrMatches ==
  \A c \in Chains : (Changed(c) /\ snap[c]) =>
    [kind |-> "handover", id |-> info'[c].active, addr |-> info'[c].addr] \in Gone(c)
StepProps == ActiveNeverDecreases /\ ActivationPath /\ WaitingOnlyByUpload /\ HandoverOnlyAfterUpload /\ CreationPath /\ NonceResetAtActivation

-----------------------------------------------------------------------------
(* OBSERVATIONS: predicates the code does NOT guarantee (TLC is expected to find a counterexample) *)
\* every deployment record has a message that can still move it: violated by a failed hand-over, an expired message,
\* a failed (status 0) transaction -> the record stays forever and HasAnySmartContractDeployment blocks every later deployment
O_DeploymentHasMessage ==
  \A c \in Chains : \A d \in dep[c] :
    \E i \in DOMAIN queue[c] : queue[c][i].id = d.id /\ queue[c][i].kind = (IF d.st = "inflight" THEN "upload" ELSE "handover")
O_WaitingHasHandover ==
  \A c \in Chains : \A d \in dep[c] : d.st = "waiting" => Has(queue[c], "handover", d.id)
\* no attested message stays in the queue (a message that errors stays and aborts every later walk = head-of-line blocking)
O_NoPoison == \A c \in Chains : info[c].ex => \A i \in DOMAIN queue[c] : queue[c][i].ev = "none"
\* deployment records / messages of a removed chain
O_NoOrphans == \A c \in Chains : ~info[c].ex => dep[c] = {} /\ queue[c] = <<>>
=============================================================================
