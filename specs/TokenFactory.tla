---------------------------- MODULE TokenFactory ----------------------------
(***************************************************************************)
(* x/tokenfactory of Paloma as one transaction sees it: baseapp            *)
(* ValidateBasic -> ante chain (x/paloma VerifyAuthorisedSignature: the     *)
(* message's Metadata.Creator must be one of the signers, no fee grants in  *)
(* this model) -> msg server (x/tokenfactory/keeper/msg_server.go, bank.go, *)
(* denom.go, admins.go).  One action per message type; the chain of checks  *)
(* is transcribed in the order the code performs them, the failure classes  *)
(* are the ABCI (codespace, code) classes the code returns:                 *)
(*   "err"     undefined/1   unregistered error (signer is not the creator; *)
(*                           sub-denom equals a denom with supply; bech32)  *)
(*   "exists"  tokenfactory/2     "unauth"  tokenfactory/3                  *)
(*   "invalid" tokenfactory/4     "nodenom" tokenfactory/10                 *)
(*   "funds"   sdk/5 (creation fee or burn amount not covered)              *)
(*                                                                         *)
(* Every message carries  who (the signer)  and  as (Metadata.Creator): the *)
(* module mints to / burns from / charges / authorises `as`; there is no    *)
(* separate mint-to or burn-from field in Paloma's messages.  The ante      *)
(* decorator accepts who # as exactly when `as` granted `who` a fee         *)
(* allowance (x/feegrant; Paloma's delegated signing): grants is the set of *)
(* <<granter, grantee>> pairs, fixed per behaviour (written by genesis).    *)
(* A delegated message acts for the creator: whatever it does happens to    *)
(* the creator's denoms, balance and funds, never to the signer's.          *)
(*                                                                         *)
(* Reimport is the genesis round trip (every module's ExportGenesis, then   *)
(* InitGenesis of a fresh application on fresh stores): by definition it    *)
(* changes nothing of the abstract state.                                   *)
(*                                                                         *)
(* Denominations are pairs: <<c, s>> with c in Accounts is                  *)
(* factory/<address of c>/<sub s>; <<0, k>> are the non-factory ones:       *)
(* <<0,1>> native "ugrain" (with or without bank metadata in genesis, see   *)
(* NativeMetas), <<0,2>> "factory/x", <<0,3>> "factory//x", <<0,4>>         *)
(* "factory/<not bech32>/x", <<0,5>> "ibc/ABC", <<0,5+c>> "factory/<address *)
(* of c>" (a creator's bare namespace prefix).                               *)
(* Sub-denominations are abstract slots: the module never looks into the    *)
(* sub-denom string (it only joins it behind factory/<creator>/), so every  *)
(* slot behaves alike.  Which literal string a slot stands for is chosen    *)
(* per history by the generator (TokenFactoryGen.Bindings) from hostile but *)
(* valid classes: plain, with '/', with '..' segments that would climb 1, 2 *)
(* or 3 levels out of the namespace if the name were ever path-cleaned      *)
(* (onto factory/x, the native denom, ibc/ABC), './' prefix, '//' inside,   *)
(* trailing '/', empty.  The driver observes the real stores under the      *)
(* LITERAL name factory/<creator>/<sub as given> and counts every other     *)
(* name that shows up anywhere (TokenFactoryTrace: C16.NoForeignDenoms).    *)
(* The creation fee (params.DenomCreationFee, default 10 GRAIN, paid by     *)
(* `as` into the community pool) is modelled in units: funds[a] = number of *)
(* fees account a can still pay.                                            *)
(***************************************************************************)
EXTENDS Integers, Sequences, FiniteSets, TLC

CONSTANTS Accounts,     \* set of account ids (positive integers)
          Subs,         \* set of sub-denom ids (positive integers)
          Amounts,      \* amounts tried by mint / burn
          Funds,        \* [Accounts -> Nat] creation fees each account can pay at genesis
          GrantSets,    \* set of possible fee-grant relations (each a set of <<granter, grantee>> pairs)
          NativeMetas,  \* subset of {0, 1}: genesis without / with bank metadata for the native denom
          SpecialIds,   \* ids k of the non-factory denominations <<0, k>> (1 = native)
          MaxOps        \* bound on operations (model checking only)

VARIABLES denoms,       \* authority metadata: denom -> admin (0 = empty admin), only stored denoms
          bmeta,        \* bank denom metadata: denom -> marker (0 = as created / genesis, a = set by account a)
          supply,       \* bank supply per denom
          bal,          \* bal[d][a] balance of account a
          funds,        \* remaining creation fees per account
          grants,       \* fee allowances <<granter, grantee>> (never changes)
          minted,       \* monitor: sum of successful mints per denom
          burned,       \* monitor: sum of successful burns per denom
          res,          \* result class of the last action
          last,         \* the last action [act, who, as, c, s, amt, new]
          nops

svars == <<denoms, bmeta, supply, bal, funds, minted, burned>>
vars  == <<svars, grants, res, last, nops>>

NoAdmin  == 0           \* MsgChangeAdmin.NewAdmin = "" (renounce)
BadAddr  == -1          \* NewAdmin that is not bech32
Native     == <<0, 1>>
Short      == <<0, 2>>
NoCreator  == <<0, 3>>
BadCreator == <<0, 4>>
Specials  == {<<0, k>> : k \in SpecialIds}
Factory   == Accounts \X Subs
AllDenoms == Factory \cup Specials
NativeSub == 0          \* sub-denom string equal to the native denom
SubsX     == Subs \cup {NativeSub}
NewAdmins == Accounts \cup {NoAdmin, BadAddr}
Priv      == {"Mint", "Burn", "ChangeAdmin", "SetMetadata"}

AdminOf(d)  == IF d \in DOMAIN denoms THEN denoms[d] ELSE NoAdmin   \* GetAuthorityMetadata of an unknown denom is empty
HasMeta(d)  == d \in DOMAIN bmeta
MetaOf(d)   == IF d \in DOMAIN bmeta THEN bmeta[d] ELSE -1
Deconstructs(d) == d \in Factory                                    \* types.DeconstructDenom succeeds
Ext(f, k, v) == [x \in DOMAIN f \cup {k} |-> IF x = k THEN v ELSE f[x]]
Rec(a, who, as, c, s, amt, new) == [act |-> a, who |-> who, as |-> as, c |-> c, s |-> s, amt |-> amt, new |-> new]
Done(r, w) == res' = w /\ last' = r /\ nops' = nops + 1 /\ grants' = grants
\* x/paloma VerifyAuthorisedSignatureDecorator: signed by the creator, or by somebody holding a fee allowance of the creator
Authorised(who, as) == who = as \/ <<as, who>> \in grants

-----------------------------------------------------------------------------
InitWith(m, g) ==
  /\ grants = g
  /\ denoms = [d \in {} |-> 0]
  /\ bmeta = [d \in (IF m = 1 THEN {Native} ELSE {}) |-> 0]
  /\ supply = [d \in AllDenoms |-> 0]        \* native: difference to the genesis supply
  /\ bal = [d \in AllDenoms |-> [a \in Accounts |-> 0]]   \* native: remainder beyond whole fees
  /\ funds = Funds
  /\ minted = [d \in AllDenoms |-> 0]
  /\ burned = [d \in AllDenoms |-> 0]
  /\ res = "init" /\ last = Rec("Init", 0, 0, 0, 0, 0, 0) /\ nops = 0
Init == \E m \in NativeMetas, g \in GrantSets : InitWith(m, g)

(* MsgCreateDenom: ValidateBasic builds the denom (always fine for these sub-denoms); ante;           *)
(* validateCreateDenom: bank.HasSupply(subdenom), bank metadata lookup; chargeForCreateDenom;          *)
(* createDenomAfterValidation.                                                                         *)
CreateWhy(who, as, sub) ==
  IF ~Authorised(who, as) THEN "err"
  ELSE IF sub = NativeSub THEN "err"
  ELSE IF HasMeta(<<as, sub>>) THEN "exists"
  ELSE IF funds[as] = 0 THEN "funds"
  ELSE "ok"

Create(who, as, sub) ==
  LET w == CreateWhy(who, as, sub)  d == <<as, sub>> IN
  /\ IF w = "ok"
     THEN /\ funds' = [funds EXCEPT ![as] = @ - 1]
          /\ bmeta' = Ext(bmeta, d, 0)
          /\ denoms' = Ext(denoms, d, as)
          /\ UNCHANGED <<supply, bal, minted, burned>>
     ELSE UNCHANGED svars
  /\ Done(Rec("Create", who, as, 0, sub, 0, 0), w)

(* MsgMint: ValidateBasic (coin valid, amount > 0); ante; bank metadata must exist; admin comparison;  *)
(* mintTo: DeconstructDenom, MintCoins, SendCoinsFromModuleToAccount(creator).                          *)
MintWhy(who, as, d) ==
  IF ~Authorised(who, as) THEN "err"
  ELSE IF ~HasMeta(d) THEN "nodenom"
  ELSE IF as # AdminOf(d) THEN "unauth"
  ELSE IF ~Deconstructs(d) THEN "invalid"
  ELSE "ok"

Mint(who, as, d, amt) ==
  LET w == MintWhy(who, as, d) IN
  /\ IF w = "ok"
     THEN /\ supply' = [supply EXCEPT ![d] = @ + amt]
          /\ bal' = [bal EXCEPT ![d][as] = @ + amt]
          /\ minted' = [minted EXCEPT ![d] = @ + amt]
          /\ UNCHANGED <<denoms, bmeta, funds, burned>>
     ELSE UNCHANGED svars
  /\ Done(Rec("Mint", who, as, d[1], d[2], amt, 0), w)

(* MsgBurn: ValidateBasic; ante; admin comparison (no existence check: an unknown denom has the empty  *)
(* admin); burnFrom: DeconstructDenom, SendCoinsFromAccountToModule(creator), BurnCoins.                *)
BurnWhy(who, as, d, amt) ==
  IF ~Authorised(who, as) THEN "err"
  ELSE IF as # AdminOf(d) THEN "unauth"
  ELSE IF ~Deconstructs(d) THEN "invalid"
  ELSE IF bal[d][as] < amt THEN "funds"
  ELSE "ok"

Burn(who, as, d, amt) ==
  LET w == BurnWhy(who, as, d, amt) IN
  /\ IF w = "ok"
     THEN /\ supply' = [supply EXCEPT ![d] = @ - amt]
          /\ bal' = [bal EXCEPT ![d][as] = @ - amt]
          /\ burned' = [burned EXCEPT ![d] = @ + amt]
          /\ UNCHANGED <<denoms, bmeta, funds, minted>>
     ELSE UNCHANGED svars
  /\ Done(Rec("Burn", who, as, d[1], d[2], amt, 0), w)

(* MsgChangeAdmin: ValidateBasic deconstructs the denom; ante; admin comparison; setAdmin validates    *)
(* the new admin (empty is allowed).                                                                    *)
ChangeAdminWhy(who, as, d, new) ==
  IF ~Deconstructs(d) THEN "invalid"
  ELSE IF ~Authorised(who, as) THEN "err"
  ELSE IF as # AdminOf(d) THEN "unauth"
  ELSE IF new = BadAddr THEN "err"
  ELSE "ok"

ChangeAdmin(who, as, d, new) ==
  LET w == ChangeAdminWhy(who, as, d, new) IN
  /\ IF w = "ok"
     THEN /\ denoms' = [denoms EXCEPT ![d] = new]
          /\ UNCHANGED <<bmeta, supply, bal, funds, minted, burned>>
     ELSE UNCHANGED svars
  /\ Done(Rec("ChangeAdmin", who, as, d[1], d[2], 0, new), w)

(* MsgSetDenomMetadata: ValidateBasic validates the metadata and deconstructs its base; ante; admin    *)
(* comparison; bank.SetDenomMetaData.  The written metadata carries the marker `as`.                   *)
SetMetadataWhy(who, as, d) ==
  IF ~Deconstructs(d) THEN "invalid"
  ELSE IF ~Authorised(who, as) THEN "err"
  ELSE IF as # AdminOf(d) THEN "unauth"
  ELSE "ok"

SetMetadata(who, as, d) ==
  LET w == SetMetadataWhy(who, as, d) IN
  /\ IF w = "ok"
     THEN /\ bmeta' = Ext(bmeta, d, as)
          /\ UNCHANGED <<denoms, supply, bal, funds, minted, burned>>
     ELSE UNCHANGED svars
  /\ Done(Rec("SetMetadata", who, as, d[1], d[2], 0, 0), w)

(* Genesis round trip: ExportGenesis of every module, InitGenesis on a fresh application.  Stuttering on the   *)
(* whole abstract state: admins (also the renounced ones), supplies, balances, metadata, funds, grants.        *)
Reimport ==
  /\ UNCHANGED svars
  /\ Done(Rec("Reimport", 0, 0, 0, 0, 0, 0), "ok")

Next ==
  \/ Reimport
  \/ \E who \in Accounts, as \in Accounts :
     \/ \E sub \in SubsX : Create(who, as, sub)
     \/ \E d \in AllDenoms, amt \in Amounts : Mint(who, as, d, amt) \/ Burn(who, as, d, amt)
     \/ \E d \in AllDenoms, new \in NewAdmins : ChangeAdmin(who, as, d, new)
     \/ \E d \in AllDenoms : SetMetadata(who, as, d)

Spec == Init /\ [][Next]_vars

-----------------------------------------------------------------------------
(* Property C16.  State invariants, and step properties written as action formulas over the state      *)
(* before/after the step, the executed action `last'` and its reported result `res'`; the model        *)
(* checker verifies [][P]_vars, the trace specification evaluates the same formulas on observed state. *)

RECURSIVE SumOver(_, _)
SumOver(f, T) == IF T = {} THEN 0 ELSE LET x == CHOOSE y \in T : TRUE IN f[x] + SumOver(f, T \ {x})
Sum3(f) == SumOver(f, DOMAIN f)

TypeOK ==
  /\ DOMAIN denoms \subseteq AllDenoms
  /\ \A d \in DOMAIN denoms : denoms[d] \in Accounts \cup {NoAdmin}
  /\ \A d \in AllDenoms : supply[d] >= 0 /\ \A a \in Accounts : bal[d][a] >= 0
  /\ \A a \in Accounts : funds[a] >= 0

\* total supply = successful mints - successful burns
SupplyLedger == \A d \in AllDenoms : supply[d] = minted[d] - burned[d]
\* nothing is stranded anywhere else: the tracked holders own the whole supply
BalancesBackSupply == \A d \in AllDenoms : Sum3(bal[d]) = supply[d]
\* everything the module knows is inside a creator's namespace and has bank metadata
NamespaceOK == /\ DOMAIN denoms \subseteq Factory
               /\ DOMAIN denoms = DOMAIN bmeta \ {Native}
\* (that the native denom's metadata never changes is part of the step property MetadataByAdmin)
\* denominations that were not created by the factory are never touched through it
NonFactoryUntouched ==
  /\ \A d \in Specials : /\ d \notin DOMAIN denoms
                         /\ supply[d] = 0 /\ minted[d] = 0 /\ burned[d] = 0
                         /\ \A a \in Accounts : bal[d][a] = 0
  /\ DOMAIN bmeta \cap Specials \subseteq {Native} /\ (Native \in DOMAIN bmeta => bmeta[Native] = 0)

Ok  == res' = "ok"
A   == last'
Dn  == <<last'.c, last'.s>>

\* only the current admin succeeds with a privileged action, and only on a factory denom: the message's creator is the
\* admin, and the signer is the creator or holds the creator's fee allowance (delegated signing)
OnlyAdminActs == (Ok /\ A.act \in Priv) =>
  /\ Authorised(A.who, A.as) /\ Dn \in DOMAIN denoms /\ denoms[Dn] = A.as /\ Dn \in Factory
\* balances move only by a successful mint / burn of the admin, by exactly the amount, and it is the ADMIN's
\* (the message creator's) balance that moves -- never the balance of a delegated signer
OwnBalanceOnly == \A d \in AllDenoms, a \in Accounts :
  bal'[d][a] # bal[d][a] =>
     /\ Ok /\ A.act \in {"Mint", "Burn"} /\ d = Dn /\ a = A.as /\ AdminOf(d) = a
     /\ bal'[d][a] = bal[d][a] + (IF A.act = "Mint" THEN A.amt ELSE 0 - A.amt)
\* the admin role changes hands only through the current admin's ChangeAdmin; known denoms stay known
AdminHandover ==
  /\ DOMAIN denoms \subseteq DOMAIN denoms'
  /\ \A d \in DOMAIN denoms : denoms'[d] # denoms[d] =>
       /\ Ok /\ A.act = "ChangeAdmin" /\ d = Dn /\ denoms[d] = A.as /\ Authorised(A.who, A.as) /\ denoms'[d] = A.new
\* a new denom appears only by its creator's Create, is exactly <<creator, sub>>, with the creator as admin, and did not exist
CreateNamespace ==
  /\ \A d \in DOMAIN denoms' \ DOMAIN denoms :
       /\ Ok /\ A.act = "Create" /\ Authorised(A.who, A.as) /\ d = <<A.as, A.s>> /\ A.s \in Subs
       /\ denoms'[d] = A.as /\ ~HasMeta(d) /\ supply[d] = 0
  /\ (Ok /\ A.act = "Create") =>
       /\ <<A.as, A.s>> \notin DOMAIN denoms /\ <<A.as, A.s>> \in DOMAIN denoms'
       /\ Cardinality(DOMAIN denoms') = Cardinality(DOMAIN denoms) + 1
\* bank metadata changes only by the admin's SetMetadata or by the creation itself
MetadataByAdmin == \A d \in AllDenoms :
  MetaOf(d)' # MetaOf(d) =>
     /\ Ok
     /\ \/ A.act = "SetMetadata" /\ d = Dn /\ AdminOf(d) = A.as /\ Authorised(A.who, A.as) /\ MetaOf(d)' = A.as
        \/ A.act = "Create" /\ d = <<A.as, A.s>> /\ d \notin DOMAIN denoms /\ MetaOf(d)' = 0
\* the creation fee is the creator's, a delegated signer pays nothing; funds move in no other way
FeeFromCreator == \A a \in Accounts :
  funds'[a] # funds[a] => (Ok /\ A.act = "Create" /\ a = A.as /\ funds'[a] = funds[a] - 1)
\* the genesis round trip changes nothing
ReimportPreserves == A.act = "Reimport" => UNCHANGED <<denoms, bmeta, supply, bal, funds, grants>>
\* ... split for the trace monitors: everything but metadata, and metadata; MetadataResetOnly describes the one shape
\* of metadata change a round trip is known to make on the pinned tree (known finding): the metadata the admin wrote for a
\* stored factory denom falls back to the bare record of the creation
ReimportKeepsRecords  == A.act = "Reimport" => UNCHANGED <<denoms, supply, bal, funds, grants>>
ReimportKeepsMetadata == A.act = "Reimport" => UNCHANGED bmeta
MetadataResetOnly == \A d \in AllDenoms : MetaOf(d)' # MetaOf(d) =>
                        (d \in DOMAIN denoms /\ d \in Factory /\ MetaOf(d) \in Accounts /\ MetaOf(d)' = 0)
\* a rejected message changes nothing
FailureIsNoop == ~Ok => UNCHANGED <<denoms, bmeta, supply, bal>>

PA_OnlyAdminActs   == [][OnlyAdminActs]_vars
PA_OwnBalanceOnly  == [][OwnBalanceOnly]_vars
PA_AdminHandover   == [][AdminHandover]_vars
PA_CreateNamespace == [][CreateNamespace]_vars
PA_MetadataByAdmin == [][MetadataByAdmin]_vars
PA_FailureIsNoop   == [][FailureIsNoop]_vars
PA_FeeFromCreator  == [][FeeFromCreator]_vars
PA_ReimportPreserves == [][ReimportPreserves]_vars
=============================================================================
