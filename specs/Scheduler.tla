------------------------------ MODULE Scheduler ------------------------------
(***************************************************************************)
(* x/scheduler of Paloma with the EVM bridge behind it, as one request     *)
(* sees it.                                                                *)
(*                                                                         *)
(*  Create : MsgCreateJob (ante: Metadata.Creator must be the signer ->    *)
(*           msg_server_create_job.go: owner := creator -> AddNewJob ->    *)
(*           saveJob) or the wasm binding create_job (bindings/            *)
(*           msg_plugin.go: ValidateBasic first, owner := contract).       *)
(*  Execute: MsgExecuteJob (msg_server_execute_job.go), or the wasm        *)
(*           bindings execute_job / legacy {job_id,payload} (payload is    *)
(*           mandatory there, the caller is the contract address) ->       *)
(*           keeper.ExecuteJob -> PreJobExecution (x/evm just-in-time      *)
(*           valset update) -> ScheduleNow (payload override only when the *)
(*           job is modifiable) -> x/evm ExecuteJob (payload ++ 32 byte    *)
(*           left padded requester) -> AddSmartContractExecutionToConsensus*)
(*           (relayer pick, turnstone queue of the job's chain).           *)
(*                                                                         *)
(* The world (fixed by the driver's set-up, see harness/drivers/scheduler):*)
(*   chain 1 eth-main   active, fees, one MEV capable validator, still on  *)
(*                      the previous valset (=> one UpdateValset is issued *)
(*                      together with the first logic call)                *)
(*   chain 2 bnb-main   active, fees, no MEV capable validator             *)
(*   chain 3 matic-main active, no validator has a relayer fee record      *)
(*   chain 4 op-main    added but never activated (no compass); the code   *)
(*                      has no activity check on this path: it enqueues    *)
(*   chain 5            unknown to x/evm (jobs can still be created)       *)
(* MEV jobs are only valid for the reference ids eth-main, bnb-main,       *)
(* matic-main (types/job.go).                                              *)
(*                                                                         *)
(* Callers are accounts (signed transactions, via = "tx") and contracts    *)
(* (via = "wasm" / "legacy").  `as` is Metadata.Creator of a transaction   *)
(* (must equal the signer) resp. the ignored `sender` field of the wasm    *)
(* execute_job message.                                                    *)
(* Payload ids: stored payloads are positive ids, CallerPayload is what a  *)
(* caller supplies (pg = 1), pg = 2 is a caller payload that is not JSON.  *)
(* A payload is a JSON document {"hexPayload": "<hex>"}; nothing restricts *)
(* how <hex> is SPELLED, and x/evm decodes it with go-ethereum's           *)
(* common.FromHex: an optional 0x / 0X prefix is dropped, an odd number of *)
(* digits is left padded with one 0, the case of the digits is irrelevant, *)
(* the empty string is the empty payload.  The spelling `sp` of the stored *)
(* payload (Create) resp. of the caller's payload (Execute through a       *)
(* transaction; the wasm bindings hex-encode raw bytes themselves) is a    *)
(* dimension of the model; Den(p, sp) is the byte string the spelling      *)
(* DENOTES: p for the bare / prefixed / upper-case spellings of payload p, *)
(* OddOf(p) for the odd spelling (first digit dropped => other bytes),     *)
(* EmptyBytes for the empty spelling.                                      *)
(***************************************************************************)
EXTENDS Integers, Sequences, FiniteSets, TLC

CONSTANTS Accounts,     \* account callers (positive integers)
          Contracts,    \* contract callers (positive integers, disjoint from Accounts)
          JobIds,       \* valid job ids (positive integers); 0 is an id that fails validation
          Chains,       \* subset of 1..5 (see above)
          Targets,      \* contract addresses a job can call
          Payloads,     \* stored payload ids
          Spellings     \* subset of {"bare", "0x", "0X", "odd", "upper", "empty"}

VARIABLES jobs,         \* job store: id -> [owner, chain, target, payload, sp, den, mod, mev]
          vq,           \* chains whose pending valset has been put into the turnstone queue
          added,        \* messages the last request added to the turnstone queues (in queue order)
          res,          \* result class of the last request
          last,         \* the last request
          nops

svars == <<jobs, vq>>
vars  == <<jobs, vq, added, res, last, nops>>

BadId == 0
CallerPayload == 0
Callers == Accounts \cup Contracts

Known(c)    == c \in 1..4
MevName(c)  == c \in 1..3         \* Job.ValidateBasic accepts the MEV flag
MevVal(c)   == c = 1              \* a validator with the MEV trait exists
Fees(c)     == c \in {1, 2, 4}    \* validators have relayer fee records
Unsynced(c) == c = 1              \* published valset differs from the current one (active chain)

\* byte strings: payload ids denote themselves, the odd spelling of p denotes OddOf(p), the empty spelling EmptyBytes
OddOf(p) == 100 + p
EmptyBytes == 1000
Den(p, sp) == CASE sp = "empty" -> EmptyBytes [] sp = "odd" -> OddOf(p) [] OTHER -> p
\* the empty spelling carries no payload id
NormP(p, sp) == IF sp = "empty" THEN 0 ELSE p
\* den: the bytes the STORED document denotes (in the trace: decoded from the stored job record itself)
Job(o, c, t, p, sp, m, v) == [owner |-> o, chain |-> c, target |-> t, payload |-> NormP(p, sp), sp |-> sp, den |-> Den(p, sp), mod |-> m, mev |-> v]
Rec(a, who, as, via, id, c, t, p, sp, m, v, pg) ==
  [act |-> a, who |-> who, as |-> as, via |-> via, id |-> id, chain |-> c, target |-> t, payload |-> p, sp |-> sp, mod |-> m, mev |-> v, pg |-> pg]
Ext(f, k, v) == [x \in DOMAIN f \cup {k} |-> IF x = k THEN v ELSE f[x]]
Done(r, w) == res' = w /\ last' = r /\ nops' = nops + 1

Slc(c, t, b, s) == [type |-> "slc", chain |-> c, target |-> t, body |-> b, sfx |-> s]
Uvs(c)          == [type |-> "valset", chain |-> c, target |-> 0, body |-> 0, sfx |-> 0]

-----------------------------------------------------------------------------
Init ==
  /\ jobs = [i \in {} |-> 0]
  /\ vq = {}
  /\ added = <<>>
  /\ res = "init" /\ last = Rec("Init", 0, 0, "", 0, 0, 0, 0, "", FALSE, FALSE, 0) /\ nops = 0

Invalid(id, c, v) == id = BadId \/ (v /\ ~MevName(c))

\* tx: ante, then AddNewJob (exists) before saveJob (ValidateBasic); wasm binding: ValidateBasic before the msg server
CreateWhy(who, as, via, id, c, v) ==
  IF via = "tx"
  THEN IF who # as THEN "err"
       ELSE IF id \in DOMAIN jobs THEN "exists"
       ELSE IF Invalid(id, c, v) THEN "invalid"
       ELSE "ok"
  ELSE IF Invalid(id, c, v) THEN "invalid"
       ELSE IF id \in DOMAIN jobs THEN "exists"
       ELSE "ok"

\* the spelling of the stored payload is never looked at when a job is created (VerifyJob only parses the JSON)
CreateJobs(w, who, id, c, t, p, sp, m, v) == IF w = "ok" THEN Ext(jobs, id, Job(who, c, t, p, sp, m, v)) ELSE jobs

Create(who, as, via, id, c, t, p, sp, m, v) ==
  LET w == CreateWhy(who, as, via, id, c, v) IN
  /\ jobs' = CreateJobs(w, who, id, c, t, p, sp, m, v)
  /\ vq' = vq /\ added' = <<>>
  /\ Done(Rec("Create", who, as, via, id, c, t, p, sp, m, v, 0), w)

ExecWhy(who, as, via, id, pg) ==
  IF via = "tx" /\ who # as THEN "err"
  ELSE IF via # "tx" /\ pg = 0 THEN "nopayload"
  ELSE IF id \notin DOMAIN jobs THEN "notfound"
  ELSE LET j == jobs[id] IN
       IF pg # 0 /\ ~j.mod THEN "cannotmodify"
       ELSE IF pg = 2 THEN "badpayload"
       ELSE IF ~Known(j.chain) THEN "nochain"
       ELSE IF ~Fees(j.chain) \/ (j.mev /\ ~MevVal(j.chain)) THEN "norelayer"
       ELSE "ok"

\* the valset update is issued just in time with the first logic call of a chain whose published valset is stale
Jit(w, id) == w = "ok" /\ Unsynced(jobs[id].chain) /\ jobs[id].chain \notin vq
\* sp: the spelling of the caller's payload (pg = 1); the call carries the bytes the used document DENOTES
ExecAdded(w, who, id, pg, sp) ==
  IF w # "ok" THEN <<>>
  ELSE LET j == jobs[id]
           body == IF j.mod /\ pg = 1 THEN Den(CallerPayload, sp) ELSE j.den
           call == Slc(j.chain, j.target, body, who) IN
       IF Jit(w, id) THEN <<Uvs(j.chain), call>> ELSE <<call>>

Execute(who, as, via, id, pg, sp) ==
  LET w == ExecWhy(who, as, via, id, pg) IN
  /\ added' = ExecAdded(w, who, id, pg, sp)
  /\ vq' = IF Jit(w, id) THEN vq \cup {jobs[id].chain} ELSE vq
  /\ jobs' = jobs
  /\ Done(Rec("Execute", who, as, via, id, 0, 0, 0, sp, FALSE, FALSE, pg), w)

(* Perturbations: executions on a state branch that is NEVER committed.  They are DEFINED as stuttering on the   *)
(* chain state - whatever the messages do, nothing of it may be visible afterwards:                             *)
(*   Simulate(..)   the two-message transaction [CreateJob id, ExecuteJob id] of an account run through the     *)
(*                  application's simulation path (gas estimation), or the same two messages of a contract       *)
(*                  dispatched on a cache context that is dropped;                                              *)
(*   RolledBack(..) the delivered transaction [CreateJob id, ExecuteJob id, ExecuteJob of an unknown id]: the    *)
(*                  LAST message fails, so the effects of the earlier ones are rolled back.                      *)
(*   Query(id)      the job query; it answers from the committed store.                                         *)
(* The job named by the discarded messages is carried in the request record only.                               *)
Discarded(kind, who, via, id, c, t, p, sp, m, v) ==
  /\ UNCHANGED <<jobs, vq>> /\ added' = <<>>
  /\ Done(Rec(kind, who, who, via, id, c, t, p, sp, m, v, 0), "discarded")
Simulate(who, via, id, c, t, p, sp, m, v)  == Discarded("Simulate", who, via, id, c, t, p, sp, m, v)
RolledBack(who, id, c, t, p, sp, m, v)     == Discarded("RolledBack", who, "tx", id, c, t, p, sp, m, v)
Query(id) ==
  /\ UNCHANGED <<jobs, vq>> /\ added' = <<>>
  /\ Done(Rec("Query", 0, 0, "", id, 0, 0, 0, "", FALSE, FALSE, 0), IF id \in DOMAIN jobs THEN "found" ELSE "notfound")

Vias(who) == IF who \in Accounts THEN {"tx"} ELSE {"wasm", "legacy"}

\* spellings a request can use for the caller's payload: any in a transaction (pg = 1), the bare one otherwise
ExecSp(via, pg) == IF via = "tx" /\ pg = 1 THEN Spellings ELSE {"bare"}

NextCore ==
  \E who \in Callers, as \in Callers, id \in JobIds \cup {BadId} :
     \/ \E c \in Chains, t \in Targets, p \in Payloads, sp \in Spellings, m \in BOOLEAN, v \in BOOLEAN :
           Create(who, IF who \in Contracts THEN who ELSE as, IF who \in Accounts THEN "tx" ELSE "wasm", id, c, t, p, sp, m, v)
     \/ \E via \in Vias(who), pg \in 0..2 : \E sp \in ExecSp(via, pg) :
           /\ (via # "tx" => pg # 2)
           /\ Execute(who, IF via = "legacy" THEN who ELSE as, via, id, pg, sp)
NextPert ==
  \E who \in Callers, id \in JobIds \cup {BadId} :
     \/ \E c \in Chains, t \in Targets, p \in Payloads, sp \in Spellings, m \in BOOLEAN, v \in BOOLEAN :
           \/ Simulate(who, IF who \in Accounts THEN "tx" ELSE "wasm", id, c, t, p, sp, m, v)
           \/ who \in Accounts /\ RolledBack(who, id, c, t, p, sp, m, v)
     \/ Query(id)
Next == NextCore \/ NextPert

Spec == Init /\ [][Next]_vars

-----------------------------------------------------------------------------
(* Property C17: step properties over the state before/after the request, the request `last'`, its   *)
(* reported result `res'` and the messages `added'` it put into the turnstone queues.                  *)
Ok == res' = "ok"
A  == last'
Msgs(s) == {s[i] : i \in DOMAIN s}
Calls(s) == {i \in DOMAIN s : s[i].type = "slc"}
Upds(s)  == {i \in DOMAIN s : s[i].type = "valset"}

TypeOK ==
  /\ DOMAIN jobs \subseteq JobIds
  /\ \A i \in DOMAIN jobs : /\ jobs[i].owner \in Callers /\ jobs[i].chain \in Chains
                            /\ jobs[i].target \in Targets /\ jobs[i].payload \in Payloads \cup {0}
                            /\ jobs[i].sp \in Spellings /\ jobs[i].den = Den(jobs[i].payload, jobs[i].sp)
                            /\ (jobs[i].mev => MevName(jobs[i].chain))
  /\ vq \subseteq Chains

\* owner, target chain, contract definition, payload and flags of a stored job never change, no job disappears
JobsImmutable == \A i \in DOMAIN jobs : i \in DOMAIN jobs' /\ jobs'[i] = jobs[i]
\* an id enters the store only by a successful Create of exactly that id which did not exist, with the request's
\* fields and the requester as owner; a successful Create really stores; nothing else touches the store
IdUnique ==
  /\ \A i \in DOMAIN jobs' \ DOMAIN jobs :
        /\ Ok /\ A.act = "Create" /\ i = A.id /\ i # BadId
        /\ jobs'[i] = Job(A.who, A.chain, A.target, A.payload, A.sp, A.mod, A.mev)
        /\ (A.via = "tx" => A.who = A.as)
  /\ (Ok /\ A.act = "Create") => (A.id \notin DOMAIN jobs /\ A.id \in DOMAIN jobs')
  /\ Cardinality(DOMAIN jobs' \ DOMAIN jobs) <= 1
\* a successful execution request adds exactly one logic call, to the job's chain, possibly with one valset update for that chain
ExactlyOneCall == (Ok /\ A.act = "Execute") =>
  /\ A.id \in DOMAIN jobs
  /\ Cardinality(Calls(added')) = 1 /\ Cardinality(Upds(added')) <= 1
  /\ \A m \in Msgs(added') : m.type \in {"slc", "valset"} /\ m.chain = jobs[A.id].chain
\* it calls the job's contract with the bytes the stored payload denotes, or those the caller's payload denotes iff
\* the job is modifiable - however the hex is spelled
CallIsStoredCall == (Ok /\ A.act = "Execute" /\ A.id \in DOMAIN jobs) =>
  LET j == jobs[A.id] IN
  /\ (A.pg # 0 => j.mod)
  /\ \A i \in Calls(added') : /\ added'[i].target = j.target
                              /\ added'[i].body = IF j.mod /\ A.pg # 0 THEN Den(CallerPayload, A.sp) ELSE j.den
\* followed by the left padded address of the requester (never the owner's, never the `as`/sender field's)
CallerAppended == (Ok /\ A.act = "Execute") =>
  /\ \A i \in Calls(added') : added'[i].sfx = A.who
  /\ (A.via = "tx" => A.who = A.as)
\* the job query answers from the committed store
QueryIsStored == (A.act = "Query") => ((res' = "found") = (A.id \in DOMAIN jobs) /\ res' \in {"found", "notfound"})
\* what ran on a discarded branch leaves nothing behind
DiscardedIsInvisible == (A.act \in {"Simulate", "RolledBack"}) => (jobs' = jobs /\ vq' = vq /\ added' = <<>> /\ ~Ok)
\* a failed request - and any request that is not an execution - enqueues no contract call
FailureEnqueuesNothing == ~(Ok /\ A.act = "Execute") => Calls(added') = {}

PA_JobsImmutable          == [][JobsImmutable]_vars
PA_IdUnique               == [][IdUnique]_vars
PA_ExactlyOneCall         == [][ExactlyOneCall]_vars
PA_CallIsStoredCall       == [][CallIsStoredCall]_vars
PA_CallerAppended         == [][CallerAppended]_vars
PA_FailureEnqueuesNothing == [][FailureEnqueuesNothing]_vars
PA_QueryIsStored          == [][QueryIsStored]_vars
PA_DiscardedIsInvisible   == [][DiscardedIsInvisible]_vars
=============================================================================
