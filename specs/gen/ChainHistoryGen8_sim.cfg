CONSTANTS
  Base = 280
  MaxHeight = 400
  EnvVars <- GenEnv
  QueryKinds <- GenQueries
  BlockChoices <- NoBlocks
  Versions <- GateVersions
  MaxPert = 1000
  EmitAt = 16
  Scenarios = {1}
INIT GInit
NEXT GNextS
CONSTRAINT GConstr
CHECK_DEADLOCK FALSE
