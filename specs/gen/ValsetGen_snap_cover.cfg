CONSTANTS
  Vals = {1, 2, 3, 4}
  Chains = {1, 2}
  MaxVals = 3
  UnbondTime = 1000
  MaxPower = 16
  WarmTime = 2592000
  TTL = 2000
  Grace = 30
  Sweep = 10
  WarmUp = 50
  Sentences <- RealSentences
  ResetMin = 1800
  DefaultVer = 1
  Family = "snap"
  EmitAt = 0
  MaxOps = 4
  StakeVecs <- Vecs4Cover
  Amounts = {2}
  DTs = {1}
  Jumps <- JumpsCover
  GenVersions = {1}
  VSet = 0
  MaxHeight = 1
  FocusVals = {1, 4}
VIEW GView
INIT GInit
NEXT GNextC
CONSTRAINT GConstr
CHECK_DEADLOCK FALSE
