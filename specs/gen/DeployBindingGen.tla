---------------------------- MODULE DeployBindingGen ----------------------------
(* History generator for DeployBinding: cover mode (one shortest history per distinct model state and incoming action). *)
EXTENDS DeployBinding, Json, Sequences
VARIABLE hist
GInit == Init /\ hist = <<>>
Rec(a, i, v, d) == [act |-> a, args |-> [item |-> i, val |-> v, over |-> d]]
GNext == \/ \E i \in Items : Build(i) /\ hist' = Append(hist, Rec("Build", i, 0, 0))
         \/ Redeploy /\ hist' = Append(hist, Rec("Redeploy", "-", 0, 0))
         \/ \E i \in Items, v \in Vals, d \in 1..dep : Offer(i, v, d) /\ hist' = Append(hist, Rec("Offer", i, v, d))
Last == IF hist = <<>> THEN <<>> ELSE hist[Len(hist)]
GView == <<Last, dep, built, sigs, last.res>>
GConstr == Len(hist) <= MaxOps
GNextC == (IF hist # <<>> /\ last.act = "Offer" THEN PrintT(<<"HIST", ToJson(hist)>>) ELSE TRUE) /\ GNext
=============================================================================
