---------------------------- MODULE RelayGateGen ----------------------------
(* History generator for RelayGate (C14); see MempoolGen for the two modes.                   *)
(*  Family "assign": Setup(tables) [Rereg [Resnap]] then a fixed schedule of requests          *)
(*                   (MEV flag x block time) and a final Query; cover = one history per table. *)
(*  Family "gate"  : up to GateMsgs messages brought into a chosen state (composite PutX =     *)
(*                   Put, estimates, EndBlock, Deliver/Fail -- the driver logs the atomic      *)
(*                   steps) or really assigned, then Query.                                    *)
(*  Family "retry" : a logic call is assigned, its relay failure is attested (AttestErrN =      *)
(*                   validators 1..n add the error proof), the relayer pool may change (Rereg,  *)
(*                   Resnap), the end blocker retries (EndBlockAtt); up to three rounds.        *)
(*  Family "fees"  : multiplicators changed per chain (SetFee), a fee-paying call on each of    *)
(*                   two queues (same or different chain, same or different assignee) fully    *)
(*                   estimated, ONE end block electing both, Query.                             *)
(*  Family "mix"   : simulate mode, every atomic action, random tables.                        *)
EXTENDS RelayGate, Json
CONSTANTS Family, EmitAt, MaxOps,
          GateMsgs,     \* messages per gate history
          GenStage,     \* subset of {"noneed", "need", "sub", "elected"}
          GenProc,      \* subset of {"none", "pad", "err"}
          VarMode,      \* which table rows are enumerated for the varied validators
          EstN          \* number of validators that submit an estimate in composite steps
VARIABLE hist

H(a, r) == hist' = Append(hist, [act |-> a, args |-> r])
Last == IF hist = <<>> THEN [act |-> "none", args |-> <<>>] ELSE hist[Len(hist)]
NAct(a) == Cardinality({i \in DOMAIN hist : hist[i].act = a})
RowsSeq(T) == [i \in 1..N |-> T[i]]
HiFee == MaxOf(FeeLevels)

\* ---- tables ---------------------------------------------------------------------------------
\* (a trait without the account that carries it is not a row of its own: CurOf drops it)
Wf(r) == (r.mevH => r.home) /\ (r.mevT => r.acct # 0)
VarRows == CASE VarMode \in {"full", "small"} ->
                    {r \in Row : Wf(r) /\ r.acct <= 1 /\ r.fee \in {0, BaseFee, HiFee} /\ r.feeH = BaseFee
                                 /\ (~r.home => (r.perf /\ ~r.mevT /\ r.fee = BaseFee))}
             [] OTHER             -> {r \in Row : Wf(r)}
AbsentRow == [home |-> FALSE, acct |-> 0, mevH |-> FALSE, mevT |-> FALSE, fee |-> 0, feeH |-> BaseFee, perf |-> FALSE]
BgRows == {AbsentRow, BaseRow, [BaseRow EXCEPT !.mevH = TRUE, !.mevT = TRUE, !.fee = HiFee]}
          \cup (IF VarMode = "full" THEN {[BaseRow EXCEPT !.mevH = TRUE], [BaseRow EXCEPT !.mevT = TRUE, !.fee = HiFee]} ELSE {})
VarPairs == IF VarMode = "full" THEN {<<1, 2>>, <<2, N>>} ELSE {<<1, 2>>}
GSetup ==
  \E p \in VarPairs, r1 \in VarRows, r2 \in VarRows, bg \in BgRows :
    LET T == [v \in Vals |-> IF v = p[1] THEN r1 ELSE IF v = p[2] THEN r2 ELSE bg] IN
    Setup(T) /\ H("Setup", [rows |-> RowsSeq(T)])
GSetupRandom ==
  \E T \in {[v \in Vals |-> RandomElement({r \in Row : Wf(r)})]} : Setup(T) /\ H("Setup", [rows |-> RowsSeq(T)])
GRereg(V) == \E v \in V, a \in 0..2, mh \in BOOLEAN, mt \in BOOLEAN :
  /\ (mh => cur[v].home) /\ (mt => a # 0)
  /\ (a # cur[v].acct \/ mh # cur[v].mevH \/ mt # cur[v].mevT)
  /\ Rereg(v, a, mh, mt) /\ H("Rereg", [v |-> v, acct |-> a, mevH |-> mh, mevT |-> mt])
\* cover mode: after the snapshot validator 1 (both accounts) moves to another address, or moves its traits to the
\* account on the other chain (flips them if they are equal)
GReregC == \E k \in {1, 2} :
  LET c == cur[1]
      n == IF k = 1 THEN [acct |-> 2, mh |-> c.mevH, mt |-> c.mevT]
           ELSE IF c.mevH # c.mevT THEN [acct |-> c.acct, mh |-> c.mevT, mt |-> c.mevH]
           ELSE [acct |-> c.acct, mh |-> ~c.mevH, mt |-> ~c.mevT] IN
  /\ c.home /\ c.acct = 1
  /\ (VarMode = "small" => cur[N] = CurOf(BaseRow))      \* quick tier: only in front of the plain background
  /\ Rereg(1, n.acct, n.mh, n.mt) /\ H("Rereg", [v |-> 1, acct |-> n.acct, mevH |-> n.mh, mevT |-> n.mt])
GResnap == Resnap /\ H("Resnap", [w |-> 0])

\* ---- requests ---------------------------------------------------------------------------------
\* <<chain, MEV relay enforced, block time>>
Sched == << <<"t", FALSE, 0>>, <<"t", TRUE, 0>>, <<"h", TRUE, 0>>, <<"t", TRUE, 1>>, <<"h", TRUE, 1>>,
            <<"t", FALSE, 4>>, <<"h", FALSE, 3>>, <<"t", TRUE, 3>> >>
GAssignSched ==
  LET k == NAct("Assign") + 1 IN
  /\ k <= Len(Sched)
  /\ Assign(Sched[k][1], 1 + (k % 2), Sched[k][2], Sched[k][3])
  /\ H("Assign", [c |-> Sched[k][1], s |-> 1 + (k % 2), mev |-> Sched[k][2], t |-> Sched[k][3]])
GAssign(C, S, M, Ts) == \E c \in C, s \in S, mv \in M, t \in Ts :
  Assign(c, s, mv, t) /\ H("Assign", [c |-> c, s |-> s, mev |-> mv, t |-> t])

\* ---- queue ------------------------------------------------------------------------------------
GPut(C, A) == \E c \in C, k \in Kinds : \E s \in (IF k = "slc" THEN Senders ELSE {0}) : \E a \in A, ne \in BOOLEAN :
  /\ (c = "h" => k = "slc")
  /\ Put(c, k, s, a, ne) /\ H("Put", [c |-> c, kind |-> k, s |-> s, a |-> a, ne |-> ne])

RECURSIVE EstimateManyQ(_, _, _, _)
EstimateManyQ(Q, n, id, g) == IF n = 0 THEN Q
                              ELSE EstimateManyQ(IF EstimateOK(Q, n, id) THEN EstimateQ(Q, n, id, g) ELSE Q, n - 1, id, g)
\* validators 1..n submit g for message id (atomic Estimate steps in the trace)
GEstimateN == \E id \in 1..nextId, g \in Gases, n \in {EstN - 1, EstN} :
  /\ queue' = EstimateManyQ(queue, n, id, g) /\ queueH' = EstimateManyQ(queueH, n, id, g) /\ res' = "ok"
  /\ UNCHANGED <<tabs, nextId, nrows>>
  /\ H("EstimateN", [id |-> id, g |-> g, n |-> n])
GEndBlock == \E w \in 1..3 : EndBlock /\ H("EndBlock", [w |-> w])
GDeliver == \E id \in 1..nextId : Deliver(id) /\ H("Deliver", [id |-> id])
GFail == \E id \in 1..nextId : Fail(id) /\ H("Fail", [id |-> id])
GQuery == \E w \in 1..3 : Query /\ H("Query", [w |-> w])
GQuery1 == \E w \in {1} : Query /\ H("Query", [w |-> w])
GSetFee(V, F) == \E v \in V, c \in Chains, f \in F :
  /\ f # FeeTab(c)[v]
  /\ SetFee(v, c, f) /\ H("SetFee", [v |-> v, c |-> c, f |-> f])
\* validators 1..n attest the execution-error proof for message id (atomic AttestErr steps in the trace)
RECURSIVE AttestManyQ(_, _, _)
AttestManyQ(Q, n, id) == IF n = 0 THEN Q ELSE AttestManyQ(AttestQ(Q, n, id), n - 1, id)
GAttestN(I, Ns) == \E id \in I, n \in Ns :
  /\ queue' = AttestManyQ(queue, n, id) /\ queueH' = AttestManyQ(queueH, n, id)
  /\ res' = IF id \in Ids(queue \cup queueH) THEN "ok" ELSE "fail"
  /\ UNCHANGED <<tabs, nextId, nrows>>
  /\ H("AttestErrN", [id |-> id, n |-> n])
GEndBlockAtt(Ts) == \E t \in Ts : EndBlockAtt(t) /\ H("EndBlockAtt", [t |-> t])

\* composite: put a message on the queue of chain c and bring it into a state ("ready" = estimated by a quorum, not
\* yet elected; "elected" runs the end block, which elects whatever is ready on BOTH queues)
PutXSt(c, kind, s, a, stage, proc, g) ==
  LET id == nextId
      m == Msg(id, kind, s, a, 1, stage # "noneed")
      t1 == IF c = "t" THEN queue \cup {m} ELSE queue
      h1 == IF c = "h" THEN queueH \cup {m} ELSE queueH
      n == CASE stage = "sub" -> EstN - 1 [] stage \in {"ready", "elected"} -> EstN [] OTHER -> 0
      t2 == EstimateManyQ(t1, n, id, g)
      h2 == EstimateManyQ(h1, n, id, g)
      t3 == IF stage = "elected" THEN ElectAllT(snap, fee, t2) ELSE t2
      h3 == IF stage = "elected" THEN ElectAllT(snap, feeH, h2) ELSE h2
      t4 == CASE proc = "pad" -> DeliverQ(t3, id)
               [] proc = "err" -> FailQ(t3, id)
               [] OTHER        -> t3
  IN [qt |-> t4, qh |-> h3]
GPutX(C, A, St, Pr, Gs) == \E c \in C, k \in Kinds : \E s \in (IF k = "slc" THEN Senders ELSE {0}) :
            \E a \in A, stage \in St, proc \in Pr, g \in Gs :
  /\ (c = "h" => (k = "slc" /\ proc = "none"))
  /\ ((stage \notin {"sub", "ready", "elected"} \/ Family = "mix" \/ GateMsgs > 2) => g = MinOf(Gases))
  /\ LET r == PutXSt(c, k, s, a, stage, proc, g) IN queue' = r.qt /\ queueH' = r.qh
  /\ nextId' = nextId + 1 /\ res' = "put"
  /\ UNCHANGED <<tabs, nrows>>
  /\ H("PutX", [c |-> c, kind |-> k, s |-> s, a |-> a, stage |-> stage, proc |-> proc, g |-> g, n |-> EstN])

\* ---- family "retry" -----------------------------------------------------------------------------
MevT == [BaseRow EXCEPT !.mevT = TRUE]
MevH == [BaseRow EXCEPT !.mevH = TRUE]
GSetupRetry ==
  \E r1 \in {MevT, MevH, [BaseRow EXCEPT !.mevH = TRUE, !.mevT = TRUE, !.fee = HiFee]},
     r2 \in {BaseRow, [MevT EXCEPT !.fee = HiFee], MevH, AbsentRow}, bg \in {BaseRow, AbsentRow} :
    LET T == [v \in Vals |-> IF v = 1 THEN r1 ELSE IF v = 2 THEN r2 ELSE bg] IN
    Setup(T) /\ H("Setup", [rows |-> RowsSeq(T)])
\* the relayer pool changes between the failure report and the retry: validator 1 loses its traits, moves them to its
\* other account, or gives up its target chain account
GReregR == \E k \in {1, 2, 3} :
  LET c == cur[1]
      n == CASE k = 1 -> [acct |-> c.acct, mh |-> FALSE, mt |-> FALSE]
             [] k = 2 -> [acct |-> c.acct, mh |-> c.mevT, mt |-> c.mevH]
             [] OTHER -> [acct |-> 0, mh |-> c.mevH, mt |-> FALSE] IN
  /\ (n.acct # c.acct \/ n.mh # c.mevH \/ n.mt # c.mevT)
  /\ Rereg(1, n.acct, n.mh, n.mt) /\ H("Rereg", [v |-> 1, acct |-> n.acct, mevH |-> n.mh, mevT |-> n.mt])
LastMsg == {nextId - 1}
GNextRetry ==
  IF hist = <<>> THEN GSetupRetry
  ELSE CASE Last.act = "Query" -> FALSE
         [] Last.act = "Setup" -> \E x \in {<<"t", TRUE>>, <<"h", TRUE>>, <<"t", FALSE>>} :
                                    /\ Assign(x[1], 1, x[2], 0) /\ H("Assign", [c |-> x[1], s |-> 1, mev |-> x[2], t |-> 0])
         [] Last.act = "Assign" -> IF res = "assigned" THEN GAttestN(LastMsg, {EstN - 1, EstN}) ELSE GQuery1
         [] Last.act = "AttestErrN" -> (NAct("Rereg") = 0 /\ GReregR) \/ GEndBlockAtt({NAct("EndBlockAtt")})
         [] Last.act = "Rereg" -> GResnap \/ GEndBlockAtt({NAct("EndBlockAtt")})
         [] Last.act = "Resnap" -> GEndBlockAtt({NAct("EndBlockAtt")})
         [] Last.act = "EndBlockAtt" ->
               \/ (NAct("EndBlockAtt") < 3 /\ nextId - 1 \in Ids(queue \cup queueH) /\ GAttestN(LastMsg, {EstN}))
               \/ GQuery1
         [] OTHER -> FALSE

\* ---- family "fees" ------------------------------------------------------------------------------
GNextFees ==
  CASE Last.act = "Query" -> FALSE
    [] Last.act = "EndBlock" -> GQuery1
    [] NAct("PutX") = 2 -> \E w \in {1} : EndBlock /\ H("EndBlock", [w |-> w])
    [] OTHER ->
         \/ (NAct("PutX") = 0 /\ \E c \in Chains, f \in FeeLevels \ {BaseFee} :
                /\ ~\E i \in DOMAIN hist : hist[i].act = "SetFee" /\ (hist[i].args.c = c \/ (c = "t" /\ hist[i].args.c = "h"))
                /\ SetFee(1, c, f) /\ H("SetFee", [v |-> 1, c |-> c, f |-> f]))
         \/ \E c \in Chains, a \in {1, 2}, g \in Gases :
                /\ LET r == PutXSt(c, "slc", 1, a, "ready", "none", g) IN queue' = r.qt /\ queueH' = r.qh
                /\ nextId' = nextId + 1 /\ res' = "put"
                /\ UNCHANGED <<tabs, nrows>>
                /\ H("PutX", [c |-> c, kind |-> "slc", s |-> 1, a |-> a, stage |-> "ready", proc |-> "none", g |-> g, n |-> EstN])

NMsgs == NAct("PutX") + NAct("Put") + NAct("Assign")
GNext ==
  CASE Family = "assign" ->
         IF hist = <<>> THEN GSetup
         ELSE IF Last.act = "Query" THEN FALSE
         ELSE \/ (Last.act = "Setup" /\ GReregC)
              \/ (Last.act = "Rereg" /\ Last.args.acct # 2 /\ GResnap)
              \/ GAssignSched
              \/ (NAct("Assign") = Len(Sched) /\ GQuery1)
    [] Family = "gate" ->
         IF Last.act = "Query" THEN FALSE
         ELSE \/ (NMsgs < GateMsgs /\ (GPutX({"t"}, {1, 2}, GenStage, GenProc, Gases) \/ GAssign({"t"}, Senders, {FALSE}, {0, 1})))
              \/ (NMsgs > 0 /\ GQuery1)
    [] Family = "retry" -> GNextRetry
    [] Family = "fees" -> GNextFees
    [] OTHER ->
         IF hist = <<>> THEN GSetupRandom \/ GResnap
         ELSE \/ GRereg({1, 2}) \/ GResnap
              \/ GAssign(Chains, Senders, BOOLEAN, Times)
              \/ GPut(Chains, {1, 2}) \/ GPutX(Chains, {1, 2}, GenStage, GenProc, {MinOf(Gases)})
              \/ GSetFee({1, 2}, FeeLevels)
              \/ GAttestN(1..nextId, {EstN - 1, EstN}) \/ GEndBlockAtt({0, 1, 2})
              \/ GEstimateN \/ GEndBlock \/ GDeliver \/ GFail \/ GQuery

GInit == Init /\ hist = <<>>
\* real assignments are kept apart from messages put with the same content
GView == <<Last, res, cur, snap, fee, feeH, perf, queue, queueH, nextId, {i \in DOMAIN hist : hist[i].act = "Assign"}>>
GConstr == Len(hist) <= MaxOps /\ Cardinality(queue) <= MaxQ /\ Cardinality(queueH) <= MaxQ
\* cover mode: emit from the dequeued state (once per distinct state), complete histories only
GNextC == (IF Last.act = "Query" THEN PrintT(<<"HIST", ToJson(hist)>>) ELSE TRUE) /\ GNext
\* simulate mode: TLC evaluates invariants on every candidate successor, the next-state relation only on the
\* chosen state: emitting from here gives exactly one history per random walk (run with -depth EmitAt + 2)
GNextS == (IF Len(hist) = EmitAt THEN PrintT(<<"HIST", ToJson(hist)>>) ELSE TRUE) /\ GNext
Emit == Len(hist) = EmitAt => PrintT(<<"HIST", ToJson(hist)>>)
=============================================================================
