CONSTANTS
  Base = 280
  MaxHeight = 400
  EnvVars <- NoEnv
  QueryKinds <- NoEnv
  BlockChoices <- NoBlocks
  Versions <- GateVersions
  Sel = "diag"
INIT GInit
NEXT GNextC
INVARIANT StateIsFunctionOfHistory
INVARIANT OnlyGateHalts
CHECK_DEADLOCK FALSE
