CONSTANTS
  Vals = {1, 2, 3, 4, 5}
  Share <- Shares5
  EvValues = {1}
  EstValues = {1}
  MaxMsgs = 1
  PruneAge = 300
  PruneEvery = 50
  Family = "electprune"
  EmitAt = 0
  MaxOps = 8
INIT GInit
NEXT GNextP
CONSTRAINT GConstr
VIEW GView
CHECK_DEADLOCK FALSE
