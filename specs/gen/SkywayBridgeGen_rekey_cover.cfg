CONSTANTS
  Users = {1}
  Vals = {1, 2, 3}
  Tokens = {1}
  TokChain <- Seq1
  TokContract <- Seq1
  TokDenom <- Seq1
  Amounts = {1}
  InitBal = 4
  BatchEvery = 50
  TimeoutBlocks = 300
  Jumps = {301}
  Period = 57600
  TaxRates <- Rates
  Limits = {3}
  EstValues = {1}
  MaxTx = 1
  MaxBatch = 1
  MaxClaims = 1
  MaxHeight = 301
  Family = "rekey"
  EmitAt = 0
  MaxK = 0
  MaxOps = 6
VIEW GView
INIT GInit
NEXT GNextC
CONSTRAINT GConstr
CHECK_DEADLOCK FALSE
