CONSTANTS
  Vals = {1, 2, 3, 4, 5}
  Share <- Shares5
  EvValues = {1}
  EstValues = {1, 9}
  MaxMsgs = 1
  PruneAge = 300
  PruneEvery = 50
  Family = "sig"
  EmitAt = 0
  MaxOps = 7
INIT GInit
NEXT GNextE
CONSTRAINT GConstr
VIEW GView
CHECK_DEADLOCK FALSE
