CONSTANTS
  Accounts = {1, 2, 3}
  Subs = {1, 2}
  Amounts = {1, 2}
  Funds <- FundsBig
  GrantSets <- SimGrants
  Tails = TRUE
  ReimportInView = FALSE
  NativeMetas = {0, 1}
  SpecialIds = {1, 2, 3, 4, 5, 6, 7, 8}
  Bindings <- AllBindings
  MaxOps = 13
  MaxMinted = 6
  EmitAt = 12
  ProbeDepth = 0
INIT GInit
NEXT GNextS
CONSTRAINT GConstr
CHECK_DEADLOCK FALSE
