CONSTANTS
  Vals = {1, 2, 3, 4, 5, 6}
  FeeLevels = {110, 150, 200}
  BaseFee = 110
  TopK = 5
  Times = {0, 1, 2, 3, 4, 7}
  Senders = {1, 2}
  Gases = {7, 33}
  Scale = 100
  CommRate = 1
  SecRate = 33
  MaxQ = 6
  EstN = 4
  Family = "mix"
  EmitAt = 12
  MaxOps = 14
  GateMsgs = 4
  GenStage = {"ready", "elected"}
  GenProc = {"none", "pad", "err"}
  VarMode = "all"
INIT GInit
NEXT GNextS
CONSTRAINT GConstr
CHECK_DEADLOCK FALSE
