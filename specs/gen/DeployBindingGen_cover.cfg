CONSTANTS
  Items = {"batch", "message"}
  Vals = {1, 2}
  MaxDep = 3
  MaxOps = 5
INIT GInit
NEXT GNextC
VIEW GView
CONSTRAINT GConstr
CHECK_DEADLOCK FALSE
