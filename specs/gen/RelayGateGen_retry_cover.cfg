CONSTANTS
  Vals = {1, 2, 3, 4, 5, 6}
  FeeLevels = {110, 150, 200}
  BaseFee = 110
  TopK = 5
  Times = {0, 1, 2, 3, 4, 7}
  Senders = {1, 2}
  Gases = {7, 33}
  Scale = 100
  CommRate = 1
  SecRate = 33
  MaxQ = 6
  EstN = 4
  Family = "retry"
  EmitAt = 0
  MaxOps = 18
  GateMsgs = 2
  GenStage = {"noneed", "need", "elected"}
  GenProc = {"none", "pad"}
  VarMode = "small"
INIT GInit
NEXT GNextC
VIEW GView
CONSTRAINT GConstr
CHECK_DEADLOCK FALSE
