CONSTANTS
  Users = {1, 2, 3}
  Fresh = {11, 12}
  HasAcct = 3
  Denoms = {1, 2}
  Funds <- FundsSmall
  Amounts = {0, 1, 2}
  Months = {0, 1, 24}
  SaleMonths = 24
  Unit = 1
  MonthTicks = 4
  SaleChains = {1, 2, 3}
  Contracts = {1, 2}
  MaxOps = 3
  EmitAt = 0
INIT GInitCfg
NEXT GNextCS
VIEW GView
CONSTRAINT GConstr
CHECK_DEADLOCK FALSE
