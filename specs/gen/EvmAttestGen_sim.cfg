CONSTANTS
  Vals = {1, 2, 3, 4}
  Share <- ShareFn
  MaxRetries = 2
  Worlds = {0, 1, 2, 3}
  EKinds = {"slc", "valset", "usc", "uscn", "uusc"}
  KMax = 3
  Signers = {1, 2, 3, 4}
  SignOrdered = FALSE
  FirstVals = {1, 2, 3, 4}
  Lean = FALSE
  CorrMode = "theme"
  MaxNew = 4
  MaxRounds = 6
  MaxOps = 18
  EmitAt = 18
  Jumps = {1, 301, 601, 5000}
  MaxAdv = 2
INIT GInit
NEXT GNext
CONSTRAINT GConstr
INVARIANT Emit
CHECK_DEADLOCK FALSE
