------------------------ MODULE CompassLifecycleGen ------------------------
(* History generator for CompassLifecycle.  The model's own `act` variable is the incoming action, so the cover   *)
(* VIEW (model state + act + res) keeps one shortest history per distinct (state, incoming action, result).       *)
(* Histories are emitted at the frontier (Len(hist) = MaxOps): every shorter history is a prefix of one of them   *)
(* because EndBlockTryDeploy is always enabled.  No-op / rejected requests are generated for one canonical        *)
(* argument only.                                                                                                  *)
EXTENDS CompassLifecycle, Json
CONSTANTS EmitAt, MaxOps, MaxQ, MaxSeq
VARIABLE hist
Act2 == <<1, 0>>
Act1 == <<1>>
H == hist' = Append(hist, [act |-> act'.name, args |-> [c |-> act'.c, k |-> act'.k, id |-> act'.id]])
GRemoveDeployment == \E c \in Chains, id \in 1..MaxId :
                       /\ (DepsOf(dep[c], id) # {} \/ (c = 1 /\ id = last))      \* one canonical no-op
                       /\ RemoveDeployment(c, id)
GGov == \E c \in Chains : \/ (info[c].ex /\ ~info[c].fee /\ SetFeeManager(c))
                          \/ (~info[c].ex /\ AddChain(c))
                          \/ (c = 1 /\ info[c].ex /\ AddChain(c))                 \* rejected: chain exists
                          \/ (c \in Removable /\ info[c].ex /\ RemoveChain(c))
                          \/ (c \in Removable /\ ~info[c].ex /\ SetFeeManager(c)) \* rejected: no such chain
GAttest == \E c \in Chains : \E k \in DOMAIN queue[c] :
             \/ AttestUploadOk(c, k) \/ AttestUploadErr(c, k) \/ AttestUploadTxFail(c, k)
             \/ AttestHandoverOk(c, k) \/ AttestHandoverErr(c, k) \/ AttestHandoverTxFail(c, k)
GStep == \/ NewCompass \/ EndBlockTryDeploy \/ GAttest
         \/ \E c \in Chains : PruneMessage(c)
         \/ GRemoveDeployment \/ GGov
GNext == GStep /\ H
GInit == Init /\ hist = <<>>
GView == <<act, res, last, info, snap, dep, queue, seq, sky>>
GConstr == /\ Len(hist) <= MaxOps /\ seq <= MaxSeq /\ \A c \in Chains : Len(queue[c]) <= MaxQ
GNextC == (IF Len(hist) = MaxOps THEN PrintT(<<"HIST", ToJson(hist)>>) ELSE TRUE) /\ GNext
\* family without the two governance escape hatches (RemoveDeployment, chain removal): deeper ordinary lifecycles
GNextPlain == (IF Len(hist) = MaxOps THEN PrintT(<<"HIST", ToJson(hist)>>) ELSE TRUE)
              /\ (\/ NewCompass \/ EndBlockTryDeploy \/ GAttest \/ \E c \in Chains : PruneMessage(c)
                  \/ \E c \in Chains : (info[c].ex /\ ~info[c].fee /\ SetFeeManager(c))) /\ H
\* family around MsgRemoveSmartContractDeployment: record removed while its messages are still queued, re-deployment by the end-blocker
GNextRemove == (IF Len(hist) = MaxOps THEN PrintT(<<"HIST", ToJson(hist)>>) ELSE TRUE)
               /\ (\/ NewCompass \/ EndBlockTryDeploy
                   \/ \E c \in Chains : \E k \in DOMAIN queue[c] : AttestUploadOk(c, k) \/ AttestHandoverOk(c, k) \/ AttestUploadErr(c, k)
                   \/ \E c \in Chains : \E d \in dep[c] : RemoveDeployment(c, d.id)) /\ H
Emit == Len(hist) = EmitAt => PrintT(<<"HIST", ToJson(hist)>>)
=============================================================================
