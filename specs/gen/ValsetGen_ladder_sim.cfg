CONSTANTS
  Vals = {1, 2, 3, 4, 5}
  Chains = {1}
  MaxVals = 4
  UnbondTime = 600
  MaxPower = 16
  WarmTime = 2592000
  TTL = 2000
  Grace = 30
  Sweep = 10
  WarmUp = 50
  Sentences <- RealSentences
  ResetMin = 1800
  DefaultVer = 1
  Family = "ladder"
  EmitAt = 16
  MaxOps = 16
  StakeVecs <- Vecs5Cover
  Amounts = {1}
  DTs = {1}
  Jumps <- JumpsLadder
  GenVersions = {0, 1, 2, 3}
  VSet = 0
  MaxHeight = 4300
  FocusVals = {2}

INIT GInit
NEXT GNext
CONSTRAINT GConstr
INVARIANT Emit
CHECK_DEADLOCK FALSE
