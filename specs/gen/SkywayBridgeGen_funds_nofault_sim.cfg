CONSTANTS
  Users = {1, 2}
  Vals = {1, 2, 3}
  Tokens = {1, 2}
  TokChain <- Seq12
  TokContract <- Seq12
  TokDenom <- Seq12
  Amounts = {1, 2, 3}
  InitBal = 4
  BatchEvery = 50
  TimeoutBlocks = 300
  Jumps = {1, 49, 50, 301}
  Period = 57600
  TaxRates <- Rates
  Limits = {3}
  EstValues = {1}
  MaxTx = 6
  MaxBatch = 4
  MaxClaims = 2
  MaxHeight = 100000
  Family = "funds"
  EmitAt = 10
  MaxK = 0
  MaxOps = 10
INIT GInit
NEXT GNext
CONSTRAINT GConstr
INVARIANT Emit
CHECK_DEADLOCK FALSE
