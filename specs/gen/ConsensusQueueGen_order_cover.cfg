CONSTANTS
  Vals = {1, 2, 3, 4, 5}
  Share <- Shares5
  EvValues = {1, 2}
  EstValues = {1}
  MaxMsgs = 1
  PruneAge = 300
  PruneEvery = 50
  Family = "prune"
  EmitAt = 0
  MaxOps = 7
INIT GInit
NEXT GNextO
CONSTRAINT GConstr
VIEW GViewO
CHECK_DEADLOCK FALSE
