CONSTANTS
  Accounts = {1, 2, 3}
  Subs = {1}
  Amounts = {1, 2}
  Funds <- FundsOne
  GrantSets <- AdminGrants
  Tails = TRUE
  ReimportInView = TRUE
  NativeMetas = {1}
  SpecialIds = {1, 2, 3, 4, 5, 6, 7, 8}
  Bindings <- PlainBinding
  MaxOps = 4
  MaxMinted = 3
  EmitAt = 0
  ProbeDepth = 0
INIT GInit
NEXT GNextC
VIEW GView
CONSTRAINT GConstr
CHECK_DEADLOCK FALSE
