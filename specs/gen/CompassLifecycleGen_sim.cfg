CONSTANTS
  NChains = 2
  MaxId = 3
  MaxRetries = 2
  InitActive <- Act2
  Removable = {2}
  SkyInit = 7
  MaxQ = 4
  MaxSeq = 6
  EmitAt = 14
  MaxOps = 14
INIT GInit
NEXT GNext
CONSTRAINT GConstr
INVARIANT Emit
CHECK_DEADLOCK FALSE
