CONSTANTS
  NChains = 1
  MaxId = 3
  MaxRetries = 2
  InitActive <- Act1
  Removable = {1}
  SkyInit = 7
  MaxQ = 3
  MaxSeq = 4
  EmitAt = 0
  MaxOps = 7
INIT GInit
NEXT GNextRemove
VIEW GView
CONSTRAINT GConstr
CHECK_DEADLOCK FALSE
