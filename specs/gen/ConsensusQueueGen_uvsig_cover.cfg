CONSTANTS
  Vals = {1, 2, 3, 4, 5}
  Share <- Shares5
  EvValues = {1}
  EstValues = {9}
  MaxMsgs = 1
  PruneAge = 300
  PruneEvery = 50
  Family = "uvsig"
  EmitAt = 0
  MaxOps = 5
INIT GInit
NEXT GNextC
CONSTRAINT GConstr
VIEW GView
CHECK_DEADLOCK FALSE
