CONSTANTS
  Vals = {1, 2, 3, 4, 5}
  Chains = {1}
  MaxVals = 4
  UnbondTime = 600
  MaxPower = 16
  WarmTime = 2592000
  TTL = 2000
  Grace = 30
  Sweep = 10
  WarmUp = 50
  Sentences <- RealSentences
  ResetMin = 1800
  DefaultVer = 1
  Family = "swap"
  EmitAt = 0
  MaxOps = 6
  StakeVecs <- Vecs5Lone
  Amounts = {1}
  DTs = {1}
  Jumps <- JumpsSwap
  GenVersions = {0, 2}
  MaxHeight = 260
  FocusVals = {2, 3}
VIEW GView
INIT GInit
NEXT GNextC
CONSTRAINT GConstr
CHECK_DEADLOCK FALSE
