-------------------------- MODULE TokenBindingGen --------------------------
(* History generator for TokenBinding (cover: one shortest history per distinct (state, incoming action)). *)
EXTENDS TokenBinding, Json, Sequences
CONSTANTS EmitAt, MaxOps
VARIABLE hist
H(a, r) == hist' = Append(hist, [act |-> a, args |-> r])
A(u, d, c, id) == [u |-> u, d |-> d, c |-> c, id |-> id]
GBind == \E u \in Users, d \in Denoms, c \in Contracts : Bind(u, d, c) /\ H("Bind", A(u, d, c, 0))
GSend == \E u \in Users, d \in Denoms : Send(u, d) /\ H("Send", A(u, d, 0, 0))
GCancel == \E u \in Users, id \in 1..(lastTx + 1) : Cancel(u, id) /\ H("Cancel", A(u, 0, 0, id))
GNext == GBind \/ GSend \/ GCancel
GInit == Init /\ hist = <<>>
Last == IF hist = <<>> THEN <<>> ELSE hist[Len(hist)]
GView == <<Last, res, fwd, rev, pool, escrow, bal, lastTx>>
GConstr == Len(hist) <= MaxOps /\ lastTx <= MaxTx
EmitCond == Len(hist) >= 3 /\ hist[Len(hist)].act \in {"Cancel", "Send"}
GNextC == (IF EmitCond THEN PrintT(<<"HIST", ToJson(hist)>>) ELSE TRUE) /\ GNext
Emit == Len(hist) = EmitAt => PrintT(<<"HIST", ToJson(hist)>>)
=============================================================================
