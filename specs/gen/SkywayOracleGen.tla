-------------------------- MODULE SkywayOracleGen --------------------------
EXTENDS SkywayOracle, Json
CONSTANTS EmitAt, MaxOps
VARIABLE hist
\* the claim table shared with the driver (harness/drivers/oracle) and the trace spec
NonceF == <<1, 1, 2, 2, 3, 1, 2, 3>>
HashF == <<1, 2, 3, 4, 5, 6, 7, 8>>
EffF == <<1, 2, 3, 4, 5, 6, 7, 8>>
CompassF == <<1, 1, 1, 1, 1, 2, 2, 1>>
HeightF == <<1, 1, 2, 2, 3, 1, 2, 3>>
ApplF == <<TRUE, TRUE, TRUE, FALSE, TRUE, TRUE, TRUE, TRUE>>
Pow3 == <<34, 33, 33>>
H(a, r) == hist' = Append(hist, [act |-> a, args |-> r])
GVote == \E v \in Vals, c \in Claims :
           /\ ((Bonded(v) /\ CNonce[c] = NonceOf(v) + 1) \/ c = 1)     \* rejected votes: only for claim 1, to limit noise
           /\ Vote(v, c) /\ H("Vote", [v |-> v, c |-> c])
GTally == \E cu \in BOOLEAN : Tally(cu) /\ H("Tally", [cu |-> cu])
GOverride == \E n \in 0..MaxNonce : Override(n) /\ H("Override", [n |-> n])
GActivate == compass = 1 /\ Activate(2) /\ H("Activate", [cid |-> 2])
GSetPower == \E v \in Vals, p \in Powers : p # power[v] /\ SetPowerOf(v, p) /\ H("SetPower", [v |-> v, p |-> p])
GNext == GVote \/ GTally \/ GOverride \/ GActivate \/ GSetPower
GInit == Init /\ hist = <<>>
Last == IF hist = <<>> THEN <<>> ELSE hist[Len(hist)]
GView == <<Last, res, last, cursor, atts, power, compass, epoch, lastEth, effects>>
GViewB == <<GView, \E i \in DOMAIN hist : hist[i].act = "Rebind">>
GConstr == Len(hist) <= MaxOps /\ epoch <= MaxEpoch
EmitCond == Len(hist) >= 3 /\ res \in {"eb", "fail"}
GNextC == (IF EmitCond THEN PrintT(<<"HIST", ToJson(hist)>>) ELSE TRUE) /\ GNext
\* "re-open" family: histories that tally again after a governance override / compass activation
EmitCondR == Len(hist) >= 3 /\ res = "eb" /\ epoch >= 1
GVoteR == \E v \in {1, 2}, c \in Claims : Bonded(v) /\ CNonce[c] = NonceOf(v) + 1 /\ Vote(v, c) /\ H("Vote", [v |-> v, c |-> c])
GTallyR == Tally(FALSE) /\ H("Tally", [cu |-> FALSE])
GNextR == (IF EmitCondR THEN PrintT(<<"HIST", ToJson(hist)>>) ELSE TRUE) /\ (GVoteR \/ GTallyR \/ GOverride)
\* "dup" family: world where two of the three validators do NOT reach quorum (30/30/40): re-votes after a reset must not count twice
Pow334 == <<30, 30, 40>>
GVoteD == \E v \in Vals, c \in Claims : Bonded(v) /\ CNonce[c] = NonceOf(v) + 1 /\ Vote(v, c) /\ H("Vote", [v |-> v, c |-> c])
GNextD == (IF EmitCondR THEN PrintT(<<"HIST", ToJson(hist)>>) ELSE TRUE) /\ (GVoteD \/ GTallyR \/ GOverride)
\* "rebind" family: governance restates the token binding (same chain, contract, denom) in the middle of the life of
\* the bridge; a stutter in the model - deposits of the still registered token must go on being applied
HasRebind == \E i \in DOMAIN hist : hist[i].act = "Rebind"
GRebind == ~HasRebind /\ res' = "gov" /\ UNCHANGED <<last, cursor, atts, power, compass, epoch, lastEth, effects, applied, views>> /\ H("Rebind", [x |-> 0])
GNextB == (IF Len(hist) >= 3 /\ res = "eb" /\ HasRebind THEN PrintT(<<"HIST", ToJson(hist)>>) ELSE TRUE) /\ (GVoteR \/ GTallyR \/ GRebind)
Emit == Len(hist) = EmitAt => PrintT(<<"HIST", ToJson(hist)>>)
=============================================================================
