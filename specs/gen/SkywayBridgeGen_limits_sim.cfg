CONSTANTS
  Users = {1, 2}
  Vals = {1, 2, 3}
  Tokens = {1}
  TokChain <- Seq1
  TokContract <- Seq1
  TokDenom <- Seq1
  Amounts = {1, 2, 3, 5}
  InitBal = 12
  BatchEvery = 50
  TimeoutBlocks = 300
  Jumps = {1, 57598, 57599, 57600}
  Period = 57600
  TaxRates <- Rates
  Limits = {3, 5}
  EstValues = {1}
  MaxTx = 8
  MaxBatch = 4
  MaxClaims = 2
  MaxHeight = 100000000
  Family = "limits"
  EmitAt = 12
  MaxK = 2
  MaxOps = 12
INIT GInit
NEXT GNext
CONSTRAINT GConstr
INVARIANT Emit
CHECK_DEADLOCK FALSE
