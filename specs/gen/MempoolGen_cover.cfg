CONSTANTS
  Senders = {1, 2, 3}
  Nonces = {1, 2}
  Classes = {0, 1, 2}
  MaxOps = 5
  MaxPending = 3
  EmitAt = 0
INIT GInit
NEXT GNext
VIEW GView
CONSTRAINT GConstr
INVARIANT Emit
CHECK_DEADLOCK FALSE
