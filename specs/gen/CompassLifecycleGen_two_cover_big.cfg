CONSTANTS
  NChains = 2
  MaxId = 3
  MaxRetries = 2
  InitActive <- Act2
  Removable = {2}
  SkyInit = 7
  MaxQ = 3
  MaxSeq = 4
  EmitAt = 0
  MaxOps = 6
INIT GInit
NEXT GNextC
VIEW GView
CONSTRAINT GConstr
CHECK_DEADLOCK FALSE
