------------------------- MODULE ConsensusQueueGen -------------------------
EXTENDS ConsensusQueue, Json
CONSTANTS Family, EmitAt, MaxOps
VARIABLE hist
Shares5 == <<5000000, 3000001, 1000002, 1000000, 0>>
Shares4 == <<5000000, 3000001, 1000002, 1000000>>     \* the same world without the late validator   \* raw shares of the driver's world (see harness/drivers/cqueue)
H(a, r) == hist' = Append(hist, [act |-> a, args |-> r])
Ids == DOMAIN msgs \cup {nextId}         \* existing ids plus one that does not exist
SlcIds == {i \in DOMAIN msgs : msgs[i].kind \in Signable} \cup {nextId}
GPut == nextId <= MaxMsgs /\ \E k \in {"ref", "slc", "uv"} : (Family \in {"ev", "prune"} => k = "ref") /\ (Family \in {"sig", "electprune"} => k = "slc") /\ ((k = "uv") = (Family = "uvsig"))
                                                        /\ Put(k) /\ H("Put", [kind |-> k])
\* rejected requests are generated for one canonical validator only (they all leave the state unchanged)
SignOk(v, id, mode) == id \in DOMAIN msgs /\ v \notin jailed /\ mode = "good" /\ msgs[id].kind \in Signable /\ ~\E s \in msgs[id].sigs : s.val = v
GSign == \E v \in Vals, id \in SlcIds, mode \in {"good", "stale", "badkey", "otherchain", "oldkey", "garbage"} :
           /\ (mode # "good" => id \in DOMAIN msgs)
           /\ (SignOk(v, id, mode) \/ v = 2)
           /\ Sign(v, id, mode) /\ H("Sign", [v |-> v, id |-> id, mode |-> mode])
EstOk(v, id) == id \in DOMAIN msgs /\ v \notin jailed /\ msgs[id].kind \in Signable /\ msgs[id].ests[v] = None
GEstimate == \E v \in Vals, id \in SlcIds, x \in EstValues :
           /\ (EstOk(v, id) \/ (v = 2 /\ x = CHOOSE y \in EstValues : TRUE))
           /\ Estimate(v, id, x) /\ H("Estimate", [v |-> v, id |-> id, x |-> x])
GEvidence == \E v \in Vals, id \in Ids, e \in EvValues :
           /\ ((id \in DOMAIN msgs /\ v \notin jailed /\ msgs[id].ev[v] # e) \/ (v = 2 /\ e = CHOOSE y \in EvValues : TRUE))
           /\ Evidence(v, id, e) /\ H("Evidence", [v |-> v, id |-> id, e |-> e])
GSetPAD == \E v \in Vals, id \in DOMAIN msgs : ~msgs[id].pad /\ SetPAD(v, id) /\ H("SetPAD", [v |-> v, id |-> id])
GSetErr == \E v \in Vals, id \in DOMAIN msgs : ~msgs[id].pad /\ ~msgs[id].err /\ SetErr(v, id) /\ H("SetErr", [v |-> v, id |-> id])
GReReg == \E v \in Vals : keyver[v] <= 2 /\ ReRegister(v) /\ H("ReRegister", [v |-> v])
GReassign == (\E id \in DOMAIN msgs : msgs[id].kind \in Signable) /\ (\A id \in DOMAIN msgs : msgs[id].asg < 2) /\ Reassign /\ H("Reassign", [x |-> 0])
GEndBlock == EndBlock /\ H("EndBlock", [x |-> 0])
\* transition cover: different pre-states (who supplied evidence) lead to the same post-state (message pruned, nobody
\* jailed), which a state cover merges; emit one history per EndBlock TRANSITION instead
GEndBlockT == EndBlock /\ H("EndBlock", [x |-> 0]) /\ (Len(hist) >= 2 => PrintT(<<"HIST", ToJson(hist')>>))
GAdvance == \E dh \in {1, 49, 301, 349} : Advance(dh) /\ H("Advance", [dh |-> dh])
GNext == CASE Family = "ev"  -> GPut \/ GEvidence \/ GSetErr \/ GEndBlock \/ GAdvance
           [] Family = "prune" -> GPut \/ GEvidence \/ GEndBlockT \/ (height = 1 /\ Advance(349) /\ H("Advance", [dh |-> 349]))
           [] Family = "sig" -> GPut \/ GSign \/ GEstimate \/ GReReg \/ GReassign \/ GEndBlock
           [] Family = "uvsig" -> GPut \/ GSign \/ GEstimate \/ GReassign \/ GEndBlockT     \* valset update: the estimate is in the signing bytes, no fee attachment follows
           [] OTHER -> GPut \/ GSign \/ GEstimate \/ GEvidence \/ GSetPAD \/ GSetErr \/ GReReg \/ GReassign \/ GEndBlock \/ GAdvance
\* "resnap" family (world without the late validator): a validator re-registers its key, the snapshot is rebuilt (so the
\* relayer address the assigner hands out changes) and orphaned messages are re-assigned, preferably to the SAME validator
GSignGood == \E v \in Vals, id \in SlcIds : SignOk(v, id, "good") /\ Sign(v, id, "good") /\ H("Sign", [v |-> v, id |-> id, mode |-> "good"])
GReRegSnap == \E v \in Vals : keyver[v] <= 1 /\ ReRegister(v) /\ H("ReRegister", [v |-> v, snap |-> TRUE])
\* transition cover (the post-state of a re-assignment merges who signed and who re-registered)
GReassignSame == (\E id \in DOMAIN msgs : msgs[id].kind \in Signable) /\ (\A id \in DOMAIN msgs : msgs[id].asg < 1) /\ Reassign /\ H("Reassign", [x |-> 0, same |-> TRUE])
                 /\ PrintT(<<"HIST", ToJson(hist')>>)
GNextS == GPut \/ GSignGood \/ GReRegSnap \/ GReassignSame
\* "order" family: the ORDER in which evidence arrives (and re-arrives) is part of the view, so histories that reach the
\* same model state through different submission / re-submission orders are all kept (the tally must not depend on it)
EvOrder == SelectSeq(hist, LAMBDA s : s.act = "Evidence")
GEvidenceO == \E v \in {1, 3, 4}, id \in DOMAIN msgs, e \in EvValues :
                /\ Len(EvOrder) < 4 /\ v \notin jailed /\ msgs[id].ev[v] # e
                /\ Evidence(v, id, e) /\ H("Evidence", [v |-> v, id |-> id, e |-> e])
GNextO == GPut \/ GEvidenceO \/ GEndBlockT \/ (height = 1 /\ Len(EvOrder) >= 2 /\ Advance(349) /\ H("Advance", [dh |-> 349]))
\* "reelect" family: estimates, election, late estimates, re-assignment, another end block (an elected estimate must
\* survive everything that happens to the message afterwards); one history per transition that follows a re-assignment
HasReassign == \E i \in DOMAIN hist : hist[i].act = "Reassign"
GEstimateOk == \E v \in {1, 2, 3}, id \in SlcIds, x \in EstValues : EstOk(v, id) /\ Estimate(v, id, x) /\ H("Estimate", [v |-> v, id |-> id, x |-> x])
GNextE == \/ (~HasReassign /\ (GPut \/ GEstimateOk \/ GEndBlock))
          \/ (GReassign /\ PrintT(<<"HIST", ToJson(hist')>>))
          \/ (HasReassign /\ (GEstimateOk \/ GEndBlockT))
\* "electprune" family: a logic call with an error report collects evidence, its gas estimate is elected meanwhile, and
\* it ages out: what validators supplied before the election still counts at pruning time
GEvidenceS == \E v \in {3, 4}, id \in DOMAIN msgs, e \in EvValues : msgs[id].ev[v] = None /\ v \notin jailed
                 /\ Evidence(v, id, e) /\ H("Evidence", [v |-> v, id |-> id, e |-> e])
GNextP == GPut \/ GSetErr \/ GEvidenceS \/ GEstimateOk \/ GEndBlockT \/ (height = 1 /\ Len(hist) >= 4 /\ Advance(349) /\ H("Advance", [dh |-> 349]))
GInit == Init /\ hist = <<>>
Last == IF hist = <<>> THEN <<>> ELSE hist[Len(hist)]
GView == <<Last, res, msgs, nextId, keyver, refHeight, jailed, height>>
GViewO == <<GView, EvOrder>>
GConstr == Len(hist) <= MaxOps /\ height <= 1000
EmitCond == Len(hist) >= 3 /\ res \in {"eb", "fail"}
GNextC == (IF EmitCond THEN PrintT(<<"HIST", ToJson(hist)>>) ELSE TRUE) /\ GNext
Emit == Len(hist) = EmitAt => PrintT(<<"HIST", ToJson(hist)>>)
=============================================================================
