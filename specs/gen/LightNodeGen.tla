---------------------------- MODULE LightNodeGen ----------------------------
(* History generator for LightNode (see MempoolGen for the two modes).                                  *)
(* GAct is Next restricted to one representative per class of attempt:                                   *)
(*   - direct licences by every user for every client address (fresh / with account) with every amount,  *)
(*     plus one signed in somebody else's name;                                                          *)
(*   - activation / authentication by every signer (fresh without account, licensed, activated, plain    *)
(*     user), plus a user naming a licensed client and a client naming the other client;                 *)
(*   - sales for every client address and amount from the authorised (chain, contract), and one sale per *)
(*     other (chain, contract) pair;                                                                     *)
(*   - the configuration proposals, gifts by transaction and by keeper, time to the quarters of a        *)
(*     client's vesting window and beyond its end.                                                       *)
(* Licences are paid in the bond denom or in a second, genesis-funded denom (direct licences only).        *)
(* Starting points: the unconfigured genesis, and genesis followed by the three configuration        *)
(* proposals (funders <<rich, poor>> - the code picks the LAST one that can pay -, fee granter, contract  *)
(* 1 on chain 1), which the driver executes as ordinary steps.                                           *)
EXTENDS LightNode, Json
CONSTANTS EmitAt, MaxOps
VARIABLE hist

\* <<bond denom, other denom>> per user
FundsSmall == << <<3, 1>>, <<0, 2>>, <<2, 0>> >>
OtherDenom == CHOOSE d \in Denoms : d # Bond
MinOf(S) == CHOOSE x \in S : \A y \in S : x <= y
MaxOf(S) == CHOOSE x \in S : \A y \in S : x >= y
Rich == 1
Poor == 2
F1 == MinOf(Fresh)
F2 == MaxOf(Fresh)
OneAmt == MinOf(Amounts \ {0})
ShortM == MinOf(Months \ {0})
One(ch, k) == [x \in SaleChains |-> IF x = ch THEN k ELSE 0]
SaleRec(cfg) == [Rec("SetSale", 0, 0, 0, 0, 0, 0, 0, 0, "", 0) EXCEPT !.sc = AsTuple(cfg)]

GLic == \/ \E who \in Users, c \in Addrs, amt \in Amounts, d \in Denoms :
              (d = Bond \/ c \in Fresh) /\ \E m \in (IF amt = OneAmt /\ c \in Fresh THEN Months ELSE {MaxOf(Months)}) : AddLicense(who, who, c, amt, m, d)
        \/ AddLicense(Poor, Rich, F2, OneAmt, ShortM, Bond)
GSign == \/ \E who \in Signers : Register(who, who) \/ Auth(who, who)
         \/ \E c \in DOMAIN lic : Register(HasAcct, c) \/ Register(CHOOSE x \in Fresh : x # c, c)
         \/ \E c \in clients : Auth(HasAcct, c)
GSale == \/ \E c \in Addrs, amt \in Amounts : Sale(1, 1, c, amt)
         \/ \E ch \in SaleChains, k \in Contracts : (ch # 1 \/ k # 1) /\ Sale(ch, k, F1, OneAmt)
GCfg == \/ \E fs \in {<<>>, <<Rich>>, <<Poor>>, <<Rich, Poor>>, <<Poor, Rich>>, <<HasAcct>>} : fs # funders /\ SetFunders(fs)
        \/ ~feegr /\ SetFeegranter
        \/ \E cfg \in {One(1, 1), One(1, 2), One(2, 1), One(1, 0), [x \in SaleChains |-> 1]} : sale # cfg /\ SetSale(cfg)
GGift == \E who \in {Rich, HasAcct}, via \in {"tx", "keeper"} : Gift(who, OneAmt, via)
GAdv == \E c \in DOMAIN vest, q \in {1, 2, 4, 5} : Advance(c, q)

GAct == GLic \/ GSign \/ GSale \/ GCfg \/ GGift \/ GAdv

Step(r) == [act |-> r.act, args |-> [who |-> r.who, as |-> r.as, c |-> r.c, amt |-> r.amt, m |-> r.m, ch |-> r.ch, k |-> r.k, q |-> r.q, via |-> r.via, d |-> r.d, sc |-> r.sc]]
GInit == Init /\ hist = <<>>
\* genesis + the three proposals
CfgPrefix == << Step(Rec("SetFunders", Rich, Poor, 0, 0, 0, 0, 0, 0, "", 0)), Step(Rec("SetFeegranter", 0, 0, 0, 0, 0, 0, 0, 0, "", 0)),
                Step(SaleRec(One(1, 1))) >>
UserBal == [a \in Users \cup Fresh |-> IF a \in Users THEN [d \in Denoms |-> Funds[a][d]] ELSE ZeroD]
GInitCfg == /\ escrow = ZeroD /\ lic = [c \in {} |-> 0]
            /\ acct = [c \in Fresh |-> "none"] /\ vest = [c \in {} |-> 0]
            /\ bal = UserBal
            /\ clients = {} /\ grants = {}
            /\ funders = <<Rich, Poor>> /\ feegr = TRUE /\ sale = [ch \in SaleChains |-> IF ch = 1 THEN 1 ELSE 0]
            /\ gifts = ZeroD /\ now = 0
            /\ res = "ok" /\ last = SaleRec(One(1, 1)) /\ nops = 0
            /\ hist = CfgPrefix
\* genesis + the proposals + a sold and activated licence of the first client (vesting has started)
VestPrefix == CfgPrefix \o << Step(Rec("Sale", 0, 0, F1, MaxOf(Amounts), 0, 1, 1, 0, "", Bond)), Step(Rec("Register", F1, F1, 0, 0, 0, 0, 0, 0, "", 0)) >>
GInitVest == LET amt == MaxOf(Amounts) * Unit IN
            /\ escrow = ZeroD /\ lic = [c \in {} |-> 0]
            /\ acct = [c \in Fresh |-> IF c = F1 THEN "vesting" ELSE "none"]
            /\ vest = [c \in {F1} |-> [start |-> 0, end |-> Period(SaleMonths), orig |-> amt, den |-> Bond]]
            /\ bal = [UserBal EXCEPT ![Rich][Bond] = @ - amt, ![F1][Bond] = amt]
            /\ clients = {F1} /\ grants = {F1}
            /\ funders = <<Rich, Poor>> /\ feegr = TRUE /\ sale = [ch \in SaleChains |-> IF ch = 1 THEN 1 ELSE 0]
            /\ gifts = ZeroD /\ now = 0
            /\ res = "ok" /\ last = Rec("Register", F1, F1, 0, 0, 0, 0, 0, 0, "", 0) /\ nops = 0
            /\ hist = VestPrefix
\* genesis + two pending licences in DIFFERENT denominations (bond denom paid by the rich user, the other denom by the
\* user who holds it): whichever activates must be paid in its own coin, the other one's escrow stays whole
TwoPrefix == << Step(Rec("AddLicense", Rich, Rich, F1, OneAmt, ShortM, 0, 0, 0, "", Bond)),
                Step(Rec("AddLicense", Poor, Poor, F2, OneAmt, ShortM, 0, 0, 0, "", OtherDenom)) >>
GInitTwo == LET amt == OneAmt * Unit IN
            /\ escrow = [d \in Denoms |-> IF d \in {Bond, OtherDenom} THEN amt ELSE 0]
            /\ lic = [c \in Fresh |-> [amt |-> amt, months |-> ShortM, den |-> IF c = F1 THEN Bond ELSE OtherDenom]]
            /\ acct = [c \in Fresh |-> "base"] /\ vest = [c \in {} |-> 0]
            /\ bal = [UserBal EXCEPT ![Rich][Bond] = @ - amt, ![Poor][OtherDenom] = @ - amt]
            /\ clients = {} /\ grants = {}
            /\ funders = <<>> /\ feegr = FALSE /\ sale = [ch \in SaleChains |-> 0]
            /\ gifts = ZeroD /\ now = 0
            /\ res = "ok" /\ last = Rec("AddLicense", Poor, Poor, F2, OneAmt, ShortM, 0, 0, 0, "", OtherDenom) /\ nops = 0
            /\ hist = TwoPrefix
\* genesis + two pending licences in the SAME (bond) denomination, the first with ZERO vesting months (valid input: the
\* window has length 0): activating it - and trying again, and again - must take its own coins only, once
SamePrefix == << Step(Rec("AddLicense", Rich, Rich, F1, OneAmt, 0, 0, 0, 0, "", Bond)),
                 Step(Rec("AddLicense", HasAcct, HasAcct, F2, OneAmt, ShortM, 0, 0, 0, "", Bond)) >>
GInitSame == LET amt == OneAmt * Unit IN
            /\ escrow = [d \in Denoms |-> IF d = Bond THEN 2 * amt ELSE 0]
            /\ lic = [c \in Fresh |-> [amt |-> amt, months |-> IF c = F1 THEN 0 ELSE ShortM, den |-> Bond]]
            /\ acct = [c \in Fresh |-> "base"] /\ vest = [c \in {} |-> 0]
            /\ bal = [UserBal EXCEPT ![Rich][Bond] = @ - amt, ![HasAcct][Bond] = @ - amt]
            /\ clients = {} /\ grants = {}
            /\ funders = <<>> /\ feegr = FALSE /\ sale = [ch \in SaleChains |-> 0]
            /\ gifts = ZeroD /\ now = 0
            /\ res = "ok" /\ last = Rec("AddLicense", HasAcct, HasAcct, F2, OneAmt, ShortM, 0, 0, 0, "", Bond) /\ nops = 0
            /\ hist = SamePrefix
GInit2 == GInit \/ GInitCfg \/ GInitVest \/ GInitTwo \/ GInitSame

GView == <<last, res, svars>>
GConstr == nops <= MaxOps
EmitCond == nops >= 1 /\ (res # "ok" \/ nops = MaxOps)
GNextC == (IF EmitCond THEN PrintT(<<"HIST", ToJson(hist)>>) ELSE TRUE)
          /\ GAct /\ hist' = Append(hist, Step(last'))
\* cover from the configured start: sales, activations, time (direct licences and gifts are covered from genesis)
GNextCS == (IF EmitCond THEN PrintT(<<"HIST", ToJson(hist)>>) ELSE TRUE)
          /\ (GSale \/ GSign \/ GAdv \/ GCfg) /\ hist' = Append(hist, Step(last'))
\* cover from the vesting start: time, the other client's direct licence and activation, authentication
GNextCV == (IF EmitCond THEN PrintT(<<"HIST", ToJson(hist)>>) ELSE TRUE)
          /\ (GAdv \/ GSign \/ (\E who \in {Rich, HasAcct}, m \in Months : AddLicense(who, who, F2, OneAmt, m, Bond))
                            \/ (\E payer \in {Rich, Poor} : AddLicense(payer, payer, F2, OneAmt, ShortM, OtherDenom)))
          /\ hist' = Append(hist, Step(last'))
\* cover of the sale-contract configuration, from the configured start: two successive proposals (any list of the
\* family: every subset of the chains with contract 1, and lists with a changed address), then a sale reported from
\* every (chain, contract): current, retired and never configured ones.  The path is part of the view: the SAME final
\* list reached from different earlier lists are different histories.
CfgFamily == {cfg \in SaleCfgs : \A ch \in SaleChains : cfg[ch] \in {0, 1}}
             \cup {cfg \in SaleCfgs : cfg[1] = MaxOf(Contracts) /\ \A ch \in SaleChains \ {1} : cfg[ch] = 1}
             \cup {cfg \in SaleCfgs : cfg[1] = 1 /\ \A ch \in SaleChains \ {1} : cfg[ch] = (IF ch = 2 THEN MaxOf(Contracts) ELSE 0)}
GViewH == <<last, res, svars, hist>>
GNextCC == (IF EmitCond THEN PrintT(<<"HIST", ToJson(hist)>>) ELSE TRUE)
          /\ (IF nops < 2 THEN \E cfg \in CfgFamily : cfg # sale /\ SetSale(cfg)
              ELSE nops = 2 /\ \E ch \in SaleChains, k \in Contracts : Sale(ch, k, F1, OneAmt))
          /\ hist' = Append(hist, Step(last'))
GNextS == (IF nops = EmitAt THEN PrintT(<<"HIST", ToJson(hist)>>) ELSE TRUE)
          /\ GAct /\ hist' = Append(hist, Step(last'))
=============================================================================
