------------------------------ MODULE AuthGen ------------------------------
(* History generator for Auth, cover mode: one history per (fee-grant relation, message kind, signer,  *)
(* creator, named principal): the shortest sequence of Grant / GrantExp / Revoke steps that produces   *)
(* the relation, then the Deliver.                                                                      *)
(*   Signers    the signers that are not the governance authority ({A} in the quick tier: A and B are   *)
(*              both a validator and a user, the tuples are symmetric; {A, B} in the thorough tier)     *)
(*   Full       FALSE: kinds without an identity-bearing field / target object get named = creator,     *)
(*              a creator Gov (always rejected by the ante chain: governance grants nothing) gets       *)
(*              named = Gov, and the grant relations are those that matter for signer A                 *)
(*              (A->B none or active alone; B->A none / active / revoked / expired)                     *)
(*   GovKinds   non-governance kinds that are also executed by a governance proposal in A's name        *)
EXTENDS Auth, Json
CONSTANTS Signers, Full, GovAll
VARIABLE hist

GInit == Init /\ hist = <<>>
Step(r) == IF r.act = "Deliver"
           THEN [act |-> "Deliver", args |-> [kind |-> r.kind, s |-> r.s, c |-> r.c, n |-> r.n]]
           ELSE IF r.act = "DeliverK"
           THEN [act |-> "DeliverK", args |-> [kind |-> r.kind, s |-> r.s, c |-> r.c, n |-> r.n, v |-> r.k1]]
           ELSE IF r.act = "Deliver2"
           THEN [act |-> "Deliver2", args |-> [k1 |-> r.k1, k2 |-> r.kind, s |-> r.s, c |-> r.c, ord |-> r.ord]]
           ELSE IF r.act = "Reimport" THEN [act |-> "Reimport", args |-> [w |-> 0]]
           ELSE [act |-> r.act, args |-> [g |-> r.s, e |-> r.c, ak |-> IF r.k1 = "" THEN "basic" ELSE r.k1]]

NoGrants == \A pr \in Pairs : grants[pr] = "none"
PlainBasicG == \A pr \in Pairs : gkind[pr] \in {"-", "basic"}
GGrant == PlainBasicG /\ \E pr \in Pairs :
   \/ grants[pr] = "none" /\ (Grant(pr[1], pr[2], "basic") \/ GrantExp(pr[1], pr[2], "basic"))
   \/ grants[pr] = "active" /\ Revoke(pr[1], pr[2])
\* the other kinds of allowance (periodic, allowed-msg wrapping basic / periodic, each without / with a later expiration /
\* expired): only the allowance of the other principal for a signer, nothing else stored
GGrantKind == NoGrants /\ \E pr \in Pairs : pr[2] \in Signers /\
   \/ \E ak \in AKinds \ {"basic"} : Grant(pr[1], pr[2], ak)
   \/ \E ak \in BaseKinds \ {"basic"} : GrantExp(pr[1], pr[2], ak)

NamedFor(k, c) == IF Full THEN P
                  ELSE IF c = Gov THEN {Gov}
                  ELSE IF KT[k].target = "none" THEN {c} ELSE P
\* quick tier: the named principal only varies where it can matter - a creator that is neither the signer nor its grantor is
\* refused by the ante chain whatever the body says, and for creator = signer the stored allowances are irrelevant (the
\* named principal varies under "no allowance" and "B->A active" only)
NamedQ(k, s, c) == IF Full THEN P
                   ELSE IF c # s /\ ~Granted(grants, c, s) THEN {c}
                   ELSE IF c = s /\ ~(grants[<<A, B>>] = "none" /\ grants[<<B, A>>] \in {"none", "active"}) THEN {c}
                   ELSE NamedFor(k, c)
GDeliverUser == \E k \in Kinds, s \in Signers, c \in P : \E n \in NamedQ(k, s, c) : Deliver(k, s, c, n)
GovSample == {"VaKeepAlive", "TrUpsertRelayerFee", "SkSendToPalomaClaim", "TfMint", "ScCreateJob"}
GDeliverGov == NoGrants /\ \E k \in Kinds :
   IF KT[k].gov THEN \E cn \in {<<Gov, Gov>>, <<A, Gov>>, <<Gov, A>>} : Deliver(k, Gov, cn[1], cn[2])
   ELSE (GovAll \/ k \in GovSample) /\ KT[k].routed /\ Deliver(k, Gov, A, A)

\* two-message transactions: an honest message of the signer plus a message in the other principal's name, both orders;
\* the message in the other's name ranges over one kind per module (quick) / every plain kind (Full)
Sample2 == {"SkSendToRemote", "SkSendToPalomaClaim", "CoAddEvidence", "EvUploadUserSmartContract", "PaAuthLightNodeClient",
            "TfMint", "TfMintHanded", "ScCreateJob", "VaKeepAlive", "TrUpsertRelayerFee"}
Forged2(k1) == IF Full /\ k1 = "VaKeepAlive" THEN Plain ELSE Sample2
Honest2 == IF Full THEN {"VaKeepAlive", "TfCreateDenom"} ELSE {"VaKeepAlive"}
GDeliver2 == \E k1 \in Honest2, s \in Signers, c \in Users, ord \in {1, 2} : \E k2 \in Forged2(k1) :
                s # c /\ Deliver2(k1, k2, s, c, ord)

\* key collisions: every keyed kind x creator, owner of the collided object x every variant; only under fee-grant
\* relations without revoked / expired allowances (quick: A->B none, B->A none or active)
KGrants == \A pr \in Pairs : grants[pr] \in {"none", "active"}
GDeliverK == KGrants /\ (Full \/ NoGrants) /\
             \E k \in Keyed, s \in Signers, c \in Users, n \in Users, v \in Variants : DeliverK(k, s, c, n, v)

\* under the other allowance kinds: the signer acts in the grantor's name, one message kind per module
GDeliverKindSample == ~PlainBasicG /\ \E k \in Sample2, s \in Signers, c \in Users : s # c /\ Deliver(k, s, c, c)

GAct == GGrant \/ GGrantKind \/ GDeliverKindSample \/ (PlainBasicG /\ (GDeliverUser \/ GDeliverGov \/ GDeliver2 \/ GDeliverK))
\* the export / import perturbation follows a successful delivery of a signer in its own name (every kind: the world of the
\* kind holds the objects of its module for A and B; the ...Handed worlds hold objects whose ownership was handed over)
CanReimport == /\ last.act = "Deliver" /\ res = "ok" /\ NoGrants /\ Len(hist) = 1 /\ last.s \in Signers /\ last.s = last.c
               /\ (Full \/ last.n = last.c)
Delivered == last.act \in {"Deliver", "Deliver2", "DeliverK", "Reimport"}
\* a delivered history is emitted and not extended; the grant steps are not part of the view (two orders of the
\* same grants give one relation)
GNextC == (IF Delivered THEN PrintT(<<"HIST", ToJson(hist)>>) ELSE TRUE)
          /\ ((~Delivered /\ GAct) \/ (CanReimport /\ Reimport)) /\ hist' = Append(hist, Step(last'))
\* (Deliver prunes an expired allowance, so the relation the transaction saw is taken from the history)
GView == <<grants, gkind, IF Delivered THEN <<last, SubSeq(hist, 1, Len(hist) - 1)>> ELSE <<>> >>
QuickGrants == /\ grants[<<A, B>>] \in {"none", "active"}
               /\ (grants[<<A, B>>] = "active" => grants[<<B, A>>] = "none")
GConstr == /\ nops <= MaxOps
           /\ (Full \/ Delivered \/ QuickGrants)
=============================================================================
