CONSTANTS
  Accounts = {1, 2}
  Contracts = {3}
  JobIds = {1, 2, 3}
  Chains = {1, 2, 3, 4, 5}
  Targets = {1, 2}
  Payloads = {1, 2}
  Spellings = {"bare", "0x", "0X", "odd", "upper", "empty"}
  MaxOps = 13
  EmitAt = 12
INIT GInit
NEXT GNextS
CONSTRAINT GConstr
CHECK_DEADLOCK FALSE
