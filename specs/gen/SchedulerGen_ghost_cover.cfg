CONSTANTS
  Accounts = {1, 2}
  Contracts = {3}
  JobIds = {1, 2}
  Chains = {1, 2, 3, 4, 5}
  Targets = {1, 2}
  Payloads = {1, 2}
  Spellings = {"bare", "0x", "0X", "odd", "upper", "empty"}
  MaxOps = 4
  EmitAt = 0
INIT GInit
NEXT GNextG
VIEW GViewH
CONSTRAINT GConstr
CHECK_DEADLOCK FALSE
