CONSTANTS
  Vals = {1, 2, 3}
  Claims = {1, 2}
  CNonce <- NonceF
  CHash <- HashF
  CEff <- EffF
  CCompass <- CompassF
  CApplicable <- ApplF
  CHeight <- HeightF
  Powers = {}
  InitPower <- Pow334
  MaxNonce = 0
  MaxEpoch = 1
  MaxVotes = 6
  EmitAt = 0
  MaxOps = 7
INIT GInit
NEXT GNextD
VIEW GView
CONSTRAINT GConstr
CHECK_DEADLOCK FALSE
