CONSTANTS
  Accounts = {1, 2, 3}
  Subs = {1, 2}
  Amounts = {1, 2}
  Funds <- FundsSmall
  GrantSets <- AdminGrants
  Tails = FALSE
  ReimportInView = FALSE
  NativeMetas = {1}
  SpecialIds = {1, 2, 3, 4, 5, 6, 7, 8}
  Bindings <- PlainBinding
  MaxOps = 3
  MaxMinted = 3
  EmitAt = 0
  ProbeDepth = 0
INIT GInit
NEXT GNextC
VIEW GView
CONSTRAINT GConstr
CHECK_DEADLOCK FALSE
