CONSTANTS
  Vals = {1, 2, 3, 4}
  Chains = {1, 2}
  MaxVals = 3
  UnbondTime = 1000
  MaxPower = 16
  WarmTime = 2592000
  TTL = 2000
  Grace = 30
  Sweep = 10
  WarmUp = 50
  Sentences <- RealSentences
  ResetMin = 1800
  DefaultVer = 1
  Family = "snapx"
  EmitAt = 12
  MaxOps = 12
  StakeVecs <- Vecs4
  Amounts = {1, 2, 5}
  DTs <- DTsSnap
  Jumps <- JumpsCover
  GenVersions = {1}
  VSet = 0
  MaxHeight = 1
  FocusVals = {1, 2, 3, 4}

INIT GInit
NEXT GNext
CONSTRAINT GConstr
INVARIANT Emit
CHECK_DEADLOCK FALSE
