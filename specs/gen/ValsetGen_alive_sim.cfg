CONSTANTS
  Vals = {1, 2, 3, 4, 5}
  Chains = {1}
  MaxVals = 4
  UnbondTime = 600
  MaxPower = 16
  WarmTime = 2592000
  TTL = 2000
  Grace = 30
  Sweep = 10
  WarmUp = 50
  Sentences <- RealSentences
  ResetMin = 1800
  DefaultVer = 1
  Family = "alive"
  EmitAt = 12
  MaxOps = 12
  StakeVecs <- Vecs5
  Amounts = {1}
  DTs = {1}
  Jumps <- JumpsSim
  GenVersions = {0, 1, 2, 3}
  VSet = 0
  MaxHeight = 4300
  FocusVals = {1, 2, 3, 4, 5}

INIT GInit
NEXT GNext
CONSTRAINT GConstr
INVARIANT Emit
CHECK_DEADLOCK FALSE
