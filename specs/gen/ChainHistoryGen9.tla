------------------------- MODULE ChainHistoryGen9 -------------------------
(* C09 history generator: TLC enumerates                                                                 *)
(*      message kind x parameter x hostile class x height class x what is queued.                        *)
(* A history is  Prepare(stage, hclass) ; Hostile(kind, parameter, class) ; Run   - the macro steps stand *)
(* for Block steps of ChainHistory: Prepare = empty blocks up to the height class with the stage script  *)
(* in the last blocks, Hostile = Block(<<entry>>), Run = the duty blocks of the pigeons up to the next    *)
(* begin/end-blocker heights - or  Prepare ; Gate ; Run  (the version gate, the only permitted stop).    *)
(*   Sel = "diag"  every entry once, height class and stage rotating with the entry and class index,      *)
(*                 plus every stage for the kinds whose values reach the end blockers (Focus)             *)
(*   Sel = "full"  the whole product                                                                      *)
EXTENDS ChainHistory, Json
CONSTANTS Sel
VARIABLES hist, phase
gvars == <<vars, hist, phase>>

NoBlocks == {<<>>}
\* the versions of the version gate: patch / minor / major components with different digit counts, a pre-release
GateVersions == {[v |-> <<5, 1, 6>>, pre |-> ""], [v |-> <<5, 1, 9>>, pre |-> ""], [v |-> <<5, 1, 10>>, pre |-> ""], [v |-> <<5, 1, 20>>, pre |-> ""],
                 [v |-> <<5, 1, 100>>, pre |-> ""], [v |-> <<5, 9, 0>>, pre |-> ""], [v |-> <<5, 10, 0>>, pre |-> ""], [v |-> <<9, 0, 0>>, pre |-> ""],
                 [v |-> <<10, 0, 0>>, pre |-> ""], [v |-> <<5, 1, 6>>, pre |-> "-rc1"]}

NoEnv == {}
HSeq == <<"m50", "other", "m10", "m300", "m303">>
SSeq == <<"idle", "fresh", "signed", "elected", "relayed">>
MainStages == {SSeq[i] : i \in DOMAIN SSeq}
\* histories without a hostile entry: what the chain does with what honest but lazy / absent pigeons leave behind
\*   a delivery report that nobody attests, contentious evidence, evidence only from a validator outside the snapshot:
\*   the run goes on (nobody attests) past the pruning height of the message (older than 300 blocks at a height = 0 mod 50)
LapseStages == {"relayed", "reportedpad", "split", "newval"}
\*   a validator with more than a quarter of the stake / the last active validator whose pigeon never runs: 120 blocks of jail sweeps
\*   life: a validator relays, withdraws its whole stake and is removed from staking (signing info and relay history stay), more than a
\*   thousand message ids later new messages are attested, the validator joins again: 120 blocks across every cadence
SilentWorlds == {"big", "solo", "life"}
CSeq == <<"negative", "zero", "one", "huge63", "huge64", "huge255", "empty", "overlong", "malformed",
          "failed", "nologs", "notopics", "foreignfirst", "manylogs", "baddata", "manytopics">>
CIdx(c) == CHOOSE j \in DOMAIN CSeq : CSeq[j] = c
Focus == {"UpsertRelayerFee", "AddMessageEstimates", "AddMessageEstimates/all", "AddEvidence", "AddEvidence/all", "AddEvidenceTx/all", "AddEvidenceBalances/all",
          "SetErrorData", "SetPublicAccessData", "EstimateBatchGas", "EstimateBatchGas/all", "ConfirmBatch", "SendToPalomaClaim/all",
          "BatchSendToRemoteClaim/all", "LightNodeSaleClaim/all"}
\* balance requests and transfer batches exist from height 300 on (the stage scripts put a transfer into the pool)
FocusHC(k) == IF k \in {"AddEvidenceBalances/all", "EstimateBatchGas", "EstimateBatchGas/all", "ConfirmBatch", "BatchSendToRemoteClaim/all"} THEN "m303" ELSE "other"

OKKinds == {"AddEvidenceDeployOK/all", "AddEvidenceCallOK/all", "AddEvidenceValsetOK/all", "AddEvidenceTx/all"}
\* Metadata.Creator / Signers are handled by the ante chain in the same way for every kind
IsMeta(p) == p \in {"Metadata.Creator", "Metadata.Signers", "Metadata.Signers[0]"}
Selected(i, c, s, hc) ==
  \/ Sel = "full"
  \/ /\ Sel = "diag"
     /\ \/ (hc = HSeq[((i + CIdx(c)) % 5) + 1] /\ s = SSeq[((i + 2 * CIdx(c)) % 5) + 1])
        \/ (Cat[i][1] \in Focus /\ hc = FocusHC(Cat[i][1]) /\ ~IsMeta(Cat[i][2]) /\ s \in MainStages)
        \* proofs of the matching transaction only count once the relayer has published its hash
        \/ (Cat[i][1] \in OKKinds /\ s = "reportedpad" /\ hc = "other" /\ ~IsMeta(Cat[i][2]))


GInit == Init /\ hist = <<>> /\ phase = "start"

GPrepare == /\ phase = "start"
            /\ \/ \E s \in MainStages \cup {"reportedpad"}, hc \in HClasses :
                    /\ txlog' = PrepLog(s, hc) /\ height' = HeightOf(hc) - 1 /\ queued' = StageOfLog(PrepLog(s, hc))
                    /\ hist' = <<[act |-> "Prepare", args |-> [stage |-> s, hclass |-> hc, world |-> "std"]]>>
                    /\ phase' = "prepared"
               \/ \E s \in LapseStages :
                    /\ txlog' = PrepLog(s, "other") /\ height' = HeightOf("other") - 1 /\ queued' = StageOfLog(PrepLog(s, "other"))
                    /\ hist' = <<[act |-> "Prepare", args |-> [stage |-> s, hclass |-> "other", world |-> "std"]]>>
                    /\ phase' = "lapse"
               \/ \E w \in SilentWorlds :
                    /\ txlog' = PrepLog("idle", "other") /\ height' = HeightOf("other") - 1 /\ queued' = "idle"
                    /\ hist' = <<[act |-> "Prepare", args |-> [stage |-> "idle", hclass |-> "other", world |-> w]]>>
                    /\ phase' = "silent"
            /\ last' = Rec("Block", <<>>)
            /\ UNCHANGED <<gate, halted, nodeVars>>

CurStage == hist[1].args.stage
CurHC == hist[1].args.hclass
GHostile == /\ phase = "prepared"
            /\ \E i \in CatIdx : \E c \in ClassesOf(Cat[i][3]) :
                 /\ Selected(i, c, CurStage, CurHC)
                 /\ Block(<< <<Cat[i][1], Cat[i][2], c>> >>)
                 /\ hist' = Append(hist, [act |-> "Hostile", args |-> [kind |-> Cat[i][1], param |-> Cat[i][2], class |-> c]])
            /\ phase' = "hostile"
\* the version gate: every pair (running software, completed upgrade) of GateVersions at stage idle, one older and one newer pair
\* at the other stages
GatePair(s, a, g) == s = "idle" \/ (a.v = <<5, 1, 6>> /\ a.pre = "" /\ g.v \in {<<5, 1, 10>>, <<5, 1, 6>>} /\ g.pre = "")
GGate == /\ phase = "prepared" /\ CurHC = "other" /\ CurStage \in MainStages
         /\ \E a, g \in GateVersions : /\ GatePair(CurStage, a, g) /\ Gate(a, g)
                                       /\ hist' = Append(hist, [act |-> "Gate", args |-> [app |-> a, gov |-> g]])
         /\ phase' = "gate"
GRun == /\ phase \in {"hostile", "gate"}
        /\ IF Closed THEN Halt ELSE Block(DutyBlock)
        /\ hist' = Append(hist, [act |-> "Run", args |-> [mode |-> "duty", span |-> "next"]]) /\ phase' = "done"
\* nobody attests: the blocks carry what the pigeons still do (sign, estimate, batch work)
GLapse == /\ phase = "lapse" /\ Block(TplSeq(<<"sign", "estimate", "batchest", "confirm">>))
          /\ hist' = Append(hist, [act |-> "Run", args |-> [mode |-> "noattest", span |-> "prune"]]) /\ phase' = "done"
GSilent == /\ phase = "silent" /\ Block(<<>>)
           /\ hist' = Append(hist, [act |-> "Run", args |-> [mode |-> "duty", span |-> "120"]]) /\ phase' = "done"
GNextC == (IF phase = "done" THEN PrintT(<<"HIST", ToJson(hist)>>) ELSE TRUE) /\ (GPrepare \/ GHostile \/ GGate \/ GRun \/ GLapse \/ GSilent)
=============================================================================
