CONSTANTS
  Users = {1, 2}
  Vals = {1, 2, 3}
  Tokens = {1}
  TokChain <- Seq1
  TokContract <- Seq1
  TokDenom <- Seq1
  Amounts = {2}
  InitBal = 12
  BatchEvery = 50
  TimeoutBlocks = 300
  Jumps = {50, 301}
  Period = 57600
  TaxRates <- RateNone
  Limits = {3}
  EstValues = {1}
  MaxTx = 3
  MaxBatch = 4
  MaxClaims = 2
  MaxHeight = 700
  Family = "limbatch"
  EmitAt = 0
  MaxK = 0
  MaxOps = 7
VIEW GView
INIT GInit
NEXT GNextC
CONSTRAINT GConstr
CHECK_DEADLOCK FALSE
