CONSTANTS
  Vals = {1, 2, 3, 4}
  Share <- ShareFn
  MaxRetries = 2
  Worlds = {0, 1, 2, 3}
  EKinds = {"slc", "valset", "usc", "uscn", "uusc"}
  KMax = 2
  Signers = {1, 2}
  SignOrdered = TRUE
  FirstVals = {1, 2}
  Lean = TRUE
  CorrMode = "all"
  MaxNew = 1
  MaxRounds = 1
  MaxOps = 9
  EmitAt = 0
  Jumps = {1, 301, 601, 5000}
  MaxAdv = 1
INIT GInit
NEXT GNextC
VIEW GView
CONSTRAINT GConstr
CHECK_DEADLOCK FALSE
