---------------------------- MODULE MempoolGen ----------------------------
(* History generator for Mempool: carries the history of actions and prints it as JSON.  *)
(* cover mode   : VIEW hides hist/nops, so TLC keeps one (shortest) history per distinct  *)
(*                pool state; a history is emitted at every state reached by Select.      *)
(* simulate mode: random walks, history emitted when it reaches EmitAt steps.             *)
EXTENDS Mempool, Json
CONSTANTS EmitAt, MaxPending
VARIABLE hist

GInit == Init /\ hist = <<>>
Rec(a, t) == [act |-> a, args |-> t]
Max(S) == CHOOSE x \in S : \A y \in S : y <= x
Arg(t, k, m) == [s |-> t.s, n |-> t.n, c |-> t.c, k |-> k, m |-> m]
GNext == \/ \E s \in Senders, n \in Nonces, k \in Classes, m \in {1, 2} :
              /\ (m = 2 => k = Max(Classes))          \* multi-message transactions: first message of the highest class
              /\ Insert(MkTx(s, n, k, m)) /\ hist' = Append(hist, Rec("Insert", Arg(MkTx(s, n, k, m), k, m)))
         \/ \E t \in Tx : /\ (t \in pending \/ (t.c = 0 /\ ~\E u \in pending : Key(u) = Key(t)))
                          /\ Remove(t) /\ hist' = Append(hist, Rec("Remove", Arg(t, t.c, 1)))
         \/ Select /\ hist' = Append(hist, Rec("Select", [s |-> 0, n |-> 0, c |-> 0, k |-> 0, m |-> 1]))

Last == IF hist = <<>> THEN <<>> ELSE hist[Len(hist)]
GView == <<Last, pending, weights, out, res>>
GConstr == Len(hist) <= MaxOps /\ Cardinality(pending) <= MaxPending
GNextC == (IF res = "select" THEN PrintT(<<"HIST", ToJson(hist)>>) ELSE TRUE) /\ GNext
Emit == Len(hist) = EmitAt => PrintT(<<"HIST", ToJson(hist)>>)
=============================================================================
