CONSTANTS
  Vals = {1, 2, 3, 4, 5}
  Chains = {1}
  MaxVals = 4
  UnbondTime = 600
  MaxPower = 16
  WarmTime = 2592000
  TTL = 2000
  Grace = 30
  Sweep = 10
  WarmUp = 50
  Sentences <- RealSentences
  ResetMin = 1800
  DefaultVer = 1
  Family = "version"
  EmitAt = 0
  MaxOps = 5
  StakeVecs <- Vecs5Lone
  Amounts = {1}
  DTs = {1}
  Jumps <- JumpsVer
  GenVersions = {1, 2}
  VSet = 0
  MaxHeight = 2300
  FocusVals = {2}
VIEW GView
INIT GInit
NEXT GNextC
CONSTRAINT GConstr
CHECK_DEADLOCK FALSE
