--------------------------- MODULE EvmAttestGen ---------------------------
(* History generator for EvmAttest (see MempoolGen for the two modes).                          *)
(* Behaviours are produced in rounds (enqueue*, sign*, evidence*, EndBlock): independent steps   *)
(* commute, and a round structure keeps random walks balanced (TLC picks successors uniformly).  *)
(* The first evidence a message receives in a round is drawn from the full menu (exact encoding  *)
(* with every prefix length, no signature at all, failed receipt, second transaction instance,   *)
(* every corruption of the action's delivered fields, the encoding / an earlier transaction of   *)
(* another message, the error proof); the following validators copy it, contradict its receipt   *)
(* status or offer the plain exact transaction, so that 2/3 agreement, exactly-2/3, one-short    *)
(* and split votes all occur.                                                                    *)
EXTENDS EvmAttest, Json
CONSTANTS Worlds, EKinds, KMax, Signers, SignOrdered, FirstVals, Lean, CorrMode, MaxNew, MaxRounds, MaxOps, EmitAt, Jumps, MaxAdv
VARIABLES hist, ph, theme
ShareFn == <<3, 1, 1, 1>>

\* delivered fields per action type (names understood by the driver's reference encoder)
SinglesOf(kind) ==
  CASE kind = "slc"      -> <<"contract", "payload", "fee", "cfee", "payer", "msgid", "deadline", "relayer", "valset", "power", "sig", "append", "append1", "prepend", "prepend1", "trunc", "selector">>
    [] kind = "valset"   -> <<"newvalset", "newpower", "relayer", "gas", "valset", "power", "sig", "append", "append1", "prepend", "prepend1", "trunc", "selector">>
    [] kind = "handover" -> <<"contract", "payload", "deadline", "gas", "relayer", "valset", "power", "sig", "append", "append1", "prepend", "prepend1", "trunc", "selector">>
    [] kind = "uusc"     -> <<"contract", "payload", "fee", "cfee", "payer", "msgid", "deadline", "relayer", "valset", "power", "sig", "append", "append1", "prepend", "prepend1", "trunc", "selector">>
    [] kind = "uscn"     -> <<"bytecode", "ctorargs", "append", "append1", "prepend", "prepend1", "trunc">>
    [] OTHER             -> <<"bytecode", "ctor", "append", "append1", "prepend", "prepend1", "trunc">>
DoublesOf(kind) ==
  CASE kind = "slc"      -> <<"relayer+deadline", "fee+payload", "valset+sig", "msgid+deadline", "contract+payload", "append+relayer">>
    [] kind = "valset"   -> <<"newvalset+gas", "relayer+gas", "valset+sig", "newpower+power", "append+relayer">>
    [] kind = "handover" -> <<"contract+payload", "gas+relayer", "deadline+gas", "valset+sig", "append+relayer">>
    [] kind = "uusc"     -> <<"relayer+deadline", "fee+payload", "valset+sig", "msgid+deadline", "contract+payload", "append+relayer">>
    [] kind = "uscn"     -> <<"bytecode+append1", "prepend1+append1">>
    [] OTHER             -> <<"bytecode+ctor", "append+ctor", "append1+ctor">>
FewOf(kind) ==
  CASE kind = "slc"      -> {"relayer", "fee", "append"}
    [] kind = "valset"   -> {"newvalset", "gas", "append"}
    [] kind = "handover" -> {"payload", "relayer", "trunc"}
    [] kind = "uusc"     -> {"msgid", "deadline", "append"}
    [] kind = "uscn"     -> {"ctorargs", "append1"}
    [] OTHER             -> {"ctor", "append"}
Nth(s, i) == s[((i - 1) % Len(s)) + 1]
CorrSet(kind) ==
  CASE CorrMode = "few" -> FewOf(kind)
    [] CorrMode = "all" -> {SinglesOf(kind)[i] : i \in 1..Len(SinglesOf(kind))} \cup {DoublesOf(kind)[i] : i \in 1..Len(DoublesOf(kind))}
    [] OTHER            -> {Nth(SinglesOf(kind), theme), Nth(SinglesOf(kind), theme + 5), Nth(DoublesOf(kind), theme)}

H(a, r) == hist' = Append(hist, [act |-> a, args |-> r])
EvArgs(v, m, p) == [v |-> v, m |-> m, t |-> p.t, of |-> p.of, k |-> p.k, corr |-> p.corr, st |-> p.st, n |-> p.n, rg |-> p.rg]
P(t, of, k, corr, st, n) == [t |-> t, of |-> of, k |-> k, corr |-> corr, st |-> st, n |-> n, rg |-> 1]
NoP == [t |-> "", of |-> 0, k |-> 0, corr |-> "", st |-> "", n |-> 0, rg |-> 0]
\* done: validators that submitted on message m in this round; sc/q: running split-vote script and its variant;
\* adv: block jumps taken so far (time is invisible in the model state, so it is part of the view);
\* ord: submission order (the model state has none, the real queue does: it is part of the view)
Ph0(r) == [r |-> r, s |-> 0, m |-> 0, v |-> 0, c |-> 0, p |-> NoP, done |-> {}, sc |-> <<>>, q |-> NoP, ord |-> <<>>, adv |-> <<>>]
Ofs == DOMAIN msgs \cup {key[1] : key \in DOMAIN txs}

GInit == \E w \in Worlds, th \in (IF CorrMode = "theme" THEN 1..12 ELSE {1}) :
           InitW(w) /\ hist = <<[act |-> "Start", args |-> [w |-> w]]>> /\ ph = Ph0(1) /\ theme = th

GEnqueue == \E kind \in EKinds : ph.s = 0 /\ Enqueue(kind) /\ H("Enqueue", [kind |-> kind]) /\ UNCHANGED <<ph, theme>>
GSign == \E v \in Signers, m \in DOMAIN msgs \cup {nextId} :
           /\ ph.s <= 1 /\ (m \in DOMAIN msgs => Len(msgs[m].sigs) < KMax)
           /\ (SignOrdered => m \in DOMAIN msgs /\ \A u \in Range(msgs[m].sigs) : u < v)
           /\ Sign(v, m) /\ H("Sign", [v |-> v, m |-> m]) /\ ph' = [ph EXCEPT !.s = 1] /\ UNCHANGED theme

\* menu of the first evidence on message m in this round
Menu(m) ==
  LET kind == msgs[m].kind
      ks == IF IsUsc(kind) THEN {1} ELSE 0..Len(msgs[m].sigs) IN
     {P("tx", m, k, "none", "ok", 1) : k \in ks}
  \cup {P("tx", m, 1, "none", st, 1) : st \in {"fail", "absent", "empty", "bad"}}      \* every receipt component
  \cup {P("tx", m, 1, "none", "ok", 2), P("err", m, 1, "none", "ok", 1)}
  \cup {P("tx", m, 1, c, "ok", 1) : c \in CorrSet(kind)}
  \cup {P("tx", of, 1, "none", "ok", 1) : of \in Ofs \ {m}}
\* evidence that differs from p in exactly one component: receipt status, rest of the receipt, transaction
\* instance (another transaction with the same call data), signature prefix, or an error proof instead
Variants(m, p) ==
  IF p.t # "tx" THEN {} ELSE
     {[p EXCEPT !.st = x] : x \in {"ok", "fail", "absent", "empty", "bad"} \ {p.st}}
  \cup {[p EXCEPT !.rg = 3 - @], [p EXCEPT !.n = 3 - @], P("err", m, 1, "none", "ok", 1)}
  \cup (IF p.of = m /\ ~IsUsc(msgs[m].kind) /\ p.corr = "none" /\ Len(msgs[m].sigs) >= 2 THEN {[p EXCEPT !.k = 3 - @]} ELSE {})
\* what the validators after the first one may do
Follow(m) == {ph.p, [ph.p EXCEPT !.st = IF @ = "ok" THEN "fail" ELSE "ok"]}
              \cup (IF SignOrdered THEN {} ELSE {P("tx", m, 1, "none", "ok", 1)} \cup Variants(m, ph.p))

\* basic transactions get every vote pattern, the rest of the menu gets the exactly-2/3 pattern (lean mode)
Basic(m) == {P("tx", m, 1, "none", "ok", 1)}
            \cup {P("tx", m, 1, c, "ok", 1) : c \in {Nth(SinglesOf(msgs[m].kind), 1)}}
AfterJump == Lean /\ ph.adv # <<>>
ReplayMenu(m) == {P("tx", of, 1, "none", "ok", 1) : of \in Ofs}
GEvidence == \E m \in DOMAIN msgs, v \in Vals :
  /\ ph.sc = <<>>
  /\ ph.s <= 2 /\ (ph.s = 2 => (m > ph.m \/ (m = ph.m /\ (IF Lean THEN v > ph.v ELSE v \notin ph.done))))
  /\ (~(ph.s = 2 /\ m = ph.m) => v \in FirstVals)
  /\ (Lean /\ ph.s = 2 => m = ph.m /\ ph.c < 3)
  /\ \E p \in (IF ph.s = 2 /\ m = ph.m THEN {q \in Follow(m) : q.t # ""} ELSE IF AfterJump THEN ReplayMenu(m) ELSE Menu(m)) :
       /\ (p.t = "tx" => CanBuild(p.of, p.k, p.corr))
       /\ (Lean /\ ph.s < 2 /\ (p \notin Basic(m) \/ AfterJump) => v = 1)
       /\ (Lean /\ ph.s = 2 /\ (ph.p \notin Basic(m) \/ AfterJump) => v = 2 /\ ph.c = 1 /\ p = ph.p)
       /\ Evidence(v, m, p.t, p.of, p.k, p.corr, p.st, p.n, p.rg)
       /\ H("Evidence", EvArgs(v, m, p))
       /\ ph' = [ph EXCEPT !.s = 2, !.m = m, !.v = v, !.c = IF ph.s = 2 /\ m = ph.m THEN @ + 1 ELSE 1, !.p = IF ph.s = 2 /\ m = ph.m THEN @ ELSE p,
                           !.done = IF ph.s = 2 /\ m = ph.m THEN @ \cup {v} ELSE {v},
                           !.ord = IF ph.s = 2 /\ m = ph.m THEN Append(@, v) ELSE <<v>>]
  /\ UNCHANGED theme

\* Split votes: the validators report the SAME transaction, a minority with evidence that differs in exactly one
\* component ("v"), the others with the base evidence ("b"); every submission order that matters: the minority
\* first, last, in the middle, a two-validator minority first / last, and the heavy validator as the deviating one.
\* Shares 3:1:1:1 -> {1,2} is exactly 2/3.  The order is free here (the queue keeps evidence in submission order and
\* the tally hands the attester the first member of the winning group).
Scripts == { <<<<4, "v">>, <<1, "b">>, <<2, "b">>>>,  <<<<1, "b">>, <<2, "b">>, <<4, "v">>>>,  <<<<1, "b">>, <<4, "v">>, <<2, "b">>>>,
             <<<<3, "v">>, <<4, "v">>, <<1, "b">>, <<2, "b">>>>,  <<<<2, "b">>, <<1, "b">>, <<4, "v">>, <<3, "v">>>>,
             <<<<2, "v">>, <<1, "b">>, <<3, "b">>, <<4, "b">>>>,  <<<<1, "v">>, <<2, "b">>, <<3, "b">>, <<4, "b">>>> }
SplitBases(m) == {P("tx", m, 1, "none", "ok", 1), P("tx", m, 1, "none", "fail", 1)}
ScriptStep(m, sc, b, q, start) ==
  LET v == sc[1][1]  p == IF sc[1][2] = "b" THEN b ELSE q IN
  /\ Evidence(v, m, p.t, p.of, p.k, p.corr, p.st, p.n, p.rg)
  /\ H("Evidence", EvArgs(v, m, p))
  /\ ph' = [ph EXCEPT !.s = 2, !.m = m, !.v = 4, !.c = 4, !.p = b, !.q = q, !.sc = Tail(sc), !.done = Vals, !.ord = IF start THEN <<v>> ELSE Append(@, v)]
GSplit ==
  /\ UNCHANGED theme
  /\ \/ /\ ph.sc = <<>> /\ ph.s <= 1 /\ ~AfterJump
        /\ \E m \in DOMAIN msgs, sc \in Scripts : \E b \in SplitBases(m) : \E q \in Variants(m, b) :
             /\ CanBuild(m, 1, "none")
             /\ (Lean => Len(msgs[m].sigs) = (IF IsUsc(msgs[m].kind) THEN 0 ELSE 1))
             /\ (q.t = "tx" => CanBuild(q.of, q.k, q.corr))
             /\ ScriptStep(m, sc, b, q, TRUE)
     \/ /\ ph.sc # <<>> /\ ph.m \in DOMAIN msgs
        /\ ScriptStep(ph.m, ph.sc, ph.p, ph.q, FALSE)

\* rejected submissions: message that is not queued / transaction that cannot exist
GEvidenceBad ==
  /\ ph.s <= 1 /\ ph.r = 1
  /\ \/ \E of \in Ofs : Evidence(1, nextId, "tx", of, 1, "none", "ok", 1, 1) /\ H("Evidence", EvArgs(1, nextId, P("tx", of, 1, "none", "ok", 1)))
     \/ \E m \in DOMAIN msgs : Evidence(1, m, "tx", nextId, 1, "none", "ok", 1, 1) /\ H("Evidence", EvArgs(1, m, P("tx", nextId, 1, "none", "ok", 1)))
  /\ ph' = [ph EXCEPT !.s = 1] /\ UNCHANGED theme

\* time passes at the start of a round: between an attestation (in this history or while the world was prepared)
\* and whatever is submitted later, in particular the SAME transaction for a later message with identical call data
GAdvance == \E d \in Jumps :
  /\ ph.s = 0 /\ Len(ph.adv) < MaxAdv /\ hist[Len(hist)].act # "Advance"
  /\ (Lean => processed # {})
  /\ Advance(d) /\ H("Advance", [d |-> d]) /\ ph' = [ph EXCEPT !.adv = Append(@, d)] /\ UNCHANGED theme

GEndBlock == ph.sc = <<>> /\ ph.r <= MaxRounds /\ EndBlock /\ H("EndBlock", [x |-> 0]) /\ ph' = [Ph0(ph.r + 1) EXCEPT !.ord = ph.ord, !.adv = ph.adv] /\ UNCHANGED theme

GNext == ph.r <= MaxRounds /\ (GEnqueue \/ GSign \/ GEvidence \/ GSplit \/ GEvidenceBad \/ GAdvance \/ GEndBlock)

Last == hist[Len(hist)]
\* the incoming action is part of the view, so that rejected / no-op steps get a history of their own
GView == <<IF res \in {"fail", "noop", "nobuild"} THEN Last ELSE <<>>, res, ph, msgs, txs, processed, live, deploy, active, user>>
GConstr == Len(hist) <= MaxOps /\ Cardinality({i \in DOMAIN hist : hist[i].act = "Enqueue"}) <= (IF Lean /\ hist[1].args.w \in {1, 3} THEN 0 ELSE MaxNew) /\ ph.r <= MaxRounds + 1
EmitCond == Len(hist) >= 3 /\ (Last.act = "EndBlock" \/ res \in {"fail", "noop", "nobuild"})
GNextC == (IF EmitCond THEN PrintT(<<"HIST", ToJson(hist)>>) ELSE TRUE) /\ GNext
Emit == Len(hist) = EmitAt => PrintT(<<"HIST", ToJson(hist)>>)
=============================================================================
