--------------------------- MODULE EvmAttestGen ---------------------------
(* History generator for EvmAttest (see MempoolGen for the two modes).                          *)
(* Behaviours are produced in rounds (enqueue*, sign*, evidence*, EndBlock): independent steps   *)
(* commute, and a round structure keeps random walks balanced (TLC picks successors uniformly).  *)
(* The first evidence a message receives in a round is drawn from the full menu (exact encoding  *)
(* with every prefix length, no signature at all, failed receipt, second transaction instance,   *)
(* every corruption of the action's delivered fields, the encoding / an earlier transaction of   *)
(* another message, the error proof); the following validators copy it, contradict its receipt   *)
(* status or offer the plain exact transaction, so that 2/3 agreement, exactly-2/3, one-short    *)
(* and split votes all occur.                                                                    *)
EXTENDS EvmAttest, Json
CONSTANTS Worlds, EKinds, KMax, Signers, SignOrdered, FirstVals, Lean, CorrMode, MaxNew, MaxRounds, MaxOps, EmitAt
VARIABLES hist, ph, theme
ShareFn == <<3, 1, 1, 1>>

\* delivered fields per action type (names understood by the driver's reference encoder)
SinglesOf(kind) ==
  CASE kind = "slc"      -> <<"contract", "payload", "fee", "cfee", "payer", "msgid", "deadline", "relayer", "valset", "power", "sig", "append", "append1", "prepend", "prepend1", "trunc", "selector">>
    [] kind = "valset"   -> <<"newvalset", "newpower", "relayer", "gas", "valset", "power", "sig", "append", "append1", "prepend", "prepend1", "trunc", "selector">>
    [] kind = "handover" -> <<"contract", "payload", "deadline", "gas", "relayer", "valset", "power", "sig", "append", "append1", "prepend", "prepend1", "trunc", "selector">>
    [] kind = "uusc"     -> <<"contract", "payload", "fee", "cfee", "payer", "msgid", "deadline", "relayer", "valset", "power", "sig", "append", "append1", "prepend", "prepend1", "trunc", "selector">>
    [] kind = "uscn"     -> <<"bytecode", "ctorargs", "append", "append1", "prepend", "prepend1", "trunc">>
    [] OTHER             -> <<"bytecode", "ctor", "append", "append1", "prepend", "prepend1", "trunc">>
DoublesOf(kind) ==
  CASE kind = "slc"      -> <<"relayer+deadline", "fee+payload", "valset+sig", "msgid+deadline", "contract+payload", "append+relayer">>
    [] kind = "valset"   -> <<"newvalset+gas", "relayer+gas", "valset+sig", "newpower+power", "append+relayer">>
    [] kind = "handover" -> <<"contract+payload", "gas+relayer", "deadline+gas", "valset+sig", "append+relayer">>
    [] kind = "uusc"     -> <<"relayer+deadline", "fee+payload", "valset+sig", "msgid+deadline", "contract+payload", "append+relayer">>
    [] kind = "uscn"     -> <<"bytecode+append1", "prepend1+append1">>
    [] OTHER             -> <<"bytecode+ctor", "append+ctor", "append1+ctor">>
FewOf(kind) ==
  CASE kind = "slc"      -> {"relayer", "fee", "append"}
    [] kind = "valset"   -> {"newvalset", "gas", "append"}
    [] kind = "handover" -> {"payload", "relayer", "trunc"}
    [] kind = "uusc"     -> {"msgid", "deadline", "append"}
    [] kind = "uscn"     -> {"ctorargs", "append1"}
    [] OTHER             -> {"ctor", "append"}
Nth(s, i) == s[((i - 1) % Len(s)) + 1]
CorrSet(kind) ==
  CASE CorrMode = "few" -> FewOf(kind)
    [] CorrMode = "all" -> {SinglesOf(kind)[i] : i \in 1..Len(SinglesOf(kind))} \cup {DoublesOf(kind)[i] : i \in 1..Len(DoublesOf(kind))}
    [] OTHER            -> {Nth(SinglesOf(kind), theme), Nth(SinglesOf(kind), theme + 5), Nth(DoublesOf(kind), theme)}

H(a, r) == hist' = Append(hist, [act |-> a, args |-> r])
EvArgs(v, m, t, of, k, corr, st, n) == [v |-> v, m |-> m, t |-> t, of |-> of, k |-> k, corr |-> corr, st |-> st, n |-> n]
NoP == [t |-> "", of |-> 0, k |-> 0, corr |-> "", st |-> "", n |-> 0]
Ph0(r) == [r |-> r, s |-> 0, m |-> 0, v |-> 0, c |-> 0, p |-> NoP]
Ofs == DOMAIN msgs \cup {key[1] : key \in DOMAIN txs}

GInit == \E w \in Worlds, th \in (IF CorrMode = "theme" THEN 1..12 ELSE {1}) :
           InitW(w) /\ hist = <<[act |-> "Start", args |-> [w |-> w]]>> /\ ph = Ph0(1) /\ theme = th

GEnqueue == \E kind \in EKinds : ph.s = 0 /\ Enqueue(kind) /\ H("Enqueue", [kind |-> kind]) /\ UNCHANGED <<ph, theme>>
GSign == \E v \in Signers, m \in DOMAIN msgs \cup {nextId} :
           /\ ph.s <= 1 /\ (m \in DOMAIN msgs => Len(msgs[m].sigs) < KMax)
           /\ (SignOrdered => m \in DOMAIN msgs /\ \A u \in Range(msgs[m].sigs) : u < v)
           /\ Sign(v, m) /\ H("Sign", [v |-> v, m |-> m]) /\ ph' = [ph EXCEPT !.s = 1] /\ UNCHANGED theme

\* menu of the first evidence on message m in this round
Menu(m) ==
  LET kind == msgs[m].kind
      ks == IF IsUsc(kind) THEN {1} ELSE 0..Len(msgs[m].sigs) IN
     {[t |-> "tx", of |-> m, k |-> k, corr |-> "none", st |-> "ok", n |-> 1] : k \in ks}
  \cup {[t |-> "tx", of |-> m, k |-> 1, corr |-> "none", st |-> "fail", n |-> 1],
        [t |-> "tx", of |-> m, k |-> 1, corr |-> "none", st |-> "ok", n |-> 2],
        [t |-> "err", of |-> m, k |-> 1, corr |-> "none", st |-> "ok", n |-> 1]}
  \cup {[t |-> "tx", of |-> m, k |-> 1, corr |-> c, st |-> "ok", n |-> 1] : c \in CorrSet(kind)}
  \cup {[t |-> "tx", of |-> of, k |-> 1, corr |-> "none", st |-> "ok", n |-> 1] : of \in Ofs \ {m}}
\* what the validators after the first one may do
Follow(m) == {ph.p, [ph.p EXCEPT !.st = IF @ = "ok" THEN "fail" ELSE "ok"]}
              \cup (IF SignOrdered THEN {} ELSE {[t |-> "tx", of |-> m, k |-> 1, corr |-> "none", st |-> "ok", n |-> 1]})

\* basic transactions get every vote pattern, the rest of the menu gets the exactly-2/3 pattern (lean mode)
Basic(m) == {[t |-> "tx", of |-> m, k |-> 1, corr |-> "none", st |-> "ok", n |-> 1]}
            \cup {[t |-> "tx", of |-> m, k |-> 1, corr |-> c, st |-> "ok", n |-> 1] : c \in {Nth(SinglesOf(msgs[m].kind), 1)}}
GEvidence == \E m \in DOMAIN msgs, v \in Vals :
  /\ ph.s <= 2 /\ (ph.s = 2 => (m > ph.m \/ (m = ph.m /\ v > ph.v)))
  /\ (~(ph.s = 2 /\ m = ph.m) => v \in FirstVals)
  /\ (Lean /\ ph.s = 2 => m = ph.m /\ ph.c < 3)
  /\ \E p \in (IF ph.s = 2 /\ m = ph.m THEN {q \in Follow(m) : q.t # ""} ELSE Menu(m)) :
       /\ (p.t = "tx" => CanBuild(p.of, p.k, p.corr))
       /\ (Lean /\ ph.s < 2 /\ p \notin Basic(m) => v = 1)
       /\ (Lean /\ ph.s = 2 /\ ph.p \notin Basic(m) => v = 2 /\ ph.c = 1 /\ p = ph.p)
       /\ Evidence(v, m, p.t, p.of, p.k, p.corr, p.st, p.n)
       /\ H("Evidence", EvArgs(v, m, p.t, p.of, p.k, p.corr, p.st, p.n))
       /\ ph' = [ph EXCEPT !.s = 2, !.m = m, !.v = v, !.c = IF ph.s = 2 /\ m = ph.m THEN @ + 1 ELSE 1, !.p = IF ph.s = 2 /\ m = ph.m THEN @ ELSE p]
  /\ UNCHANGED theme

\* rejected submissions: message that is not queued / transaction that cannot exist
GEvidenceBad ==
  /\ ph.s <= 1 /\ ph.r = 1
  /\ \/ \E of \in Ofs : Evidence(1, nextId, "tx", of, 1, "none", "ok", 1) /\ H("Evidence", EvArgs(1, nextId, "tx", of, 1, "none", "ok", 1))
     \/ \E m \in DOMAIN msgs : Evidence(1, m, "tx", nextId, 1, "none", "ok", 1) /\ H("Evidence", EvArgs(1, m, "tx", nextId, 1, "none", "ok", 1))
  /\ ph' = [ph EXCEPT !.s = 1] /\ UNCHANGED theme

GEndBlock == ph.r <= MaxRounds /\ EndBlock /\ H("EndBlock", [x |-> 0]) /\ ph' = Ph0(ph.r + 1) /\ UNCHANGED theme

GNext == ph.r <= MaxRounds /\ (GEnqueue \/ GSign \/ GEvidence \/ GEvidenceBad \/ GEndBlock)

Last == hist[Len(hist)]
\* the incoming action is part of the view, so that rejected / no-op steps get a history of their own
GView == <<IF res \in {"fail", "noop", "nobuild"} THEN Last ELSE <<>>, res, ph, msgs, txs, processed, live, deploy, active, user>>
GConstr == Len(hist) <= MaxOps /\ Cardinality({i \in DOMAIN hist : hist[i].act = "Enqueue"}) <= (IF Lean /\ hist[1].args.w \in {1, 3} THEN 0 ELSE MaxNew) /\ ph.r <= MaxRounds + 1
EmitCond == Len(hist) >= 3 /\ (Last.act = "EndBlock" \/ res \in {"fail", "noop", "nobuild"})
GNextC == (IF EmitCond THEN PrintT(<<"HIST", ToJson(hist)>>) ELSE TRUE) /\ GNext
Emit == Len(hist) = EmitAt => PrintT(<<"HIST", ToJson(hist)>>)
=============================================================================
