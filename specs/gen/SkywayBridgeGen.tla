-------------------------- MODULE SkywayBridgeGen --------------------------
(* History generator for SkywayBridge (see MempoolGen for the two modes).              *)
(* Fault indices k > 0 ask the driver to fail the k-th collaborator call of the step;  *)
(* whether that call exists is only known to the real code, so the generator follows   *)
(* both outcomes for message actions.                                                   *)
EXTENDS SkywayBridge, Json
CONSTANTS Family, EmitAt, MaxK, MaxOps
VARIABLE hist
Seq12 == <<1, 2>>
Seq11 == <<1, 1>>
Seq1 == <<1>>
Rates == {<<1, 2>>, <<1, 3>>, <<2, 1>>}
RateHalf == {<<1, 2>>}
RateNone == {}

H(a, r) == hist' = Append(hist, [act |-> a, args |-> r])
SetSeq(S) == IF S = {} THEN <<>> ELSE <<CHOOSE x \in S : TRUE>>    \* exempt sets have at most one member here
Ks == 0..MaxK
Ex == {{}, {1}}

GSend == \E u \in Users, t \in Tokens, a \in Amounts, k \in Ks, f \in BOOLEAN :
           (k = 0 => ~f) /\ Send(u, t, a, f) /\ H("Send", [u |-> u, t |-> t, a |-> a, k |-> k])
GCancel == \E u \in Users, id \in 1..(lastTx + 1), k \in Ks, f \in BOOLEAN :
           (k = 0 => ~f) /\ Cancel(u, id, f) /\ H("Cancel", [u |-> u, id |-> id, k |-> k])
GSetTax == \E d \in Denoms, r \in TaxRates, ex \in Ex :
           SetTax(d, r, ex) /\ H("SetTax", [d |-> d, num |-> r[1], den |-> r[2], ex |-> SetSeq(ex)])
GSetLimit == \E d \in Denoms, lim \in Limits, ex \in Ex :
           SetLimit(d, lim, ex) /\ H("SetLimit", [d |-> d, lim |-> lim, ex |-> SetSeq(ex)])
GClaimExec == \E n \in 1..(lastBatch + 1), t \in Tokens, late \in BOOLEAN :
           /\ (late => \E b \in batches : b.nonce = n)
           /\ ClaimExecuted(n, t, late) /\ H("ClaimExecuted", [n |-> n, t |-> t, late |-> late])
GClaimDep == \E t \in Tokens, a \in {1}, r \in {"user", "invalid", "blocked"}, u \in {1} :
           ClaimDeposit(t, a, r, u) /\ H("ClaimDeposit", [t |-> t, a |-> a, recv |-> r, u |-> u])
GEndBlock == \E k \in Ks : EndBlock /\ H("EndBlock", [k |-> k])
GAdvance == \E dh \in Jumps : Advance(dh) /\ H("Advance", [dh |-> dh])
EstVersions == {0, 9} \cup {b.est : b \in batches} \cup {e.value : e \in estimates}
OpenBatches == {b.nonce : b \in batches}
GEstimate == \E v \in Vals, n \in OpenBatches \cup {lastBatch + 1}, x \in EstValues :
               /\ (\E e \in estimates : e.nonce = n /\ e.val = v) => x = CHOOSE y \in EstValues : TRUE   \* one duplicate attempt is enough
               /\ Estimate(v, n, x) /\ H("Estimate", [v |-> v, n |-> n, x |-> x])
GConfirm == \E v \in Vals, n \in OpenBatches \cup {lastBatch + 1}, x \in {0} \cup {b.est : b \in batches} :
               Confirm(v, n, x) /\ H("Confirm", [v |-> v, n |-> n, x |-> x])
GEvidence == \E v \in Vals, n \in 1..(lastBatch + 1), x \in EstVersions :
               /\ v \notin jailed
               /\ Evidence(v, n, x) /\ H("Evidence", [v |-> v, n |-> n, x |-> x])

\* key rotation (sigs family): a validator registers a new remote-chain key; from then on only the NEW key is its
\* registered key. ReKey and evidence signed with the OLD key leave the model state unchanged (nobody can be punished for
\* a signature that is not by a registered key); Confirm / Evidence of that validator use the new key in the driver.
ReKeyed(v) == \E i \in DOMAIN hist : hist[i].act = "ReKey" /\ hist[i].args.v = v
GReKey == \E v \in {1} : ~ReKeyed(v) /\ res' = "gov"
            /\ UNCHANGED <<bal, escrow, supply, community, pool, batches, lastTx, lastBatch, tax, limit, usage, height, claims, estimates,
                           confirms, archived, accepted, refunded, burned, deposited, burnedSum, issued, sent, jailed, punished>>
            /\ H("ReKey", [v |-> v])
GEvidenceOld == \E v \in {1}, n \in 1..(lastBatch + 1), x \in EstVersions : ReKeyed(v) /\ v \notin jailed /\ res' = "fail"
            /\ UNCHANGED <<bal, escrow, supply, community, pool, batches, lastTx, lastBatch, tax, limit, usage, height, claims, estimates,
                           confirms, archived, accepted, refunded, burned, deposited, burnedSum, issued, sent, jailed, punished>>
            /\ H("EvidenceOld", [v |-> v, n |-> n, x |-> x])

GNext ==
  CASE Family = "funds"  -> GSend \/ GCancel \/ GSetTax \/ GClaimExec \/ GClaimDep \/ GEndBlock \/ GAdvance
    [] Family = "limits" -> GSend \/ GSetTax \/ GSetLimit \/ GAdvance \/ GCancel
    [] Family = "limbatch" -> GSend \/ GSetLimit \/ GAdvance \/ GEndBlock \/ GCancel   \* limit usage across the batch life cycle (build, timeout, cancel)
    [] Family = "sigs"   -> GSend \/ GEstimate \/ GConfirm \/ GEvidence \/ GClaimExec \/ GEndBlock \/ GAdvance
    [] Family = "rekey"  -> GSend \/ GEstimate \/ GConfirm \/ GEvidence \/ GEndBlock \/ GAdvance \/ GReKey \/ GEvidenceOld
    [] OTHER             -> GSend \/ GCancel \/ GSetTax \/ GSetLimit \/ GClaimExec \/ GClaimDep \/ GEndBlock \/ GAdvance
                            \/ GEstimate \/ GConfirm \/ GEvidence

GInit == Init /\ hist = <<>>
Last == IF hist = <<>> THEN <<>> ELSE hist[Len(hist)]
\* the incoming action is part of the view, so that steps which leave the state unchanged (rejected
\* messages -- exactly what several properties are about) still yield a history of their own
GView == <<Last, res, bal, escrow, supply, community, pool, batches, lastTx, lastBatch, tax, limit, usage, height,
           claims, estimates, confirms, archived, jailed>>
GConstr == /\ Len(hist) <= MaxOps /\ lastTx <= MaxTx /\ lastBatch <= MaxBatch /\ Len(claims) <= MaxClaims /\ height <= MaxHeight
           /\ \A d \in Denoms : deposited[d] <= 2
\* cover mode: TLC evaluates invariants on every generated successor (before the fingerprint check),
\* but evaluates the next-state relation once per distinct (dequeued) state: emit from there.
EmitCond == /\ Len(hist) >= 3 /\ (res \in {"eb", "fail"} \/ Family # "funds")
            /\ (Family \in {"limits", "limbatch"} => hist[Len(hist)].act = "Send")
            /\ (Family = "rekey" => hist[Len(hist)].act \in {"EvidenceOld", "Evidence", "Confirm"} /\ ReKeyed(1))      \* limits are decided when a transfer is sent
GNextC == (IF EmitCond THEN PrintT(<<"HIST", ToJson(hist)>>) ELSE TRUE) /\ GNext
Emit == Len(hist) = EmitAt => PrintT(<<"HIST", ToJson(hist)>>)
=============================================================================
