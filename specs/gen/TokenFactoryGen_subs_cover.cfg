CONSTANTS
  Accounts = {1, 2, 3}
  Subs = {1, 2}
  Amounts = {1, 2}
  Funds <- FundsSmall
  GrantSets <- NoGrants
  Tails = TRUE
  ReimportInView = FALSE
  NativeMetas = {0}
  SpecialIds = {1, 2, 3, 4, 5, 6, 7, 8}
  Bindings <- HostileBindings
  MaxOps = 2
  MaxMinted = 3
  EmitAt = 0
  ProbeDepth <- NoProbes
INIT GInit
NEXT GNextC
VIEW GView
CONSTRAINT GConstr
CHECK_DEADLOCK FALSE
