-------------------------- MODULE TokenFactoryGen --------------------------
(* History generator for TokenFactory (see MempoolGen for the two modes).                 *)
(* GAct is Next restricted to one representative per class of attempt:                     *)
(*   - everybody on every stored denom (admin with every amount / new admin, the others    *)
(*     with one), plus a non-admin signing with the admin as creator;                      *)
(*   - the namespace owner and one stranger on a factory denom that was never created;     *)
(*   - one account on the non-factory denoms (native, factory/x, factory//x, bad creator); *)
(*   - creation of every sub-denom (also the one named like the native denom) and          *)
(*     creation with somebody else as creator.                                             *)
(* The sub-denomination is a dimension of its own: the model's sub-denom slots are bound,  *)
(* per history, to literal strings of the classes below (Bindings); the binding and the    *)
(* genesis variant (native denom with / without bank metadata) are the first entry of the   *)
(* history and part of the cover view.                                                      *)
(*   1 "sa"  2 "sb" plain          3 "sa/x" contains '/'                                    *)
(*   4 "../x"  5 "../../ugrain"  6 "a/../../../ibc/ABC"   '..' climbing 1 / 2 / 3 levels    *)
(*     (a path-cleaning join would land on factory/x, the native denom, ibc/ABC)            *)
(*   7 "./sa" './' prefix   8 "sa//x" '//' inside   9 "sa/" trailing '/'   10 "" empty       *)
(*     (cleaning would merge 7 and 9 with 1, 8 with 3, and turn 10 into factory/<creator>)   *)
EXTENDS TokenFactory, Json
CONSTANTS EmitAt, MaxMinted,
          Bindings,     \* set of <<class of slot 1, class of slot 2>>
          ProbeDepth    \* cover mode: attempts on unknown / non-factory denoms only from states reached by at most that many steps
VARIABLE hist

FundsSmall == <<2, 1, 0>>
FundsBig   == <<2, 2, 1>>
SubClasses == 1..10
PlainBinding == {<<1, 2>>}
\* every class once, paired with the class a cleaning join would merge it with / with another climber
HostileBindings == {<<1, 7>>, <<9, 1>>, <<3, 8>>, <<4, 5>>, <<6, 10>>}
NoProbes == -1      \* value for ProbeDepth (cfg files cannot hold negative numbers)
AllBindings == {<<a, b>> : a \in SubClasses, b \in SubClasses} \ {<<a, a>> : a \in SubClasses}
Other(a) == (a % Cardinality(Accounts)) + 1
Created == DOMAIN denoms
Probe == CHOOSE a \in Accounts : \A b \in Accounts : a <= b
OneAmt == CHOOSE x \in Amounts : \A y \in Amounts : x <= y

GCreate == \/ \E who \in Accounts, sub \in SubsX : Create(who, who, sub)
           \/ \E who \in Accounts : Create(who, Other(who), CHOOSE s \in Subs : TRUE)
GStored == \E d \in Created, who \in Accounts :
   LET adm == who = AdminOf(d) IN
   \/ \E amt \in (IF adm THEN Amounts ELSE {OneAmt}) : Mint(who, who, d, amt) \/ Burn(who, who, d, amt)
   \/ \E new \in (IF adm THEN NewAdmins ELSE {who}) : ChangeAdmin(who, who, d, new)
   \/ SetMetadata(who, who, d)
   \/ /\ ~adm /\ AdminOf(d) # NoAdmin
      /\ LET as == AdminOf(d) IN
           \/ Mint(who, as, d, OneAmt) \/ Burn(who, as, d, OneAmt)
           \/ ChangeAdmin(who, as, d, who) \/ SetMetadata(who, as, d)
GUnknown == \E d \in Factory \ Created :
   \/ LET c == d[1] IN \/ Mint(c, c, d, OneAmt) \/ Burn(c, c, d, OneAmt)
                       \/ ChangeAdmin(c, c, d, c) \/ SetMetadata(c, c, d)
   \/ LET x == Other(d[1]) IN Mint(x, x, d, OneAmt) \/ ChangeAdmin(x, x, d, x)
GSpecial == \E d \in Specials : LET p == Probe IN
   \/ Mint(p, p, d, OneAmt) \/ Burn(p, p, d, OneAmt) \/ ChangeAdmin(p, p, d, p) \/ SetMetadata(p, p, d)

GAct == GCreate \/ GStored \/ GUnknown \/ GSpecial

Step(r) == [act |-> r.act, args |-> [who |-> r.who, as |-> r.as, c |-> r.c, s |-> r.s, amt |-> r.amt, new |-> r.new]]
\* the first entry tells the driver which genesis to build (creation fees every account can pay)
GInit == \E b \in Bindings, m \in NativeMetas :
           InitWith(m) /\ hist = <<[act |-> "Genesis", args |-> [funds |-> Funds, subs |-> b, nmeta |-> m]]>>
GNext == GAct /\ hist' = Append(hist, Step(last'))

\* the incoming action and its result are part of the view: a rejected message leaves the state
\* unchanged and still gets a history of its own
GView == <<hist[1], last, res, svars>>
GConstr == /\ nops <= MaxOps
           /\ \A d \in AllDenoms : minted[d] <= MaxMinted
\* cover mode: emit at rejected steps (their continuations are those of the unchanged state) and at the bound;
\* shorter successful histories are prefixes of emitted ones
EmitCond == nops >= 1 /\ (res # "ok" \/ nops = MaxOps)
\* the outcome of an attempt on a never created or non-factory denom depends on nothing but that denom, so cover mode
\* tries them near the initial state only (ProbeDepth); simulate mode mixes them into long walks
GActC == GCreate \/ GStored \/ (nops <= ProbeDepth /\ (GUnknown \/ GSpecial))
GNextC == (IF EmitCond THEN PrintT(<<"HIST", ToJson(hist)>>) ELSE TRUE)
          /\ GActC /\ hist' = Append(hist, Step(last'))
\* simulate mode: attempts on unknown / non-factory denoms only at every fourth step (otherwise random walks
\* consist of almost nothing else); the walk is emitted once, when the state reached after EmitAt steps is expanded
\* (an INVARIANT would print every candidate successor of the last level)
GActS == IF nops % 4 = 3 THEN GAct ELSE GCreate \/ GStored
GNextS == (IF nops = EmitAt THEN PrintT(<<"HIST", ToJson(hist)>>) ELSE TRUE)
          /\ GActS /\ hist' = Append(hist, Step(last'))
=============================================================================
