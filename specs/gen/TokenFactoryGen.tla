-------------------------- MODULE TokenFactoryGen --------------------------
(* History generator for TokenFactory (see MempoolGen for the two modes).                 *)
(* GAct is Next restricted to one representative per class of attempt:                     *)
(*   - everybody on every stored denom (admin with every amount / new admin, the others    *)
(*     with one), plus a non-admin signing with the admin as creator;                      *)
(*   - the namespace owner and one stranger on a factory denom that was never created;     *)
(*   - one account on the non-factory denoms (native, factory/x, factory//x, bad creator); *)
(*   - creation of every sub-denom (also the one named like the native denom) and          *)
(*     creation with somebody else as creator.                                             *)
(*   - delegated signing: where the genesis holds a fee allowance creator -> signer, the   *)
(*     grantee signs creations and every privileged message in the granter's name;         *)
(*   - the genesis round trip (Reimport) from every state.                                 *)
(* The sub-denomination is a dimension of its own: the model's sub-denom slots are bound,  *)
(* per history, to literal strings of the classes below (Bindings); the binding and the    *)
(* genesis variant (native denom with / without bank metadata) are the first entry of the   *)
(* history and part of the cover view.                                                      *)
(*   1 "sa"  2 "sb" plain          3 "sa/x" contains '/'                                    *)
(*   4 "../x"  5 "../../ugrain"  6 "a/../../../ibc/ABC"   '..' climbing 1 / 2 / 3 levels    *)
(*     (a path-cleaning join would land on factory/x, the native denom, ibc/ABC)            *)
(*   7 "./sa" './' prefix   8 "sa//x" '//' inside   9 "sa/" trailing '/'   10 "" empty       *)
(*     (cleaning would merge 7 and 9 with 1, 8 with 3, and turn 10 into factory/<creator>)   *)
EXTENDS TokenFactory, Json
CONSTANTS EmitAt, MaxMinted,
          Bindings,     \* set of <<class of slot 1, class of slot 2>>
          Tails,        \* cover mode: TRUE = one history per distinct state, ending with every attempt rejected there;
                        \* FALSE = one history per distinct (incoming accepted action, state) at the depth bound, no rejected attempts
          ReimportInView, \* cover mode: TRUE = "a round trip happened" is part of the view (at most one per history), so
                        \* every action is also tried AFTER a round trip; FALSE = the round trip is tried from every state
                        \* and its history ends there
          ProbeDepth    \* cover mode: attempts on unknown / non-factory denoms only from states reached by at most that many steps
VARIABLE hist

FundsSmall == <<2, 1, 0>>
FundsBig   == <<2, 2, 1>>
SubClasses == 1..10
PlainBinding == {<<1, 2>>}
\* every class once, paired with the class a cleaning join would merge it with / with another climber
HostileBindings == {<<1, 7>>, <<9, 1>>, <<3, 8>>, <<4, 5>>, <<6, 10>>}
NoGrants == {{}}
AdminGrants == {{<<1, 2>>}}        \* account 1 (the one that can pay two creations) lets account 2 sign for it
SimGrants == {{}, {<<1, 2>>}, {<<1, 2>>, <<2, 3>>}, {<<2, 1>>, <<3, 1>>}}
FundsOne == <<1, 0, 0>>
NoProbes == -1      \* value for ProbeDepth (cfg files cannot hold negative numbers)
AllBindings == {<<a, b>> : a \in SubClasses, b \in SubClasses} \ {<<a, a>> : a \in SubClasses}
Other(a) == (a % Cardinality(Accounts)) + 1
Created == DOMAIN denoms
Probe == CHOOSE a \in Accounts : \A b \in Accounts : a <= b
OneAmt == CHOOSE x \in Amounts : \A y \in Amounts : x <= y

\* ---- the attempts, as data: records [act, who, as, c, s, amt, new] -----------------------------------------------
R(a, who, as, d, amt, new) == Rec(a, who, as, d[1], d[2], amt, new)
CCreate == {Rec("Create", who, who, 0, sub, 0, 0) : who \in Accounts, sub \in SubsX}
           \cup {Rec("Create", who, Other(who), 0, CHOOSE s \in Subs : TRUE, 0, 0) : who \in Accounts}
           \cup {Rec("Create", p[2], p[1], 0, sub, 0, 0) : p \in grants, sub \in Subs}   \* the grantee creates in the granter's name
COn(d, who) ==
   LET adm == who = AdminOf(d)
       as  == AdminOf(d)
       own == IF adm THEN Amounts ELSE {OneAmt}
   IN  {R("Mint", who, who, d, amt, 0) : amt \in own} \cup {R("Burn", who, who, d, amt, 0) : amt \in own}
       \cup {R("ChangeAdmin", who, who, d, 0, new) : new \in (IF adm THEN NewAdmins ELSE {who})}
       \cup {R("SetMetadata", who, who, d, 0, 0)}
       \* signing in the admin's name: rejected, or delegated if the admin granted an allowance
       \cup (IF adm \/ as = NoAdmin THEN {}
             ELSE LET del == IF Authorised(who, as) THEN Amounts ELSE {OneAmt} IN
                  {R("Mint", who, as, d, amt, 0) : amt \in del} \cup {R("Burn", who, as, d, amt, 0) : amt \in del}
                  \cup {R("ChangeAdmin", who, as, d, 0, who), R("SetMetadata", who, as, d, 0, 0)})
CStored == UNION {COn(d, who) : d \in Created, who \in Accounts}
CUnknown == UNION {LET c == d[1]  x == Other(d[1]) IN
                   {R("Mint", c, c, d, OneAmt, 0), R("Burn", c, c, d, OneAmt, 0), R("ChangeAdmin", c, c, d, 0, c),
                    R("SetMetadata", c, c, d, 0, 0), R("Mint", x, x, d, OneAmt, 0), R("ChangeAdmin", x, x, d, 0, x)}
                   : d \in Factory \ Created}
CSpecial == UNION {LET p == Probe IN
                   {R("Mint", p, p, d, OneAmt, 0), R("Burn", p, p, d, OneAmt, 0), R("ChangeAdmin", p, p, d, 0, p),
                    R("SetMetadata", p, p, d, 0, 0)} : d \in Specials}
Reimported == \E i \in 2..Len(hist) : hist[i].act = "Reimport"
CReimport == IF ReimportInView /\ Reimported THEN {} ELSE {Rec("Reimport", 0, 0, 0, 0, 0, 0)}
CAll == CCreate \cup CStored \cup CUnknown \cup CSpecial \cup CReimport

Do(r) == CASE r.act = "Create"      -> Create(r.who, r.as, r.s)
           [] r.act = "Mint"        -> Mint(r.who, r.as, <<r.c, r.s>>, r.amt)
           [] r.act = "Burn"        -> Burn(r.who, r.as, <<r.c, r.s>>, r.amt)
           [] r.act = "ChangeAdmin" -> ChangeAdmin(r.who, r.as, <<r.c, r.s>>, r.new)
           [] r.act = "SetMetadata" -> SetMetadata(r.who, r.as, <<r.c, r.s>>)
           [] r.act = "Reimport"    -> Reimport
WhyOf(r) == CASE r.act = "Create"   -> CreateWhy(r.who, r.as, r.s)
           [] r.act = "Mint"        -> MintWhy(r.who, r.as, <<r.c, r.s>>)
           [] r.act = "Burn"        -> BurnWhy(r.who, r.as, <<r.c, r.s>>, r.amt)
           [] r.act = "ChangeAdmin" -> ChangeAdminWhy(r.who, r.as, <<r.c, r.s>>, r.new)
           [] r.act = "SetMetadata" -> SetMetadataWhy(r.who, r.as, <<r.c, r.s>>)
           [] r.act = "Reimport"    -> "ok"

Step(r) == [act |-> r.act, args |-> [who |-> r.who, as |-> r.as, c |-> r.c, s |-> r.s, amt |-> r.amt, new |-> r.new]]
RECURSIVE SetToSeq(_)
SetToSeq(S) == IF S = {} THEN <<>> ELSE LET x == CHOOSE y \in S : TRUE IN <<x>> \o SetToSeq(S \ {x})
\* the first entry tells the driver which genesis to build (creation fees every account can pay, strings behind the
\* sub-denom slots, native metadata, fee allowances)
GInit == \E b \in Bindings, m \in NativeMetas, g \in GrantSets :
           InitWith(m, g) /\ hist = <<[act |-> "Genesis", args |-> [funds |-> Funds, subs |-> b, nmeta |-> m, grants |-> g]]>>
GConstr == /\ nops <= MaxOps
           /\ \A d \in AllDenoms : minted[d] <= MaxMinted

\* ---- cover mode ------------------------------------------------------------------------------------------------
\* TLC explores the ACCEPTED attempts only.
\* Tails = TRUE: one view per distinct (genesis, state); when a state is expanded, one history is emitted: the way to
\* the state followed by EVERY attempt the model rejects there, one after the other (a rejected message leaves the state
\* unchanged -- which the trace specification checks, C16.FailureIsNoop -- so the model's verdict on each of them is the
\* same as if it had been tried alone).
\* Tails = FALSE: one view per distinct (genesis, incoming accepted action, state), so every accepted attempt is executed
\* from every state it is accepted in; the histories are emitted at the depth bound (shorter ones are their prefixes).
\* The outcome of an attempt on a never created or non-factory denom depends on nothing but that denom, so cover mode
\* tries them near the initial state only (ProbeDepth); simulate mode mixes them into long walks.
\* With ReimportInView, "a genesis round trip happened" is part of the view (at most one per history) and only the
\* histories that contain one are emitted: every attempt is also tried AFTER a round trip.
CandsC == CCreate \cup CStored \cup CReimport \cup (IF nops <= ProbeDepth THEN CUnknown \cup CSpecial ELSE {})
Rejected == SetToSeq({Step(r) : r \in {x \in CandsC : WhyOf(x) # "ok"}})
GView == <<hist[1], IF Tails THEN 0 ELSE last, svars, ReimportInView /\ Reimported>>
EmitCond == /\ ReimportInView => Reimported
            /\ Tails \/ nops = MaxOps
GNextC == (IF EmitCond THEN PrintT(<<"HIST", ToJson(IF Tails THEN hist \o Rejected ELSE hist)>>) ELSE TRUE)
          /\ \E r \in CandsC : WhyOf(r) = "ok" /\ Do(r) /\ hist' = Append(hist, Step(last'))

\* ---- simulate mode ---------------------------------------------------------------------------------------------
\* random walks over accepted and rejected attempts; attempts on unknown / non-factory denoms only at every fourth step
\* (otherwise walks consist of almost nothing else); the walk is emitted once, when the state reached after EmitAt steps
\* is expanded (an INVARIANT would print every candidate successor of the last level)
CandsS == IF nops % 4 = 3 THEN CAll ELSE CCreate \cup CStored \cup CReimport
GNextS == (IF nops = EmitAt THEN PrintT(<<"HIST", ToJson(hist)>>) ELSE TRUE)
          /\ \E r \in CandsS : Do(r) /\ hist' = Append(hist, Step(last'))
=============================================================================
