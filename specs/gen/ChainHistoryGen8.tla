------------------------- MODULE ChainHistoryGen8 -------------------------
(* C08 history generator: TLC chooses WHERE the perturbations go.                                        *)
(*   cover mode     every scenario (a fixed block script that walks through all Paloma modules and over   *)
(*                  the begin/end-blocker heights 250 / 300 / 303) with every placement of at most        *)
(*                  MaxPert perturbations (Restart, every Query kind, SetEnv / UnsetEnv of every variable)*)
(*   simulate mode  random blocks of two templates, about every second block followed by a perturbation  *)
EXTENDS ChainHistory, Json
CONSTANTS MaxPert, EmitAt, Scenarios
VARIABLES hist, scn, pos, npert, turn
gvars == <<vars, hist, scn, pos, npert, turn>>

GenEnv == {"PALOMA_FF_PIGEON_STATUS_UPDATE", "PIGEON_HEALTHCHECK_PORT"}
GenQueries == {"pick", "assign", "simulate", "relay", "snapshot", "snapbuild", "evidence", "uptime", "chaininfojail", "history", "prunejail"}
NoBlocks == {<<>>}
GateVersions == {NoVersion}

Scn == <<
  \* 1: cross-chain message pipeline (ties in the relayer ranking), retry after a failed relay, split evidence
  << <<"execjob", "deployuser", "status", "statusbad">>, <<"sign">>, <<"estimate">>, <<"sign", "send">>, <<"relayerr">>,
     <<"attesterr", "createjob", "tfcreate">>, <<"sign", "execjob">>, <<"estimate", "tfmint">>, <<"sign">>, <<"relayok">>,
     <<"attestsplit", "keepalive">>, <<"banksend", "status", "execjob">>, <<"sign", "deployuser">> >>,
  \* 2: skyway: pool, cancel, claims; starts at 290, crosses height 300 with its 10th block (snapshot build, batch creation,
  \*    metrics, jail sweep, external balance requests) and 303
  << <<"send", "deposit">>, <<"send", "delegate">>, <<"lightsale", "feediff">>, <<"cancel", "send">>, <<"execjob">>, <<"sign">>,
     <<"estimate">>, <<"sign">>, <<"statusbad", "claims2">>, <<>>, <<"batchest", "sign">>, <<"confirm", "estimate">>, <<"batchclaim">>, <<"relayerr", "claims2">> >>,
  \* 3: paloma light nodes, token factory, valset / treasury records, user contracts
  << <<"lnregister", "tfcreate", "status">>, <<"lnauth", "tfmint", "statusbad">>, <<"extinfo", "keepalive">>, <<"feediff">>,
     <<"uploaduser", "createjob">>, <<"deployuser", "execjob">>, <<"sign">>, <<"estimate">>, <<"fee", "sign">>, <<"relayok">>, <<"attestok">>, <<"execjob">> >>,
  \* 4: starts at 296: crosses 300 (external balance requests, pruning) and 303 (chain-info jail sweep) with CONTENTIOUS
  \*    evidence in flight: validators 0 and 1 against validator 2 (75 % of the power together, no proof with 2/3) on the
  \*    reference block request, the balance requests, a transaction proof and an error report; a new validator without
  \*    any external account (it misses BOTH chains when the sweep of height 303 writes its jail reason)
  << <<"execjob", "send", "newval">>, <<"sign", "newvalalive">>, <<"estimate">>, <<"sign", "refsplit">>, <<"balsplit">>, <<"relayok", "statusbad">>, <<"txsplit">>,
     <<"execjob">>, <<"sign">>, <<"estimate">>, <<"sign">>, <<"relayerr">>, <<"attestsplit3">>, <<"status">> >>
>>
\* 5: every sender-controlled field of the status update (the message whose handler looks at the process environment) with every
\*    hostile class: one block per parameter
StatusIdx == SelectSeq([i \in 1..Len(Cat) |-> i], LAMBDA i : Cat[i][1] = "AddStatusUpdate")
CSeq == <<"negative", "zero", "one", "huge63", "huge64", "huge255", "empty", "overlong", "malformed">>
HostileOf(i) == LET cl == SelectSeq(CSeq, LAMBDA c : c \in ClassesOf(Cat[i][3])) IN [k \in DOMAIN cl |-> <<Cat[i][1], Cat[i][2], cl[k]>>]
\* 6: a world with stakes 40/24/24/12: a delivery is reported, only validator 0 (40 %) provides evidence; whom the pruning of that
\*    message may jail (25 % protection of valset.Jail) depends on the order in which the silent validators are taken
Uneven == << <<"execjob", "deployuser">>, <<"sign">>, <<"estimate">>, <<"sign">>, <<"relayerr">>, <<"attest0">>, <<"status">>, <<"execjob">> >>
\* 7: a world whose genesis time is anchored to the real clock: the valset published on the chains becomes 30 days old IN WALL-CLOCK
\*    TERMS between the reference run and the perturbed twin, while in block time it is minutes old; a delegation makes the snapshot
\*    of height 300 worth publishing. Whatever measures the age with the process clock decides differently in the two twins.
\*    Executed once (its only perturbation is the real clock).
Clock == << <<"delegate">>, <<>>, <<>>, <<>>, <<>>, <<>>, <<>>, <<>>, <<>>, <<>>, <<"sign">>, <<"estimate">> >>
NScn == Len(Scn) + 3
ScnLen(s) == IF s <= Len(Scn) THEN Len(Scn[s]) ELSE IF s = Len(Scn) + 1 THEN Len(StatusIdx) ELSE IF s = Len(Scn) + 2 THEN Len(Uneven) ELSE Len(Clock)
ScnTxs(s, k) == IF s <= Len(Scn) THEN Scn[s][k] ELSE IF s = Len(Scn) + 1 THEN <<"status">> ELSE IF s = Len(Scn) + 2 THEN Uneven[k] ELSE Clock[k]
ScnHostile(s, k) == IF s = Len(Scn) + 1 THEN HostileOf(StatusIdx[k]) ELSE <<>>
WorldOf(s) == IF s = Len(Scn) + 2 THEN "uneven" ELSE IF s = Len(Scn) + 3 THEN "clock" ELSE "std"
Start == <<280, 290, 280, 296, 280, 280, 290>>

StepOf(l) == CASE l.act = "Restart"  -> [act |-> "Restart", args |-> [n |-> 0]]
               [] l.act = "Query"    -> [act |-> "Query", args |-> [k |-> l.arg]]
               [] l.act = "SetEnv"   -> [act |-> "SetEnv", args |-> [x |-> l.arg]]
               [] l.act = "UnsetEnv" -> [act |-> "UnsetEnv", args |-> [x |-> l.arg]]

GInit == /\ \E s \in Scenarios :
              /\ scn = s /\ height = Start[s] /\ txlog = EmptyLog(Start[s] - Base)
              /\ hist = <<[act |-> "Init", args |-> [scn |-> s, start |-> Start[s], world |-> WorldOf(s)]]>>
         /\ queued = "idle" /\ gate = NoGate /\ halted = FALSE /\ env = {} /\ restarts = 0 /\ nqueries = 0
         /\ last = Rec("Init", <<>>) /\ pos = 0 /\ npert = 0 /\ turn = "blk"

\* perturbations that do something: no SetEnv of a set variable, no UnsetEnv of an unset one
GPerturb == \/ Restart \/ (\E k \in QueryKinds : Query(k))
            \/ (\E x \in EnvVars \ env : SetEnv(x)) \/ (\E x \in env : UnsetEnv(x))

GBlock == /\ pos < ScnLen(scn)
          /\ Block(TplSeq(ScnTxs(scn, pos + 1)) \o ScnHostile(scn, pos + 1))
          /\ pos' = pos + 1 /\ hist' = Append(hist, [act |-> "Block", args |-> [txs |-> ScnTxs(scn, pos + 1), hostile |-> ScnHostile(scn, pos + 1)]])
          /\ UNCHANGED <<scn, npert, turn>>
GPert == /\ npert < MaxPert /\ WorldOf(scn) # "clock" /\ GPerturb
         /\ npert' = npert + 1 /\ hist' = Append(hist, StepOf(last'))
         /\ UNCHANGED <<scn, pos, turn>>
GNextC == (IF pos = ScnLen(scn) THEN PrintT(<<"HIST", ToJson(hist)>>) ELSE TRUE) /\ (GBlock \/ GPert)

\* simulate mode
GBlockS == /\ turn = "blk"
           /\ \E a, b \in Templates : /\ Block(TplSeq(<<a, b>>))
                                      /\ hist' = Append(hist, [act |-> "Block", args |-> [txs |-> <<a, b>>, hostile |-> <<>>]])
           /\ turn' \in {"blk", "pert"} /\ pos' = pos + 1 /\ UNCHANGED <<scn, npert>>
GPertS == /\ turn = "pert" /\ GPerturb /\ turn' = "blk"
          /\ npert' = npert + 1 /\ hist' = Append(hist, StepOf(last')) /\ UNCHANGED <<scn, pos>>
GNextS == (IF Len(hist) = EmitAt THEN PrintT(<<"HIST", ToJson(hist)>>) ELSE TRUE) /\ (GBlockS \/ GPertS)

GConstr == Len(hist) <= EmitAt
=============================================================================
