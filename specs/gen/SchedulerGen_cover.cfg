CONSTANTS
  Accounts = {1, 2}
  Contracts = {3}
  JobIds = {1, 2}
  Chains = {1, 2, 3, 4, 5}
  Targets = {1, 2}
  Payloads = {1, 2}
  MaxOps = 2
  EmitAt = 0
INIT GInit
NEXT GNextC
VIEW GView
CONSTRAINT GConstr
CHECK_DEADLOCK FALSE
