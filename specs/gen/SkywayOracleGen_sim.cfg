CONSTANTS
  Vals = {1, 2, 3}
  Claims = {1, 2, 3, 4, 5, 6, 7, 8}
  CNonce <- NonceF
  CHash <- HashF
  CEff <- EffF
  CCompass <- CompassF
  CApplicable <- ApplF
  CHeight <- HeightF
  Powers = {0, 10, 34, 70}
  InitPower <- Pow3
  MaxNonce = 2
  MaxEpoch = 2
  MaxVotes = 6
  EmitAt = 16
  MaxOps = 16
INIT GInit
NEXT GNext
CONSTRAINT GConstr
INVARIANT Emit
CHECK_DEADLOCK FALSE
