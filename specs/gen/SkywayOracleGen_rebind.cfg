CONSTANTS
  Vals = {1, 2, 3}
  Claims = {1, 2, 3}
  CNonce <- NonceF
  CHash <- HashF
  CEff <- EffF
  CCompass <- CompassF
  CApplicable <- ApplF
  CHeight <- HeightF
  Powers = {}
  InitPower <- Pow3
  MaxNonce = 1
  MaxEpoch = 1
  MaxVotes = 6
  EmitAt = 0
  MaxOps = 8
INIT GInit
NEXT GNextB
VIEW GViewB
CONSTRAINT GConstr
CHECK_DEADLOCK FALSE
