CONSTANTS
  Vals = {1, 2, 3}
  Claims = {1, 2, 3, 4}
  CNonce <- NonceF
  CHash <- HashF
  CEff <- EffF
  CCompass <- CompassF
  CApplicable <- ApplF
  CHeight <- HeightF
  Powers = {0, 34}
  InitPower <- Pow3
  MaxNonce = 1
  MaxEpoch = 1
  MaxVotes = 6
  EmitAt = 0
  MaxOps = 5
INIT GInit
NEXT GNextC
VIEW GView
CONSTRAINT GConstr
CHECK_DEADLOCK FALSE
