----------------------------- MODULE ValsetGen -----------------------------
(* History generator for Valset (see MempoolGen for the two modes).                     *)
(* Family "snap"  : snapshot part (C10), one action per step.                           *)
(* Family "alive" : keep-alive part (C12) on the REAL constants; time passes in runs of *)
(*                  blocks  Blocks(n, dt)  that the driver executes block by block.     *)
(* Family "ladder": keep-alive part restricted to jail / unjail / time (sentences).     *)
(* The first step of every history names the world: initial stakes (and, added by the  *)
(* check, the set of operator address byte patterns).                                   *)
EXTENDS Valset, Json
CONSTANTS Family, EmitAt, MaxOps, StakeVecs, Amounts, DTs, Jumps, GenVersions, MaxHeight, FocusVals,
          VSet   \* which list of version strings the driver maps the version indices to (0: releases only, 1: with a pre-release just below a release)
VARIABLES hist,
          mark      \* swap family: some validator unjailed while ANOTHER one had been jailed in the same or the previous block;
                    \* version family: a validator with an accepted keep-alive re-sent the SAME version after the minimum was raised above it

RealSentences == <<60, 300, 900, 3600, 86400>>
Vecs4 == {<<1, 1, 1, 1>>, <<7, 1, 1, 1>>, <<1, 2, 3, 7>>, <<3, 3, 2, 1>>, <<2, 2, 1, 1>>}
Vecs4Cover == {<<1, 1, 1, 1>>, <<1, 2, 3, 7>>}
VecsOne == {<<1, 1, 1, 1>>}
VecsProj == {<<1, 1, 1, 1>>, <<3, 1, 1, 1>>}
\* share of bonded power of validator 1 (4 bonded of 5): exactly 25%, 24.5%, 25.49% (26 of 102), 26.47% (27 of 102)
Vecs5Share == {<<25, 25, 25, 25, 1>>, <<25, 26, 25, 26, 1>>, <<26, 25, 25, 26, 1>>, <<27, 25, 25, 25, 1>>}
Vecs5 == {<<1, 1, 1, 1, 1>>, <<10, 1, 1, 1, 1>>, <<2, 2, 2, 1, 1>>, <<1, 1, 1, 1, 3>>} \cup Vecs5Share
Vecs5Cover == {<<1, 1, 1, 1, 1>>}
Vecs5Lone == {<<10, 1, 1, 1, 1>>}
DTsSnap == {1, 2000, 2600000}
JumpsCover == {<<9, 2>>, <<50, 2>>, <<2000, 2>>}     \* 1 + 9 = 10: a keep-alive that expires exactly at a liveness check
JumpsSim == {<<1, 2>>, <<9, 2>>, <<10, 2>>, <<29, 2>>, <<31, 2>>, <<60, 2>>, <<1990, 2>>, <<2000, 2>>, <<1, 600>>, <<1, 4000>>, <<1, 90000>>, <<30, 60>>}
\* swap family: one validator is jailed (liveness check or message) and ANOTHER one unjails in the same / the next block
JumpsSwap == {<<1, 2>>, <<9, 2>>, <<40, 2>>, <<99, 2>>}
JumpsVer == {<<1, 2>>, <<9, 2>>, <<120, 2>>, <<2000, 2>>}
JumpsLadder == {<<1, 70>>, <<1, 310>>, <<1, 910>>, <<1, 3650>>, <<1, 90000>>, <<31, 2>>}

JustJailed(x) == jailed[x] /\ jhist[x] # <<>> /\ now - jhist[x][Len(jhist[x])].at <= 2
H(a, r) == /\ hist' = Append(hist, [act |-> a, args |-> r])
           /\ mark' = (\/ mark
                       \/ (a = "Unjail" /\ last'.ok /\ \E x \in Vals \ {r.v} : JustJailed(x))
                       \/ (a = "KeepAlive" /\ ~last'.ok /\ aliveUntil[r.v] > 0 /\ r.ver > 0
                           /\ \E i \in DOMAIN hist : hist[i].act = "KeepAlive" /\ hist[i].args.v = r.v /\ hist[i].args.ver = r.ver))
RECURSIVE SetToSeq(_)
SetToSeq(T) == IF T = {} THEN <<>> ELSE LET x == MinOf(T) IN <<x>> \o SetToSeq(T \ {x})

GBuild == Build({}) /\ H("Build", [x |-> 0])
GSetOnChain == \E id \in 1..(lastId + 1), c \in Chains : SetOnChain(id, c) /\ H("SetOnChain", [id |-> id, c |-> c])
GSetOnChainCur == \E c \in Chains : SetOnChain(lastId, c) /\ H("SetOnChain", [id |-> lastId, c |-> c])
GPublish == \E f \in BOOLEAN : Publish(f, {}) /\ H("Publish", [force |-> f])
GRegister == \E v \in FocusVals, S \in SUBSET Chains : S # accts[v] /\ Register(v, S) /\ H("Register", [v |-> v, cs |-> SetToSeq(S)])
GRotate == \E v \in FocusVals, m \in {"key", "trait"} : gen[v] < 2 /\ Rotate(v) /\ H("Rotate", [v |-> v, mode |-> m])
GSetBalance == \E v \in FocusVals, c \in Chains : SetBalance(v, c) /\ H("SetBalance", [v |-> v, c |-> c, bal |-> 5 + v + c])
GRegisterNone == \E v \in FocusVals : accts[v] # {} /\ Register(v, {}) /\ H("Register", [v |-> v, cs |-> <<>>])
GActivate == \E c \in Chains : c \notin active /\ Activate(c) /\ H("Activate", [c |-> c])
GDelegate == \/ \E v \in FocusVals, a \in Amounts : Delegate(v, a) /\ H("Delegate", [v |-> v, a |-> a])
             \/ \E v \in FocusVals, a \in Amounts : Undelegate(v, a) /\ H("Undelegate", [v |-> v, a |-> a])
GJailF == \E v \in FocusVals : JailF(v) /\ H("JailF", [v |-> v])
GUnjail == \E v \in FocusVals : Unjail(v) /\ H("Unjail", [v |-> v])
GStakingEB == \E dt \in DTs : StakingEB(dt) /\ H("StakingEB", [dt |-> dt])

GBlocks == \E j \in Jumps : h + j[1] <= MaxHeight /\ Blocks(j[1], j[2]) /\ H("Blocks", [n |-> j[1], dt |-> j[2]])
GKeepAlive == \E v \in FocusVals, ver \in GenVersions : KeepAlive(v, ver) /\ H("KeepAlive", [v |-> v, ver |-> ver])
GJail == \E v \in FocusVals : Jail(v) /\ H("Jail", [v |-> v])
\* ladder family: only steps that the model expects to succeed (repeated jailings of the same validator)
GJailL == \E v \in FocusVals : ~jailed[v] /\ Jail(v) /\ H("Jail", [v |-> v])
GUnjailL == \E v \in FocusVals : jailed[v] /\ now >= until[v] /\ Unjail(v) /\ H("Unjail", [v |-> v])
GSetMin == \E ver \in GenVersions \ {0}, d \in {0, 5, 100} :
             SetMinVersion(ver, IF d = 0 THEN 0 ELSE h + d) /\ H("SetMinVersion", [ver |-> ver, target |-> IF d = 0 THEN 0 ELSE h + d])

GNext ==
  CASE Family = "snap"   -> GBuild \/ GSetOnChain \/ GPublish \/ GRegister \/ GActivate \/ GDelegate \/ GJailF \/ GUnjail \/ GStakingEB
    \* the same plus key rotation / traits / balance reports (random walks)
    [] Family = "snapx"  -> GBuild \/ GSetOnChain \/ GPublish \/ GRegister \/ GActivate \/ GDelegate \/ GJailF \/ GUnjail \/ GStakingEB
                            \/ GRotate \/ GSetBalance
    \* touch family: the account records change AFTER snapshots were built (balance report, rotated key, traits)
    [] Family = "touch"  -> GBuild \/ GSetOnChainCur \/ GRotate \/ GSetBalance \/ GActivate \/ GPublish
    \* shrink family: builds that store a snapshot with fewer / no validators (chain nobody is registered on, everybody jailed)
    [] Family = "shrink" -> GBuild \/ GActivate \/ GJailF \/ GRegisterNone \/ GStakingEB \/ GPublish
    [] Family = "proj"   -> GBuild \/ GSetOnChain \/ GPublish \/ GRegister \/ GActivate \/ GStakingEB
    [] Family = "alive"  -> GBlocks \/ GKeepAlive \/ GJail \/ GUnjail \/ GSetMin
    [] Family = "ladder" -> GBlocks \/ GJailL \/ GUnjailL
    [] Family = "swap"   -> GBlocks \/ GJailL \/ GUnjailL
    [] Family = "version" -> GBlocks \/ GKeepAlive \/ GSetMin
    [] OTHER -> FALSE

AllAccts == [v \in Vals |-> Chains]
SnapFamilies == {"snap", "snapx", "proj", "touch", "shrink"}
\* registration profiles of the world: everybody on every chain / everybody on the first chain only
RegProfiles == IF Family = "shrink" THEN {"all", "first"} ELSE {"all"}
RegOf(p) == IF p = "all" THEN AllAccts ELSE [v \in Vals |-> {MinOf(Chains)}]
GInit == \E stk \in StakeVecs, p \in RegProfiles :
           /\ InitWith(stk, RegOf(p), {}, InitStatus(stk))
           /\ mark = FALSE
           /\ hist = <<[act |-> IF Family \in SnapFamilies THEN "InitS" ELSE "InitK",
                        args |-> IF Family \in SnapFamilies THEN [stakes |-> stk, reg |-> p] ELSE [stakes |-> stk, vset |-> VSet]]>>
Last == hist[Len(hist)]
GView == <<Last, mark, stakingVars, snapVars, aliveVars, now>>
GConstr == Len(hist) <= MaxOps + 1
EmitCond == /\ Len(hist) >= 4
            /\ \/ Family \in {"snap", "snapx"} /\ last.act \in {"Build", "Publish", "SetOnChain"}
               \/ Family = "touch" /\ last.act \in {"Rotate", "SetBalance", "Build"} /\ lastId >= 2
               \/ Family = "shrink" /\ last.act \in {"Build", "Publish"} /\ lastId >= 2 /\ Cardinality(snaps[lastId].vals) <= 1
               \/ Family = "proj" /\ last.act \in {"Build", "Publish"}
               \/ Family = "swap" /\ mark /\ last.act = "Blocks" /\ Last.args.n >= 40
               \/ Family = "version" /\ mark /\ last.act = "Blocks"
               \/ Family \notin (SnapFamilies \cup {"swap", "version"}) /\ last.act \in {"Blocks"}
GNextC == (IF EmitCond THEN PrintT(<<"HIST", ToJson(hist)>>) ELSE TRUE) /\ GNext
\* simulate mode: emit histories of full length; keep-alive histories must end with time passing
Emit == (Len(hist) = EmitAt + 1 /\ (Family \in SnapFamilies \/ last.act = "Blocks")) => PrintT(<<"HIST", ToJson(hist)>>)
=============================================================================
