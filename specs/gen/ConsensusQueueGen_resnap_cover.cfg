CONSTANTS
  Vals = {1, 2, 3, 4}
  Share <- Shares4
  EvValues = {1}
  EstValues = {1}
  MaxMsgs = 1
  PruneAge = 300
  PruneEvery = 50
  Family = "sig"
  EmitAt = 0
  MaxOps = 5
INIT GInit
NEXT GNextS
CONSTRAINT GConstr
VIEW GView
CHECK_DEADLOCK FALSE
