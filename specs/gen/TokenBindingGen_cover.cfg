CONSTANTS
  Users = {1, 2}
  Denoms = {1, 2}
  Contracts = {1, 2}
  InitBal = 2
  MaxTx = 2
  MaxOps = 6
  EmitAt = 0
INIT GInit
NEXT GNextC
VIEW GView
CONSTRAINT GConstr
CHECK_DEADLOCK FALSE
