CONSTANTS
  Users = {1, 2}
  Denoms = {1, 2}
  Contracts = {1, 2, 3}
  InitBal = 2
  MaxTx = 100
  MaxOps = 12
  EmitAt = 12
INIT GInit
NEXT GNext
CONSTRAINT GConstr
INVARIANT Emit
CHECK_DEADLOCK FALSE
