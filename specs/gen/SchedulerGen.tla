---------------------------- MODULE SchedulerGen ----------------------------
(* History generator for Scheduler (see MempoolGen for the two modes).                              *)
(* Cover mode (depth 2): every class of job (owner account / contract, chain, modifiable, MEV)      *)
(* followed by every kind of execution request (both accounts with no / a / a non-JSON payload,     *)
(* the contract through both wasm messages with and without payload, a transaction signed by        *)
(* somebody else than its creator, a wasm message naming somebody else as sender), by a duplicate   *)
(* creation of the same id by the owner and by a stranger, and by the creation of a second job.     *)
(* The spelling of the hex payload (bare, 0x, 0X, odd length, upper case, empty) is varied for the  *)
(* stored payload of jobs on the two relaying chains and for the caller's payload of transactions.  *)
(* Perturbation cover: discarded branches (simulation / rolled back delivery of [CreateJob, ExecuteJob]) followed  *)
(* by the real creation of the same id by somebody else, executions and queries.                     *)
(* Simulate mode: random walks over creations (three ids) and executions, one creation every third  *)
(* step.                                                                                            *)
EXTENDS Scheduler, Json
CONSTANTS EmitAt, MaxOps
VARIABLE hist

Other(a) == CHOOSE b \in Callers : b # a
AnAccount == CHOOSE a \in Accounts : \A b \in Accounts : a <= b
ViaC(who) == IF who \in Accounts THEN "tx" ELSE "wasm"
TP(id) == IF id = 1 THEN 1 ELSE CHOOSE t \in Targets : \A u \in Targets : u <= t

GExec == \/ \E who \in Callers, id \in JobIds \cup {BadId}, pg \in 0..2 : \E via \in Vias(who) :
              /\ (via # "tx" => pg # 2)
              /\ \/ Execute(who, who, via, id, pg, "bare")
                 \/ via # "legacy" /\ pg = 0 /\ id \in DOMAIN jobs /\ Execute(who, Other(who), via, id, IF via = "tx" THEN 0 ELSE 1, "bare")
         \* a caller payload in every other spelling (transactions only: the wasm bindings hex-encode themselves)
         \/ \E id \in DOMAIN jobs, sp \in Spellings \ {"bare"} : Execute(AnAccount, AnAccount, "tx", id, 1, sp)

\* cover: first step
GCreate1 == \/ \E who \in {AnAccount} \cup Contracts, c \in Chains, m \in BOOLEAN, v \in BOOLEAN :
                 \/ Create(who, who, ViaC(who), 1, c, TP(1), TP(1), "bare", m, v)
                 \/ c = 1 /\ ~m /\ ~v /\ Create(who, who, ViaC(who), BadId, c, TP(1), TP(1), "bare", m, v)
            \* every other spelling of the stored payload, on the chains that relay (1: with the valset update, 2: plain)
            \/ \E c \in {1, 2} \cap Chains, m \in BOOLEAN, sp \in Spellings \ {"bare"} :
                 \/ Create(AnAccount, AnAccount, "tx", 1, c, TP(1), TP(1), sp, m, FALSE)
                 \/ c = 2 /\ m /\ \E k \in Contracts : Create(k, k, "wasm", 1, c, TP(1), TP(1), sp, m, FALSE)
\* cover: second step
GCreate2 == \E who \in Callers :
   \/ \E id \in DOMAIN jobs : Create(who, who, ViaC(who), id, jobs[id].chain, TP(2), TP(2), IF jobs[id].sp = "bare" THEN "0x" ELSE "bare", ~jobs[id].mod, FALSE)
   \/ \E id \in DOMAIN jobs : who \in Contracts /\ Create(who, who, "wasm", id, 4, TP(2), TP(2), "bare", FALSE, TRUE)
   \/ who \in Accounts /\ Create(who, Other(who), "tx", 2, 2, TP(2), TP(2), "bare", FALSE, FALSE)
   \/ who = AnAccount /\ Create(who, who, "tx", 2, 2, TP(2), TP(2), "odd", TRUE, FALSE)

Step(r) == [act |-> r.act, args |-> [who |-> r.who, as |-> r.as, via |-> r.via, id |-> r.id, chain |-> r.chain, target |-> r.target,
                                     payload |-> r.payload, sp |-> r.sp, mod |-> r.mod, mev |-> r.mev, pg |-> r.pg]]
GInit == Init /\ hist = <<>>
GView == <<last, res, svars>>
GConstr == nops <= MaxOps
EmitCond == nops >= 1 /\ (res # "ok" \/ nops = MaxOps)
GActC == IF nops = 0 THEN GCreate1 ELSE GExec \/ GCreate2
GNextC == (IF EmitCond THEN PrintT(<<"HIST", ToJson(hist)>>) ELSE TRUE)
          /\ GActC /\ hist' = Append(hist, Step(last'))

\* Perturbation cover (depth 4): a discarded branch - simulation of [CreateJob 1, ExecuteJob 1] by an account or the
\* contract, or the rolled back delivery of it - describing a job on a relaying / a non-relaying chain; then the REAL
\* creation of the still free id 1 by ANOTHER principal with another contract and payload (or of another id, or a
\* second perturbation); then executions by everybody and queries.  Also: perturbations that name an id which is
\* already stored (between its creation and its executions).
GPert(id) == \E who \in Callers, c \in {2, 3} \cap Chains :
   \/ Simulate(who, ViaC(who), id, c, TP(1), TP(1), "bare", TRUE, FALSE)
   \/ who \in Accounts /\ RolledBack(who, id, c, TP(1), TP(1), "bare", TRUE, FALSE)
GReal(id) == \E who \in Callers, m \in BOOLEAN :
   /\ (last.act \in {"Simulate", "RolledBack"} => who # last.who)
   /\ Create(who, who, ViaC(who), id, 2, TP(2), TP(2), IF m THEN "0x" ELSE "bare", m, FALSE)
GUse(id) == \/ \E who \in Callers : \E via \in Vias(who) : Execute(who, who, via, id, IF via = "tx" THEN 0 ELSE 1, "bare")
            \/ id \in DOMAIN jobs /\ jobs[id].mod /\ Execute(AnAccount, AnAccount, "tx", id, 1, "bare")
            \/ Query(id)
GActG == CASE nops = 0 -> GPert(1) \/ GReal(1)
           [] nops = 1 -> IF last.act = "Create" THEN GPert(1) ELSE GReal(1)
           [] nops = 2 -> GUse(1)
           [] OTHER    -> Query(1) \/ Execute(AnAccount, AnAccount, "tx", 1, 0, "bare")
GNextG == (IF nops = MaxOps THEN PrintT(<<"HIST", ToJson(hist)>>) ELSE TRUE)
          /\ GActG /\ hist' = Append(hist, Step(last'))
\* the path is part of the view: discarded branches do not change the state
GViewH == <<last, res, svars, hist>>

\* simulate mode
\* (target and payload vary together: every successor is enumerated at every step of a walk)
GCreateS == \E who \in Callers, id \in JobIds, c \in Chains, p \in Payloads, sp \in Spellings, m \in BOOLEAN, v \in BOOLEAN :
   Create(who, who, ViaC(who), id, c, IF p \in Targets THEN p ELSE TP(1), p, sp, m, v)
GExecS == \E who \in Callers, id \in JobIds \cup {BadId}, pg \in 0..2 : \E via \in Vias(who) : \E sp \in ExecSp(via, pg) :
   /\ (via # "tx" => pg # 2)
   /\ Execute(who, who, via, id, pg, sp)
GPertS == \E who \in Callers, id \in JobIds, c \in Chains, p \in Payloads, m \in BOOLEAN :
   \/ Simulate(who, ViaC(who), id, c, IF p \in Targets THEN p ELSE TP(1), p, "bare", m, FALSE)
   \/ who \in Accounts /\ RolledBack(who, id, c, IF p \in Targets THEN p ELSE TP(1), p, "bare", m, FALSE)
   \/ Query(id)
\* every fourth step is a perturbation or a query, one creation every third of the others
GActS == IF nops % 4 = 1 THEN GPertS ELSE IF nops % 3 = 0 THEN GCreateS ELSE GExecS
GNextS == (IF nops = EmitAt THEN PrintT(<<"HIST", ToJson(hist)>>) ELSE TRUE)
          /\ GActS /\ hist' = Append(hist, Step(last'))
=============================================================================
