---------------------------- MODULE SchedulerGen ----------------------------
(* History generator for Scheduler (see MempoolGen for the two modes).                              *)
(* Cover mode (depth 2): every class of job (owner account / contract, chain, modifiable, MEV)      *)
(* followed by every kind of execution request (both accounts with no / a / a non-JSON payload,     *)
(* the contract through both wasm messages with and without payload, a transaction signed by        *)
(* somebody else than its creator, a wasm message naming somebody else as sender), by a duplicate   *)
(* creation of the same id by the owner and by a stranger, and by the creation of a second job.     *)
(* Simulate mode: random walks over creations (three ids) and executions, one creation every third  *)
(* step.                                                                                            *)
EXTENDS Scheduler, Json
CONSTANTS EmitAt, MaxOps
VARIABLE hist

Other(a) == CHOOSE b \in Callers : b # a
AnAccount == CHOOSE a \in Accounts : \A b \in Accounts : a <= b
ViaC(who) == IF who \in Accounts THEN "tx" ELSE "wasm"
TP(id) == IF id = 1 THEN 1 ELSE CHOOSE t \in Targets : \A u \in Targets : u <= t

GExec == \E who \in Callers, id \in JobIds \cup {BadId}, pg \in 0..2 : \E via \in Vias(who) :
   /\ (via # "tx" => pg # 2)
   /\ \/ Execute(who, who, via, id, pg)
      \/ via # "legacy" /\ pg = 0 /\ id \in DOMAIN jobs /\ Execute(who, Other(who), via, id, IF via = "tx" THEN 0 ELSE 1)

\* cover: first step
GCreate1 == \E who \in {AnAccount} \cup Contracts, c \in Chains, m \in BOOLEAN, v \in BOOLEAN :
   \/ Create(who, who, ViaC(who), 1, c, TP(1), TP(1), m, v)
   \/ c = 1 /\ ~m /\ ~v /\ Create(who, who, ViaC(who), BadId, c, TP(1), TP(1), m, v)
\* cover: second step
GCreate2 == \E who \in Callers :
   \/ \E id \in DOMAIN jobs : Create(who, who, ViaC(who), id, jobs[id].chain, TP(2), TP(2), ~jobs[id].mod, FALSE)
   \/ \E id \in DOMAIN jobs : who \in Contracts /\ Create(who, who, "wasm", id, 4, TP(2), TP(2), FALSE, TRUE)
   \/ who \in Accounts /\ Create(who, Other(who), "tx", 2, 2, TP(2), TP(2), FALSE, FALSE)
   \/ who = AnAccount /\ Create(who, who, "tx", 2, 2, TP(2), TP(2), TRUE, FALSE)

Step(r) == [act |-> r.act, args |-> [who |-> r.who, as |-> r.as, via |-> r.via, id |-> r.id, chain |-> r.chain, target |-> r.target,
                                     payload |-> r.payload, mod |-> r.mod, mev |-> r.mev, pg |-> r.pg]]
GInit == Init /\ hist = <<>>
GView == <<last, res, svars>>
GConstr == nops <= MaxOps
EmitCond == nops >= 1 /\ (res # "ok" \/ nops = MaxOps)
GActC == IF nops = 0 THEN GCreate1 ELSE GExec \/ GCreate2
GNextC == (IF EmitCond THEN PrintT(<<"HIST", ToJson(hist)>>) ELSE TRUE)
          /\ GActC /\ hist' = Append(hist, Step(last'))

\* simulate mode
GCreateS == \E who \in Callers, id \in JobIds, c \in Chains, t \in Targets, p \in Payloads, m \in BOOLEAN, v \in BOOLEAN :
   Create(who, who, ViaC(who), id, c, t, p, m, v)
GActS == IF nops % 3 = 0 THEN GCreateS ELSE GExec
GNextS == (IF nops = EmitAt THEN PrintT(<<"HIST", ToJson(hist)>>) ELSE TRUE)
          /\ GActS /\ hist' = Append(hist, Step(last'))
=============================================================================
