CONSTANTS
  Base = 280
  MaxHeight = 400
  EnvVars <- GenEnv
  QueryKinds <- GenQueries
  BlockChoices <- NoBlocks
  Versions <- GateVersions
  MaxPert = 1
  EmitAt = 1000
  Scenarios = {1, 2, 3, 4, 5, 6, 7}
INIT GInit
NEXT GNextC
INVARIANT StateIsFunctionOfHistory
PROPERTY PerturbationsStutter
CHECK_DEADLOCK FALSE
