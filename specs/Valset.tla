------------------------------- MODULE Valset -------------------------------
(***************************************************************************)
(* Validator set of Paloma: x/valset (snapshots, keep-alive jailing) and   *)
(* the projection of snapshots to remote chains in x/evm.                  *)
(*                                                                         *)
(* One validator state (staking view: status, jailed, stake) shared by two *)
(* parts:                                                                  *)
(*  (a) snapshots  (C10): Build / SetOnChain / Publish, keeper.go          *)
(*      TriggerSnapshotBuild, isNewSnapshotWorthy, SetSnapshotOnChain,     *)
(*      evm PublishSnapshotToAllChains, transformSnapshotToCompass;        *)
(*  (b) keep-alive (C12): KeepAlive / Block (= staking end-block,          *)
(*      UpdateGracePeriod, JailInactiveValidators of block h, then         *)
(*      BeginBlock of h+1) / Jail / Unjail / SetMinVersion.                *)
(* Validators are 1..N, index order = operator address byte order (the     *)
(* iteration order of the staking store).                                  *)
(***************************************************************************)
EXTENDS Integers, Sequences, FiniteSets, TLC

CONSTANTS Vals,        \* 1..N
          Chains,      \* remote chains known to the evm keeper
          MaxVals,     \* staking MaxValidators
          UnbondTime,  \* staking unbonding time
          MaxPower,    \* 2^32 in the code
          WarmTime,    \* a chain that got a valset less than WarmTime ago is not re-published unless forced
          TTL, Grace, Sweep, WarmUp,   \* keep-alive lifetime, grace blocks, sweep period, no sweep up to this height
          Sentences,   \* jail sentence schedule (sequence of durations)
          ResetMin,    \* minimum good-behaviour time that resets the schedule
          DefaultVer   \* initial minimum relayer version (versions are integers, 0 = not a version)

VARIABLES status, jailed, stake, deleg, unbondAt,           \* staking
          accts, gen, active, snaps, lastId, queue,         \* part (a); gen = generation of a validator's account record (keys, traits)
          h, now,                                           \* block in progress, its time
          aliveUntil, grace, prev, jailLog, until, jhist,   \* part (b)
          minVer, sched,
          last                                              \* what the last action was and reported

stakingVars == <<status, jailed, stake, deleg, unbondAt>>
snapVars == <<accts, gen, active, snaps, lastId, queue>>
aliveVars == <<h, aliveUntil, grace, prev, jailLog, until, jhist, minVer, sched>>
vars == <<stakingVars, snapVars, aliveVars, now, last>>

N == Cardinality(Vals)
NoTime == -1
NoSched == [ver |-> 0, target |-> 0]
NoMsg == [id |-> 0, pw |-> <<>>]
NoSnap == [none |-> TRUE]

Max2(a, b) == IF a >= b THEN a ELSE b
Min2(a, b) == IF a <= b THEN a ELSE b
MaxOf(S) == CHOOSE x \in S : \A y \in S : y <= x
MinOf(S) == CHOOSE x \in S : \A y \in S : x <= y
Abs(x) == IF x < 0 THEN -x ELSE x

RECURSIVE SumOver(_, _)
SumOver(f, S) == IF S = {} THEN 0 ELSE LET x == CHOOSE y \in S : TRUE IN f[x] + SumOver(f, S \ {x})

-----------------------------------------------------------------------------
(* staking view *)
ActiveIn(J, st, v) == st[v] = "bonded" /\ ~J[v]
ActiveSet(J, st) == {v \in Vals : ActiveIn(J, st, v)}
\* consensus power of a validator (0 unless bonded) and bonded power of the network
Pow(st, stk, v) == IF st[v] = "bonded" THEN stk[v] ELSE 0
Total(J, st, stk) == SumOver(stk, ActiveSet(J, st))

\* staking end-blocker: the MaxVals best unjailed validators are bonded (ties: lower address first)
Better(stk, a, b) == stk[a] > stk[b] \/ (stk[a] = stk[b] /\ a < b)
TopSet(J, stk) == LET E == {v \in Vals : ~J[v] /\ stk[v] > 0}
                  IN  {v \in E : Cardinality({u \in E : Better(stk, u, v)}) < MaxVals}
StatusAfter(st, J, stk, ub, t) ==
  LET T == TopSet(J, stk) IN
  [v \in Vals |-> IF v \in T THEN "bonded"
                  ELSE IF st[v] = "bonded" THEN "unbonding"
                  ELSE IF st[v] = "unbonding" /\ t >= ub[v] THEN "unbonded"
                  ELSE st[v]]
UnbondAfter(st, J, stk, ub, t) ==
  LET T == TopSet(J, stk) IN [v \in Vals |-> IF st[v] = "bonded" /\ v \notin T THEN t + UnbondTime ELSE ub[v]]

-----------------------------------------------------------------------------
(* part (a): snapshots *)
PowerOf(share, total) == IF total = 0 THEN 0 ELSE (share * MaxPower) \div total   \* total = 0 only in observed snapshots of a defective tree (never in the model)
Threshold == (2 * MaxPower) \div 3          \* thresholdForConsensus = 2863311530 = (2 * 2^32) \div 3

Current == IF lastId \in DOMAIN snaps THEN snaps[lastId] ELSE NoSnap

Members == {v \in Vals : ActiveIn(jailed, status, v) /\ active \subseteq accts[v]}
NewSnap == [vals |-> Members, share |-> [v \in Members |-> stake[v]], accts |-> [v \in Members |-> accts[v]],
            gen |-> [v \in Members |-> IF accts[v] = {} THEN 0 ELSE gen[v]],
            total |-> SumOver(stake, Members), chains |-> <<>>, at |-> now]

Before(s, a, b) == s.share[a] < s.share[b] \/ (s.share[a] = s.share[b] /\ a < b)
\* isNewSnapshotWorthy, as coded
Worthy(cur, new) ==
  \/ cur = NoSnap
  \/ Cardinality(cur.vals) # Cardinality(new.vals)
  \/ cur.vals # new.vals
  \/ \E a, b \in new.vals : Before(cur, a, b) # Before(new, a, b)
  \/ \E v \in new.vals : 100 * Abs(cur.share[v] * new.total - new.share[v] * cur.total) >= cur.total * new.total
  \/ \E v \in new.vals : cur.accts[v] # new.accts[v]
  \/ \E v \in new.vals : new.accts[v] # {} /\ cur.gen[v] # new.gen[v]      \* other address / other traits

SeqSet(s) == {s[i] : i \in DOMAIN s}
LatestOn(S, c) == LET I == {i \in DOMAIN S : c \in SeqSet(S[i].chains)} IN IF I = {} THEN 0 ELSE MaxOf(I)
Warm(S, c, t) == LET L == LatestOn(S, c) IN L # 0 /\ t - S[L].at < WarmTime

Project(s, c) == LET M == {v \in s.vals : c \in s.accts[v]} IN [v \in M |-> PowerOf(s.share[v], s.total)]
PowerSum(pw) == SumOver(pw, DOMAIN pw)
GateOK(s, c) == PowerSum(Project(s, c)) >= Threshold

\* PublishSnapshotToAllChains(snapshot id of S, force); pf = chains on which no relayer could be picked
PublishAll(S, id, force, act, q, pf, t) ==
  [c \in Chains |-> IF (force \/ ~Warm(S, c, t)) /\ c \in act /\ GateOK(S[id], c) /\ c \notin pf
                    THEN [id |-> id, pw |-> Project(S[id], c)] ELSE q[c]]

Build(pf) ==
  LET new == NewSnap  id == lastId + 1  S == snaps @@ (id :> new) IN
  /\ IF Worthy(Current, new)
     THEN /\ lastId' = id /\ snaps' = S
          /\ queue' = PublishAll(S, id, FALSE, active, queue, pf, now)
          /\ last' = [act |-> "Build", ok |-> TRUE]
     ELSE /\ UNCHANGED <<lastId, snaps, queue>> /\ last' = [act |-> "Build", ok |-> FALSE]
  /\ UNCHANGED <<stakingVars, accts, gen, active, aliveVars, now>>

SetOnChain(id, c) ==
  /\ IF id \in DOMAIN snaps
     THEN /\ snaps' = [snaps EXCEPT ![id].chains = Append(@, c)] /\ last' = [act |-> "SetOnChain", ok |-> TRUE]
     ELSE /\ UNCHANGED snaps /\ last' = [act |-> "SetOnChain", ok |-> FALSE]
  /\ UNCHANGED <<stakingVars, accts, gen, active, lastId, queue, aliveVars, now>>

Publish(force, pf) ==
  /\ lastId \in DOMAIN snaps
  /\ queue' = PublishAll(snaps, lastId, force, active, queue, pf, now)
  /\ last' = [act |-> "Publish", ok |-> TRUE]
  /\ UNCHANGED <<stakingVars, accts, gen, active, snaps, lastId, aliveVars, now>>

\* AddExternalChainInfo replaces the account list; only for bonded unjailed validators
Register(v, S) ==
  /\ IF ActiveIn(jailed, status, v)
     THEN accts' = [accts EXCEPT ![v] = S] /\ last' = [act |-> "Register", ok |-> TRUE]
     ELSE UNCHANGED accts /\ last' = [act |-> "Register", ok |-> FALSE]
  /\ UNCHANGED <<stakingVars, gen, active, snaps, lastId, queue, aliveVars, now>>

\* the account record is re-registered with a rotated key or other traits: same chains, another generation
Rotate(v) ==
  /\ IF ActiveIn(jailed, status, v)
     THEN gen' = [gen EXCEPT ![v] = @ + 1] /\ last' = [act |-> "Rotate", ok |-> TRUE]
     ELSE UNCHANGED gen /\ last' = [act |-> "Rotate", ok |-> FALSE]
  /\ UNCHANGED <<stakingVars, accts, active, snaps, lastId, queue, aliveVars, now>>

\* an attested balance report is written into the account record (x/evm attest_validator_balances): nothing modelled changes
SetBalance(v, c) ==
  /\ last' = [act |-> "SetBalance", ok |-> (c \in accts[v] /\ ActiveIn(jailed, status, v))]
  /\ UNCHANGED <<stakingVars, snapVars, aliveVars, now>>

Activate(c) ==
  /\ active' = active \cup {c} /\ last' = [act |-> "Activate", ok |-> TRUE]
  /\ UNCHANGED <<stakingVars, accts, gen, snaps, lastId, queue, aliveVars, now>>

-----------------------------------------------------------------------------
(* staking actions *)
Delegate(v, a) ==
  /\ stake' = [stake EXCEPT ![v] = @ + a] /\ deleg' = [deleg EXCEPT ![v] = @ + a]
  /\ last' = [act |-> "Delegate", ok |-> TRUE]
  /\ UNCHANGED <<status, jailed, unbondAt, snapVars, aliveVars, now>>

Undelegate(v, a) ==
  /\ IF deleg[v] >= a
     THEN stake' = [stake EXCEPT ![v] = @ - a] /\ deleg' = [deleg EXCEPT ![v] = @ - a] /\ last' = [act |-> "Undelegate", ok |-> TRUE]
     ELSE UNCHANGED <<stake, deleg>> /\ last' = [act |-> "Undelegate", ok |-> FALSE]
  /\ UNCHANGED <<status, jailed, unbondAt, snapVars, aliveVars, now>>

\* jailing for a reason outside the valset module (downtime, ...): unconditional, no sentence
JailF(v) ==
  /\ IF ~jailed[v] THEN jailed' = [jailed EXCEPT ![v] = TRUE] /\ last' = [act |-> "JailF", ok |-> TRUE]
     ELSE UNCHANGED jailed /\ last' = [act |-> "JailF", ok |-> FALSE]
  /\ UNCHANGED <<status, stake, deleg, unbondAt, snapVars, aliveVars, now>>

\* slashing MsgUnjail
Unjail(v) ==
  /\ IF jailed[v] /\ now >= until[v]
     THEN jailed' = [jailed EXCEPT ![v] = FALSE] /\ last' = [act |-> "Unjail", ok |-> TRUE]
     ELSE UNCHANGED jailed /\ last' = [act |-> "Unjail", ok |-> FALSE]
  /\ UNCHANGED <<status, stake, deleg, unbondAt, snapVars, aliveVars, now>>

StakingEB(dt) ==
  /\ now' = now + dt
  /\ status' = StatusAfter(status, jailed, stake, unbondAt, now + dt)
  /\ unbondAt' = UnbondAfter(status, jailed, stake, unbondAt, now + dt)
  /\ last' = [act |-> "StakingEB", ok |-> TRUE]
  /\ UNCHANGED <<jailed, stake, deleg, snapVars, aliveVars>>

-----------------------------------------------------------------------------
(* part (b): keep-alive *)
Derive(d) == LET I == {i \in DOMAIN Sentences : d < Sentences[i]}
             IN  IF I = {} THEN Sentences[Len(Sentences)] ELSE Sentences[MinOf(I)]
ResetAfter(d) == Max2(ResetMin, d + (d \div 20))
NextSentence(r, t) == IF r.at # NoTime /\ t - r.at < ResetAfter(r.dur) THEN Derive(r.dur) ELSE Derive(0)

\* network protection: more than 25% of bonded power, or the last active validator
Protected(J, st, stk, v) == \/ 4 * Pow(st, stk, v) > Total(J, st, stk)
                            \/ ActiveIn(J, st, v) /\ Cardinality(ActiveSet(J, st)) = 1
CanJail(J, st, stk, v) == ~J[v] /\ ~Protected(J, st, stk, v)

\* the part of the state the jailing code writes
JailIn(s, v, t) ==
  LET d == NextSentence(s.jailLog[v], t) IN
  [s EXCEPT !.jailed[v] = TRUE, !.jailLog[v] = [dur |-> d, at |-> t], !.until[v] = t + d,
            !.jhist[v] = Append(@, [at |-> t, dur |-> d])]

Alive(au, hh, v) == hh < au[v]
InGrace(g, hh, v) == g[v] # 0 /\ hh - g[v] <= Grace
Inactive(s, g, hh, v) == s.status[v] \in {"bonded", "unbonding"} /\ ~Alive(s.aliveUntil, hh, v) /\ ~InGrace(g, hh, v)

\* JailInactiveValidators: validators in store order, each judged on the state left by the previous jailing
RECURSIVE SweepFrom(_, _, _, _)
SweepFrom(i, s, g, hh) ==
  IF i > N THEN s
  ELSE IF ~s.jailed[i] /\ Inactive(s, g, hh, i) /\ CanJail(s.jailed, s.status, s.stake, i)
       THEN SweepFrom(i + 1, JailIn(s, i, s.now), g, hh)
       ELSE SweepFrom(i + 1, s, g, hh)

St == [status |-> status, jailed |-> jailed, stake |-> stake, unbondAt |-> unbondAt, h |-> h, now |-> now,
       aliveUntil |-> aliveUntil, grace |-> grace, prev |-> prev, jailLog |-> jailLog, until |-> until,
       jhist |-> jhist, minVer |-> minVer, sched |-> sched]

\* one block: staking end-block, UpdateGracePeriod, sweep of block s.h; then BeginBlock of s.h + 1 at time + dt
BlockF(s, dt) ==
  LET stat == StatusAfter(s.status, s.jailed, s.stake, s.unbondAt, s.now)
      ub   == UnbondAfter(s.status, s.jailed, s.stake, s.unbondAt, s.now)
      U    == {v \in Vals : ~s.jailed[v]}
      g1   == [v \in Vals |-> IF v \in U \ s.prev THEN s.h ELSE s.grace[v]]
      s0   == [s EXCEPT !.status = stat, !.unbondAt = ub, !.grace = g1]
      s1   == IF s.h > WarmUp /\ s.h % Sweep = 0 THEN SweepFrom(1, s0, g1, s.h) ELSE s0
      apply == s.sched # NoSched /\ s.sched.target <= s.h + 1 /\ s.sched.ver >= s.minVer
  IN  [s1 EXCEPT !.prev = {v \in Vals : ~s1.jailed[v]},
                 !.h = s.h + 1, !.now = s.now + dt,
                 !.minVer = IF apply THEN s.sched.ver ELSE s.minVer,
                 !.sched = IF apply THEN NoSched ELSE s.sched]

RECURSIVE NaiveRun(_, _, _)
NaiveRun(s, n, dt) == IF n = 0 THEN s ELSE NaiveRun(BlockF(s, dt), n - 1, dt)

\* --- the same, skipping blocks that provably change nothing but height and time (for long runs) ---
CeilDiv(a, b) == (a + b - 1) \div b
FirstSweep(x) == CeilDiv(Max2(x, WarmUp + 1), Sweep) * Sweep
Settled(s) == /\ s.prev = {v \in Vals : ~s.jailed[v]}
              /\ LET T == TopSet(s.jailed, s.stake) IN \A v \in Vals : (v \in T) = (s.status[v] = "bonded")
FirstBusy(s, dt) ==
  LET cand == {v \in Vals : ~s.jailed[v] /\ s.status[v] \in {"bonded", "unbonding"} /\ CanJail(s.jailed, s.status, s.stake, v)}
      sw   == {FirstSweep(Max2(s.h, Max2(s.aliveUntil[v], IF s.grace[v] = 0 THEN 0 ELSE s.grace[v] + Grace + 1))) : v \in cand}
      sc   == IF s.sched # NoSched /\ s.sched.ver >= s.minVer THEN {Max2(s.h, s.sched.target - 1)} ELSE {}
      mt   == {IF s.unbondAt[v] <= s.now THEN s.h ELSE s.h + CeilDiv(s.unbondAt[v] - s.now, dt) : v \in {u \in Vals : s.status[u] = "unbonding"}}
  IN  sw \cup sc \cup mt
IdleBlocks(s, dt, m) == IF ~Settled(s) THEN 0
                        ELSE LET F == FirstBusy(s, dt) IN IF F = {} THEN m ELSE Min2(m, MinOf(F) - s.h)
RECURSIVE FastRun(_, _, _)
FastRun(s, n, dt) ==
  IF n = 0 THEN s
  ELSE LET k == IdleBlocks(s, dt, n) IN
       IF k > 0 THEN FastRun([s EXCEPT !.h = @ + k, !.now = @ + k * dt], n - k, dt)
       ELSE FastRun(BlockF(s, dt), n - 1, dt)

SetSt(s) == /\ status' = s.status /\ jailed' = s.jailed /\ stake' = s.stake /\ unbondAt' = s.unbondAt /\ h' = s.h /\ now' = s.now
            /\ aliveUntil' = s.aliveUntil /\ grace' = s.grace /\ prev' = s.prev /\ jailLog' = s.jailLog /\ until' = s.until
            /\ jhist' = s.jhist /\ minVer' = s.minVer /\ sched' = s.sched

Block(dt) == /\ SetSt(BlockF(St, dt)) /\ last' = [act |-> "Block", ok |-> TRUE]
             /\ UNCHANGED <<deleg, snapVars>>

\* n blocks in one step (generators, trace validation)
Blocks(n, dt) == /\ SetSt(FastRun(St, n, dt)) /\ last' = [act |-> "Blocks", ok |-> TRUE]
                 /\ UNCHANGED <<deleg, snapVars>>

KeepAlive(v, ver) ==
  /\ IF ver >= minVer /\ ver > 0
     THEN aliveUntil' = [aliveUntil EXCEPT ![v] = h + TTL] /\ last' = [act |-> "KeepAlive", ok |-> TRUE, ver |-> ver]
     ELSE UNCHANGED aliveUntil /\ last' = [act |-> "KeepAlive", ok |-> FALSE, ver |-> ver]
  /\ UNCHANGED <<stakingVars, snapVars, h, grace, prev, jailLog, until, jhist, minVer, sched, now>>

\* valset keeper Jail (any reason), with the protection rules and the sentence schedule
Jail(v) ==
  /\ IF CanJail(jailed, status, stake, v)
     THEN SetSt(JailIn(St, v, now)) /\ last' = [act |-> "Jail", ok |-> TRUE]
     ELSE UNCHANGED <<stakingVars, aliveVars, now>> /\ last' = [act |-> "Jail", ok |-> FALSE]
  /\ UNCHANGED <<deleg, snapVars>>

\* governance proposal: immediately when the target height is reached, else scheduled
SetMinVersion(ver, target) ==
  /\ IF ver >= minVer /\ ver > 0
     THEN /\ IF h >= target THEN minVer' = ver /\ sched' = NoSched
             ELSE UNCHANGED minVer /\ sched' = [ver |-> ver, target |-> target]
          /\ last' = [act |-> "SetMinVersion", ok |-> TRUE]
     ELSE UNCHANGED <<minVer, sched>> /\ last' = [act |-> "SetMinVersion", ok |-> FALSE]
  /\ UNCHANGED <<stakingVars, snapVars, h, aliveUntil, grace, prev, jailLog, until, jhist, now>>

-----------------------------------------------------------------------------
InitWith(stk, acc, act, maxStatus) ==
  /\ stake = stk /\ deleg = [v \in Vals |-> 0] /\ jailed = [v \in Vals |-> FALSE]
  /\ status = maxStatus /\ unbondAt = [v \in Vals |-> 0]
  /\ accts = acc /\ active = act /\ gen = [v \in Vals |-> 0]
  /\ lastId = 1
  /\ snaps = (1 :> [vals |-> Vals, share |-> stk, accts |-> acc, gen |-> [v \in Vals |-> 0], total |-> SumOver(stk, Vals), chains |-> <<>>, at |-> 0])
  /\ queue = [c \in Chains |-> NoMsg]
  /\ h = 1 /\ now = 0
  /\ aliveUntil = [v \in Vals |-> 0] /\ grace = [v \in Vals |-> 0] /\ prev = {}
  /\ jailLog = [v \in Vals |-> [dur |-> Sentences[1], at |-> NoTime]] /\ until = [v \in Vals |-> 0]
  /\ jhist = [v \in Vals |-> <<>>]
  /\ minVer = DefaultVer /\ sched = NoSched
  /\ last = [act |-> "Init", ok |-> TRUE]

\* all validators were bonded when the first snapshot was built; then MaxVals was applied
InitStatus(stk) == LET all == [v \in Vals |-> "bonded"]  J == [v \in Vals |-> FALSE]
                   IN  StatusAfter(all, J, stk, [v \in Vals |-> 0], 0)

-----------------------------------------------------------------------------
(* Properties.  Step predicates are stated on (state, state') so that the trace *)
(* specification can evaluate them on the observed real stores.                 *)

TypeOK == /\ \A v \in Vals : status[v] \in {"bonded", "unbonding", "unbonded"} /\ jailed[v] \in BOOLEAN /\ stake[v] > 0
          /\ active \subseteq Chains /\ \A v \in Vals : accts[v] \subseteq Chains
          /\ DOMAIN snaps = 1..lastId

\* C10 -----------------------------------------------------------------------
FaithfulTo(s, st, J, stk, acc, act) ==
  /\ s.vals = {v \in Vals : st[v] = "bonded" /\ ~J[v] /\ act \subseteq acc[v]}
  /\ \A v \in s.vals : s.share[v] = stk[v] /\ s.accts[v] = acc[v] /\ s.gen[v] = (IF acc[v] = {} THEN 0 ELSE gen[v])
  /\ s.total = SumOver(s.share, s.vals)
\* every snapshot stored by this step is faithful to the staking state it was built from
FaithfulStep == \A id \in DOMAIN snaps' \ DOMAIN snaps : FaithfulTo(snaps'[id], status, jailed, stake, accts, active)
SnapshotFaithful == [][FaithfulStep]_vars

IdsIncreaseStep == /\ lastId' >= lastId
                   /\ \A id \in DOMAIN snaps' \ DOMAIN snaps : \A old \in DOMAIN snaps : id > old
                   /\ DOMAIN snaps \subseteq DOMAIN snaps'
IdsIncrease == [][IdsIncreaseStep]_vars

CurrentIsHighest == DOMAIN snaps # {} => lastId = MaxOf(DOMAIN snaps)

IsPrefix(a, b) == Len(a) <= Len(b) /\ \A i \in DOMAIN a : a[i] = b[i]
ImmutableStep == \A id \in DOMAIN snaps : /\ id \in DOMAIN snaps'
                                          /\ [snaps'[id] EXCEPT !.chains = <<>>] = [snaps[id] EXCEPT !.chains = <<>>]
                                          /\ IsPrefix(snaps[id].chains, snaps'[id].chains)
Immutable == [][ImmutableStep]_vars

\* every valset message is the projection of the snapshot it names
ProjectionCorrect == \A c \in Chains : queue[c] # NoMsg =>
                        /\ queue[c].id \in DOMAIN snaps
                        /\ queue[c].pw = Project(snaps[queue[c].id], c)
                        /\ PowerSum(queue[c].pw) <= MaxPower
PublishGate == \A c \in Chains : queue[c] # NoMsg => PowerSum(queue[c].pw) >= Threshold /\ c \in active

\* C12 -----------------------------------------------------------------------
\* evaluated on a Block step: hh = height of the block being closed
MustJail(hh, v) == /\ ~jailed[v] /\ status'[v] \in {"bonded", "unbonding"}
                   /\ ~Alive(aliveUntil, hh, v) /\ ~InGrace(grace', hh, v)
                   /\ ~Protected(jailed', status', stake', v)
IsSweep(hh) == hh > WarmUp /\ hh % Sweep = 0
JailedAtNextSweepStep == (last'.act = "Block" /\ IsSweep(h)) => \A v \in Vals : MustJail(h, v) => jailed'[v]
JailedAtNextSweep == [][JailedAtNextSweepStep]_vars

NewlyJailed == {v \in Vals : jailed'[v] /\ ~jailed[v]}
ResponsiveNeverJailedStep == last'.act = "Block" => \A v \in NewlyJailed : ~Alive(aliveUntil, h, v)
ResponsiveNeverJailed == [][ResponsiveNeverJailedStep]_vars
GraceRespectedStep == last'.act = "Block" => \A v \in NewlyJailed : ~InGrace(grace', h, v)
GraceRespected == [][GraceRespectedStep]_vars
\* nobody protected by the rules (judged on the power before the sweep) is jailed, and an active validator remains
ProtectionRespectedStep == last'.act \in {"Block", "Jail"} =>
                              /\ \A v \in NewlyJailed : ~(4 * Pow(status', stake', v) > Total(jailed, status', stake'))
                              /\ (ActiveSet(jailed, status') # {} => ActiveSet(jailed', status') # {})
ProtectionRespected == [][ProtectionRespectedStep]_vars

VersionGate == (last.act = "KeepAlive" /\ last.ok) => (last.ver >= minVer /\ last.ver > 0)
MinVersionMonotone == [][minVer' >= minVer]_vars

\* the sentences a validator got follow the schedule
SchedOK(js) == \A k \in DOMAIN js :
                 js[k].dur = IF k = 1 THEN Derive(0)
                             ELSE NextSentence([dur |-> js[k-1].dur, at |-> js[k-1].at], js[k].at)
SentenceSchedule == \A v \in Vals : SchedOK(jhist[v])
=============================================================================
