---------------------------- MODULE SkywayOracle ----------------------------
(***************************************************************************)
(* Claim oracle of x/skyway: validators vote for claims about remote-chain *)
(* events; the end blocker tallies them.                                   *)
(*   Vote      msgServer.*Claim -> claimHandlerCommon -> Attest            *)
(*   Tally     skyway.EndBlocker -> attestationTally -> TryAttestation ->  *)
(*             processAttestation (cache context)                          *)
(*   CatchUp   UpdateValidatorNoncesToLatest (every 50 blocks)             *)
(*   Override  msgServer.OverrideNonceProposal -> overrideNonce            *)
(*   Activate  EVMActivatedChain subscriber (new compass id + overrideNonce 0) *)
(*   SetPower / Jail   staking changes followed by the staking end blocker *)
(* Properties (C02): QuorumDistinct, OnePerNonce, Consecutive,             *)
(*   AppliedAtMostOnce, AppliedIfApplicable.  (C11b): PooledAgree.         *)
(***************************************************************************)
EXTENDS Integers, Sequences, FiniteSets, TLC

CONSTANTS Vals,        \* validator ids
          Claims,      \* set of claim ids
          CNonce,      \* [Claims -> event nonce]
          CHash,       \* [Claims -> hash id]    what the claim hash + key cover
          CEff,        \* [Claims -> effect id]  everything the handler reads
          CCompass,    \* [Claims -> compass id]
          CApplicable, \* [Claims -> BOOLEAN]    e.g. token registered
          CHeight,     \* [Claims -> remote block height of the event]
          Powers,      \* set of powers a validator can be set to
          InitPower,   \* [Vals -> power]
          MaxNonce, MaxEpoch, MaxVotes

Unset == -1
VARIABLES last,     \* last observed event nonce
          cursor,   \* [Vals -> nonce or Unset]
          atts,     \* [key <<nonce, hash>> -> [votes, observed, body]]  (body = claim that created it)
          power,    \* [Vals -> current power], 0 when not bonded
          compass, epoch,
          lastEth,  \* remote block height of the last observed event (never decreases, not reset by overrides)
          effects,  \* [effect id -> times applied]
          res,
          \* monitors
          applied,  \* sequence of [epoch, nonce, key, body, distinct, total]
          views     \* set of [key, val, claim]: what every voter saw when it voted
vars == <<last, cursor, atts, power, compass, epoch, lastEth, effects, res, applied, views>>

Effects == {CEff[c] : c \in Claims}
Key(c) == <<CNonce[c], CHash[c]>>
Max(a, b) == IF a > b THEN a ELSE b
NonceOf(v) == IF cursor[v] = Unset THEN Max(last - 1, 0) ELSE cursor[v]
Bonded(v) == power[v] > 0
RECURSIVE SeqPower(_, _)
SeqPower(s, pw) == IF s = <<>> THEN 0 ELSE pw[Head(s)] + SeqPower(Tail(s), pw)
RECURSIVE SetPower(_, _)
SetPower(S, pw) == IF S = {} THEN 0 ELSE LET v == CHOOSE x \in S : TRUE IN pw[v] + SetPower(S \ {v}, pw)
Range(s) == {s[i] : i \in DOMAIN s}
Total == SetPower(Vals, power)
Above66(sum, total) == sum > (66 * total) \div 100

Init == /\ last = 0 /\ cursor = [v \in Vals |-> Unset] /\ atts = <<>> /\ power = InitPower
        /\ compass = 1 /\ epoch = 0 /\ lastEth = 0 /\ effects = [e \in Effects |-> 0] /\ res = "init"
        /\ applied = <<>> /\ views = {}

(* Attest: contiguity per validator, same remote height as the stored body (implied by the hash here),
   one vote per validator per attestation *)
Vote(v, c) ==
  LET k == Key(c)
      ok == Bonded(v) /\ CNonce[c] = NonceOf(v) + 1
      a == IF k \in DOMAIN atts THEN atts[k] ELSE [votes |-> <<>>, observed |-> FALSE, body |-> c]
  IN
  /\ IF ok
     THEN /\ atts' = [x \in DOMAIN atts \cup {k} |->
                        IF x = k THEN [a EXCEPT !.votes = IF v \in Range(a.votes) THEN a.votes ELSE Append(a.votes, v)]
                        ELSE atts[x]]
          /\ cursor' = [cursor EXCEPT ![v] = CNonce[c]]
          /\ views' = views \cup {[key |-> k, val |-> v, claim |-> c]}
          /\ res' = "ok"
     ELSE UNCHANGED <<atts, cursor, views>> /\ res' = "fail"
  /\ UNCHANGED <<last, power, compass, epoch, lastEth, effects, applied>>

(* One pass of attestationTally.  Attestations of other compass deployments are skipped; at each nonce equal to
   last+1 the attestations are tried in store order; an already observed attestation at that nonce aborts the pass. *)
AttKeysAt(n) == {k \in DOMAIN atts : k[1] = n /\ CCompass[atts[k].body] = compass}
Ready(k) == ~atts[k].observed /\ Above66(SeqPower(atts[k].votes, power), Total)

\* state record threaded through the pass
RECURSIVE TallyFrom(_)
TallyFrom(st) ==
  LET n == st.last + 1
      K == {k \in DOMAIN st.atts : k[1] = n /\ CCompass[st.atts[k].body] = compass}
      obs == {k \in K : st.atts[k].observed}
      rdy == {k \in K : ~st.atts[k].observed /\ Above66(SeqPower(st.atts[k].votes, power), Total)}
  IN IF obs # {} \/ rdy = {} THEN st
     ELSE LET k == CHOOSE x \in rdy : \A y \in rdy : x[2] <= y[2]    \* deterministic representative (at most one can be ready)
              b == st.atts[k].body IN
          IF CHeight[b] < st.lastEth THEN st      \* remote height would roll back: error before anything is changed, pass aborted
          ELSE
          TallyFrom([last |-> n,
                     lastEth |-> CHeight[b],
                     atts |-> [st.atts EXCEPT ![k].observed = TRUE],
                     effects |-> IF CApplicable[b] THEN [st.effects EXCEPT ![CEff[b]] = @ + 1] ELSE st.effects,
                     applied |-> Append(st.applied, [epoch |-> epoch, nonce |-> n, key |-> k, body |-> b,
                                                     distinct |-> SetPower(Range(st.atts[k].votes), power), total |-> Total])])

Tally(catchup) ==
  LET st == TallyFrom([last |-> last, lastEth |-> lastEth, atts |-> atts, effects |-> effects, applied |-> applied]) IN
  /\ last' = st.last /\ lastEth' = st.lastEth /\ atts' = st.atts /\ effects' = st.effects /\ applied' = st.applied
  /\ cursor' = IF catchup THEN [v \in Vals |-> IF cursor[v] # Unset /\ cursor[v] < st.last THEN st.last ELSE cursor[v]] ELSE cursor
  /\ res' = "eb"
  /\ UNCHANGED <<power, compass, epoch, views>>

Override(n) ==
  /\ last' = n
  /\ cursor' = [v \in Vals |-> IF cursor[v] = Unset THEN Unset ELSE n]
  /\ epoch' = epoch + 1 /\ res' = "gov"
  /\ UNCHANGED <<atts, power, compass, lastEth, effects, applied, views>>

Activate(cid) ==
  /\ compass' = cid /\ last' = 0
  /\ cursor' = [v \in Vals |-> IF cursor[v] = Unset THEN Unset ELSE 0]
  /\ epoch' = epoch + 1 /\ res' = "gov"
  /\ UNCHANGED <<atts, power, lastEth, effects, applied, views>>

SetPowerOf(v, p) ==
  /\ power' = [power EXCEPT ![v] = p] /\ res' = "stake"
  /\ UNCHANGED <<last, cursor, atts, compass, epoch, lastEth, effects, applied, views>>

Next == \/ \E v \in Vals, c \in Claims : Vote(v, c)
        \/ \E cu \in BOOLEAN : Tally(cu)
        \/ \E n \in 0..MaxNonce : Override(n)
        \/ \E cid \in {CCompass[c] : c \in Claims} : cid # compass /\ Activate(cid)
        \/ \E v \in Vals, p \in Powers : p # power[v] /\ SetPowerOf(v, p)
Spec == Init /\ [][Next]_vars

-----------------------------------------------------------------------------
(* C02 *)
QuorumDistinct == \A i \in DOMAIN applied : Above66(applied[i].distinct, applied[i].total)
OnePerNonce == \A i, j \in DOMAIN applied :
                 (i # j /\ applied[i].epoch = applied[j].epoch /\ CCompass[applied[i].body] = CCompass[applied[j].body])
                   => applied[i].nonce # applied[j].nonce
Consecutive == \A i \in 1..(Len(applied) - 1) :
                 applied[i].epoch = applied[i + 1].epoch => applied[i + 1].nonce = applied[i].nonce + 1
\* applications of an effect, counted per epoch
CountEff(e, ep) == Cardinality({i \in DOMAIN applied : applied[i].epoch = ep /\ CEff[applied[i].body] = e /\ CApplicable[applied[i].body]})
AppliedAtMostOnce == \A e \in Effects, ep \in 0..epoch : CountEff(e, ep) <= 1
RECURSIVE SumApplied(_, _)
SumApplied(i, e) == IF i = 0 THEN 0 ELSE (IF CEff[applied[i].body] = e /\ CApplicable[applied[i].body] THEN 1 ELSE 0) + SumApplied(i - 1, e)
EffectsMatchApplied == \A e \in Effects : effects[e] = SumApplied(Len(applied), e)
NoDuplicateVotes == \A k \in DOMAIN atts : \A i, j \in DOMAIN atts[k].votes : i # j => atts[k].votes[i] # atts[k].votes[j]
(* C11b: every counted voter saw a claim that agrees with the applied body on every effect-bearing field *)
PooledAgree == \A i \in DOMAIN applied : \A w \in views :
                 w.key = applied[i].key => CEff[w.claim] = CEff[applied[i].body]
TypeOK == last >= 0 /\ \A v \in Vals : cursor[v] >= Unset
=============================================================================
