------------------------------ MODULE LightNode ------------------------------
(***************************************************************************)
(* Light-node client licences of Paloma (x/paloma/keeper/keeper.go,        *)
(* msg_server.go; x/skyway/keeper/attestation_handler.go handleLightNode-  *)
(* Sale) as one block sees them.  Every action is one block.               *)
(*                                                                         *)
(*  AddLicense(who, as, c, amt, m, d)  MsgAddLightNodeClientLicense signed *)
(*      by who with Metadata.Creator = as: anybody may send it, the        *)
(*      creator pays amt OF ANY DENOMINATION d (nothing restricts the coin *)
(*      to the bond denom) into the x/paloma module account (escrow); a    *)
(*      base account is created for the client address c.                  *)
(*  Register(who, as)   MsgRegisterLightNodeClient: activates the licence  *)
(*      of Metadata.Creator: the account becomes a continuous vesting      *)
(*      account (start = block time, end = start + months), the escrowed   *)
(*      amount moves to it, the licence is deleted.                        *)
(*  Auth(who, as)       MsgAuthLightNodeClient of a registered client.     *)
(*  Sale(ch, k, c, amt) a light-node sale on chain ch by contract k for    *)
(*      client address c, claimed by every validator and tallied by the    *)
(*      skyway end blocker: handleLightNodeSale in the attestation's cache *)
(*      context -> CreateSaleLightNodeClientLicense (24 months, paid by    *)
(*      the last configured funder with enough balance, fee grant from the *)
(*      configured fee granter to the client).                             *)
(*  SetFunders / SetFeegranter / SetSale   the governance proposal         *)
(*      (SetSale REPLACES the complete per-chain list of sale contracts:   *)
(*      later proposals retire contracts and change addresses)             *)
(*      handlers (x/paloma/gov_handler.go, x/skyway/keeper/governance_     *)
(*      proposals.go).                                                     *)
(*  Gift(who, amt, via) coins sent to the module account from outside:     *)
(*      bank MsgSend (rejected, module accounts are blocked receivers) or  *)
(*      another module's keeper-level transfer.                            *)
(*  Advance(c, q)       time passes until quarter q of c's vesting window. *)
(*                                                                         *)
(* Accounts: Users pay (funders, direct creators); Fresh are key pairs     *)
(* without an account; client addresses are Fresh plus one existing user   *)
(* (HasAcct).  Amounts are multiples of Unit (1 in the model, 10^6 ugrain  *)
(* on the chain: the sale amount is given in GRAIN).  Time is abstract:    *)
(* only Advance moves it, a month has MonthTicks ticks.                    *)
(***************************************************************************)
EXTENDS Integers, Sequences, FiniteSets, TLC

CONSTANTS Users,        \* accounts with funds (positive integers)
          Fresh,        \* client key pairs without an account
          HasAcct,      \* a user whose address is also tried as client address
          Denoms,       \* denominations (positive integers); Bond = 1 is the bond denom (sales, gifts), the others only direct licences
          Funds,        \* [Users -> [Denoms -> Nat]] balances at genesis
          Amounts,      \* licence amounts (in Unit), 0 included
          Months,       \* vesting months of direct licences
          SaleMonths,   \* vesting months of sold licences (24 in the code)
          Unit,
          MonthTicks,
          SaleChains,   \* chains a sale can be reported from
          Contracts     \* sale contract addresses (positive integers)

VARIABLES escrow,       \* balance of the x/paloma module account, per denom
          lic,          \* not yet activated licences: client -> [amt, months, den]
          acct,         \* account of a client address: "none" | "base" | "vesting"
          vest,         \* vesting accounts: client -> [start, end, orig, den]
          bal,          \* balances of users and clients, per denom
          clients,      \* registered light node clients
          grants,       \* clients holding a fee allowance of the fee granter
          funders,      \* configured funders (sequence of users)
          feegr,        \* fee granter configured
          sale,         \* configured sale contract per chain (0 = none)
          gifts,        \* coins that reached the escrow account from outside, per denom
          now,
          res, last, nops

cfgv  == <<funders, feegr, sale>>
fundv == <<escrow, lic, acct, vest, bal, clients, grants, gifts>>
svars == <<fundv, cfgv, now>>
vars  == <<svars, res, last, nops>>

Bond == 1
Addrs == Fresh \cup {HasAcct}         \* client addresses
Signers == Users \cup Fresh
\* sc: the complete sale-contract list of a SetSale proposal, as a tuple over the chains 1..NCh (0 = chain not listed)
Rec(a, who, as, c, amt, m, ch, k, q, via, d) ==
  [act |-> a, who |-> who, as |-> as, c |-> c, amt |-> amt, m |-> m, ch |-> ch, k |-> k, q |-> q, via |-> via, d |-> d, sc |-> <<>>]
NCh == Cardinality(SaleChains)
AsTuple(cfg) == [i \in 1..NCh |-> cfg[i]]
Done(r, w) == res' = w /\ last' = r /\ nops' = nops + 1
Ext(f, k, v) == [x \in DOMAIN f \cup {k} |-> IF x = k THEN v ELSE f[x]]
Drop(f, k) == [x \in DOMAIN f \ {k} |-> f[x]]
HasAccount(a) == a \in Users \/ acct[a] # "none"
Period(m) == m * MonthTicks
ZeroD == [d \in Denoms |-> 0]

Init ==
  /\ escrow = ZeroD /\ lic = [c \in {} |-> 0]
  /\ acct = [c \in Fresh |-> "none"] /\ vest = [c \in {} |-> 0]
  /\ bal = [a \in Users \cup Fresh |-> IF a \in Users THEN [d \in Denoms |-> Funds[a][d]] ELSE ZeroD]
  /\ clients = {} /\ grants = {}
  /\ funders = <<>> /\ feegr = FALSE /\ sale = [ch \in SaleChains |-> 0]
  /\ gifts = ZeroD /\ now = 0
  /\ res = "init" /\ last = Rec("Init", 0, 0, 0, 0, 0, 0, 0, 0, "", 0) /\ nops = 0

(* CreateLightNodeClientLicense: licence exists? account exists? create account; transfer; store licence.   *)
LicWhy(payer, c, amt, d) ==
  IF c \in DOMAIN lic THEN "licexists"
  ELSE IF HasAccount(c) THEN "acctexists"
  ELSE IF amt = 0 THEN "invalid"
  ELSE IF bal[payer][d] < amt * Unit THEN "funds"
  ELSE "ok"
LicEffect(payer, c, amt, m, d) ==
  /\ lic' = Ext(lic, c, [amt |-> amt * Unit, months |-> m, den |-> d])
  /\ acct' = [acct EXCEPT ![c] = "base"]
  /\ bal' = [bal EXCEPT ![payer][d] = @ - amt * Unit]
  /\ escrow' = [escrow EXCEPT ![d] = @ + amt * Unit]

AddLicenseWhy(who, as, c, amt, d) == IF who # as THEN "err" ELSE LicWhy(as, c, amt, d)
AddLicenseEff(w, as, c, amt, m, d) ==
  IF w = "ok" THEN LicEffect(as, c, amt, m, d) /\ UNCHANGED <<vest, clients, grants, gifts>>
              ELSE UNCHANGED fundv
AddLicense(who, as, c, amt, m, d) ==
  LET w == AddLicenseWhy(who, as, c, amt, d) IN
  /\ AddLicenseEff(w, as, c, amt, m, d)
  /\ UNCHANGED <<cfgv, now>>
  /\ Done(Rec("AddLicense", who, as, c, amt, m, 0, 0, 0, "", d), w)

(* a signer without an account is rejected by the ante chain; creator # signer likewise *)
SignWhy(who, as) == IF ~HasAccount(who) THEN "err" ELSE IF who # as THEN "err" ELSE "ok"

RegisterWhy(who, as) == IF SignWhy(who, as) # "ok" THEN "err" ELSE IF as \notin DOMAIN lic THEN "nolicense" ELSE "ok"
\* t0, t1: start and end of the vesting window (block time, block time + the licence's months);
\* the licence's OWN coin leaves the escrow and becomes the original vesting
RegisterEff(w, as, t0, t1) ==
  IF w = "ok"
  THEN LET l == lic[as] IN
       /\ acct' = [acct EXCEPT ![as] = "vesting"]
       /\ vest' = Ext(vest, as, [start |-> t0, end |-> t1, orig |-> l.amt, den |-> l.den])
       /\ escrow' = [escrow EXCEPT ![l.den] = @ - l.amt]
       /\ bal' = [bal EXCEPT ![as][l.den] = @ + l.amt]
       /\ lic' = Drop(lic, as)
       /\ clients' = clients \cup {as}
       /\ UNCHANGED <<grants, gifts>>
  ELSE UNCHANGED fundv
Register(who, as) ==
  LET w == RegisterWhy(who, as) IN
  /\ RegisterEff(w, as, now, now + (IF w = "ok" THEN Period(lic[as].months) ELSE 0))
  /\ UNCHANGED <<cfgv, now>>
  /\ Done(Rec("Register", who, as, 0, 0, 0, 0, 0, 0, "", 0), w)

AuthWhy(who, as) == IF SignWhy(who, as) # "ok" THEN "err" ELSE IF as \notin clients THEN "notfound" ELSE "ok"
Auth(who, as) ==
  LET w == AuthWhy(who, as) IN
  /\ UNCHANGED svars
  /\ Done(Rec("Auth", who, as, 0, 0, 0, 0, 0, 0, "", 0), w)

(* the funder the code picks: the LAST configured funder with enough balance of the bond denom (0 = none) *)
RECURSIVE PickFrom(_, _, _)
PickFrom(fs, i, need) == IF i = 0 THEN 0 ELSE IF bal[fs[i]][Bond] >= need THEN fs[i] ELSE PickFrom(fs, i - 1, need)
Funder(amt) == PickFrom(funders, Len(funders), amt * Unit)
Authorised(ch, k) == k # 0 /\ sale[ch] = k
SaleWhy(ch, k, c, amt) ==
  IF ~Authorised(ch, k) THEN "unauthorised"
  ELSE IF ~feegr THEN "nofeegranter"
  ELSE IF Len(funders) = 0 THEN "nofunder"
  ELSE IF Funder(amt) = 0 THEN "funds"
  ELSE IF LicWhy(Funder(amt), c, amt, Bond) # "ok" THEN LicWhy(Funder(amt), c, amt, Bond)
  ELSE IF c \in grants THEN "granted"
  ELSE "ok"

SaleEff(w, c, amt) ==
  IF w = "ok" THEN /\ LicEffect(Funder(amt), c, amt, SaleMonths, Bond)
                   /\ grants' = grants \cup {c}
                   /\ UNCHANGED <<vest, clients, gifts>>
              ELSE UNCHANGED fundv
Sale(ch, k, c, amt) ==
  LET w == SaleWhy(ch, k, c, amt) IN
  /\ SaleEff(w, c, amt)
  /\ UNCHANGED <<cfgv, now>>
  /\ Done(Rec("Sale", 0, 0, c, amt, 0, ch, k, 0, "", Bond), w)

SetFunders(fs) == /\ funders' = fs /\ UNCHANGED <<fundv, feegr, sale, now>>
                  /\ Done(Rec("SetFunders", IF Len(fs) >= 1 THEN fs[1] ELSE 0, IF Len(fs) >= 2 THEN fs[2] ELSE 0, 0, 0, 0, 0, 0, 0, "", 0), "ok")
SetFeegranter == /\ feegr' = TRUE /\ UNCHANGED <<fundv, funders, sale, now>>
                 /\ Done(Rec("SetFeegranter", 0, 0, 0, 0, 0, 0, 0, 0, "", 0), "ok")
\* the proposal REPLACES the whole list by cfg: any subset of the chains, any address per chain (0 = not listed);
\* contracts of an earlier list that are not in cfg are retired
SaleCfgs == [SaleChains -> Contracts \cup {0}]
SetSale(cfg) == /\ sale' = cfg /\ UNCHANGED <<fundv, funders, feegr, now>>
                /\ Done([Rec("SetSale", 0, 0, 0, 0, 0, 0, 0, 0, "", 0) EXCEPT !.sc = AsTuple(cfg)], "ok")

\* gifts are made in the bond denom
GiftWhy(who, amt, via) == IF via = "tx" THEN "blocked" ELSE IF bal[who][Bond] < amt * Unit THEN "funds" ELSE "ok"
GiftEff(w, who, amt) ==
  IF w = "ok" THEN /\ bal' = [bal EXCEPT ![who][Bond] = @ - amt * Unit] /\ escrow' = [escrow EXCEPT ![Bond] = @ + amt * Unit]
                   /\ gifts' = [gifts EXCEPT ![Bond] = @ + amt * Unit]
                   /\ UNCHANGED <<lic, acct, vest, clients, grants>>
              ELSE UNCHANGED fundv
Gift(who, amt, via) ==
  LET w == GiftWhy(who, amt, via) IN
  /\ GiftEff(w, who, amt)
  /\ UNCHANGED <<cfgv, now>>
  /\ Done(Rec("Gift", who, who, 0, amt, 0, 0, 0, 0, via, Bond), w)

\* time passes until quarter q of c's vesting window (never backwards)
Advance(c, q) ==
  /\ c \in DOMAIN vest
  /\ LET t == vest[c].start + (q * (vest[c].end - vest[c].start)) \div 4 IN now' = IF t > now THEN t ELSE now
  /\ UNCHANGED <<fundv, cfgv>>
  /\ Done(Rec("Advance", 0, 0, c, 0, 0, 0, 0, q, "", 0), "ok")

FunderLists == {<<>>} \cup {<<a>> : a \in Users} \cup {<<a, b>> : a \in Users, b \in Users}

Next ==
  \/ \E who \in Users, as \in Users, c \in Addrs, amt \in Amounts, m \in Months, d \in Denoms : AddLicense(who, as, c, amt, m, d)
  \/ \E who \in Signers, as \in Signers : Register(who, as) \/ Auth(who, as)
  \/ \E ch \in SaleChains, k \in Contracts, c \in Addrs, amt \in Amounts : Sale(ch, k, c, amt)
  \/ \E fs \in FunderLists : SetFunders(fs)
  \/ SetFeegranter
  \/ \E cfg \in SaleCfgs : SetSale(cfg)
  \/ \E who \in Users, amt \in Amounts \ {0}, via \in {"tx", "keeper"} : Gift(who, amt, via)
  \/ \E c \in Fresh, q \in 1..5 : Advance(c, q)

Spec == Init /\ [][Next]_vars

-----------------------------------------------------------------------------
(* Property C18 - every statement about coins holds PER DENOMINATION *)
RECURSIVE SumLic(_, _)
SumLic(S, d) == IF S = {} THEN 0 ELSE LET x == CHOOSE y \in S : TRUE IN (IF lic[x].den = d THEN lic[x].amt ELSE 0) + SumLic(S \ {x}, d)
RECURSIVE SumBal(_, _)
SumBal(S, d) == IF S = {} THEN 0 ELSE LET x == CHOOSE y \in S : TRUE IN bal[x][d] + SumBal(S \ {x}, d)

\* coins of c that are still locked at time t
Locked(c, t) == LET v == vest[c] IN
  IF t <= v.start THEN v.orig ELSE IF t >= v.end THEN 0 ELSE v.orig - (v.orig * (t - v.start)) \div (v.end - v.start)

TypeOK ==
  /\ \A d \in Denoms : escrow[d] >= 0 /\ gifts[d] >= 0
  /\ DOMAIN lic \subseteq Fresh /\ DOMAIN vest \subseteq Fresh
  /\ \A c \in DOMAIN lic : lic[c].den \in Denoms
  /\ \A c \in DOMAIN vest : vest[c].den \in Denoms
  /\ \A a \in DOMAIN bal : \A d \in Denoms : bal[a][d] >= 0
  /\ clients \subseteq Fresh /\ grants \subseteq Fresh

\* in every denomination the escrow covers - and without gifts equals - the licences that are not yet activated
EscrowCovers == \A d \in Denoms : escrow[d] = SumLic(DOMAIN lic, d) + gifts[d] /\ escrow[d] >= SumLic(DOMAIN lic, d)
\* a licence belongs to an address with a plain account that was made for it; activated addresses never hold one
LicenceShape == \A c \in DOMAIN lic : acct[c] = "base" /\ c \notin DOMAIN vest /\ lic[c].amt > 0
VestShape == \A c \in Fresh : (acct[c] = "vesting") = (c \in DOMAIN vest)
\* (a licence may have 0 vesting months: start = end, everything is locked at that instant and free afterwards)
LockedSane == \A c \in DOMAIN vest : /\ Locked(c, vest[c].start) = vest[c].orig
                                      /\ (vest[c].end > vest[c].start => Locked(c, vest[c].end) = 0) /\ Locked(c, vest[c].end + 1) = 0
                                      /\ Locked(c, now) >= 0 /\ Locked(c, now) <= vest[c].orig

Ok == res' = "ok"
A  == last'
\* a licence appears only for an address that had neither account nor licence, by a successful creation for that address
CreateOnlyFresh ==
  \A c \in DOMAIN lic' \ DOMAIN lic :
     /\ Ok /\ A.act \in {"AddLicense", "Sale"} /\ A.c = c
     /\ c \notin DOMAIN lic /\ ~HasAccount(c)
     /\ lic'[c].amt = A.amt * Unit /\ A.amt > 0 /\ lic'[c].den = A.d
     /\ lic'[c].months = IF A.act = "Sale" THEN SaleMonths ELSE A.m
     /\ (A.act = "AddLicense" => A.who = A.as)
     /\ (A.act = "Sale" => A.d = Bond)
\* licences do not change, they disappear only by activation
LicenceStable ==
  /\ \A c \in DOMAIN lic \cap DOMAIN lic' : lic'[c] = lic[c]
  /\ \A c \in DOMAIN lic \ DOMAIN lic' : Ok /\ A.act = "Register" /\ A.as = c
\* activation only by the licensed address itself, only with a licence, hence at most once
ActivateOnceBySelf ==
  \A c \in Fresh : (acct'[c] = "vesting" /\ acct[c] # "vesting") =>
     /\ Ok /\ A.act = "Register" /\ A.who = c /\ A.as = c
     /\ c \in DOMAIN lic /\ c \notin DOMAIN lic' /\ c \notin DOMAIN vest
\* activation moves exactly the licensed coin - amount AND denomination - from the escrow into a continuous vesting
\* account that starts now; no other balance, no other denomination of the escrow moves
ActivationMoves == (Ok /\ A.act = "Register") =>
        LET c == A.as IN
        /\ c \in DOMAIN lic /\ acct'[c] = "vesting" /\ c \in DOMAIN vest'
        /\ vest'[c].orig = lic[c].amt /\ vest'[c].den = lic[c].den /\ vest'[c].start = now'
        /\ bal'[c] = [bal[c] EXCEPT ![lic[c].den] = @ + lic[c].amt]
        /\ escrow' = [escrow EXCEPT ![lic[c].den] = @ - lic[c].amt]
        /\ \A a \in DOMAIN bal \ {c} : bal'[a] = bal[a]
ActivationEnd == (Ok /\ A.act = "Register" /\ A.as \in DOMAIN lic /\ A.as \in DOMAIN vest') =>
        vest'[A.as].end = now' + Period(lic[A.as].months)
\* a vesting schedule never changes, a vesting account stays one
ScheduleFixed == \A c \in DOMAIN vest : c \in DOMAIN vest' /\ vest'[c] = vest[c]
ActivationVests == ActivationMoves /\ ActivationEnd /\ ScheduleFixed
\* a sale creates a licence only if contract, fee granter and funders are configured - and then from a funder's pocket
SaleOnlyIfConfigured == (A.act = "Sale") =>
  IF Ok THEN /\ Authorised(A.ch, A.k) /\ feegr /\ Len(funders) > 0
             /\ \E i \in DOMAIN funders : LET f == funders[i] IN
                   /\ bal[f][Bond] >= A.amt * Unit /\ bal'[f] = [bal[f] EXCEPT ![Bond] = @ - A.amt * Unit]
                   /\ \A a \in DOMAIN bal \ {f} : bal'[a] = bal[a]
             /\ escrow' = [escrow EXCEPT ![Bond] = @ + A.amt * Unit] /\ A.c \in DOMAIN lic' \ DOMAIN lic /\ grants' = grants \cup {A.c}
        ELSE UNCHANGED fundv
\* a rejected request changes nothing
FailureIsNoOp == ~Ok => UNCHANGED <<fundv, cfgv>>
\* coins are neither made nor lost, in any denomination
Conserved == \A d \in Denoms : SumBal(DOMAIN bal, d)' + escrow'[d] = SumBal(DOMAIN bal, d) + escrow[d]

PA_CreateOnlyFresh      == [][CreateOnlyFresh]_vars
PA_LicenceStable        == [][LicenceStable]_vars
PA_ActivateOnceBySelf   == [][ActivateOnceBySelf]_vars
PA_ActivationVests      == [][ActivationVests]_vars
PA_SaleOnlyIfConfigured == [][SaleOnlyIfConfigured]_vars
PA_FailureIsNoOp        == [][FailureIsNoOp]_vars
PA_Conserved            == [][Conserved]_vars
=============================================================================
