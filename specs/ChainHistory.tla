--------------------------- MODULE ChainHistory ---------------------------
(* Chain histories of Paloma (properties C08 and C09, level: exploration).                           *)
(*                                                                                                     *)
(* The spec supplies the HISTORIES and the meaning of the perturbations; the oracle is the real       *)
(* application (harness/env E2): twin equality for C08, absence of abort for C09.                     *)
(*                                                                                                     *)
(*   chain state   height, txlog (the blocks: every block is a sequence of catalogue entries),        *)
(*                 queued (abstract summary of what waits in the consensus queue / skyway pool),      *)
(*                 gate (governance completed an upgrade; running software x upgrade version), halted *)
(*   node state    env (process environment variables consulted by Paloma code), restarts, nqueries   *)
(*                                                                                                     *)
(*   Block(txs)    txs drawn from the catalogue: transaction templates touching every Paloma module   *)
(*                 (ChainHistoryCatalogue!Templates, bound to really signed transactions by the       *)
(*                 driver) and hostile entries <<kind, parameter, class>> (every sender-controlled    *)
(*                 parameter of every message kind with its classes of extreme values)                *)
(*   Restart, Query(k), SetEnv(x), UnsetEnv(x)                                                        *)
(*                 perturbations of ONE node; the spec DEFINES them as stuttering on chain state      *)
(*                 (PerturbationsStutter) - that is the content of C08: what a node's state, events   *)
(*                 and results are is a function of txlog alone (StateIsFunctionOfHistory)            *)
(*   Gate          the only deliberate stop: once governance has completed an upgrade to a version    *)
(*                 newer than the running software, the next block does not get finalised (Halt)      *)
(*   C09           in every state that is not halted by the gate, Block is enabled for every choice   *)
(*                 of transactions (NoAbort): no value a sender controls disables begin/end block     *)
EXTENDS Naturals, Sequences, FiniteSets, TLC, ChainHistoryCatalogue

CONSTANTS Base,        \* height of the prepared world
          MaxHeight,   \* bound of the exhaustive runs
          EnvVars,     \* environment variables Paloma code consults (grep os.Getenv / LookupEnv in /repo)
          QueryKinds,  \* read-only entry points touching assigner / snapshot / tally / metrics code
          BlockChoices, \* the sets of transactions the exhaustive runs choose blocks from
          Versions     \* software versions / upgrade names of the version gate

VARIABLES height, txlog, queued, gate, halted,   \* chain (gate: FALSE, or [app, gov] once governance completed an upgrade)
          env, restarts, nqueries,                \* node
          last                                    \* the action that led here

chainVars == <<height, txlog, queued, gate, halted>>
nodeVars  == <<env, restarts, nqueries>>
vars      == <<chainVars, nodeVars, last>>

\* ---- catalogue ------------------------------------------------------------------------------------
ClassesOf(tag) ==
  CASE tag = "str"   -> {"empty", "overlong", "malformed"}
    [] tag = "bytes" -> {"empty", "overlong", "malformed"}
    [] tag = "u64"   -> {"zero", "one", "huge63", "huge64"}
    [] tag = "u32"   -> {"zero", "one", "huge64"}
    [] tag = "i64"   -> {"negative", "zero", "one", "huge63"}
    [] tag = "i32"   -> {"negative", "zero", "one", "huge63"}
    [] tag = "int"   -> {"negative", "zero", "one", "huge63", "huge64", "huge255", "empty"}
    [] tag = "dec"   -> {"negative", "zero", "one", "huge63", "huge64", "huge255", "empty"}
    [] tag = "bool"  -> {"zero", "one"}
    [] tag = "ptr"   -> {"empty"}
    [] tag = "list"  -> {"empty", "overlong"}
    [] tag = "any"   -> {"empty", "malformed"}
    [] tag = "time"  -> {"zero", "huge63"}
    \* a serialised transaction receipt (evidence of a relayed transaction): structure instead of bytes
    [] tag = "receipt" -> {"empty", "malformed", "failed", "nologs", "notopics", "foreignfirst", "manylogs", "baddata", "manytopics"}

CatIdx  == DOMAIN Cat
Kinds   == {Cat[i][1] : i \in CatIdx}
\* hostile entries: <<kind, parameter, class>>
Hostile == UNION {{<<Cat[i][1], Cat[i][2], c>> : c \in ClassesOf(Cat[i][3])} : i \in CatIdx}
ModuleOf(k) == LET i == CHOOSE j \in DOMAIN KindModules : KindModules[j][1] = k IN KindModules[i][2]
Modules == {KindModules[i][2] : i \in DOMAIN KindModules}

\* height classes of the begin / end blockers (x/valset, x/consensus, x/skyway, x/metrix: 10 / 50; x/evm: 300; x/paloma: 303)
HClasses == {"m10", "m50", "m300", "m303", "other"}
HClassOf(h) == IF h % 300 = 0 THEN "m300" ELSE IF h % 303 = 0 THEN "m303" ELSE IF h % 50 = 0 THEN "m50"
               ELSE IF h % 10 = 0 THEN "m10" ELSE "other"
\* the height at which the drivers place a hostile transaction of a class (world base 280): from 290 / 293 / 300 the
\* heights 300 (= 0 mod 10, 50, 300) and 303 are a few blocks away; 303 and 350 are followed by 310 / 350 and 360 / 400
HeightOf(c) == CASE c = "m10" -> 290 [] c = "other" -> 293 [] c = "m300" -> 300 [] c = "m303" -> 303 [] c = "m50" -> 350

\* ---- abstract summary of what is queued -------------------------------------------------------------
\* stage of the oldest fee-paying cross-chain message: none -> fresh (queued, assigned) -> signed -> elected (gas
\* estimate elected, fees attached) -> relayed (error / public access data set, waits for attestation) -> none
\* further stages: a delivery report nobody attests (reportedpad: an unverifiable transaction hash; relayed: an error),
\* contentious evidence (split: two validators against one), evidence only from a validator that is in no snapshot (newval)
Stages == {"idle", "fresh", "signed", "elected", "relayed", "reportedpad", "split", "newval"}
\* the blocks that put a stage in place (the driver delivers them right before the hostile block)
StageScript(s) ==
  CASE s = "idle"    -> <<>>
    [] s = "fresh"   -> << <<"execjob", "deployuser", "send">> >>
    [] s = "signed"  -> << <<"execjob", "deployuser", "send">>, <<"sign">> >>
    [] s = "elected" -> << <<"execjob", "deployuser", "send">>, <<"sign">>, <<"estimate", "batchest">>, <<"sign", "confirm">> >>
    [] s = "relayed" -> << <<"execjob", "deployuser", "send">>, <<"sign">>, <<"estimate", "batchest">>, <<"sign", "confirm">>, <<"relayerr">> >>
    [] s = "reportedpad" -> << <<"execjob", "deployuser", "send">>, <<"sign">>, <<"estimate", "batchest">>, <<"sign", "confirm">>, <<"relayok">> >>
    [] s = "split"   -> << <<"execjob", "deployuser", "send">>, <<"sign">>, <<"estimate", "batchest">>, <<"sign", "confirm">>, <<"relayerr">>, <<"attestsplit3">> >>
    [] s = "newval"  -> << <<"newval", "execjob", "deployuser", "send">>, <<"sign", "newvalalive">>, <<"estimate", "batchest">>, <<"sign", "confirm">>, <<"relayerr">>, <<"attestnew">> >>

\* a block is a sequence of entries <<a, b, c>>: a template  <<"tpl", name, "">>  or a hostile entry  <<kind, parameter, class>>
Tpl(n) == <<"tpl", n, "">>
TplSeq(names) == [i \in DOMAIN names |-> Tpl(names[i])]
Has(txs, t) == \E i \in DOMAIN txs : txs[i] = Tpl(t)
StageAfter(s, txs) ==
  CASE s = "idle"    /\ Has(txs, "execjob")  -> "fresh"
    [] s = "fresh"   /\ Has(txs, "sign")     -> "signed"
    [] s = "signed"  /\ Has(txs, "estimate") -> "elected"
    [] s = "elected" /\ Has(txs, "relayerr") -> "relayed"
    [] s = "elected" /\ Has(txs, "relayok") -> "reportedpad"
    [] s \in {"relayed", "reportedpad", "split", "newval"} /\ Has(txs, "attesterr") -> "idle"
    [] s = "relayed" /\ Has(txs, "attestsplit3") -> "split"
    [] s = "relayed" /\ Has(txs, "attestnew") -> "newval"
    [] OTHER -> s

\* the blocks the drivers deliver before a hostile transaction of height class hc with stage s in place
EmptyLog(n) == [i \in 1..n |-> <<>>]
PrepLog(s, hc) == LET sc == StageScript(s)  n == HeightOf(hc) - 1 - Base IN
                  EmptyLog(n - Len(sc)) \o [k \in DOMAIN sc |-> TplSeq(sc[k])]
\* what the pigeons send in every block while the chain runs on
DutyBlock == TplSeq(<<"sign", "estimate", "relayerr", "attesterr", "batchest", "confirm", "balances", "refblock">>)

\* ---- software versions ----------------------------------------------------------------------------------
\* a version is [v |-> <<major, minor, patch>>, pre |-> "" or a pre-release suffix]; the order is the SEMANTIC one: components
\* compare as numbers (5.1.10 is newer than 5.1.6), a pre-release is older than its release
NumLess(a, b) == \/ a[1] < b[1]
                 \/ (a[1] = b[1] /\ a[2] < b[2])
                 \/ (a[1] = b[1] /\ a[2] = b[2] /\ a[3] < b[3])
Older(a, g) == NumLess(a.v, g.v) \/ (a.v = g.v /\ a.pre # "" /\ g.pre = "")
NoVersion == [v |-> <<0, 0, 0>>, pre |-> ""]

\* ---- actions ------------------------------------------------------------------------------------------
Rec(a, x) == [act |-> a, arg |-> x]
Perturbations == {"Restart", "Query", "SetEnv", "UnsetEnv"}

NoGate == [on |-> FALSE, app |-> NoVersion, gov |-> NoVersion]
\* the gate is closed for software that is older than the completed upgrade, and for software of another [major].[minor] line
\* than the completed upgrade (x/paloma: "app needs to be in the [major].[minor] space": a binary of another line is the wrong
\* software for the chain state, in either direction); a NEWER PATCH level of the same line must never be stopped
SameLine(a, g) == a.v[1] = g.v[1] /\ a.v[2] = g.v[2]
Closed == gate.on /\ (Older(gate.app, gate.gov) \/ ~SameLine(gate.app, gate.gov))
Init == /\ height = Base /\ txlog = <<>> /\ queued = "idle" /\ gate = NoGate /\ halted = FALSE
        /\ env = {} /\ restarts = 0 /\ nqueries = 0
        /\ last = Rec("Init", <<>>)

\* a block of transactions is finalised: enabled for EVERY txs unless the gate closed (C09)
Block(txs) ==
  /\ ~halted /\ ~Closed
  /\ height' = height + 1
  /\ txlog' = Append(txlog, txs)
  /\ queued' = StageAfter(queued, txs)
  /\ UNCHANGED <<gate, halted, nodeVars>>
  /\ last' = Rec("Block", txs)

\* governance completed the upgrade gov while the node runs the software app ...
Gate(app, gov) == /\ ~gate.on /\ ~halted /\ gate' = [on |-> TRUE, app |-> app, gov |-> gov]
                  /\ UNCHANGED <<height, txlog, queued, halted, nodeVars>> /\ last' = Rec("Gate", <<>>)
\* ... software older than the completed upgrade (or of another major.minor line) stops: its next block is not finalised
Halt == /\ Closed /\ ~halted /\ halted' = TRUE
        /\ UNCHANGED <<height, txlog, queued, gate, nodeVars>> /\ last' = Rec("Halt", <<>>)

Restart     == /\ restarts' = restarts + 1 /\ UNCHANGED <<chainVars, env, nqueries>> /\ last' = Rec("Restart", <<>>)
Query(k)    == /\ nqueries' = nqueries + 1 /\ UNCHANGED <<chainVars, env, restarts>> /\ last' = Rec("Query", k)
SetEnv(x)   == /\ env' = env \cup {x} /\ UNCHANGED <<chainVars, restarts, nqueries>> /\ last' = Rec("SetEnv", x)
UnsetEnv(x) == /\ env' = env \ {x} /\ UNCHANGED <<chainVars, restarts, nqueries>> /\ last' = Rec("UnsetEnv", x)

Perturb == \/ Restart \/ (\E k \in QueryKinds : Query(k)) \/ (\E x \in EnvVars : SetEnv(x) \/ UnsetEnv(x))
Next == (\E txs \in BlockChoices : Block(txs)) \/ (\E a, g \in Versions : Gate(a, g)) \/ Halt \/ Perturb
Spec == Init /\ [][Next]_vars

\* ---- properties -----------------------------------------------------------------------------------------
TypeOK == /\ height \in Nat /\ height = Base + Len(txlog)
          /\ queued \in Stages /\ gate \in [on : BOOLEAN, app : Versions \cup {NoVersion}, gov : Versions \cup {NoVersion}] /\ halted \in BOOLEAN
          /\ env \subseteq EnvVars /\ restarts \in Nat /\ nqueries \in Nat

\* C08: perturbations of one node stutter on the chain state
PerturbationsStutter == [][last'.act \in Perturbations => UNCHANGED chainVars]_vars

\* C08: the chain state is a function of the history alone, whatever the node went through in between
RECURSIVE StageOfLog(_)
StageOfLog(log) == IF log = <<>> THEN "idle" ELSE StageAfter(StageOfLog(SubSeq(log, 1, Len(log) - 1)), log[Len(log)])
StateIsFunctionOfHistory == /\ height = Base + Len(txlog) /\ queued = StageOfLog(txlog)

\* C09: no reachable state disables the next block except the version gate
NoAbort == (~Closed /\ ~halted) => \A txs \in BlockChoices : ENABLED Block(txs)
\* a halt only for software that is semantically older than the completed upgrade or of another major.minor line
OnlyGateHalts == halted => Closed
\* every module is reached by a template or a hostile kind
ASSUME CatalogueCoversModules == {"consensus", "evm", "paloma", "scheduler", "skyway", "tokenfactory", "treasury", "valset"} \subseteq Modules
=============================================================================
