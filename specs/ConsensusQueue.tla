--------------------------- MODULE ConsensusQueue ---------------------------
(***************************************************************************)
(* Cross-chain consensus queues of x/consensus (+ the evm attesters that   *)
(* answer "reference block" requests): signatures, gas estimates and their *)
(* election, fee attachment, evidence, attestation by 2/3 of snapshot      *)
(* shares, pruning with jailing.                                           *)
(*   PutRef / PutSlc     Keeper.PutMessageInQueue (reference-block request, *)
(*                       turnstone SubmitLogicCall via AddSmartContract-    *)
(*                       ExecutionToConsensus)                              *)
(*   Sign               msgServer.AddMessagesSignatures -> Queue.AddSignature*)
(*   Estimate           msgServer.AddMessageEstimates -> Queue.AddGasEstimate*)
(*   Evidence           msgServer.AddEvidence -> Queue.AddEvidence (replace) *)
(*   SetPAD / SetErr    msgServer.SetPublicAccessData / SetErrorData        *)
(*   ReRegister         valset.AddExternalChainInfo with a new key          *)
(*   EndBlock           consensus.AppModule.EndBlock =                      *)
(*        ElectEstimates (SetElectedGasEstimate . AttachFees, per message   *)
(*                        in its own cache context)                         *)
(*      . Attest (VerifyEvidence, winner applied, message removed)          *)
(*      . Prune (every 50 blocks, messages older than 300 blocks:           *)
(*               jailValidatorsIfNecessary . remove)                        *)
(* Properties: C04 (AttestNeedsQuorum, ElectionNeedsQuorum, ElectedIsMedian,*)
(*   ElectedStable), C06 (SigsCurrent, SigsUnique), C13b (PruneJailsOnly...)*)
(***************************************************************************)
EXTENDS Integers, Sequences, FiniteSets, TLC

CONSTANTS Vals,         \* bonded validators (ids)
          Share,        \* [Vals -> snapshot share], 0 = not in the snapshot
          EvValues,     \* evidence values (reference blocks 1,2,..: height = RefBase + value)
          EstValues,    \* gas estimates validators may submit
          MaxMsgs, PruneAge, PruneEvery

None == 0
VARIABLES msgs,      \* [id -> message record]
          nextId,
          keyver,    \* [Vals -> version of the external-chain key currently registered]
          refHeight, \* reference block recorded for the chain (0 = RefBase)
          jailed,
          height,
          res,
          \* monitors
          removedBy, \* [id -> "attest" / "prune"], ids removed so far
          applied    \* sequence of [id, value, power, total]: attestation effects
vars == <<msgs, nextId, keyver, refHeight, jailed, height, res, removedBy, applied>>

RECURSIVE SumShares(_)
SumShares(V) == IF V = {} THEN 0 ELSE LET v == CHOOSE x \in V : TRUE IN Share[v] + SumShares(V \ {v})
Total == SumShares(Vals)
Quorum23(sum, total) == sum > 0 /\ 3 * sum >= 2 * total
InSnap(v) == Share[v] > 0

\* a message: kind "ref" (no signatures, no estimate), "slc" (SubmitLogicCall: signatures + estimate + fees) or
\* "uv" (UpdateValset: signatures + estimate, the estimate is part of the signing bytes, no fees attached)
Signable == {"slc", "uv"}
NewMsg(kind) == [kind |-> kind, ev |-> [v \in Vals |-> None], sigs |-> {}, ests |-> [v \in Vals |-> None],
                 elected |-> 0, fees |-> FALSE, pad |-> kind = "ref", err |-> FALSE, added |-> height, asg |-> 0]
\* version of the bytes to sign: changes when the elected estimate or the attached fees change
Version(m) == <<m.elected, m.fees, m.asg>>      \* asg: number of (re)assignments of the relayer

Init == /\ msgs = <<>> /\ nextId = 1 /\ keyver = [v \in Vals |-> 1] /\ refHeight = 0 /\ jailed = {}
        /\ height = 1 /\ res = "init" /\ removedBy = <<>> /\ applied = <<>>

Put(kind) ==
  /\ msgs' = [i \in DOMAIN msgs \cup {nextId} |-> IF i = nextId THEN NewMsg(kind) ELSE msgs[i]]
  /\ nextId' = nextId + 1 /\ res' = "ok"
  /\ UNCHANGED <<keyver, refHeight, jailed, height, removedBy, applied>>

Upd(id, m) == msgs' = [msgs EXCEPT ![id] = m]
Same == UNCHANGED <<nextId, keyver, refHeight, jailed, height, removedBy, applied>>

\* mode: "good" (valid over current bytes, current key) / "stale" (valid over an older version) / "badkey" / "garbage"
Sign(v, id, mode) ==
  LET ok == id \in DOMAIN msgs /\ v \notin jailed /\ mode = "good" /\ msgs[id].kind \in Signable
            /\ ~\E s \in msgs[id].sigs : s.val = v \/ s.key = <<v, keyver[v]>>
  IN /\ IF ok THEN Upd(id, [msgs[id] EXCEPT !.sigs = @ \cup {[val |-> v, key |-> <<v, keyver[v]>>, ver |-> Version(msgs[id])]}]) /\ res' = "ok"
        ELSE UNCHANGED msgs /\ res' = "fail"
     /\ Same

Estimate(v, id, x) ==
  LET ok == id \in DOMAIN msgs /\ v \notin jailed /\ msgs[id].kind \in Signable /\ msgs[id].ests[v] = None /\ x >= 1
  IN /\ IF ok THEN Upd(id, [msgs[id] EXCEPT !.ests[v] = x]) /\ res' = "ok"
        ELSE UNCHANGED msgs /\ res' = "fail"
     /\ Same

Evidence(v, id, e) ==
  LET ok == id \in DOMAIN msgs /\ v \notin jailed
  IN /\ IF ok THEN Upd(id, [msgs[id] EXCEPT !.ev[v] = e]) /\ res' = "ok"     \* latest submission replaces
        ELSE UNCHANGED msgs /\ res' = "fail"
     /\ Same

SetPAD(v, id) ==
  /\ IF id \in DOMAIN msgs /\ v \notin jailed
     THEN Upd(id, IF msgs[id].pad THEN msgs[id] ELSE [msgs[id] EXCEPT !.pad = TRUE]) /\ res' = "ok"
     ELSE UNCHANGED msgs /\ res' = "fail"
  /\ Same
SetErr(v, id) ==
  /\ IF id \in DOMAIN msgs /\ v \notin jailed
     THEN Upd(id, IF msgs[id].pad \/ msgs[id].err THEN msgs[id] ELSE [msgs[id] EXCEPT !.err = TRUE]) /\ res' = "ok"
     ELSE UNCHANGED msgs /\ res' = "fail"
  /\ Same

ReRegister(v) ==
  /\ keyver' = [keyver EXCEPT ![v] = @ + 1] /\ res' = "ok"
  /\ UNCHANGED <<msgs, nextId, refHeight, jailed, height, removedBy, applied>>

\* ReassignOrphanedMessages: every turnstone message without delivery report gets a (possibly new) relayer;
\* the relayer is covered by the signing bytes, so collected signatures are discarded. Elected estimate, fees and
\* submitted estimates stay. (No caller in the application today; kept in the model because the keeper exports it.)
Reassign ==
  /\ msgs' = [id \in DOMAIN msgs |-> IF msgs[id].kind \in Signable /\ ~msgs[id].pad /\ ~msgs[id].err
                                      THEN [msgs[id] EXCEPT !.asg = @ + 1, !.sigs = {}] ELSE msgs[id]]
  /\ res' = "ok" /\ Same

Advance(dh) == /\ height' = height + dh /\ res' = "adv"
               /\ UNCHANGED <<msgs, nextId, keyver, refHeight, jailed, removedBy, applied>>

-----------------------------------------------------------------------------
(* end blocker *)
Submitters(m) == {v \in Vals : m.ests[v] # None}
RECURSIVE SortPairs(_)
SortPairs(S) == IF S = {} THEN <<>>     \* S: set of <<value, val>> pairs
              ELSE LET p == CHOOSE x \in S : \A y \in S : x[1] < y[1] \/ (x[1] = y[1] /\ x[2] <= y[2]) IN <<p[1]>> \o SortPairs(S \ {p})
MedianOf(m) == LET w == SortPairs({<<m.ests[v], v>> : v \in Submitters(m)})  n == Len(w)  c == n \div 2 IN
               IF n % 2 = 0 THEN (w[c] + w[c + 1]) \div 2 ELSE w[c + 1]
ElectOne(m) ==
  IF m.kind \notin Signable \/ m.elected # 0 \/ Submitters(m) = {} THEN m
  ELSE IF ~Quorum23(SumShares({v \in Submitters(m) : InSnap(v)}), Total) THEN m
  ELSE [m EXCEPT !.elected = MedianOf(m), !.fees = (m.kind = "slc"), !.sigs = {}]     \* SetElectedGasEstimate clears, AttachFees replaces the body

\* evidence tally: winner value if snapshot members holding 2/3 of the shares gave that value as their latest evidence
Backers(m, e) == {v \in Vals : InSnap(v) /\ m.ev[v] = e}
Winner(m) == {e \in EvValues : Quorum23(SumShares(Backers(m, e)), Total)}
HasEvidence(m) == \E v \in Vals : m.ev[v] # None

StateRec == [msgs |-> msgs, refHeight |-> refHeight, removedBy |-> removedBy, applied |-> applied, jailed |-> jailed]

RECURSIVE AttestAll(_, _)
AttestAll(ids, st) ==
  IF ids = {} THEN st
  ELSE LET id == CHOOSE x \in ids : \A y \in ids : x <= y
           m == st.msgs[id] IN
       IF m.kind # "ref" \/ ~HasEvidence(m) \/ Winner(m) = {} THEN AttestAll(ids \ {id}, st)
       ELSE LET e == CHOOSE x \in Winner(m) : TRUE IN
            IF e <= st.refHeight THEN st     \* attester error (reference block not newer): nothing committed, pass aborted
            ELSE AttestAll(ids \ {id},
                   [st EXCEPT !.msgs = [i \in DOMAIN st.msgs \ {id} |-> st.msgs[i]],
                              !.refHeight = e,
                              !.removedBy = [i \in DOMAIN st.removedBy \cup {id} |-> IF i = id THEN "attest" ELSE st.removedBy[i]],
                              !.applied = Append(st.applied, [id |-> id, value |-> e, power |-> SumShares(Backers(m, e)), total |-> Total])])

\* prune: a message with a delivery attempt (pad or err) whose evidence did not reach consensus: jail the snapshot
\* members that supplied no evidence, unless fewer than 10% of the shares attested
JailSet(m) ==
  LET voters == {v \in Vals : InSnap(v) /\ m.ev[v] # None} IN
  IF ~(m.pad \/ m.err) THEN {}
  ELSE IF Winner(m) # {} THEN {}
  ELSE IF 10 * SumShares(voters) < Total THEN {}
  ELSE {v \in Vals : InSnap(v) /\ m.ev[v] = None}

RECURSIVE PruneAll(_, _)
PruneAll(ids, st) ==
  IF ids = {} THEN st
  ELSE LET id == CHOOSE x \in ids : \A y \in ids : x <= y
           m == st.msgs[id] IN
       PruneAll(ids \ {id},
         [st EXCEPT !.msgs = [i \in DOMAIN st.msgs \ {id} |-> st.msgs[i]],
                    !.jailed = st.jailed \cup JailSet(m),
                    !.removedBy = [i \in DOMAIN st.removedBy \cup {id} |-> IF i = id THEN "prune" ELSE st.removedBy[i]]])

EndBlockResult ==
  LET s1 == [StateRec EXCEPT !.msgs = [i \in DOMAIN msgs |-> ElectOne(msgs[i])]]
      s2 == AttestAll(DOMAIN s1.msgs, s1)
      old == IF height % PruneEvery = 0 THEN {i \in DOMAIN s2.msgs : height - s2.msgs[i].added > PruneAge} ELSE {}
  IN PruneAll(old, s2)

EndBlock ==
  LET s == EndBlockResult IN
  /\ msgs' = s.msgs /\ refHeight' = s.refHeight /\ removedBy' = s.removedBy /\ applied' = s.applied /\ jailed' = s.jailed
  /\ res' = "eb" /\ UNCHANGED <<nextId, keyver, height>>

Next == \/ (nextId <= MaxMsgs /\ \E k \in {"ref", "slc", "uv"} : Put(k))
        \/ \E v \in Vals, id \in 1..MaxMsgs, mode \in {"good", "stale", "badkey", "otherchain", "oldkey", "garbage"} : Sign(v, id, mode)
        \/ \E v \in Vals, id \in 1..MaxMsgs, x \in EstValues : Estimate(v, id, x)
        \/ \E v \in Vals, id \in 1..MaxMsgs, e \in EvValues : Evidence(v, id, e)
        \/ \E v \in Vals, id \in 1..MaxMsgs : SetPAD(v, id) \/ SetErr(v, id)
        \/ \E v \in Vals : ReRegister(v)
        \/ Reassign
        \/ EndBlock
        \/ \E dh \in {1, 49, 301} : Advance(dh)
Spec == Init /\ [][Next]_vars

-----------------------------------------------------------------------------
(* C04 *)
AttestNeedsQuorum == \A i \in DOMAIN applied : Quorum23(applied[i].power, applied[i].total)
ElectionSound == \A id \in DOMAIN msgs : LET m == msgs[id] IN m.elected # 0 =>
                   /\ Quorum23(SumShares({v \in Submitters(m) : InSnap(v)}), Total)
                   /\ \E v \in Submitters(m) : m.ests[v] <= m.elected
                   /\ \E v \in Submitters(m) : m.ests[v] >= m.elected
ElectedStable == [][\A id \in DOMAIN msgs : (id \in DOMAIN msgs' /\ msgs[id].elected # 0) => msgs'[id].elected = msgs[id].elected]_vars
(* C06 *)
SigsCurrent == \A id \in DOMAIN msgs : \A s \in msgs[id].sigs : s.ver = Version(msgs[id])
SigsUnique == \A id \in DOMAIN msgs : \A s, t \in msgs[id].sigs : (s.val = t.val \/ s.key = t.key) => s = t
(* C13b: whoever is jailed by pruning supplied no evidence -- by construction of JailSet; checked on traces *)
TypeOK == nextId >= 1 /\ DOMAIN msgs \subseteq 1..(nextId - 1)
=============================================================================
