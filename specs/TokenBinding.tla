---------------------------- MODULE TokenBinding ----------------------------
(***************************************************************************)
(* Denom <-> ERC-20 binding of x/skyway while transfers are pending.       *)
(*                                                                         *)
(* The outgoing pool stores a transfer under its CONTRACT; the denom that   *)
(* is refunded (cancel), re-pooled (batch timeout) or burned (executed      *)
(* batch) is looked up again through the reverse index contract -> denom.   *)
(* C01's escrow equation therefore depends on the reverse entry of a        *)
(* contract never changing while the contract has pending transfers.  The   *)
(* code guarantees it by never deleting a reverse entry: a token admin can   *)
(* move its denom to another contract (forward entry overwritten), but the   *)
(* abandoned contract keeps pointing at the old denom and can never be       *)
(* bound by anybody else ("token already bridged").                          *)
(*                                                                         *)
(*   Bind(u, d, c)  msgServer.SetERC20ToTokenDenom (admin of d, c unbound)  *)
(*   Send(u, d)     msgServer.SendToRemote        (amount 1, no tax)        *)
(*   Cancel(u, id)  msgServer.CancelSendToRemote                            *)
(* Properties (C01): EscrowEq, SenderWhole.                                 *)
(***************************************************************************)
EXTENDS Integers, FiniteSets, TLC

CONSTANTS Users,      \* user ids; user d is the admin of denom d
          Denoms,     \* denom ids (subset of Users)
          Contracts,  \* contract ids (positive)
          InitBal, MaxTx

VARIABLES fwd,     \* [Denoms -> Contracts \cup {0}]   denom -> contract
          rev,     \* [Contracts -> Denoms \cup {0}]   contract -> denom
          pool,    \* set of [id, sender, con]
          escrow,  \* [Denoms -> Nat]
          bal,     \* [Users -> [Denoms -> Nat]]
          lastTx, res,
          sentIn   \* monitor: [id -> denom debited when the transfer was accepted]

vars == <<fwd, rev, pool, escrow, bal, lastTx, res, sentIn>>

Init == /\ fwd = [d \in Denoms |-> 0] /\ rev = [c \in Contracts |-> 0]
        /\ pool = {} /\ escrow = [d \in Denoms |-> 0]
        /\ bal = [u \in Users |-> [d \in Denoms |-> InitBal]]
        /\ lastTx = 0 /\ res = "init" /\ sentIn = <<>>

Bind(u, d, c) ==
  LET ok == u = d /\ rev[c] = 0 IN
  /\ IF ok THEN fwd' = [fwd EXCEPT ![d] = c] /\ rev' = [rev EXCEPT ![c] = d] /\ res' = "ok"
     ELSE UNCHANGED <<fwd, rev>> /\ res' = "fail"
  /\ UNCHANGED <<pool, escrow, bal, lastTx, sentIn>>

Send(u, d) ==
  LET ok == fwd[d] # 0 /\ bal[u][d] >= 1 IN
  /\ IF ok THEN /\ pool' = pool \cup {[id |-> lastTx + 1, sender |-> u, con |-> fwd[d]]}
                /\ lastTx' = lastTx + 1
                /\ bal' = [bal EXCEPT ![u][d] = @ - 1]
                /\ escrow' = [escrow EXCEPT ![d] = @ + 1]
                /\ sentIn' = (lastTx + 1 :> d) @@ sentIn
                /\ res' = "ok"
     ELSE UNCHANGED <<pool, lastTx, bal, escrow, sentIn>> /\ res' = "fail"
  /\ UNCHANGED <<fwd, rev>>

Cancel(u, id) ==
  LET S == {tx \in pool : tx.id = id /\ tx.sender = u}
      ok == S # {} /\ \A tx \in S : rev[tx.con] # 0 /\ escrow[rev[tx.con]] >= 1 IN
  /\ IF ok THEN LET tx == CHOOSE x \in S : TRUE  d == rev[tx.con] IN
                /\ pool' = pool \ {tx}
                /\ bal' = [bal EXCEPT ![u][d] = @ + 1]
                /\ escrow' = [escrow EXCEPT ![d] = @ - 1]
                /\ res' = "ok"
     ELSE UNCHANGED <<pool, bal, escrow>> /\ res' = "fail"
  /\ UNCHANGED <<fwd, rev, lastTx, sentIn>>

Next == \/ \E u \in Users, d \in Denoms, c \in Contracts : Bind(u, d, c)
        \/ \E u \in Users, d \in Denoms : Send(u, d)
        \/ \E u \in Users, id \in 1..MaxTx : Cancel(u, id)
Spec == Init /\ [][Next]_vars

-----------------------------------------------------------------------------
Pending(d) == {tx \in pool : sentIn[tx.id] = d}
\* C01: escrow of a token = its pending outbound transfers (amount 1, no tax)
EscrowEq == \A d \in Denoms : escrow[d] = Cardinality(Pending(d))
\* C01: a transfer is refunded in full TO ITS SENDER (in the token that was taken from it)
SenderWhole == \A u \in Users, d \in Denoms : bal[u][d] + Cardinality({tx \in Pending(d) : tx.sender = u}) = InitBal
\* structural invariant that carries both (conformance only: another implementation may store the denom in the transfer)
RefundDenomStable == \A tx \in pool : rev[tx.con] = sentIn[tx.id]
\* a denom's forward entry and the reverse entry of that contract agree
FwdRevAgree == \A d \in Denoms : fwd[d] # 0 => rev[fwd[d]] = d
TypeOK == /\ \A d \in Denoms : fwd[d] \in Contracts \cup {0}
          /\ \A c \in Contracts : rev[c] \in Denoms \cup {0}
=============================================================================
