---------------------------- MODULE DeployBinding ----------------------------
(***************************************************************************)
(* C05 through state: the bytes the chain accepts signatures for depend on *)
(* the bridge DEPLOYMENT id (compass / smart contract unique id).          *)
(*                                                                         *)
(* The value-class lattice of SignBinding.tla shows that the pure encoders *)
(* bind the deployment id; here the item lives in the chain state while    *)
(* the bridge is re-deployed (evm.ActivateChainReferenceID with a new      *)
(* unique id), and signatures are offered to the real handlers:            *)
(*                                                                         *)
(*  batch    x/skyway msgServer.ConfirmBatch re-computes                   *)
(*           batch.GetCheckpoint(ChainInfo.SmartContractUniqueID): the     *)
(*           deployment id is re-read at signing time ("current");         *)
(*  message  x/consensus AddMessageSignature verifies against              *)
(*           QueuedSignedMessage.GetBytesToSign of the stored evm.Message, *)
(*           whose turnstone id was fixed when it was enqueued ("stored"). *)
(*                                                                         *)
(* Either way a signature is stored only if it is over the bytes bound to  *)
(* the deployment the item is bound to; a signature over the bytes of any  *)
(* other deployment (in particular a replaced one) is refused, so          *)
(* collected signatures can never authorise a different deployment.        *)
(***************************************************************************)
EXTENDS Integers, FiniteSets, TLC

CONSTANTS Items,        \* {"batch", "message"}
          Vals,         \* validators (each may confirm an item once)
          MaxDep,       \* deployments 1..MaxDep
          MaxOps

VARIABLES dep,          \* current deployment
          built,        \* item -> deployment it was built / enqueued under (0: not yet)
          sigs,         \* stored signatures: [item, val, over]
          last,         \* [act, item, val, over, res, bind]
          nops

vars == <<dep, built, sigs, last, nops>>

Source(i) == IF i = "batch" THEN "current" ELSE "stored"
\* the deployment whose bytes are the only ones accepted for item i
Bind(i) == IF Source(i) = "current" THEN dep ELSE built[i]

NoLast == [act |-> "Init", item |-> "-", val |-> 0, over |-> 0, res |-> "ok", bind |-> 0]

Init == dep = 1 /\ built = [i \in Items |-> 0] /\ sigs = {} /\ last = NoLast /\ nops = 0

Build(i) ==
  /\ built[i] = 0
  /\ built' = [built EXCEPT ![i] = dep]
  /\ last' = [act |-> "Build", item |-> i, val |-> 0, over |-> 0, res |-> "ok", bind |-> dep]
  /\ UNCHANGED <<dep, sigs>> /\ nops' = nops + 1

Redeploy ==
  /\ dep < MaxDep
  /\ dep' = dep + 1
  /\ last' = [act |-> "Redeploy", item |-> "-", val |-> 0, over |-> 0, res |-> "ok", bind |-> dep + 1]
  /\ UNCHANGED <<built, sigs>> /\ nops' = nops + 1

Offer(i, v, d) ==
  /\ built[i] # 0
  /\ LET has == \E s \in sigs : s.item = i /\ s.val = v
         \* the queue looks for an earlier signature of the validator first, ConfirmBatch verifies the signature first
         r == IF i = "message"
              THEN (IF has THEN "dup" ELSE IF d = Bind(i) THEN "ok" ELSE "refused")
              ELSE (IF d # Bind(i) THEN "refused" ELSE IF has THEN "dup" ELSE "ok") IN
     /\ sigs' = IF r = "ok" THEN sigs \cup {[item |-> i, val |-> v, over |-> d]} ELSE sigs
     /\ last' = [act |-> "Offer", item |-> i, val |-> v, over |-> d, res |-> r, bind |-> Bind(i)]
  /\ UNCHANGED <<dep, built>> /\ nops' = nops + 1

Next == \/ \E i \in Items : Build(i)
        \/ Redeploy
        \/ \E i \in Items, v \in Vals, d \in 1..dep : Offer(i, v, d)

Spec == Init /\ [][Next]_vars

-----------------------------------------------------------------------------
TypeOK == dep \in 1..MaxDep /\ \A i \in Items : built[i] \in 0..dep

\* a signature is stored only over the bytes of the deployment the item was bound to at that moment
StoredSigBindsDeployment ==
  (last.act = "Offer" /\ last.res = "ok") => last.over = last.bind
\* and never for a deployment that had already been replaced (batch) / that the item was not enqueued for (message)
NoForeignDeployment ==
  \A s \in sigs : IF Source(s.item) = "stored" THEN s.over = built[s.item] ELSE s.over <= dep /\ s.over >= built[s.item]
OneSigPerValidator == \A s, t \in sigs : (s.item = t.item /\ s.val = t.val) => s = t
=============================================================================
