------------------------------ MODULE Mempool ------------------------------
(***************************************************************************)
(* Application mempool of Paloma (app/mempool/priority_nonce.go): a        *)
(* priority/nonce pool.  One action per public method (Insert, Remove,     *)
(* Select, CountTx is a projection).                                       *)
(*                                                                         *)
(* Two layers:                                                             *)
(*  - the abstract contract  SelectOK(out, pending)  (property C19);       *)
(*  - the implementation-shaped algorithm  AlgoSelect  (priority index     *)
(*    ordered by (priority, weight, sender, nonce), per-sender cursors,    *)
(*    tie re-weighting on every Select) whose result must satisfy the      *)
(*    contract in every reachable pool (checked exhaustively by TLC).      *)
(***************************************************************************)
EXTENDS Integers, Sequences, FiniteSets, TLC

CONSTANTS Senders,      \* set of sender ids (integers, ordered like the bech32 strings)
          Nonces,       \* set of sequence numbers
          Classes,      \* set of integer priority classes, larger = higher
          MaxOps        \* bound on operations (model checking only)

VARIABLES pending,      \* set of [s, n, c] records
          weights,      \* [s,n] -> weight kept by the implementation between selects
          out,          \* result of the last Select (sequence of records) or <<>>
          res,          \* result of last op: "ok" / "notfound" / "select" / "init"
          nops

vars == <<pending, weights, out, res, nops>>

\* k: class of the (first) message, m: number of messages; only single-message transactions are classified by
\* their message type, all others fall into the lowest class (CheckTx priority 0)
Eff(k, m) == IF m = 1 THEN k ELSE 0
Tx == [s : Senders, n : Nonces, c : Classes]
MkTx(s, n, k, m) == [s |-> s, n |-> n, c |-> Eff(k, m)]
Key(t) == <<t.s, t.n>>
MinW == -1                      \* MinValue of the priority type (below every class)

-----------------------------------------------------------------------------
(* helpers *)
Range(f) == {f[i] : i \in DOMAIN f}

SenderTxs(P, s) == {t \in P : t.s = s}
\* the next available transaction of sender s given the set E of already emitted ones
NextAvail(P, E, s) ==
  LET R == SenderTxs(P, s) \ E
  IN  IF R = {} THEN {} ELSE {CHOOSE t \in R : \A u \in R : t.n <= u.n}

(***************************************************************************)
(* The contract (C19).                                                     *)
(***************************************************************************)
SelectOK(o, P) ==
  /\ Len(o) = Cardinality(P)
  /\ Range(o) = P                                        \* each exactly once, nothing else
  /\ \A i, j \in 1..Len(o) : (i < j /\ o[i].s = o[j].s) => o[i].n < o[j].n
  /\ \A i \in 1..Len(o) :
       LET E == {o[k] : k \in 1..(i-1)} IN
       \A s2 \in Senders \ {o[i].s} :
         \A u \in NextAvail(P, E, s2) : u.c <= o[i].c

(***************************************************************************)
(* The algorithm as coded.                                                 *)
(***************************************************************************)
\* sender index: txs of s in nonce order
RECURSIVE SortNonce(_)
SortNonce(S) == IF S = {} THEN <<>>
                ELSE LET m == CHOOSE t \in S : \A u \in S : t.n <= u.n
                     IN  <<m>> \o SortNonce(S \ {m})
SenderSeq(P, s) == SortNonce(SenderTxs(P, s))

\* senderWeight: last priority in nonce order (from the tx onwards) that differs from
\* the running weight, i.e. the priority of the last "change" -- transcribed literally
RECURSIVE WeightFrom(_, _, _)
WeightFrom(f, i, w) == IF i > Len(f) THEN w
                       ELSE WeightFrom(f, i + 1, IF f[i].c # w THEN f[i].c ELSE w)
SenderWeight(P, t) ==
  LET f == SenderSeq(P, t.s)
      i == CHOOSE k \in 1..Len(f) : f[k] = t
  IN  WeightFrom(f, i + 1, t.c)

PriorityCount(P, c) == Cardinality({t \in P : t.c = c})

\* reorderPriorityTies: recompute weight of every tx whose priority is shared
Reweigh(P, W) ==
  [k \in {Key(t) : t \in P} |->
     LET t == CHOOSE u \in P : Key(u) = k
     IN  IF PriorityCount(P, t.c) > 1 THEN SenderWeight(P, t) ELSE W[k]]

\* priority index order: priority desc, weight desc, sender desc, nonce desc
\* (skiplist keeps ascending order of a comparator that is reversed: LessThanFunc
\*  with Compare(a,b) -- larger first)
Before(W, a, b) ==
  \/ a.c > b.c
  \/ a.c = b.c /\ W[Key(a)] > W[Key(b)]
  \/ a.c = b.c /\ W[Key(a)] = W[Key(b)] /\ a.s > b.s
  \/ a.c = b.c /\ W[Key(a)] = W[Key(b)] /\ a.s = b.s /\ a.n > b.n

RECURSIVE SortPrio(_, _)
SortPrio(S, W) == IF S = {} THEN <<>>
                  ELSE LET m == CHOOSE t \in S : \A u \in S \ {t} : Before(W, t, u)
                       IN  <<m>> \o SortPrio(S \ {m}, W)
PriorityIndex(P, W) == SortPrio(P, W)

\* The iterator: state <<node index, cursors, emitted sequence>>
RECURSIVE Iterate(_, _, _, _, _, _)
\* idx: priority index seq; W weights; p: current node position (1-based);
\* cur: [sender -> number of txs already emitted for that sender]; acc: emitted
\* mode "enter": we just moved to node p (iteratePriority), "next": continue sender
Iterate(P, idx, W, p, cur, acc) ==
  IF p > Len(idx) THEN acc
  ELSE
    LET s     == idx[p].s
        nextP == IF p < Len(idx) THEN idx[p+1].c ELSE MinW
        f     == SenderSeq(P, s)
        k     == cur[s] + 1
    IN  IF k > Len(f) THEN Iterate(P, idx, W, p + 1, cur, acc)        \* end of sender iteration
        ELSE LET t == f[k] IN
          IF t.c < nextP THEN Iterate(P, idx, W, p + 1, cur, acc)
          ELSE IF t.c = nextP /\ W[Key(t)] < W[Key(idx[p+1])]
               THEN Iterate(P, idx, W, p + 1, cur, acc)
          ELSE Iterate(P, idx, W, p, [cur EXCEPT ![s] = k], Append(acc, t))

AlgoSelect(P, W) ==
  IF P = {} THEN <<>>
  ELSE Iterate(P, PriorityIndex(P, W), W, 1, [s \in Senders |-> 0], <<>>)

-----------------------------------------------------------------------------
Init == /\ pending = {} /\ weights = <<>> /\ out = <<>> /\ res = "init" /\ nops = 0

Insert(t) ==
  /\ ~\E u \in pending : Key(u) = Key(t)              \* guaranteed by transaction admission
  /\ pending' = pending \cup {t}
  /\ weights' = [k \in DOMAIN weights \cup {Key(t)} |-> IF k = Key(t) THEN 0 ELSE weights[k]]
  /\ out' = <<>> /\ res' = "ok" /\ nops' = nops + 1

Remove(t) ==
  /\ IF t \in pending
     THEN /\ pending' = pending \ {t}
          /\ weights' = [k \in DOMAIN weights \ {Key(t)} |-> weights[k]]
          /\ res' = "ok"
     ELSE /\ UNCHANGED <<pending, weights>>
          /\ res' = "notfound"
  /\ out' = <<>> /\ nops' = nops + 1

Select ==
  /\ LET W == Reweigh(pending, weights) IN
       /\ weights' = W
       /\ out' = AlgoSelect(pending, W)
  /\ res' = "select" /\ UNCHANGED pending /\ nops' = nops + 1

Next == \/ \E t \in Tx : Insert(t) \/ Remove(t)
        \/ Select

Spec == Init /\ [][Next]_vars

-----------------------------------------------------------------------------
(* Properties *)
TypeOK == /\ pending \subseteq Tx
          /\ \A t, u \in pending : Key(t) = Key(u) => t = u
          /\ DOMAIN weights = {Key(t) : t \in pending}

\* C19: whenever Select ran, its output satisfies the contract
SelectContract == res = "select" => SelectOK(out, pending)

\* the pool's count is the number of pending transactions (projection used by traces)
Count == Cardinality(pending)

OpsBound == nops <= MaxOps
=============================================================================
