-------------------------- MODULE EvmAttestTrace --------------------------
(* Trace specification for EvmAttest (property C07).                                              *)
(* `o` is the projection of the REAL stores recorded after every step (queue with the evidence    *)
(* as stored, decoded from its bytes; snapshot chains; chain info; deployment records; user       *)
(* contract deployments; processed-transaction store).  The property monitors (MONFAIL) are       *)
(* stated on `o`, on what the code reported (which messages it routed to an attester, the error   *)
(* of the end-blocker) and on the reference encodings `enc` the driver computed from the stored    *)
(* message with the bridge contract's ABI.  The spec's own variables run as a shadow model; the   *)
(* comparison with them is conformance (CONFFAIL, drift only).                                    *)
EXTENDS EvmAttest, Json
Trace == ndJsonDeserialize("trace.ndjson")
ShareFn == <<3, 1, 1, 1>>
VARIABLES l, o, accM, accH
tvars == <<vars, l, o, accM, accH>>

Report(name, cond) == cond \/ PrintT(<<"MONFAIL", name, l>>)
Conf(name, cond)   == cond \/ PrintT(<<"CONFFAIL", name, l>>)
ConfD(name, cond, detail) == cond \/ (PrintT(<<"CONFFAIL", name, l>>) /\ PrintT(<<"DETAIL", name, l, detail>>))
IsEvent(a) == l <= Len(Trace) /\ Trace[l].act = a /\ l' = l + 1
SeqSet(s) == {s[i] : i \in DOMAIN s}

\* ---- observed state ---------------------------------------------------------------------------
Q(ob) == SeqSet(ob.queue)
Ids(ob) == {q.id : q \in Q(ob)}
Voters(q, eid) == {x.v : x \in {y \in SeqSet(q.ev) : y.eid = eid}}
WinEv(q) == {g \in SeqSet(q.ev) : Quorum(Voters(q, g.eid))}          \* records of the winning group (if any)
TxWinner(q) == \E g \in WinEv(q) : g.t = "tx"
ErrWinner(q) == \E g \in WinEv(q) : g.t = "err"
\* the winning evidence is the exact encoding of the message, its receipt reports success, and the
\* transaction was not accepted before
GoodWith(q, H) == \E g \in WinEv(q) : g.t = "tx" /\ g.st = "ok" /\ g.did \in SeqSet(q.enc) /\ g.hid \notin H
Good(q) == GoodWith(q, accH)
WinHid(q) == {g.hid : g \in WinEv(q)}
DeployOf(ob) == IF Len(ob.deploy) = 0 THEN "none" ELSE ob.deploy[1].status
UserOf(ob) == IF Len(ob.user) = 0 THEN "none"
              ELSE IF ob.user[1].status = "in_flight" THEN "inflight" ELSE ob.user[1].status
EffState(ob) == <<ob.live1, ob.live2, ob.active, ob.addr, ob.deploy, ob.user>>

\* ---- conformance of the shadow model with the observation --------------------------------------
ExactObs(q, g) == g.did \in SeqSet(q.enc)
ConfState(ob) ==
  /\ ConfD("queue.ids", DOMAIN msgs' = Ids(ob), <<DOMAIN msgs', Ids(ob)>>)
  /\ \A q \in Q(ob) : q.id \in DOMAIN msgs' =>
       LET m == msgs'[q.id] IN
       /\ ConfD("queue.msg", m.kind = q.kind /\ m.sigs = q.sigs /\ m.retries = q.retries /\ (m.pad # 0) = q.pad /\ m.errd = q.errd,
                <<q.id, m.kind, q.kind, m.sigs, q.sigs, m.retries, q.retries, m.pad, q.pad>>)
       /\ \A g1, g2 \in SeqSet(q.ev) : (g1.v \in DOMAIN m.ev /\ g2.v \in DOMAIN m.ev) =>
            ConfD("grouping", (m.ev[g1.v] = m.ev[g2.v]) = (g1.eid = g2.eid), <<q.id, g1.v, g2.v>>)
       /\ ConfD("queue.voters", DOMAIN m.ev = {g.v : g \in SeqSet(q.ev)}, <<q.id, DOMAIN m.ev>>)
       /\ \A g \in SeqSet(q.ev) : (g.v \in DOMAIN m.ev /\ g.t = "tx" /\ m.ev[g.v].t = "tx") =>
            ConfD("exactness", ExactFor(q.id, m, m.ev[g.v].tx[1], IF live' = 0 THEN 1 ELSE 2) = ExactObs(q, g), <<q.id, g.v, m.ev[g.v].tx, q.enc, g.did>>)
  /\ ConfD("effects", live' = ob.live2 /\ deploy' = DeployOf(ob) /\ active' = ob.active /\ user' = UserOf(ob),
           <<live', ob.live2, deploy', DeployOf(ob), active', ob.active, user', UserOf(ob)>>)
  /\ ConfD("processed", Cardinality(processed') = Len(ob.processed), <<processed', ob.processed>>)
  /\ ConfD("height", now' = ob.height, <<now', ob.height>>)

KeepMon == UNCHANGED <<accM, accH>>
\* outside the end-blocker nothing that counts as a success effect may change
Quiet(e, allowDeploy, allowUser) ==
  /\ Report("C07.EffectsOnlyAtEndBlock",
       /\ e.obs.live1 = o.live1 /\ e.obs.live2 = o.live2 /\ e.obs.active = o.active /\ e.obs.addr = o.addr
       /\ (e.obs.deploy # o.deploy => allowDeploy /\ Len(o.deploy) = 0 /\ Len(e.obs.deploy) = 1 /\ e.obs.deploy[1].status = "inflight" /\ ~e.obs.deploy[1].hasaddr)
       /\ (e.obs.user # o.user => allowUser /\ Len(e.obs.user) = Len(o.user) + 1 /\ e.obs.user[Len(e.obs.user)].status = "in_flight"
                                  /\ \A i \in DOMAIN o.user : e.obs.user[i] = o.user[i]))

TrInit == IsEvent("Init") /\ LET e == Trace[l]  s == WRec(e.w) IN
  /\ msgs' = s.msgs /\ nextId' = s.nextId /\ txs' = s.txs /\ processed' = s.processed
  /\ live' = s.live /\ deploy' = s.deploy /\ active' = s.active /\ user' = s.user
  /\ res' = "start" /\ routed' = <<>> /\ applied' = <<>> /\ now' = 0
  /\ o' = e.obs /\ accM' = {} /\ accH' = SeqSet(e.used)      \* transactions accepted while the world was prepared
  /\ Report("Setup.Shares", e.shares = ShareFn)
  /\ ConfState(e.obs)

TrStart == IsEvent("Start") /\ LET e == Trace[l] IN
  /\ UNCHANGED vars /\ o' = e.obs /\ KeepMon
  /\ Report("Setup.World", e.obs = o)

TrEnqueue == IsEvent("Enqueue") /\ LET e == Trace[l]  a == e.args IN
  /\ Enqueue(a.kind) /\ o' = e.obs /\ KeepMon
  /\ Quiet(e, IsUsc(a.kind), a.kind = "uusc")
  /\ Conf("Enqueue.others", \A q \in Q(o) : q \in Q(e.obs))
  /\ Conf("Enqueue.res", e.res = res' /\ (e.res = "ok" => e.id = IF a.kind = "uscn" THEN nextId + 1 ELSE nextId))
  /\ ConfState(e.obs)

TrSign == IsEvent("Sign") /\ LET e == Trace[l]  a == e.args IN
  /\ Sign(a.v, a.m) /\ o' = e.obs /\ KeepMon
  /\ Quiet(e, FALSE, FALSE)
  /\ Conf("Sign.res", e.res = res')
  /\ ConfState(e.obs)

TrEvidence == IsEvent("Evidence") /\ LET e == Trace[l]  a == e.args IN
  /\ Evidence(a.v, a.m, a.t, a.of, a.k, a.corr, a.st, a.n, a.rg) /\ o' = e.obs /\ KeepMon
  /\ Quiet(e, FALSE, FALSE)
  /\ Conf("Evidence.res", e.res = res')
  /\ ConfState(e.obs)

\* time passes: nothing may change, in particular nothing that was processed is forgotten
TrAdvance == IsEvent("Advance") /\ LET e == Trace[l] IN
  /\ Advance(e.args.d) /\ o' = e.obs /\ KeepMon
  /\ Quiet(e, FALSE, FALSE)
  /\ Conf("Advance.queue", Q(e.obs) = Q(o) /\ e.obs.processed = o.processed)
  /\ ConfState(e.obs)

\* ---- the end-blocker --------------------------------------------------------------------------
TrEndBlock == IsEvent("EndBlock") /\ LET e == Trace[l]
     n == e.obs
     rIds == {e.routed[i].id : i \in DOMAIN e.routed}
     \* the message the code's attestation pass stopped at with an error (reported by the code, per message)
     failing == IF e.fail # 0 THEN {e.fail} ELSE {}
     \* messages the code reports as accepted on the strength of a transaction
     acc == {q \in Q(o) : q.id \in rIds \ failing /\ TxWinner(q)}
     goodK(k) == {q \in Q(o) : q.kind = k /\ Good(q)}
     goodUsc == goodK("usc") \cup goodK("uscn")
     newMsgs == {q \in Q(n) : q.id \notin Ids(o)}
     upgraded == \E i \in DOMAIN n.deploy : \E j \in DOMAIN o.deploy :
                    n.deploy[i].sc = o.deploy[j].sc /\ (n.deploy[i].status # o.deploy[j].status \/ n.deploy[i].hasaddr # o.deploy[j].hasaddr)
     dropped == {o.deploy[j].sc : j \in DOMAIN o.deploy} \ {n.deploy[i].sc : i \in DOMAIN n.deploy}
     userUp == \E i \in DOMAIN n.user : n.user[i].status = "active" /\ (i > Len(o.user) \/ o.user[i].status # "active")
  IN
  /\ EndBlock /\ o' = n
  /\ accM' = accM \cup {q.id : q \in acc}
  /\ accH' = accH \cup UNION {WinHid(q) : q \in acc}
  \* a transaction is accepted only if it is the exact encoding, succeeded remotely and was not accepted before
  /\ Report("C07.SuccessOnlyIfExactEncoding", \A q \in acc : GoodWith(q, {}))
  /\ Report("C07.NoSecondUse", /\ \A q \in acc : WinHid(q) \cap accH = {}
                               /\ \A q1, q2 \in acc : q1.id # q2.id => WinHid(q1) \cap WinHid(q2) = {})
  /\ Report("C07.EffectsAtMostOnce", \A q \in acc : q.id \notin accM /\ q.id \notin Ids(n))
  \* success effects in the stores need a good proof for a message of the right kind, each at most once
  /\ Report("C07.SnapshotLiveOnlyByProof", /\ n.live1 = o.live1 /\ n.live2 >= o.live2
                                           /\ n.live2 - o.live2 <= Cardinality(goodK("valset")))
  /\ Report("C07.CompassOnlyByProof",
       /\ (upgraded => goodUsc # {})
       /\ (\E q \in newMsgs : q.kind = "handover") => goodUsc # {}
       /\ ((n.active # o.active \/ n.addr # o.addr) => goodK("handover") # {})
       /\ (dropped # {} => goodK("handover") # {} \/ \E q \in Q(o) : IsUsc(q.kind) /\ ErrWinner(q))
       /\ \A i \in DOMAIN n.deploy : \E j \in DOMAIN o.deploy : n.deploy[i].sc = o.deploy[j].sc)
  /\ Report("C07.UserContractOnlyByProof", userUp => goodK("uusc") # {})
  /\ Report("C07.FailedOrForeignRemovesWithoutEffects",
       (\A q \in Q(o) : ~Good(q)) =>
          /\ n.live1 = o.live1 /\ n.live2 = o.live2 /\ n.active = o.active /\ n.addr = o.addr
          /\ ~upgraded /\ ~userUp /\ ~\E q \in newMsgs : q.kind = "handover")
  \* the store of processed transactions is the code's own book-keeping: drift only, the behaviour it must
  \* guarantee (no second acceptance) is decided by C07.NoSecondUse on replayed transactions
  /\ Conf("ProcessedRecorded", /\ SeqSet(o.processed) \subseteq SeqSet(n.processed)
                               /\ \A q \in acc : WinHid(q) \subseteq SeqSet(n.processed))
  \* conformance with the shadow model
  /\ ConfD("EndBlock.res", e.res = res' /\ e.res = (IF e.errc = "" THEN "eb" ELSE e.errc), <<e.res, e.errc, res'>>)
  /\ ConfD("EndBlock.failed", e.fail = EndBlockFailed /\ (e.fail # 0) = (e.errc # ""), <<e.fail, EndBlockFailed, e.errc>>)
  /\ ConfD("EndBlock.routed", [i \in DOMAIN e.routed |-> e.routed[i].id] = routed', <<e.routed, routed'>>)
  /\ ConfD("EndBlock.accepted", {q.id : q \in acc} = {applied'[i].m : i \in (Len(applied) + 1)..Len(applied')}, <<acc, applied'>>)
  /\ ConfState(n)

TraceInit == InitW(0) /\ l = 1 /\ o = [queue |-> <<>>] /\ accM = {} /\ accH = {}
TraceNext == TrInit \/ TrStart \/ TrEnqueue \/ TrSign \/ TrEvidence \/ TrAdvance \/ TrEndBlock
TraceAccepted == TLCGet("stats").diameter - 1 = Len(Trace)
=============================================================================
