----------------------------- MODULE AuthTrace -----------------------------
(* Trace specification for Auth (property C03).  `grants` is bound to the fee allowances the REAL     *)
(* x/feegrant keeper stores (as the next transaction sees them), `owned[p][k]` counts the steps after  *)
(* which the recorded projection of the state attributed to p (obs.pre / obs.post: one small integer   *)
(* per component, equal integers = equal content) differs; the signer's own account record (sequence)  *)
(* is not counted.  `last` is the delivered tuple, `res` what the chain reported.                      *)
(* Monitors (MONFAIL, verdict): the step properties of Auth on the observed step.                      *)
(* Conformance (CONFFAIL, drift only): result, writers and written components against the model.       *)
(* Set-up monitors (Setup.xxx): harness or coverage problems, never verdicts.                          *)
EXTENDS Auth, Json
Trace == ndJsonDeserialize("trace.ndjson")
VARIABLE l
tvars == <<vars, l>>

Report(name, cond) == cond \/ PrintT(<<"MONFAIL", name, l>>)
Conf(name, cond)   == cond \/ PrintT(<<"CONFFAIL", name, l>>)
ConfD(name, cond, detail) == cond \/ (PrintT(<<"CONFFAIL", name, l>>) /\ PrintT(<<"DETAIL", name, l, detail>>))
IsEvent(a) == l <= Len(Trace) /\ Trace[l].act = a /\ l' = l + 1

GS(v) == CASE v = 0 -> "none" [] v = 1 -> "active" [] v = 2 -> "expired" [] OTHER -> "?"
G(o) == [pr \in Pairs |-> IF pr = <<A, B>> THEN GS(o.ab) ELSE GS(o.ba)]
\* what cannot be told apart by observation: a revoked allowance is an absent one
Abs(g) == [pr \in Pairs |-> IF g[pr] = "revoked" THEN "none" ELSE g[pr]]
\* the kind of a stored allowance is only recorded by the grant steps; afterwards it stays until the allowance is gone
KeepKinds(g2) == [pr \in Pairs |-> IF g2[pr] = "none" THEN "-" ELSE gkind[pr]]
GKObs(o, pr) == IF pr = <<A, B>> THEN o.ab ELSE o.ba
PName(p) == CASE p = A -> "A" [] p = B -> "B" [] OTHER -> "G"
ToSet(s) == {s[i] : i \in DOMAIN s}

TrInit == IsEvent("Init") /\ LET e == Trace[l] IN
  /\ grants' = G(e.g)
  /\ gkind' = [pr \in Pairs |-> "-"]
  /\ owned' = [p \in P |-> [k \in Kinds |-> 0]]
  /\ last' = NoAct /\ res' = "init" /\ nops' = 0
  /\ Report("Setup.Prepared", e.prep = "")
  /\ Report("Setup.Quiescent", Len(e.idle) = 0)
  /\ Report("Setup.Components", e.ncomp = Len(Comps))
  /\ Report("Setup.NoGrants", e.g.ab = 0 /\ e.g.ba = 0)
  /\ Report("Setup.KnownKind", ToSet(e.kinds) \subseteq Kinds)

GrantActs == {"Grant", "GrantExp", "Revoke"}
Failed(e) == e.res = "blockfail"

IsGrantEvent == l <= Len(Trace) /\ Trace[l].act \in GrantActs /\ ~Failed(Trace[l]) /\ l' = l + 1
TrGrant == IsGrantEvent /\ LET e == Trace[l]  a == e.args  pr == <<a.g, a.e>> IN
  /\ grants' = G(e.g)
  /\ gkind' = [q \in Pairs |-> GKObs(e.gk, q)]
  /\ owned' = owned
  /\ last' = [Act(e.act, "", a.g, a.e, 0) EXCEPT !.k1 = IF e.act = "Revoke" THEN "" ELSE a.ak]
  /\ res' = IF e.res = "ok" THEN "ok" ELSE "fail"
  /\ nops' = nops + 1
  /\ Report("Setup.GrantPair", pr \in Pairs)
  /\ Report("Setup.AllowanceKind", e.act = "Revoke" \/ a.ak \in AKinds)
  \* the spec's own action on the observed relation
  /\ ConfD(e.act, LET m == CASE e.act = "Grant" -> [r |-> IF grants[pr] # "active" THEN "ok" ELSE "fail", s |-> "active"]
                            [] e.act = "GrantExp" -> [r |-> IF grants[pr] # "active" THEN "ok" ELSE "fail", s |-> "expired"]
                            [] e.act = "Revoke" -> [r |-> IF grants[pr] \in {"active", "expired"} THEN "ok" ELSE "fail", s |-> "none"]
                  IN /\ res' = m.r
                     /\ (m.r = "ok" => grants'[pr] = m.s)
                     /\ (m.r = "ok" /\ e.act # "Revoke" => gkind'[pr] = a.ak)     \* the stored allowance is of the granted kind
                     /\ \A q \in Pairs \ {pr} : grants'[q] = Prune(Abs(grants))[q],
           <<e.act, a, e.res, e.g, grants>>)

TrDeliver == IsEvent("Deliver") /\ ~Failed(Trace[l]) /\ LET e == Trace[l]  a == e.args  k == a.kind  r == KT[k] IN
  /\ Assert(k \in Kinds, <<"unknown kind in trace", l, k>>)
  /\ LET seen == G(e.g)         \* the allowances as the transaction saw them
         CompChanged(p, i) == e.obs.pre[PName(p)][i] # e.obs.post[PName(p)][i]
         \* the signer's own account record (sequence number, public key) moves with every transaction that passes the ante chain
         Counts(p, i) == ~(Comps[i] = "acct" /\ p = a.s)
         ChComps(p) == {Comps[i] : i \in {j \in DOMAIN Comps : CompChanged(p, j) /\ Counts(p, j)}}
         Ch(p) == ChComps(p) # {}
         modelOK == Authorised(seen, k, a.s, a.c, a.n) /\ HandlerOK(k, a.s, a.c, a.n)
     IN
     /\ grants' = G(e.gpost) /\ gkind' = KeepKinds(G(e.gpost))
     /\ owned' = [p \in P |-> IF Ch(p) THEN [owned[p] EXCEPT ![k] = @ + 1] ELSE owned[p]]
     /\ last' = Act("Deliver", k, a.s, a.c, a.n)
     /\ res' = IF e.res = "ok" THEN "ok" ELSE "fail"
     /\ nops' = nops + 1
     /\ Report("Setup.Built", e.cls # "build")
     /\ Report("Setup.GovPath", e.cls \notin {"govvote", "govstatus"})
     /\ Report("Setup.ObservedShape", \A p \in P : Len(e.obs.pre[PName(p)]) = Len(Comps) /\ Len(e.obs.post[PName(p)]) = Len(Comps))
     /\ Report("Setup.GrantsContinuous", Abs(grants) = seen)
     \* ---- property monitors (the formulas of Auth; `grants` is the relation the transaction saw)
     /\ Report("C03.NoForeignWrite", NoForeignWrite)
     /\ Report("C03.GrantNeeded", GrantNeeded)
     /\ Report("C03.GovOnly", GovOnly)
     \* ---- conformance with the model (drift, not a verdict)
     /\ ConfD("Result", (e.res = "ok") = modelOK, <<k, a, e.res, e.cls, e.cs, e.code, e.g>>)
     /\ ConfD("FailureIsNoop", FailureIsNoop, <<k, a, e.res, e.cls, {<<p, ChComps(p)>> : p \in P}>>)
     /\ ConfD("Writers", e.res = "ok" => {p \in P : Ch(p)} \subseteq Writers(k, a.s, a.c, a.n), <<k, a, {<<p, ChComps(p)>> : p \in P}>>)
     /\ ConfD("Components", (e.res = "ok" /\ ~r.gov) =>
                 \A p \in P : ChComps(p) \subseteq r.wr \cup {"bal", "acct"}, <<k, a, {<<p, ChComps(p)>> : p \in P}>>)

\* a delivery whose sender-chosen key is variant a.v of the key of an object a.n already owns
TrDeliverK == IsEvent("DeliverK") /\ ~Failed(Trace[l]) /\ LET e == Trace[l]  a == e.args  k == a.kind IN
  /\ Assert(k \in Keyed /\ a.v \in Variants, <<"unknown keyed kind / variant in trace", l, a>>)
  /\ LET seen == G(e.g)
         CompChanged(p, i) == e.obs.pre[PName(p)][i] # e.obs.post[PName(p)][i]
         Counts(p, i) == ~(Comps[i] = "acct" /\ p = a.s)
         ChComps(p) == {Comps[i] : i \in {j \in DOMAIN Comps : CompChanged(p, j) /\ Counts(p, j)}}
         Ch(p) == ChComps(p) # {}
         modelOK == (a.s = a.c \/ Granted(seen, a.c, a.s)) /\ KeyAccepted(k, a.c, a.n, a.v)
     IN
     /\ grants' = G(e.gpost) /\ gkind' = KeepKinds(G(e.gpost))
     /\ owned' = [p \in P |-> IF Ch(p) THEN [owned[p] EXCEPT ![k] = @ + 1] ELSE owned[p]]
     /\ last' = [Act("DeliverK", k, a.s, a.c, a.n) EXCEPT !.k1 = a.v]
     /\ res' = IF e.res = "ok" THEN "ok" ELSE "fail"
     /\ nops' = nops + 1
     /\ Report("Setup.Built", e.cls # "build")
     /\ Report("Setup.KeyedShape", a.s \in Users /\ a.c \in Users /\ a.n \in Users)
     /\ Report("Setup.ObservedShape", \A p \in P : Len(e.obs.pre[PName(p)]) = Len(Comps) /\ Len(e.obs.post[PName(p)]) = Len(Comps))
     /\ Report("Setup.GrantsContinuous", Abs(grants) = seen)
     \* whatever the chain makes of the key: nothing attributed to anybody but the creator (and the signer) changes
     /\ Report("C03.NoForeignWrite", NoForeignWrite)
     /\ Report("C03.GrantNeeded", GrantNeeded)
     /\ Report("C03.GovOnly", GovOnly)
     /\ ConfD("ResultK", (e.res = "ok") = modelOK, <<k, a, e.key, e.res, e.cls, e.cs, e.code, e.g>>)
     /\ ConfD("FailureIsNoop", FailureIsNoop, <<k, a, e.res, e.cls, {<<p, ChComps(p)>> : p \in P}>>)
     /\ ConfD("ComponentsK", e.res = "ok" => \A p \in P : ChComps(p) \subseteq KT[k].wr \cup {"bal", "acct"}, <<k, a, {<<p, ChComps(p)>> : p \in P}>>)

\* one transaction with two messages, both signed by a.s only: a.k1 in a.s's own name, a.k2 in a.c's name
TrDeliver2 == IsEvent("Deliver2") /\ ~Failed(Trace[l]) /\ LET e == Trace[l]  a == e.args IN
  /\ Assert(a.k1 \in Kinds /\ a.k2 \in Kinds, <<"unknown kind in trace", l, a>>)
  /\ LET seen == G(e.g)
         CompChanged(p, i) == e.obs.pre[PName(p)][i] # e.obs.post[PName(p)][i]
         Counts(p, i) == ~(Comps[i] = "acct" /\ p = a.s)
         ChComps(p) == {Comps[i] : i \in {j \in DOMAIN Comps : CompChanged(p, j) /\ Counts(p, j)}}
         Ch(p) == ChComps(p) # {}
         modelOK == /\ Authorised(seen, a.k1, a.s, a.s, a.s) /\ HandlerOK(a.k1, a.s, a.s, a.s)
                    /\ Authorised(seen, a.k2, a.s, a.c, a.c) /\ HandlerOK(a.k2, a.s, a.c, a.c)
     IN
     /\ grants' = G(e.gpost) /\ gkind' = KeepKinds(G(e.gpost))
     /\ owned' = [p \in P |-> IF Ch(p) THEN [owned[p] EXCEPT ![a.k2] = @ + 1] ELSE owned[p]]
     /\ last' = Act2(a.k1, a.k2, a.s, a.c, a.ord)
     /\ res' = IF e.res = "ok" THEN "ok" ELSE "fail"
     /\ nops' = nops + 1
     /\ Report("Setup.Built", e.cls # "build")
     /\ Report("Setup.TwoMessageShape", a.s \in Users /\ a.c \in Users /\ a.s # a.c /\ a.ord \in {1, 2} /\ {a.k1, a.k2} \subseteq Plain)
     /\ Report("Setup.ObservedShape", \A p \in P : Len(e.obs.pre[PName(p)]) = Len(Comps) /\ Len(e.obs.post[PName(p)]) = Len(Comps))
     /\ Report("Setup.GrantsContinuous", Abs(grants) = seen)
     \* the whole transaction is rejected and nothing of a.c changes unless a.c fee-granted a.s
     /\ Report("C03.NoForeignWrite", NoForeignWrite)
     /\ Report("C03.GrantNeeded", GrantNeeded)
     /\ Report("C03.GovOnly", GovOnly)
     /\ ConfD("Result2", (e.res = "ok") = modelOK, <<a, e.res, e.cls, e.cs, e.code, e.g>>)
     /\ ConfD("FailureIsNoop", FailureIsNoop, <<a, e.res, e.cls, {<<p, ChComps(p)>> : p \in P}>>)
     /\ ConfD("Writers2", e.res = "ok" => {p \in P : Ch(p)} \subseteq Writers(a.k1, a.s, a.s, a.s) \cup Writers(a.k2, a.s, a.c, a.c),
              <<a, {<<p, ChComps(p)>> : p \in P}>>)

\* the genesis export / import round trip of the whole application: nothing attributed to anybody may differ afterwards
ReimportOK == l <= Len(Trace) /\ Trace[l].act = "Reimport" /\ Trace[l].res = "ok" /\ l' = l + 1
TrReimport == ReimportOK /\ LET e == Trace[l]  k == e.args.kind IN
  /\ Assert(k \in Kinds, <<"unknown world kind in trace", l, k>>)
  /\ LET CompChanged(p, i) == e.obs.pre[PName(p)][i] # e.obs.post[PName(p)][i]
         AllCh(p) == {Comps[i] : i \in {j \in DOMAIN Comps : CompChanged(p, j)}}
         ChComps(p) == AllCh(p) \ NotInGenesis          \* what the genesis of the modules carries
         Ch(p) == ChComps(p) # {}
     IN
     /\ grants' = G(e.gpost) /\ gkind' = KeepKinds(G(e.gpost))
     /\ owned' = [p \in P |-> IF Ch(p) THEN [owned[p] EXCEPT ![k] = @ + 1] ELSE owned[p]]
     /\ last' = Act("Reimport", "", 0, 0, 0)
     /\ res' = "ok" /\ nops' = nops + 1
     /\ Report("Setup.ObservedShape", \A p \in P : Len(e.obs.pre[PName(p)]) = Len(Comps) /\ Len(e.obs.post[PName(p)]) = Len(Comps))
     /\ Report("C03.NoForeignWrite", NoForeignWrite)
     /\ ConfD("Reimport", Reimport, <<k, {<<p, ChComps(p)>> : p \in P}>>)
     \* reported, not judged: attributed state the genesis export does not carry at all
     /\ ConfD("ReimportNotInGenesis", \A p \in P : AllCh(p) \cap NotInGenesis = {}, <<k, {<<p, AllCh(p) \cap NotInGenesis>> : p \in P}>>)
\* the export or the import failed (panic / error): the harness cannot go on - not a verdict of C03
TrReimportFail == /\ l <= Len(Trace) /\ Trace[l].act = "Reimport" /\ Trace[l].res # "ok" /\ l' = l + 1
                  /\ UNCHANGED vars /\ Report("Setup.ReimportWorks", FALSE)

\* which sdk.Msg types the Paloma modules registered, which of them the router serves, and the driver's own table
TrRegistry == IsEvent("Registry") /\ LET e == Trace[l]
                                        regs == ToSet(e.reg)  routed == ToSet(e.routed)
                                        drv == {<<e.table[i].kind, e.table[i].url>> : i \in DOMAIN e.table} IN
  /\ UNCHANGED vars
  /\ Report("Setup.KindTableComplete", regs \subseteq TableUrls \cup NotMessages)      \* an unlisted type = coverage gap
  /\ Report("Setup.KindTableRouted", routed = RoutedUrls)
  /\ Report("Setup.KindTableNoStale", TableUrls \cup NotMessages \subseteq regs)
  /\ Report("Setup.KindTableDriver", drv = {<<Rows[i].kind, Rows[i].url>> : i \in DOMAIN Rows})
  /\ Report("Setup.ComponentNames", e.comps = Comps)

\* a block that could not be finalised / committed at all
TrBlockFail == /\ l <= Len(Trace) /\ Trace[l].act \in GrantActs \cup {"Deliver", "Deliver2", "DeliverK"} /\ Failed(Trace[l]) /\ l' = l + 1
               /\ UNCHANGED vars /\ Report("Setup.BlockFailure", FALSE)

TraceInit == Init /\ l = 1
TraceNext == TrInit \/ TrReimport \/ TrReimportFail \/ TrGrant \/ TrDeliver \/ TrDeliver2 \/ TrDeliverK \/ TrRegistry \/ TrBlockFail
TraceAccepted == TLCGet("stats").diameter - 1 = Len(Trace)
=============================================================================
