------------------------- MODULE TokenFactoryTrace -------------------------
(* Trace specification for TokenFactory: the state variables are bound to the projection of   *)
(* the REAL bank / tokenfactory stores recorded after every signed transaction; `last` is the  *)
(* executed message, `res` the class of the ABCI result the chain reported, minted / burned    *)
(* accumulate the amounts of the messages the chain reported as successful.                    *)
(* Property monitors (MONFAIL, verdict): the invariants and step properties of TokenFactory    *)
(* evaluated on observed state.  Conformance (CONFFAIL, drift only): the observed step equals  *)
(* the spec's own action, including the failure class.                                         *)
EXTENDS TokenFactory, Json
Trace == ndJsonDeserialize("trace.ndjson")
FundsSmall == <<2, 1, 0>>
NoGrants == {{}}
VARIABLE l
tvars == <<vars, l>>

Report(name, cond) == cond \/ PrintT(<<"MONFAIL", name, l>>)
Conf(name, cond)   == cond \/ PrintT(<<"CONFFAIL", name, l>>)
ConfD(name, cond, detail) == cond \/ (PrintT(<<"CONFFAIL", name, l>>) /\ PrintT(<<"DETAIL", name, l, detail>>))
IsEvent(a) == l <= Len(Trace) /\ Trace[l].act = a /\ l' = l + 1

Recs(o) == {o.den[i] : i \in DOMAIN o.den}
\* the driver lists the tracked denoms in a fixed order: factory denoms by (creator, sub), then the non-factory ones
NSubs == Cardinality(Subs)
Idx(d) == IF d[1] = 0 THEN Cardinality(Accounts) * NSubs + d[2] ELSE (d[1] - 1) * NSubs + d[2]
RecOf(o, d) == o.den[Idx(d)]
Ordered(o) == Len(o.den) = Cardinality(AllDenoms) /\ \A d \in AllDenoms : RecOf(o, d).c = d[1] /\ RecOf(o, d).s = d[2]

\* bind the observable part of the state to the recorded projection
Bind(o) ==
  /\ denoms' = [d \in {x \in AllDenoms : RecOf(o, x).auth = 1} |-> RecOf(o, d).admin]
  /\ bmeta'  = [d \in {x \in AllDenoms : RecOf(o, x).hm = 1} |-> RecOf(o, d).meta]
  /\ supply' = [d \in AllDenoms |-> RecOf(o, d).sup]
  /\ bal'    = [d \in AllDenoms |-> [a \in Accounts |-> RecOf(o, d).bal[a]]]
  /\ funds'  = o.funds
  /\ grants' = {<<o.grants[i][1], o.grants[i][2]>> : i \in DOMAIN o.grants}

\* class of an ABCI result (codespace, code)
Class(cs, code) ==
  CASE cs = "undefined" /\ code = 1 -> "err"
    [] cs = "tokenfactory" /\ code = 2 -> "exists"
    [] cs = "tokenfactory" /\ code = 3 -> "unauth"
    [] cs = "tokenfactory" /\ code = 4 -> "invalid"
    [] cs = "tokenfactory" /\ code = 10 -> "nodenom"
    [] cs = "sdk" /\ code = 5 -> "funds"
    [] OTHER -> "other"

Zero == [d \in AllDenoms |-> 0]

\* ---- property monitors on the observed step ------------------------------------------------
Monitors(e) ==
  /\ Assert(Ordered(e.obs), <<"driver lists denoms in an unexpected order", l>>)
  /\ Report("C16.ObservedTypes", TypeOK')
  /\ Report("C16.SupplyLedger", SupplyLedger')
  /\ Report("C16.BalancesBackSupply", BalancesBackSupply' /\ \A r \in Recs(e.obs) : r.mod = 0)
  /\ Report("C16.NamespaceOK", NamespaceOK' /\ e.obs.nden = Cardinality(DOMAIN denoms'))
  /\ Report("C16.NonFactoryUntouched", NonFactoryUntouched')
  \* no denomination other than the tracked literal names (factory/<creator>/<sub-denom as given>, the native and
  \* the foreign ones) exists in the module's creator index, its authority records, bank metadata or bank supply
  /\ Report("C16.NoForeignDenoms", e.obs.x = <<0, 0, 0, 0>>)

StepMonitors(e) ==
  /\ Report("C16.OnlyAdminActs", OnlyAdminActs)
  /\ Report("C16.OwnBalanceOnly", OwnBalanceOnly)
  /\ Report("C16.AdminHandover", AdminHandover)
  /\ Report("C16.CreateNamespace", CreateNamespace /\
            ((e.res = "ok" /\ e.act = "Create") => (e.nd.c = e.args.as /\ e.nd.s = e.args.s)))
  \* (metadata across a genesis round trip is judged by the two Reimport monitors below)
  /\ Report("C16.MetadataByAdmin", e.act = "Reimport" \/ MetadataByAdmin)
  /\ Report("C16.FailureIsNoop", FailureIsNoop)
  /\ Report("C16.FeeFromCreator", FeeFromCreator)
  /\ Report("C16.ReimportPreserves", ReimportKeepsRecords /\ (e.act = "Reimport" => MetadataResetOnly))
  /\ Report("C16.ReimportKeepsMetadata", ReimportKeepsMetadata)
  /\ Report("C16.GrantsStable", grants' = grants)

SpecAction(e) ==
  LET a == e.args  d == <<e.args.c, e.args.s>> IN
  CASE e.act = "Create"      -> Create(a.who, a.as, a.s)
    [] e.act = "Mint"        -> Mint(a.who, a.as, d, a.amt)
    [] e.act = "Burn"        -> Burn(a.who, a.as, d, a.amt)
    [] e.act = "ChangeAdmin" -> ChangeAdmin(a.who, a.as, d, a.new)
    [] e.act = "SetMetadata" -> SetMetadata(a.who, a.as, d)
    [] e.act = "Reimport"    -> Reimport

Acts == {"Create", "Mint", "Burn", "ChangeAdmin", "SetMetadata", "Reimport"}

TrInit == IsEvent("Init") /\ LET e == Trace[l] IN
  /\ Bind(e.obs)
  /\ minted' = Zero /\ burned' = Zero
  /\ res' = "init" /\ last' = Rec("Init", 0, 0, 0, 0, 0, 0) /\ nops' = 0
  /\ Monitors(e)
  \* the genesis the driver built is the initial state of the model
  /\ Conf("Init", /\ denoms' = [d \in {} |-> 0]
                  /\ bmeta' = [d \in (IF e.args.nmeta = 1 THEN {Native} ELSE {}) |-> 0]
                  /\ supply' = Zero /\ bal' = [d \in AllDenoms |-> [a \in Accounts |-> 0]]
                  /\ funds' = e.args.funds /\ e.feedenom = "ugrain"
                  /\ grants' = {<<e.args.grants[i][1], e.args.grants[i][2]>> : i \in DOMAIN e.args.grants})

ActEvent(failed) == /\ l <= Len(Trace) /\ Trace[l].act \in Acts
                    /\ (Trace[l].res = "blockfail") = failed /\ l' = l + 1

TrAct == ActEvent(FALSE) /\ LET e == Trace[l]  a == e.args  ok == e.res = "ok"  d == <<e.args.c, e.args.s>> IN
  /\ Bind(e.obs)
  /\ last' = Rec(e.act, a.who, a.as, a.c, a.s, a.amt, a.new)
  /\ res' = IF ok THEN "ok" ELSE Class(e.cs, e.code)
  /\ nops' = nops + 1
  /\ minted' = IF ok /\ e.act = "Mint" /\ d \in AllDenoms THEN [minted EXCEPT ![d] = @ + a.amt] ELSE minted
  /\ burned' = IF ok /\ e.act = "Burn" /\ d \in AllDenoms THEN [burned EXCEPT ![d] = @ + a.amt] ELSE burned
  /\ Monitors(e)
  /\ StepMonitors(e)
  /\ ConfD(e.act, SpecAction(e), <<e.act, a, res', e.cs, e.code>>)

\* a block that could not be finalised / committed at all
TrBlockFail == ActEvent(TRUE) /\ UNCHANGED vars /\ Report("C16.BlockFailure", FALSE)

TraceInit == InitWith(1, {}) /\ l = 1
TraceNext == TrInit \/ TrAct \/ TrBlockFail
TraceAccepted == TLCGet("stats").diameter - 1 = Len(Trace)
=============================================================================
