----------------------------- MODULE ValsetTrace -----------------------------
(* Trace specification for Valset: the state variables are bound to the projection of the REAL  *)
(* staking / valset / evm / consensus stores recorded after every step.  Property monitors       *)
(* named C10.x and C12.x decide, comparison with the spec's own action is conformance (drift).   *)
(* C10 events: InitS Build SetOnChain Publish Register Activate Delegate Undelegate JailF Unjail  *)
(*             StakingEB.   C12 events: InitK Blocks KeepAlive Jail Unjail SetMinVersion.         *)
(* Powers are recorded in base 2^16 (hi, lo) because TLC integers have 32 bits; MaxPower of the   *)
(* cfg is 2^16, so the spec-level queue holds the high halves (used for conformance only) and    *)
(* the monitors compute floor(share * 2^32 / total) exactly by long division.                    *)
EXTENDS Valset, Json
Trace == ndJsonDeserialize("trace.ndjson")
RealSentences == <<60, 300, 900, 3600, 86400>>
VARIABLES l, rq, part,
          sfp,      \* id -> fingerprint of the complete stored snapshot record (all fields but the chain list)
          issued    \* number of snapshot ids handed out so far (initial snapshot + successful builds)
tvars == <<vars, l, rq, part, sfp, issued>>

Report(name, cond) == cond \/ PrintT(<<"MONFAIL", name, l>>)
Conf(name, cond)   == cond \/ PrintT(<<"CONFFAIL", name, l>>)
ConfD(name, cond, detail) == cond \/ (PrintT(<<"CONFFAIL", name, l>>) /\ PrintT(<<"DETAIL", name, l, detail>>))
IsEvent(a) == l <= Len(Trace) /\ Trace[l].act = a /\ l' = l + 1

StatusName == <<"bonded", "unbonding", "unbonded">>
NoRq == [id |-> 0, mid |-> 0, pw |-> <<>>, n |-> 0]

ObsStaking(o) ==
  /\ status' = [v \in Vals |-> StatusName[o.status[v] + 1]]
  /\ jailed' = [v \in Vals |-> o.jailed[v]]
  /\ stake' = [v \in Vals |-> o.stake[v]]

\* ---- C10 binding -------------------------------------------------------------------------------
SnapOf(r) == LET I == DOMAIN r.vals  V == {r.vals[i].v : i \in I}
                 at(v) == CHOOSE i \in I : r.vals[i].v = v
             IN  [vals |-> V, share |-> [v \in V |-> r.vals[at(v)].share], accts |-> [v \in V |-> SeqSet(r.vals[at(v)].accts)],
                  gen |-> [v \in V |-> r.vals[at(v)].gen],
                  total |-> r.total, chains |-> r.chains, at |-> r.at]
SnapsOf(s) == LET ids == {s[i].id : i \in DOMAIN s} IN [id \in ids |-> SnapOf(s[CHOOSE i \in DOMAIN s : s[i].id = id])]
\* the newest UpdateValset message in the queue of chain c
MsgsOf(q, c) == {i \in DOMAIN q : q[i].c = c}
NewestOf(q, c) == q[CHOOSE i \in MsgsOf(q, c) : \A j \in MsgsOf(q, c) : q[j].mid <= q[i].mid]
RqOf(q, c) == IF MsgsOf(q, c) = {} THEN NoRq
              ELSE LET m == NewestOf(q, c)  V == {m.vals[i].v : i \in DOMAIN m.vals}
                       at(v) == CHOOSE i \in DOMAIN m.vals : m.vals[i].v = v
                   IN [id |-> m.id, mid |-> m.mid, pw |-> [v \in V |-> <<m.vals[at(v)].hi, m.vals[at(v)].lo>>], n |-> Len(m.vals)]
FpOf(s) == LET ids == {s[i].id : i \in DOMAIN s} IN [id \in ids |-> s[CHOOSE i \in DOMAIN s : s[i].id = id].fp]
\* rot: the validator whose account record was successfully re-registered with another key / trait in this step (0: none);
\* the generation of a validator without any account cannot be read off the store and is carried by the model
ObsSnapR(o, rot) ==
  /\ accts' = [v \in Vals |-> SeqSet(o.accts[v])]
  /\ gen' = [v \in Vals |-> IF o.gen[v] >= 0 THEN o.gen[v] ELSE IF v = rot THEN gen[v] + 1 ELSE gen[v]]
  /\ sfp' = FpOf(o.snaps)
  /\ active' = SeqSet(o.active)
  /\ lastId' = o.cur
  /\ snaps' = SnapsOf(o.snaps)
  /\ rq' = [c \in Chains |-> RqOf(o.queue, c)]
  /\ queue' = [c \in Chains |-> IF rq'[c] = NoRq THEN NoMsg ELSE [id |-> rq'[c].id, pw |-> [v \in DOMAIN rq'[c].pw |-> rq'[c].pw[v][1]]]]
  /\ now' = o.now
ObsSnap(o) == ObsSnapR(o, 0)

\* exact arithmetic at 2^32 in base 2^16
B == 65536
PowerHL(s, t) == IF t = 0 THEN <<0, 0>> ELSE <<(s * B) \div t, (((s * B) % t) * B) \div t>>
SumHL(pw) == LET hi == [v \in DOMAIN pw |-> pw[v][1]]  lo == [v \in DOMAIN pw |-> pw[v][2]]
                 L == SumOver(lo, DOMAIN pw)
             IN  <<SumOver(hi, DOMAIN pw) + (L \div B), L % B>>
GEHL(a, b) == a[1] > b[1] \/ (a[1] = b[1] /\ a[2] >= b[2])
ThresholdHL == <<43690, 43690>>       \* 2863311530 = 43690 * 2^16 + 43690, thresholdForConsensus
MaxHL == <<65536, 0>>                 \* 2^32

ProjectionOK(c) == rq'[c] # NoRq =>
  /\ rq'[c].id \in DOMAIN snaps'
  /\ LET s == snaps'[rq'[c].id]  M == {v \in s.vals : c \in s.accts[v]} IN
       /\ DOMAIN rq'[c].pw = M /\ rq'[c].n = Cardinality(M)
       /\ \A v \in M : rq'[c].pw[v] = PowerHL(s.share[v], s.total)
       /\ GEHL(MaxHL, SumHL(rq'[c].pw))
GateOKHL(c) == rq'[c] # NoRq => GEHL(SumHL(rq'[c].pw), ThresholdHL) /\ c \in active'
Sent(c) == rq'[c] # NoRq /\ rq'[c].mid # rq[c].mid

AlwaysS(e) ==
  /\ Report("Setup.KnownValidators", /\ \A i \in DOMAIN e.obs.snaps : \A j \in DOMAIN e.obs.snaps[i].vals : e.obs.snaps[i].vals[j].v \in Vals
                                     /\ \A i \in DOMAIN e.obs.queue : \A j \in DOMAIN e.obs.queue[i].vals : e.obs.queue[i].vals[j].v \in Vals)
  /\ Report("Setup.WholeUnits", /\ \A v \in Vals : e.obs.rem[v] = 0
                                /\ \A i \in DOMAIN e.obs.snaps : e.obs.snaps[i].trem = 0 /\ \A j \in DOMAIN e.obs.snaps[i].vals : e.obs.snaps[i].vals[j].rem = 0)
  /\ Report("C10.SnapshotFaithful", FaithfulStep)
  /\ Report("C10.IdsIncrease", IdsIncreaseStep)
  \* the current snapshot, by the keeper getter and by the query with id 0, is the one with the highest id ever issued
  /\ Report("C10.CurrentIsHighest", /\ DOMAIN snaps' # {} => lastId' = MaxOf(DOMAIN snaps')
                                     /\ lastId' = issued' /\ e.obs.curq = issued' /\ DOMAIN snaps' = 1..issued')
  \* ... and no stored record changes in any field (addresses, keys, balances, traits, shares) except its chain list
  /\ Report("C10.Immutable", ImmutableStep /\ \A id \in DOMAIN sfp : id \in DOMAIN sfp' /\ sfp'[id] = sfp[id])
  /\ Report("C10.ProjectionCorrect", \A c \in Chains : ProjectionOK(c))
  /\ Report("C10.PublishGate", \A c \in Chains : GateOKHL(c))
  /\ Report("C10.PublishesCurrent", \A c \in Chains : Sent(c) => rq'[c].id = lastId')
  /\ (e.act \notin {"Build", "Publish"} => Report("C10.OnlyPublishSends", \A c \in Chains : rq'[c] = rq[c]))
  /\ (e.act \notin {"Build", "SetOnChain"} => Report("C10.OnlyBuildAndSetOnChainWriteSnapshots", snaps' = snaps /\ lastId' = lastId))

KeepAliveVars == UNCHANGED <<h, aliveUntil, grace, prev, jailLog, until, jhist, minVer, sched>>
Ok(e) == e.res = "ok"

TrInitS == IsEvent("InitS") /\ LET e == Trace[l] IN
  /\ ObsStaking(e.obs) /\ ObsSnap(e.obs)
  /\ deleg' = [v \in Vals |-> 0] /\ unbondAt' = [v \in Vals |-> IF e.obs.status[v] = 1 THEN e.obs.now + UnbondTime ELSE 0]
  /\ h' = 1 /\ aliveUntil' = [v \in Vals |-> 0] /\ grace' = [v \in Vals |-> 0] /\ prev' = {}
  /\ jailLog' = [v \in Vals |-> [dur |-> Sentences[1], at |-> NoTime]] /\ until' = [v \in Vals |-> 0] /\ jhist' = [v \in Vals |-> <<>>]
  /\ minVer' = DefaultVer /\ sched' = NoSched
  /\ last' = [act |-> "Init", ok |-> TRUE] /\ part' = "snap" /\ issued' = 1
  /\ Report("Setup.Constants", e.maxvals = MaxVals /\ e.unbond = UnbondTime /\ e.nchains = Cardinality(Chains) /\ Len(e.obs.stake) = N)
  /\ Report("Setup.InitialSnapshot", DOMAIN snaps' = {1} /\ lastId' = 1 /\ \A c \in Chains : rq'[c] = NoRq)
  /\ Report("Setup.Generation", \A v \in Vals : gen'[v] = 0)
  /\ Conf("InitS", status' = InitStatus(stake') /\ snaps'[1].vals = Vals /\ snaps'[1].share = stake')

\* generic C10 step: bind, keep the unobserved parts, evaluate the monitors, compare with the spec action
StepSR(e, spec, rot) ==
  /\ ObsStaking(e.obs) /\ ObsSnapR(e.obs, rot) /\ KeepAliveVars /\ part' = part
  /\ issued' = IF e.act = "Build" /\ e.res = "ok" THEN issued + 1 ELSE issued
  /\ last' = [act |-> e.act, ok |-> (e.res = "ok")]
  /\ AlwaysS(e)
  /\ Conf(e.act, spec)
StepS(e, spec) == StepSR(e, spec, 0)

TrBuild == IsEvent("Build") /\ LET e == Trace[l] IN
  /\ UNCHANGED <<deleg, unbondAt>>
  /\ StepS(e, Build({}))
  /\ Report("C10.BuildResult", (e.res = "ok") = (DOMAIN snaps' # DOMAIN snaps) /\ e.res # "fail")
TrSetOnChain == IsEvent("SetOnChain") /\ LET e == Trace[l] IN
  /\ UNCHANGED <<deleg, unbondAt>> /\ StepS(e, SetOnChain(e.args.id, e.args.c))
  /\ (Ok(e) => Report("C10.SetOnChainAdds", e.args.id \in DOMAIN snaps /\ snaps'[e.args.id].chains = Append(snaps[e.args.id].chains, e.args.c)))
TrPublish == IsEvent("Publish") /\ LET e == Trace[l] IN
  /\ UNCHANGED <<deleg, unbondAt>> /\ StepS(e, Publish(e.args.force, {}))
TrRegister == IsEvent("Register") /\ LET e == Trace[l] IN
  /\ UNCHANGED <<deleg, unbondAt>> /\ StepS(e, Register(e.args.v, SeqSet(e.args.cs)))
TrRotate == IsEvent("Rotate") /\ LET e == Trace[l] IN
  /\ UNCHANGED <<deleg, unbondAt>> /\ StepSR(e, Rotate(e.args.v), IF Ok(e) THEN e.args.v ELSE 0)
  /\ Report("C10.RotateKeepsChains", accts' = accts)
TrSetBalance == IsEvent("SetBalance") /\ LET e == Trace[l] IN
  /\ UNCHANGED <<deleg, unbondAt>> /\ StepS(e, SetBalance(e.args.v, e.args.c))
  /\ Report("C10.BalanceReportKeepsAccounts", accts' = accts /\ gen' = gen)
TrActivate == IsEvent("Activate") /\ LET e == Trace[l] IN
  /\ UNCHANGED <<deleg, unbondAt>> /\ StepS(e, Activate(e.args.c))
TrDelegate == IsEvent("Delegate") /\ LET e == Trace[l] IN
  /\ deleg' = (IF Ok(e) THEN [deleg EXCEPT ![e.args.v] = @ + e.args.a] ELSE deleg) /\ UNCHANGED unbondAt
  /\ StepS(e, Delegate(e.args.v, e.args.a))
TrUndelegate == IsEvent("Undelegate") /\ LET e == Trace[l] IN
  /\ deleg' = (IF Ok(e) THEN [deleg EXCEPT ![e.args.v] = @ - e.args.a] ELSE deleg) /\ UNCHANGED unbondAt
  /\ StepS(e, Undelegate(e.args.v, e.args.a))
TrJailF == IsEvent("JailF") /\ LET e == Trace[l] IN
  /\ UNCHANGED <<deleg, unbondAt>> /\ StepS(e, JailF(e.args.v))
TrStakingEB == IsEvent("StakingEB") /\ LET e == Trace[l] IN
  /\ UNCHANGED deleg /\ unbondAt' = UnbondAfter(status, jailed, stake, unbondAt, now + e.args.dt)
  /\ StepS(e, StakingEB(e.args.dt))

\* ---- C12 binding -------------------------------------------------------------------------------
ObsAlive(o) ==
  /\ ObsStaking(o)
  /\ aliveUntil' = [v \in Vals |-> o.au[v]]
  /\ until' = [v \in Vals |-> o.until[v]]
  /\ minVer' = o.minVer /\ sched' = [ver |-> o.sched.ver, target |-> o.sched.target]
  /\ h' = o.h /\ now' = o.now
SnapVarsKept == UNCHANGED <<accts, gen, active, snaps, lastId, queue, rq, deleg, sfp, issued>>
Newly == {v \in Vals : jailed'[v] /\ ~jailed[v]}
\* the sentence actually served is read from the slashing signing info (JailedUntil)
JhistAfter(t) == [v \in Vals |-> IF v \in Newly THEN Append(jhist[v], [at |-> t, dur |-> until'[v] - t]) ELSE jhist[v]]
JailLogAfter(t) == [v \in Vals |-> IF v \in Newly THEN [dur |-> until'[v] - t, at |-> t] ELSE jailLog[v]]
VName(v) == ToString(v)

TrInitK == IsEvent("InitK") /\ LET e == Trace[l] IN
  /\ ObsAlive(e.obs)
  /\ deleg' = [v \in Vals |-> 0] /\ unbondAt' = [v \in Vals |-> IF e.obs.status[v] = 1 THEN e.obs.now + UnbondTime ELSE 0]
  /\ accts' = [v \in Vals |-> Chains] /\ gen' = [v \in Vals |-> 0] /\ sfp' = <<>> /\ issued' = 0 /\ active' = Chains /\ snaps' = <<>> /\ lastId' = 0 /\ queue' = [c \in Chains |-> NoMsg] /\ rq' = [c \in Chains |-> NoRq]
  /\ grace' = [v \in Vals |-> 0] /\ prev' = {}
  /\ jailLog' = [v \in Vals |-> [dur |-> Sentences[1], at |-> NoTime]] /\ jhist' = [v \in Vals |-> <<>>]
  /\ last' = [act |-> "Init", ok |-> TRUE]
  \* operator addresses of different lengths: store order and power-index tie order differ from the model's index order,
  \* so the comparison with the model's own Blocks action is skipped for those worlds (monitors are order-independent)
  /\ part' = IF e.mixed THEN "alive-mixed" ELSE "alive"
  /\ Report("Setup.Constants", /\ e.ttl = TTL /\ e.grace = Grace /\ e.sweep = Sweep /\ e.warmup = WarmUp
                               /\ e.maxvals = MaxVals /\ e.unbond = UnbondTime /\ Len(e.obs.stake) = N)
  /\ Report("Setup.Fresh", /\ \A v \in Vals : ~jailed'[v] /\ aliveUntil'[v] = 0
                           /\ minVer' = DefaultVer /\ sched' = NoSched /\ h' = 1 /\ now' = 0)
  /\ (~e.mixed => Conf("InitK", status' = InitStatus(stake')))

\* would the liveness check of block hh have to jail v, the jailed flags before it being J
MJ(J, hh, v) == /\ ~J[v] /\ status'[v] \in {"bonded", "unbonding"}
                /\ ~Alive(aliveUntil', hh, v) /\ ~InGrace(grace', hh, v)
                /\ ~Protected(jailed', status', stake', v)

TrBlocks == IsEvent("Blocks") /\ LET e == Trace[l]  from == e.from  to == e.to
                                      s == FastRun(St, to - from + 1, e.args.dt) IN
  /\ ObsAlive(e.obs) /\ SnapVarsKept /\ part' = part
  /\ last' = [act |-> "Block", ok |-> Ok(e)]
  \* monitor state: grace is granted in the first block of the run to who is unjailed and was not at the end of the last block
  /\ grace' = [v \in Vals |-> IF ~jailed[v] /\ v \notin prev /\ to >= from THEN from ELSE grace[v]]
  /\ prev' = IF to >= from THEN {v \in Vals : ~jailed'[v]} ELSE prev
  /\ jhist' = JhistAfter(e.t0) /\ jailLog' = JailLogAfter(e.t0)
  /\ unbondAt' = s.unbondAt
  /\ Report("C12.BlocksRun", Ok(e) /\ to >= from /\ from = h /\ h' = to + 1 /\ e.t0 = now /\ now' = now + (to - from + 1) * e.args.dt)
  /\ \A v \in Vals : Report((IF status'[v] # "bonded" /\ Cardinality(ActiveSet(jailed', status')) = 1
                              THEN "C12.JailedAtNextSweep.notBondedWhileOneActive.v" ELSE "C12.JailedAtNextSweep.v") \o VName(v),
        /\ (IsSweep(from) /\ MJ(jailed, from, v)) => jailed'[v]
        /\ \A hh \in (from + 1)..to : IsSweep(hh) => ~MJ(jailed', hh, v))
  /\ Report("C12.ResponsiveNeverJailed", \A v \in Newly : ~Alive(aliveUntil, from, v))
  /\ \A v \in Vals : Report("C12.GraceRespected.v" \o VName(v), v \in Newly => ~InGrace(grace', from, v))
  /\ Report("C12.ProtectionRespected", /\ \A v \in Newly : ~(4 * Pow(status', stake', v) > Total(jailed, status', stake'))
                                       /\ (ActiveSet(jailed, status') # {} => ActiveSet(jailed', status') # {}))
  /\ Report("C12.OnlySweepJails", Newly # {} => IsSweep(from))
  /\ Report("C12.BlocksNeverUnjail", \A v \in Vals : jailed[v] => jailed'[v])
  /\ Report("C12.MinVersionMonotone", minVer' >= minVer)
  /\ Report("C12.SentenceSchedule", \A v \in Vals : SchedOK(jhist'[v]))
  /\ Report("C12.KeepAliveKept", aliveUntil' = aliveUntil)
  /\ part = "alive" =>
       /\ ConfD("Blocks.jailed", s.jailed = jailed', <<s.jailed, jailed'>>)
       /\ ConfD("Blocks.status", s.status = status', <<s.status, status', s.unbondAt, now>>)
       /\ Conf("Blocks.until", s.until = until')
       /\ Conf("Blocks.version", s.minVer = minVer' /\ s.sched = sched')
       /\ ConfD("Blocks.graceStore", \A v \in Vals : ~jailed'[v] => e.obs.graceStore[v] = s.grace[v], <<e.obs.graceStore, s.grace>>)

MsgStep(e) == ObsAlive(e.obs) /\ SnapVarsKept /\ part' = part /\ UNCHANGED <<grace, prev, unbondAt>>
MsgMon(e) == /\ Report("C12.MsgKeepsHeight", h' = h /\ now' = now /\ status' = status /\ stake' = stake)
             /\ Report("C12.MinVersionMonotone", minVer' >= minVer)

TrKeepAlive == IsEvent("KeepAlive") /\ LET e == Trace[l]  v == e.args.v  ver == e.args.ver IN
  /\ MsgStep(e) /\ UNCHANGED <<jhist, jailLog>>
  /\ last' = [act |-> "KeepAlive", ok |-> Ok(e), ver |-> ver]
  /\ MsgMon(e)
  /\ Report("C12.VersionGate", Ok(e) => (ver >= minVer /\ ver > 0))
  /\ Report("C12.KeepAliveLifetime", IF Ok(e) THEN aliveUntil' = [aliveUntil EXCEPT ![v] = h + TTL] ELSE aliveUntil' = aliveUntil)
  /\ Report("C12.KeepAliveTouchesNothingElse", jailed' = jailed /\ until' = until /\ minVer' = minVer /\ sched' = sched)
  /\ Conf("KeepAlive", KeepAlive(v, ver))

TrJail == IsEvent("Jail") /\ LET e == Trace[l]  v == e.args.v IN
  /\ MsgStep(e)
  /\ last' = [act |-> "Jail", ok |-> Ok(e)]
  /\ jhist' = JhistAfter(now) /\ jailLog' = JailLogAfter(now)
  /\ MsgMon(e)
  /\ Report("C12.JailResult", IF Ok(e) THEN Newly = {v} /\ \A u \in Vals \ {v} : jailed'[u] = jailed[u] ELSE jailed' = jailed /\ until' = until)
  /\ Report("C12.ProtectionRespected", Ok(e) => ~Protected(jailed, status, stake, v))
  /\ Report("C12.SentenceSchedule", \A u \in Vals : SchedOK(jhist'[u]))
  /\ Conf("Jail", Ok(e) = CanJail(jailed, status, stake, v))

TrUnjail == IsEvent("Unjail") /\ LET e == Trace[l]  v == e.args.v IN
  /\ IF part # "snap"
     THEN /\ MsgStep(e) /\ UNCHANGED <<jhist, jailLog>> /\ last' = [act |-> "Unjail", ok |-> Ok(e)]
          /\ MsgMon(e)
          /\ Report("C12.UnjailResult", IF Ok(e) THEN jailed' = [jailed EXCEPT ![v] = FALSE] /\ jailed[v] ELSE jailed' = jailed)
          /\ Report("C12.SentenceServed", Ok(e) => now >= until[v])
          /\ Conf("Unjail", Ok(e) = (jailed[v] /\ now >= until[v]))
     ELSE UNCHANGED <<deleg, unbondAt>> /\ StepS(e, Unjail(v))

TrSetMinVersion == IsEvent("SetMinVersion") /\ LET e == Trace[l] IN
  /\ MsgStep(e) /\ UNCHANGED <<jhist, jailLog>>
  /\ last' = [act |-> "SetMinVersion", ok |-> Ok(e)]
  /\ MsgMon(e)
  /\ Report("C12.SetMinVersionTouchesNothingElse", jailed' = jailed /\ aliveUntil' = aliveUntil /\ until' = until)
  /\ Conf("SetMinVersion", SetMinVersion(e.args.ver, e.args.target))

TraceInit == /\ InitWith([v \in Vals |-> 1], [v \in Vals |-> Chains], {}, [v \in Vals |-> "bonded"])
             /\ l = 1 /\ rq = [c \in Chains |-> NoRq] /\ part = "none" /\ sfp = <<>> /\ issued = 0
TraceNext == \/ TrInitS \/ TrBuild \/ TrSetOnChain \/ TrPublish \/ TrRegister \/ TrRotate \/ TrSetBalance \/ TrActivate \/ TrDelegate \/ TrUndelegate
             \/ TrJailF \/ TrStakingEB \/ TrUnjail
             \/ TrInitK \/ TrBlocks \/ TrKeepAlive \/ TrJail \/ TrSetMinVersion
TraceAccepted == TLCGet("stats").diameter - 1 = Len(Trace)
=============================================================================
