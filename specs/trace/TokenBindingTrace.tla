------------------------- MODULE TokenBindingTrace -------------------------
(* Trace specification for TokenBinding: state bound to the projection of the real stores;     *)
(* C01 monitors (EscrowEq, SenderWhole, FailureIsNoOp) decide, the spec's own action and the     *)
(* structural invariant RefundDenomStable are conformance only.                                 *)
EXTENDS TokenBinding, Json, Sequences
Trace == ndJsonDeserialize("trace.ndjson")
VARIABLE l
tvars == <<vars, l>>
Report(name, cond) == cond \/ PrintT(<<"MONFAIL", name, l>>)
Conf(name, cond)   == cond \/ PrintT(<<"CONFFAIL", name, l>>)
IsEvent(a) == l <= Len(Trace) /\ Trace[l].act = a /\ l' = l + 1

Obs(o) ==
  /\ fwd' = [d \in Denoms |-> o.fwd[d]]
  /\ rev' = [c \in Contracts |-> o.rev[c]]
  /\ pool' = {[id |-> o.pool[i].id, sender |-> o.pool[i].sender, con |-> o.pool[i].con] : i \in DOMAIN o.pool}
  /\ escrow' = [d \in Denoms |-> o.escrow[d]]
  /\ bal' = [u \in Users |-> [d \in Denoms |-> o.bal[u][d]]]

PendingN(d) == {tx \in pool' : tx.id \in DOMAIN sentIn' /\ sentIn'[tx.id] = d}
Always ==
  /\ Report("C01.BindEscrowEq", \A d \in Denoms : escrow'[d] = Cardinality(PendingN(d)))
  /\ Report("C01.BindSenderWhole", \A u \in Users, d \in Denoms :
                 bal'[u][d] + Cardinality({tx \in PendingN(d) : tx.sender = u}) = InitBal)
  /\ Report("C01.BindPoolKnown", \A tx \in pool' : tx.id \in DOMAIN sentIn')
  /\ Conf("RefundDenomStable", \A tx \in pool' : tx.id \in DOMAIN sentIn' => rev'[tx.con] = sentIn'[tx.id])
NoOp == <<fwd', rev', pool', escrow', bal'>> = <<fwd, rev, pool, escrow, bal>>

TrInit == IsEvent("Init") /\ Obs(Trace[l].obs) /\ lastTx' = 0 /\ res' = "init" /\ sentIn' = <<>>
          /\ Report("Setup.Init", <<fwd', rev', pool', escrow', bal'>> =
                 <<[d \in Denoms |-> 0], [c \in Contracts |-> 0], {}, [d \in Denoms |-> 0], [u \in Users |-> [d \in Denoms |-> InitBal]]>>)

TrBind == IsEvent("Bind") /\ LET e == Trace[l] IN
  /\ Obs(e.obs) /\ res' = e.res /\ UNCHANGED <<lastTx, sentIn>>
  /\ Always
  /\ Report("C01.BindFailureIsNoOp", e.res = "fail" => NoOp)
  /\ Conf("Bind", Bind(e.args.u, e.args.d, e.args.c))

TrSend == IsEvent("Send") /\ LET e == Trace[l] IN
  /\ Obs(e.obs) /\ res' = e.res
  /\ lastTx' = IF e.res = "ok" THEN e.id ELSE lastTx
  /\ sentIn' = IF e.res = "ok" THEN (e.id :> e.args.d) @@ sentIn ELSE sentIn
  /\ Always
  /\ Report("C01.BindFailureIsNoOp", e.res = "fail" => NoOp)
  /\ Report("C01.BindFreshId", e.res = "ok" => e.id \notin DOMAIN sentIn)
  /\ Conf("Send", Send(e.args.u, e.args.d))

TrCancel == IsEvent("Cancel") /\ LET e == Trace[l] IN
  /\ Obs(e.obs) /\ res' = e.res /\ UNCHANGED <<lastTx, sentIn>>
  /\ Always
  /\ Report("C01.BindFailureIsNoOp", e.res = "fail" => NoOp)
  /\ Conf("Cancel", Cancel(e.args.u, e.args.id))

TraceInit == Init /\ l = 1
TraceNext == TrInit \/ TrBind \/ TrSend \/ TrCancel
TraceAccepted == TLCGet("stats").diameter - 1 = Len(Trace)
=============================================================================
