---------------------------- MODULE MempoolTrace ----------------------------
(* Validates a trace recorded from the real mempool against Mempool.tla.      *)
(* Monitors (verdict, C19): SelectContract, Count, NoRemovedTx, ClassBinding.  *)
(* Conformance: the observed Select order equals AlgoSelect (drift only).      *)
EXTENDS Mempool, Json
Trace == ndJsonDeserialize("trace.ndjson")
VARIABLE l
tvars == <<vars, l>>

Report(name, cond) == cond \/ PrintT(<<"MONFAIL", name, l>>)
Conf(name, cond)   == cond \/ PrintT(<<"CONFFAIL", name, l>>)
IsEvent(a) == l <= Len(Trace) /\ Trace[l].act = a /\ l' = l + 1
TxOf(a) == [s |-> a.s, n |-> a.n, c |-> a.c]
SeqTx(o) == [i \in DOMAIN o |-> TxOf(o[i])]

TrReset == IsEvent("Reset") /\ pending' = {} /\ weights' = <<>> /\ out' = <<>> /\ res' = "init" /\ nops' = 0

TrInsert == IsEvent("Insert") /\ LET e == Trace[l]  t == TxOf(e.args) IN
  /\ Insert(t)
  /\ Report("ClassBinding", e.prio = Eff(e.args.k, e.args.m) /\ t.c = Eff(e.args.k, e.args.m))
  /\ Report("InsertAccepted", e.res = "ok")
  /\ Report("Count", e.count = Cardinality(pending'))

TrRemove == IsEvent("Remove") /\ LET e == Trace[l]  t == TxOf(e.args) IN
  /\ Remove(t)
  /\ Report("RemoveResult", e.res = res')
  /\ Report("Count", e.count = Cardinality(pending'))

TrSelect == IsEvent("Select") /\ LET e == Trace[l] IN
  /\ Select
  /\ Report("SelectTerminates", e.res = "select")
  /\ Report("SelectContract", SelectOK(SeqTx(e.out), pending))
  /\ Report("Count", e.count = Cardinality(pending))
  /\ Conf("AlgoSelect", SeqTx(e.out) = out')

TraceInit == Init /\ l = 1
TraceNext == TrReset \/ TrInsert \/ TrRemove \/ TrSelect
TraceAccepted == TLCGet("stats").diameter - 1 = Len(Trace)
=============================================================================
