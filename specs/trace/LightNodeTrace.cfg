CONSTANTS
  Users = {1, 2, 3}
  Fresh = {11, 12}
  HasAcct = 3
  Denoms = {1, 2}
  Funds <- FundsReal
  Amounts = {0, 1, 2}
  Months = {0, 1, 24}
  SaleMonths = 24
  Unit = 1000000
  MonthTicks = 4
  SaleChains = {1, 2, 3}
  Contracts = {1, 2}
INIT TraceInit
NEXT TraceNext
POSTCONDITION TraceAccepted
CHECK_DEADLOCK FALSE
