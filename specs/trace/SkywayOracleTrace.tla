------------------------- MODULE SkywayOracleTrace -------------------------
(* Trace specification for SkywayOracle: state bound to the recorded projection of the real    *)
(* attestation store, staking powers and receiver balance; C02 / C11 monitors on every step.   *)
EXTENDS SkywayOracle, Json
Trace == ndJsonDeserialize("trace.ndjson")
NonceF == <<1, 1, 2, 2, 3, 1, 2, 3>>
HashF == <<1, 2, 3, 4, 5, 6, 7, 8>>
EffF == <<1, 2, 3, 4, 5, 6, 7, 8>>
CompassF == <<1, 1, 1, 1, 1, 2, 2, 1>>
HeightF == <<1, 1, 2, 2, 3, 1, 2, 3>>
ApplF == <<TRUE, TRUE, TRUE, FALSE, TRUE, TRUE, TRUE, TRUE>>
Pow3 == <<34, 33, 33>>
VARIABLES l, nonceOf   \* nonceOf: the observed effective cursor of every validator
tvars == <<vars, l, nonceOf>>

Report(name, cond) == cond \/ PrintT(<<"MONFAIL", name, l>>)
Conf(name, cond)   == cond \/ PrintT(<<"CONFFAIL", name, l>>)
IsEvent(a) == l <= Len(Trace) /\ Trace[l].act = a /\ l' = l + 1

AttsOf(o) == [k \in {<<o.atts[i].nonce, o.atts[i].id>> : i \in DOMAIN o.atts} |->
                LET i == CHOOSE j \in DOMAIN o.atts : <<o.atts[j].nonce, o.atts[j].id>> = k IN
                [votes |-> o.atts[i].votes, observed |-> o.atts[i].observed, body |-> o.atts[i].id]]
Obs(o) ==
  /\ last' = o.last
  /\ atts' = AttsOf(o)
  /\ power' = [v \in Vals |-> o.power[v]]
  /\ compass' = o.compass
  /\ lastEth' = o.lastEth
  /\ effects' = [e \in Effects |-> o.effects[e]]
  /\ nonceOf' = [v \in Vals |-> o.nonceOf[v]]

NewlyObserved == {k \in DOMAIN atts' : atts'[k].observed /\ ~(k \in DOMAIN atts /\ atts[k].observed)}
RECURSIVE AppendAll(_, _)
AppendAll(ap, K) == IF K = {} THEN ap
                    ELSE LET k == CHOOSE x \in K : \A y \in K : x[1] < y[1] \/ (x[1] = y[1] /\ x[2] <= y[2]) IN
                         AppendAll(Append(ap, [epoch |-> epoch', nonce |-> k[1], key |-> k, body |-> atts'[k].body,
                                               distinct |-> SetPower(Range(atts'[k].votes), power'), total |-> SetPower(Vals, power')]),
                                   K \ {k})

\* monitors common to all steps (evaluated once the next state is bound)
Always(e) ==
  LET NO == NewlyObserved IN
  /\ Report("C02.OnlyTallyObserves", NO # {} => e.act = "Tally")
  /\ Report("C02.QuorumDistinct", \A k \in NO : Above66(SetPower(Range(atts'[k].votes), power'), SetPower(Vals, power')))
  /\ Report("C02.OnePerNonce", \A k1, k2 \in NO : k1[1] = k2[1] => k1 = k2)
  /\ Report("C02.Consecutive", e.act = "Tally" => (/\ {k[1] : k \in NO} = (last + 1)..last'
                                                     /\ last' = last + Cardinality(NO)))
  /\ Report("C02.CurrentCompassOnly", \A k \in NO : CCompass[atts'[k].body] = compass')
  /\ Report("C02.AppliedAtMostOnce", \A x \in Effects : effects'[x] - effects[x] \in {0, 1})
  /\ Report("C02.EffectOnlyWhenObserved", \A x \in Effects : effects'[x] > effects[x] =>
                                              \E k \in NO : CEff[atts'[k].body] = x /\ CApplicable[atts'[k].body])
  /\ Report("C02.AppliedIfApplicable", \A k \in NO : CApplicable[atts'[k].body] => effects'[CEff[atts'[k].body]] = effects[CEff[atts'[k].body]] + 1)
  /\ Report("C02.OncePerEpoch", \A i, j \in DOMAIN applied' : (i # j /\ applied'[i].epoch = applied'[j].epoch
                                    /\ CCompass[applied'[i].body] = CCompass[applied'[j].body]) => applied'[i].nonce # applied'[j].nonce)
  /\ Report("C02.ObservedSticky", \A k \in DOMAIN atts : atts[k].observed => (k \in DOMAIN atts' /\ atts'[k].observed))
  /\ Report("C11.PooledAgree", \A k \in NO : \A w \in views' : w.key = k => CEff[w.claim] = CEff[atts'[k].body])
  /\ Report("Setup.NoOverflow", e.obs.overflow = 0)
  /\ Conf("NoDuplicateVotes", \A k \in DOMAIN atts' : \A i, j \in DOMAIN atts'[k].votes : i # j => atts'[k].votes[i] # atts'[k].votes[j])
  /\ Conf("NonceOf", \A v \in Vals : nonceOf'[v] = (IF cursor'[v] = Unset THEN Max(last' - 1, 0) ELSE cursor'[v]))

TrInit == IsEvent("Init") /\ LET e == Trace[l] IN
  /\ Obs(e.obs) /\ cursor' = [v \in Vals |-> Unset] /\ epoch' = 0 /\ res' = "init" /\ applied' = <<>> /\ views' = {}
  /\ Report("Setup.Empty", last' = 0 /\ DOMAIN atts' = {} /\ \A x \in Effects : effects'[x] = 0)

TrVote == IsEvent("Vote") /\ LET e == Trace[l]  a == e.args  k == Key(a.c) IN
  /\ Obs(e.obs) /\ res' = e.res /\ epoch' = epoch
  /\ cursor' = IF e.res = "ok" THEN [cursor EXCEPT ![a.v] = CNonce[a.c]] ELSE cursor
  /\ views' = IF e.res = "ok" THEN views \cup {[key |-> k, val |-> a.v, claim |-> a.c]} ELSE views
  /\ applied' = AppendAll(applied, NewlyObserved)
  /\ Always(e)
  /\ (e.res = "fail" => Report("C02.RejectedVoteNoOp", atts' = atts /\ last' = last /\ effects' = effects))
  /\ (e.res = "ok" => /\ Report("C02.VoteOnlyBonded", power[a.v] > 0)
                      /\ Report("C02.VoteContiguous", CNonce[a.c] = nonceOf[a.v] + 1)
                      /\ Report("C02.VoteRecorded", k \in DOMAIN atts' /\ a.v \in Range(atts'[k].votes)))
  /\ Conf("Vote.result", (e.res = "ok") = (Bonded(a.v) /\ CNonce[a.c] = nonceOf[a.v] + 1))

TrTally == IsEvent("Tally") /\ LET e == Trace[l]  a == e.args
                                   m == TallyFrom([last |-> last, lastEth |-> lastEth, atts |-> atts, effects |-> effects, applied |-> applied]) IN
  /\ Obs(e.obs) /\ res' = e.res /\ epoch' = epoch /\ views' = views
  /\ cursor' = IF a.cu THEN [v \in Vals |-> IF cursor[v] # Unset /\ cursor[v] < last' THEN last' ELSE cursor[v]] ELSE cursor
  /\ applied' = AppendAll(applied, NewlyObserved)
  /\ Always(e)
  /\ Report("C02.CatchUpNeverLowers", \A v \in Vals : nonceOf'[v] >= nonceOf[v] \/ last' < last)
  /\ Report("C02.NonceAdvancesOnlyWithObservation", last' - last = Cardinality(NewlyObserved))
  /\ Conf("Tally.last", last' = m.last /\ lastEth' = m.lastEth)
  /\ Conf("Tally.atts", atts' = m.atts)
  /\ Conf("Tally.effects", effects' = m.effects)

TrOverride == IsEvent("Override") /\ LET e == Trace[l]  a == e.args IN
  /\ Obs(e.obs) /\ res' = e.res /\ epoch' = epoch + 1 /\ views' = views
  /\ cursor' = [v \in Vals |-> IF cursor[v] = Unset THEN Unset ELSE a.n]
  /\ applied' = AppendAll(applied, NewlyObserved)
  /\ Always(e)
  /\ Conf("Override", last' = a.n /\ atts' = atts /\ effects' = effects)

TrActivate == IsEvent("Activate") /\ LET e == Trace[l]  a == e.args IN
  /\ Obs(e.obs) /\ res' = e.res /\ epoch' = epoch + 1 /\ views' = views
  /\ cursor' = [v \in Vals |-> IF cursor[v] = Unset THEN Unset ELSE 0]
  /\ applied' = AppendAll(applied, NewlyObserved)
  /\ Always(e)
  /\ Conf("Activate", last' = 0 /\ compass' = a.cid /\ atts' = atts /\ effects' = effects)

TrSetPower == IsEvent("SetPower") /\ LET e == Trace[l]  a == e.args IN
  /\ Obs(e.obs) /\ res' = e.res /\ epoch' = epoch /\ views' = views /\ cursor' = cursor
  /\ applied' = AppendAll(applied, NewlyObserved)
  /\ Always(e)
  /\ Report("Setup.PowerSet", power'[a.v] = a.p)
  /\ Conf("SetPower", last' = last /\ atts' = atts /\ effects' = effects)

\* governance restating the token binding: nothing the oracle holds changes, and later deposits are applied as before
TrRebind == IsEvent("Rebind") /\ LET e == Trace[l] IN
  /\ Obs(e.obs) /\ res' = e.res /\ epoch' = epoch /\ views' = views /\ cursor' = cursor
  /\ applied' = AppendAll(applied, NewlyObserved)
  /\ Always(e)
  /\ Conf("Rebind", last' = last /\ atts' = atts /\ effects' = effects)

TraceInit == Init /\ l = 1 /\ nonceOf = [v \in Vals |-> 0]
TraceNext == TrInit \/ TrVote \/ TrTally \/ TrOverride \/ TrActivate \/ TrSetPower \/ TrRebind
TraceAccepted == TLCGet("stats").diameter - 1 = Len(Trace)
=============================================================================
