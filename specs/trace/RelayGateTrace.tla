--------------------------- MODULE RelayGateTrace ---------------------------
(* Trace specification for RelayGate (C14): the state variables are bound to the projection of    *)
(* the REAL stores recorded after every atomic step (valset registrations and snapshot, treasury  *)
(* fee table, metrix records, consensus queue of the target chain).  Property monitors (MONFAIL,  *)
(* prefix C14.) are stated on the observed state and on what the code returned; the comparison    *)
(* with the spec's own action is conformance (CONFFAIL, drift only).                              *)
EXTENDS RelayGate, Json
Trace == ndJsonDeserialize("trace.ndjson")
VARIABLE l
tvars == <<vars, l>>

Report(name, cond) == cond \/ PrintT(<<"MONFAIL", name, l>>)
Conf(name, cond)   == cond \/ PrintT(<<"CONFFAIL", name, l>>)
ConfD(name, cond, detail) == cond \/ (PrintT(<<"CONFFAIL", name, l>>) /\ PrintT(<<"DETAIL", name, l, detail>>))
IsEvent(a) == l <= Len(Trace) /\ Trace[l].act = a /\ l' = l + 1
SeqSet(s) == {s[i] : i \in DOMAIN s}

MsgOfObs(r) == [id |-> r.id, kind |-> r.kind, sender |-> r.sender, assignee |-> r.assignee, remote |-> r.remote,
                needsEst |-> r.needsEst, est |-> r.est, pad |-> r.pad, err |-> r.err,
                fees |-> <<r.fees[1], r.fees[2], r.fees[3]>>,
                subs |-> {[v |-> r.subs[i].v, g |-> r.subs[i].g] : i \in DOMAIN r.subs},
                mev |-> r.mev, retries |-> r.retries, ev |-> SeqSet(r.ev)]

\* bind the state to the recorded projection
Bind(e, nr, rs, id0) ==
  LET o == e.obs IN
  /\ cur' = [v \in Vals |-> [home |-> o.cur[v].home, acct |-> o.cur[v].acct, mevH |-> o.cur[v].mevH, mevT |-> o.cur[v].mevT]]
  /\ snap' = [v \in Vals |-> [member |-> o.snap[v].member, acct |-> o.snap[v].acct, mevH |-> o.snap[v].mevH, mevT |-> o.snap[v].mevT]]
  /\ fee' = [v \in Vals |-> o.fee[v]]
  /\ feeH' = [v \in Vals |-> o.feeh[v]]
  /\ perf' = [v \in Vals |-> o.perf[v]]
  /\ queue' = {MsgOfObs(o.queue[i]) : i \in DOMAIN o.queue}
  /\ queueH' = {MsgOfObs(o.queueh[i]) : i \in DOMAIN o.queueh}
  /\ nextId' = MaxOf({id0} \cup {o.queue[i].id + 1 : i \in DOMAIN o.queue} \cup {o.queueh[i].id + 1 : i \in DOMAIN o.queueh})
  /\ nrows' = nr
  /\ res' = rs

\* ---- on every step ------------------------------------------------------------------------------
Always(e) ==
  \* fees exist only on messages whose gas estimate has been elected
  /\ Report("C14.FeesOnlyWithElection", \A m \in queue' \cup queueH' : m.est = 0 => m.fees = NoFees)
  \* assignment and content of a queued message never change behind the back of the protocol
  /\ Conf("MessageStable", \A m \in queue \cup queueH : \A n \in queue' \cup queueH' : n.id = m.id =>
            /\ n.kind = m.kind /\ n.sender = m.sender /\ n.assignee = m.assignee /\ n.remote = m.remote /\ n.needsEst = m.needsEst
            /\ n.mev = m.mev /\ n.retries = m.retries)
  \* modelling assumptions of the score: all metrics but the feature set are equal; feature set = share of the
  \* validator's accounts carrying the MEV trait at snapshot time
  /\ Conf("UniformMetrics", e.obs.uniform)
  /\ Conf("FeatureIsMev", \A v \in Vals : (snap'[v].member /\ perf'[v]) => e.obs.feat[v] = 50 * Feat2(snap', v))
  \* a message appears in a queue only through an assignment (Assign, retry in EndBlockAtt) or a Put of the harness
  /\ (e.act \notin {"Assign", "EndBlockAtt", "Put"} =>
        Report("C14.NoUnassignedEnqueue", Ids(queue' \cup queueH') \subseteq Ids(queue \cup queueH)))

TabsUnchanged == cur' = cur /\ snap' = snap /\ fee' = fee /\ feeH' = feeH /\ perf' = perf

TrInit == IsEvent("Init") /\ LET e == Trace[l] IN
  /\ Bind(e, 0, "init", 1)
  /\ Report("Setup.World", /\ e.nvals = N /\ e.scale = Scale /\ e.basemod = 0
                           /\ e.obs.comm = CommRate /\ e.obs.sec = SecRate /\ e.obs.uniform /\ queue' = {})
  /\ Conf("Init", cur' = [v \in Vals |-> CurOf(BaseRow)] /\ snap' = SnapOf(cur') /\ fee' = [v \in Vals |-> BaseFee]
                  /\ feeH' = [v \in Vals |-> BaseFee] /\ perf' = [v \in Vals |-> TRUE] /\ queueH' = {})

TrSetup == IsEvent("Setup") /\ LET e == Trace[l]  T == [v \in Vals |-> e.args.rows[v]] IN
  /\ Bind(e, N, e.res, nextId)
  /\ Always(e)
  /\ ConfD("Setup", /\ cur' = [v \in Vals |-> CurOf(T[v])] /\ snap' = SnapOf(cur')
                    /\ fee' = [v \in Vals |-> T[v].fee] /\ feeH' = [v \in Vals |-> T[v].feeH]
                    /\ perf' = [v \in Vals |-> T[v].perf] /\ queue' = queue,
           <<cur', snap', fee', perf'>>)

TrRereg == IsEvent("Rereg") /\ LET e == Trace[l]  a == e.args IN
  /\ Bind(e, nrows, e.res, nextId)
  /\ Always(e)
  /\ Conf("Rereg", Rereg(a.v, a.acct, a.mevH, a.mevT))

TrResnap == IsEvent("Resnap") /\ LET e == Trace[l] IN
  /\ Bind(e, nrows, e.res, nextId)
  /\ Always(e)
  /\ ConfD("Resnap", Resnap, <<snap', perf'>>)

TrAssign == IsEvent("Assign") /\ LET e == Trace[l]  a == e.args  c == a.c  ok == e.res = "assigned"
                                   fe == FeeTab(c)
                                   El == EligibleT(snap, fe, perf, c, a.mev) IN
  /\ Bind(e, nrows, e.res, nextId)
  /\ Always(e)
  /\ LET new == IF c = "t" THEN queue' \ queue ELSE queueH' \ queueH       \* the queue of the chain of the job
         other == IF c = "t" THEN queueH' = queueH ELSE queue' = queue
         none == queue' = queue /\ queueH' = queueH IN
     /\ (ok => Report("C14.EnqueuedOnce",
                  /\ Cardinality(new) = 1 /\ other
                  /\ \A m \in new : /\ m.id \notin Ids(queue \cup queueH) /\ m.kind = "slc" /\ m.sender = a.s /\ m.needsEst /\ m.est = 0
                                    /\ ~m.pad /\ ~m.err /\ m.fees = NoFees /\ m.subs = {}
                                    /\ m.mev = a.mev /\ m.retries = 0 /\ m.ev = {}))
     \* in the snapshot, account ON THE CHAIN OF THE JOB, fee and metrics on record, MEV trait OF THAT ACCOUNT if demanded
     /\ (ok => Report("C14.AssigneeEligible", \A m \in new : m.assignee \in Vals /\ PickOK(snap, fe, perf, c, m.assignee, a.mev)))
     /\ (ok => Report("C14.RemoteAddressFromSnapshot",
                  \A m \in new : m.assignee \in Vals => (m.remote # 0 /\ m.remote = AcctOn(snap, m.assignee, c))))
     /\ Report("C14.NoEligibleNoEnqueue", El = {} => (~ok /\ none))
     /\ (~ok => Report("C14.FailedAssignEnqueuesNothing", none))
     /\ Conf("Assign.outcome", ok = (El # {}))
     /\ ConfD("Assign.pick", (ok /\ El # {}) => \A m \in new : m.assignee = PickT(snap, fe, perf, c, a.mev, a.t),
              <<new, RankedT(snap, fe, perf, c, a.mev), ScoresT(snap, fe, perf)>>)
     /\ Conf("Assign.time", e.obs.tmod = a.t % 60)
     /\ Conf("Assign.tables", TabsUnchanged)

TrPut == IsEvent("Put") /\ LET e == Trace[l]  a == e.args IN
  /\ Bind(e, nrows, e.res, nextId)
  /\ Always(e)
  /\ LET new == IF a.c = "t" THEN queue' \ queue ELSE queueH' \ queueH IN
     Conf("Put", /\ Cardinality(new) = 1 /\ TabsUnchanged /\ (IF a.c = "t" THEN queueH' = queueH ELSE queue' = queue)
                 /\ \A m \in new : m.id >= nextId /\ m = Msg(m.id, a.kind, a.s, a.a, 1, a.ne))

TrSetFee == IsEvent("SetFee") /\ LET e == Trace[l]  a == e.args IN
  /\ Bind(e, nrows, e.res, nextId)
  /\ Always(e)
  /\ Conf("SetFee", SetFee(a.v, a.c, a.f))

TrEstimate == IsEvent("Estimate") /\ LET e == Trace[l]  a == e.args IN
  /\ Bind(e, nrows, e.res, nextId)
  /\ Always(e)
  /\ Conf("Estimate", Estimate(a.v, e.rid, a.g))

TrAttestErr == IsEvent("AttestErr") /\ LET e == Trace[l]  a == e.args IN
  /\ Bind(e, nrows, e.res, nextId)
  /\ Always(e)
  /\ Conf("AttestErr", AttestErr(a.v, e.rid))

\* the fees attached at election: ceil(multiplicator of the assignee ON THE CHAIN OF THE MESSAGE * gas), ceil(rate * relayer fee)
FeesCeilOn(Q, Q2, fe) ==
  \A m \in Q : \A n \in Q2 :
    (n.id = m.id /\ m.est = 0 /\ n.est > 0 /\ n.kind = "slc") =>
       /\ n.assignee \in Vals /\ fe[n.assignee] > 0
       /\ n.fees = FeesFor(fe[n.assignee], CommRate, SecRate, n.est, Scale)
       /\ IsCeilOf(n.fees[1], fe[n.assignee], n.est, Scale)
       /\ IsCeilOf(n.fees[2], CommRate, n.fees[1], Scale) /\ IsCeilOf(n.fees[3], SecRate, n.fees[1], Scale)
TrEndBlock == IsEvent("EndBlock") /\ LET e == Trace[l] IN
  /\ Bind(e, nrows, e.res, nextId)
  /\ Always(e)
  /\ Report("C14.FeesCeil", FeesCeilOn(queue, queue', fee) /\ FeesCeilOn(queueH, queueH', feeH))
  /\ Report("C14.FeesOnlyAtElection",
       \A m \in queue \cup queueH : \A n \in queue' \cup queueH' : (n.id = m.id /\ (m.est > 0 \/ n.est = 0)) => n.fees = m.fees)
  /\ Conf("EndBlock.nopanic", e.res = "eb")
  /\ ConfD("EndBlock", queue' = ElectAllT(snap, fee, queue) /\ queueH' = ElectAllT(snap, feeH, queueH) /\ TabsUnchanged,
           <<queue', ElectAllT(snap, fee, queue), queueH', ElectAllT(snap, feeH, queueH)>>)

\* the retry of a logic call whose relay failure was attested is an assignment like any other
RetryOn(Q, Q2, old, fe, c) ==
  \A m \in {x \in Q2 : x.id \notin old} :
    /\ Report("C14.AssigneeEligible", m.kind = "slc" /\ m.assignee \in Vals /\ PickOK(snap, fe, perf, c, m.assignee, m.mev))
    /\ Report("C14.RemoteAddressFromSnapshot", m.assignee \in Vals => (m.remote # 0 /\ m.remote = AcctOn(snap, m.assignee, c)))
    /\ Report("C14.NoEligibleNoEnqueue", EligibleT(snap, fe, perf, c, m.mev) # {})
    /\ Report("C14.RetryKeepsRequirements",
          \E o \in Q \ Q2 : /\ o.kind = "slc" /\ o.id \notin Ids(Q2) /\ m.sender = o.sender /\ m.mev = o.mev
                             /\ m.retries = o.retries + 1 /\ m.retries <= MaxRetries)
    /\ Report("C14.EnqueuedFresh", m.needsEst /\ m.est = 0 /\ ~m.pad /\ ~m.err /\ m.fees = NoFees /\ m.subs = {} /\ m.ev = {})
TrEndBlockAtt == IsEvent("EndBlockAtt") /\ LET e == Trace[l]  old == Ids(queue \cup queueH) IN
  /\ Bind(e, nrows, e.res, nextId)
  /\ Always(e)
  /\ RetryOn(queue, queue', old, fee, "t")
  /\ RetryOn(queueH, queueH', old, feeH, "h")
  \* at most one retry per message that left
  /\ Report("C14.RetryOnce", Cardinality(Ids(queue' \cup queueH') \ old) <= Cardinality(old \ Ids(queue' \cup queueH')))
  /\ Conf("EndBlockAtt.nopanic", e.res = "eba")
  /\ Conf("EndBlockAtt.time", e.obs.tmod = e.args.t % 60)
  /\ LET r == AttestAll(e.args.t)
         \* real ids are not contiguous (other queues draw from the same counter): compare up to the ids of new messages
         Strip(Q) == {[m EXCEPT !.id = IF m.id \in old THEN m.id ELSE 0] : m \in Q} IN
     ConfD("EndBlockAtt", /\ Strip(queue') = {[m EXCEPT !.id = IF m.id \in old THEN m.id ELSE 0] : m \in r.qt}
                          /\ Strip(queueH') = {[m EXCEPT !.id = IF m.id \in old THEN m.id ELSE 0] : m \in r.qh}
                          /\ TabsUnchanged,
           <<queue', r.qt, queueH', r.qh>>)

TrDeliver == IsEvent("Deliver") /\ LET e == Trace[l] IN
  /\ Bind(e, nrows, e.res, nextId)
  /\ Always(e)
  /\ Conf("Deliver", Deliver(e.rid))

TrFail == IsEvent("Fail") /\ LET e == Trace[l] IN
  /\ Bind(e, nrows, e.res, nextId)
  /\ Always(e)
  /\ Conf("Fail", Fail(e.rid))

TrQuery == IsEvent("Query") /\ LET e == Trace[l]
                                  raw == [v \in Vals |-> SeqSet(e.offered[v])]
                                  off == [v \in Vals |-> raw[v] \cap Ids(queue)] IN     \* (monitors below look the ids up)
  /\ Bind(e, nrows, e.res, nextId)
  /\ Always(e)
  /\ Report("C14.OfferedExist", OfferedExistP(queue, raw))
  /\ Report("C14.OnlyAssignee", OnlyAssigneeP(queue, off))
  /\ Report("C14.OnlyWithEstimate", OnlyWithEstimateP(queue, off))
  /\ Report("C14.OnlyUnprocessed", OnlyUnprocessedP(queue, off))
  /\ Report("C14.NotAheadOfPendingValsetUpdate", NotAheadOfPendingValsetUpdateP(queue, off))
  /\ Report("C14.OldestPerSenderFirst", OldestPerSenderFirstP(queue, off))
  /\ Conf("Query.ok", e.res = "query")
  /\ Conf("Query.readonly", queue' = queue /\ TabsUnchanged)
  /\ ConfD("Query", \A v \in Vals : raw[v] = ForRelayQ(queue, v), <<raw, [v \in Vals |-> ForRelayQ(queue, v)]>>)

TraceInit == Init /\ l = 1
TraceNext == \/ TrInit \/ TrSetup \/ TrRereg \/ TrResnap \/ TrAssign \/ TrPut \/ TrSetFee \/ TrEstimate \/ TrAttestErr
             \/ TrEndBlock \/ TrEndBlockAtt
             \/ TrDeliver \/ TrFail \/ TrQuery
TraceAccepted == TLCGet("stats").diameter - 1 = Len(Trace)
=============================================================================
