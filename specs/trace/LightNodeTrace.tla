--------------------------- MODULE LightNodeTrace ---------------------------
(* Trace specification for LightNode: the state variables are bound to the projection of the REAL bank / *)
(* auth / x/paloma / x/feegrant / x/skyway state recorded after every block; `last` is the executed       *)
(* request, `res` the class of what the chain reported (for a sale: "ok" iff the claims were attested AND  *)
(* the licence appeared, "noop" iff attested without effect); gifts accumulates the successful gifts;      *)
(* `lk` remembers the locked coins seen last.  Time is real: seconds since genesis.  Escrow, balances,      *)
(* licences, original vesting and locked coins are bound PER DENOMINATION (1 = bond denom, 2 = uusdc).     *)
(* Property monitors (MONFAIL, verdict): the invariants / step properties of LightNode on observed state;  *)
(* the vesting window is checked through the driver's decoding of the real account (months between start   *)
(* and end, elapsed fraction as reduced num/den): locked = orig - orig*num/den up to the one-coin rounding  *)
(* of the SDK.  Conformance (CONFFAIL, drift only): the observed step equals the spec's own action.        *)
EXTENDS LightNode, Json
Trace == ndJsonDeserialize("trace.ndjson")
\* <<bond denom, other denom>> per user
FundsReal == << <<3000000, 1000000>>, <<500000, 2000000>>, <<2000000, 0>> >>
FeeGranterIdx == 4
VARIABLES l, lk
tvars == <<vars, l, lk>>

Report(name, cond) == cond \/ PrintT(<<"MONFAIL", name, l>>)
Conf(name, cond)   == cond \/ PrintT(<<"CONFFAIL", name, l>>)
ConfD(name, cond, detail) == cond \/ (PrintT(<<"CONFFAIL", name, l>>) /\ PrintT(<<"DETAIL", name, l, detail>>))
IsEvent(a) == l <= Len(Trace) /\ Trace[l].act = a /\ l' = l + 1

Cl(o, c) == LET i == CHOOSE j \in DOMAIN o.cl : o.cl[j].c = c IN o.cl[i]
AcctName(n) == CASE n = 0 -> "none" [] n = 1 -> "base" [] n = 2 -> "vesting" [] OTHER -> "other"

Bind(o) ==
  /\ escrow' = [d \in Denoms |-> o.escrow[d]]
  /\ lic' = [c \in {x \in Addrs : Cl(o, x).lic = 1} |-> [amt |-> Cl(o, c).lamt, months |-> Cl(o, c).lm, den |-> Cl(o, c).lden]]
  /\ acct' = [c \in Fresh |-> AcctName(Cl(o, c).acct)]
  /\ vest' = [c \in {x \in Addrs : Cl(o, x).acct = 2} |-> [start |-> Cl(o, c).start, end |-> Cl(o, c).end, orig |-> Cl(o, c).orig, den |-> Cl(o, c).oden]]
  /\ bal' = [a \in Users \cup Fresh |-> [d \in Denoms |-> IF a \in Users THEN o.ubal[a][d] ELSE Cl(o, a).bal[d]]]
  /\ clients' = {c \in Addrs : Cl(o, c).client = 1}
  /\ grants' = {c \in Addrs : Cl(o, c).grant = 1}
  /\ now' = o.now
  /\ lk' = [c \in Addrs |-> [d \in Denoms |-> Cl(o, c).locked[d]]]

\* The configuration (funders, fee granter, sale contracts) is NOT bound to the observed stores: the model holds what
\* the LAST proposal of each kind said, the monitors (SaleOnlyIfConfigured) judge sales against that; what the real
\* stores hold after every block is compared with it as conformance.
ObsCfg(o) == <<o.funders, o.feegr # 0, [ch \in SaleChains |-> o.sc[ch]]>>
CfgOf(a) == [ch \in SaleChains |-> a.sc[ch]]
NonZero(f) == Cardinality({x \in DOMAIN f : f[x] # 0})

\* |den*vested - orig*num| <= den with vested = orig - locked, whenever the products fit into TLC's integers
\* only the denomination of the original vesting is ever locked
LockedOK(r) ==
  IF r.acct # 2 \/ r.oden \notin Denoms THEN \A d \in Denoms : r.locked[d] = 0
  ELSE LET lkd == r.locked[r.oden] IN
       /\ \A d \in Denoms \ {r.oden} : r.locked[d] = 0 /\ r.spendable[d] = r.bal[d]
       /\ lkd >= 0 /\ lkd <= r.orig
       /\ r.spendable[r.oden] = r.bal[r.oden] - lkd \/ r.bal[r.oden] < lkd
       /\ (r.num = 0 => lkd = r.orig)
       /\ (r.num = r.den => lkd = 0)
       /\ (r.den <= 64 => LET v == r.orig - lkd IN
                            /\ r.den * v <= r.orig * r.num + r.den
                            /\ r.den * v >= r.orig * r.num - r.den)

Monitors(e) == LET o == e.obs IN
  /\ Report("C18.ObservedTypes", TypeOK' /\ LicenceShape' /\ VestShape' /\ \A c \in Addrs : Cl(o, c).acct # 3)
  \* escrow = not yet activated licences + gifts; no licence outside the tracked addresses; nothing but the bond denom;
  \* coins are neither made nor lost; the fee granter pays nothing
  /\ Report("C18.EscrowCovers", /\ EscrowCovers' /\ o.nlic = Cardinality(DOMAIN lic') /\ o.escrowx = 0
                                /\ \A c \in Addrs : Cl(o, c).balx = 0
                                /\ Conserved /\ o.ubal[FeeGranterIdx] = Trace[1].obs.ubal[FeeGranterIdx])
  \* the address with an account never gets a licence, stays a plain account, is never registered
  /\ Report("C18.CreateOnlyFresh", /\ CreateOnlyFresh /\ LicenceStable
                                   /\ Cl(o, HasAcct).lic = 0 /\ Cl(o, HasAcct).acct = 1)
  /\ Report("C18.ActivateOnceBySelf", /\ ActivateOnceBySelf
                                      /\ \A c \in clients' \ clients : res' = "ok" /\ e.act = "Register" /\ e.args.who = c /\ e.args.as = c)
  /\ Report("C18.ActivationVests",
        /\ ActivationMoves /\ ScheduleFixed
        /\ (res' = "ok" /\ e.act = "Register" /\ e.args.as \in DOMAIN lic) =>
              /\ Cl(o, e.args.as).endm = lic[e.args.as].months
              /\ lic[e.args.as].den \in Denoms
              /\ Cl(o, e.args.as).locked[lic[e.args.as].den] = lic[e.args.as].amt
        /\ \A c \in Addrs : LockedOK(Cl(o, c)) /\ (c \in DOMAIN vest => \A d \in Denoms : Cl(o, c).locked[d] <= lk[c][d]))
  /\ Report("C18.SaleOnlyIfConfigured", SaleOnlyIfConfigured)
  /\ Report("C18.FailureIsNoOp", FailureIsNoOp)

Class(cs, code) ==
  CASE cs = "sdk" /\ code = 5 -> "funds"
    [] cs = "sdk" /\ code = 10 -> "invalid"
    [] cs = "sdk" /\ code = 4 -> "blocked"
    [] cs = "sdk" /\ code = 9 -> "err"
    [] cs = "undefined" /\ code = 1 -> "err"
    [] cs = "setup" -> "funds"
    [] OTHER -> "other"
Coarse(w) == IF w \in {"licexists", "acctexists", "nolicense", "notfound"} THEN "err" ELSE w

TrInit == IsEvent("Init") /\ LET e == Trace[l] IN
  /\ Bind(e.obs) /\ gifts' = ZeroD
  /\ funders' = <<>> /\ feegr' = FALSE /\ sale' = [ch \in SaleChains |-> 0]
  /\ res' = "init" /\ last' = Rec("Init", 0, 0, 0, 0, 0, 0, 0, 0, "", 0) /\ nops' = 0
  /\ Report("C18.ObservedTypes", TypeOK' /\ EscrowCovers')
  /\ Conf("Init", /\ escrow' = ZeroD /\ lic' = [c \in {} |-> 0] /\ acct' = [c \in Fresh |-> "none"] /\ vest' = [c \in {} |-> 0]
                  /\ bal' = [a \in Users \cup Fresh |-> IF a \in Users THEN [d \in Denoms |-> Funds[a][d]] ELSE ZeroD]
                  /\ clients' = {} /\ grants' = {} /\ ObsCfg(e.obs) = <<funders', feegr', sale'>> /\ e.obs.nsc = 0
                  /\ e.obs.nonce = [ch \in SaleChains |-> 0])

Acts == {"AddLicense", "Register", "Auth", "Sale", "SetFunders", "SetFeegranter", "SetSale", "Gift", "Advance"}
ActEvent(failed) == /\ l <= Len(Trace) /\ Trace[l].act \in Acts
                    /\ (Trace[l].res = "blockfail") = failed /\ l' = l + 1

SpecConf(e) == LET a == e.args IN
  CASE e.act = "AddLicense" -> LET w == AddLicenseWhy(a.who, a.as, a.c, a.amt, a.d) IN
                                 res' = Coarse(w) /\ AddLicenseEff(w, a.as, a.c, a.amt, a.m, a.d) /\ UNCHANGED cfgv
    [] e.act = "Register"   -> LET w == RegisterWhy(a.who, a.as) IN
                                 /\ res' = Coarse(w) /\ UNCHANGED cfgv
                                 /\ RegisterEff(w, a.as, now', IF w = "ok" /\ a.as \in DOMAIN vest' THEN vest'[a.as].end ELSE 0)
    [] e.act = "Auth"       -> res' = Coarse(AuthWhy(a.who, a.as)) /\ UNCHANGED <<fundv, cfgv>>
    [] e.act = "Sale"       -> LET w == SaleWhy(a.ch, a.k, a.c, a.amt) IN
                                 /\ res' = (IF w = "ok" THEN "ok" ELSE "noop") /\ SaleEff(w, a.c, a.amt) /\ UNCHANGED cfgv
                                 /\ (w = "ok" => Cl(e.obs, a.c).gspend = Unit)
                                 /\ e.obs.nonce[a.ch] = Trace[l - 1].obs.nonce[a.ch] + 1
    [] e.act = "SetFunders" -> res' = "ok" /\ UNCHANGED fundv
    [] e.act = "SetFeegranter" -> res' = "ok" /\ UNCHANGED fundv /\ e.obs.feegr = FeeGranterIdx
    [] e.act = "SetSale"    -> res' = "ok" /\ UNCHANGED fundv
    [] e.act = "Gift"       -> LET w == GiftWhy(a.who, a.amt, a.via) IN res' = w /\ GiftEff(w, a.who, a.amt) /\ UNCHANGED cfgv
    [] e.act = "Advance"    -> res' = "ok" /\ UNCHANGED <<fundv, cfgv>>

TrAct == ActEvent(FALSE) /\ LET e == Trace[l]  a == e.args IN
  /\ Bind(e.obs)
  /\ last' = [Rec(e.act, a.who, a.as, a.c, a.amt, a.m, a.ch, a.k, a.q, a.via, IF e.act = "Sale" \/ e.act = "Gift" THEN Bond ELSE a.d) EXCEPT !.sc = a.sc]
  \* the configuration the model holds: what the last accepted proposal of each kind said
  /\ funders' = IF e.act = "SetFunders" /\ e.res = "ok"
                THEN (IF a.who = 0 THEN <<>> ELSE IF a.as = 0 THEN <<a.who>> ELSE <<a.who, a.as>>) ELSE funders
  /\ feegr' = IF e.act = "SetFeegranter" /\ e.res = "ok" THEN TRUE ELSE feegr
  /\ sale' = IF e.act = "SetSale" /\ e.res = "ok" THEN CfgOf(a) ELSE sale
  /\ res' = IF e.act = "Sale"
            THEN (IF e.res # "ok" THEN "fail" ELSE IF a.c \in DOMAIN lic' \ DOMAIN lic THEN "ok" ELSE "noop")
            ELSE (IF e.res = "ok" THEN "ok" ELSE Class(e.cs, e.code))
  /\ gifts' = IF e.act = "Gift" /\ e.res = "ok" THEN [gifts EXCEPT ![Bond] = @ + a.amt * Unit] ELSE gifts
  /\ nops' = nops + 1
  /\ Monitors(e)
  /\ ConfD(e.act, SpecConf(e), <<e.act, a, res', e.res, e.cs, e.code, e.log>>)
  \* the real stores hold exactly the configuration of the last proposals (nothing stale, nothing lost)
  /\ ConfD("Config", ObsCfg(e.obs) = <<funders', feegr', sale'>> /\ e.obs.nsc = NonZero(sale'),
           <<e.act, a, ObsCfg(e.obs), e.obs.nsc, <<funders', feegr', sale'>> >>)

\* a block that could not be finalised / committed at all
TrBlockFail == ActEvent(TRUE) /\ UNCHANGED <<vars, lk>> /\ Report("C18.BlockFailure", FALSE)

TraceInit == Init /\ l = 1 /\ lk = [c \in Addrs |-> ZeroD]
TraceNext == TrInit \/ TrAct \/ TrBlockFail
TraceAccepted == TLCGet("stats").diameter - 1 = Len(Trace)
=============================================================================
