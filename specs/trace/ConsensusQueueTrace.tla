------------------------ MODULE ConsensusQueueTrace ------------------------
(* Trace specification for ConsensusQueue: state bound to the recorded projection of the real       *)
(* consensus queues, chain info and staking flags; C04 / C06 / C13 monitors on every step.          *)
EXTENDS ConsensusQueue, Json
Trace == ndJsonDeserialize("trace.ndjson")
Shares5 == <<5000000, 3000001, 1000002, 1000000, 0>>
Shares4 == <<5000000, 3000001, 1000002, 1000000>>   \* raw shares of the driver's world (see harness/drivers/cqueue)
VARIABLES l, sup, sigok   \* sigok: [id -> TRUE iff every stored signature verified against the current bytes]
tvars == <<vars, l, sup, sigok>>   \* sup: pairs <<id, v>>: validator v had an Evidence submission for message id ACCEPTED (history variable)

Report(name, cond) == cond \/ PrintT(<<"MONFAIL", name, l>>)
Conf(name, cond)   == cond \/ PrintT(<<"CONFFAIL", name, l>>)
ConfD(name, cond, d) == cond \/ (PrintT(<<"CONFFAIL", name, l>>) /\ PrintT(<<"DETAIL", name, l, d>>))
IsEvent(a) == l <= Len(Trace) /\ Trace[l].act = a /\ l' = l + 1

\* observed message -> model record; signatures carry the version they verify against: the current one if
\* valid, a marker otherwise
MsgOf(r) == [kind |-> r.kind,
             ev |-> [v \in Vals |-> r.ev[v]],
             sigs |-> {[val |-> r.sigs[i].val, key |-> r.sigs[i].key,
                        ver |-> IF r.sigs[i].valid THEN <<r.elected, r.fees, 0>> ELSE <<-1, FALSE, 0>>] : i \in DOMAIN r.sigs},
             ests |-> [v \in Vals |-> r.ests[v]],
             elected |-> r.elected, fees |-> r.fees, pad |-> r.pad, err |-> r.err, added |-> r.added, asg |-> 0]
Obs(o) ==
  /\ msgs' = [id \in {o.msgs[i].id : i \in DOMAIN o.msgs} |-> MsgOf(o.msgs[CHOOSE i \in DOMAIN o.msgs : o.msgs[i].id = id])]
  /\ refHeight' = o.refHeight
  /\ jailed' = {o.jailed[i] : i \in DOMAIN o.jailed}
  /\ height' = o.height

\* model view of a message: keys are abstracted to <<val, keyver>> in the model, to address prefixes in the trace;
\* compare everything except the key identity
Abs(m) == [m EXCEPT !.sigs = {[val |-> s.val, ver |-> <<s.ver[1], s.ver[2]>>] : s \in m.sigs}, !.asg = 0]
AbsMsgs(ms) == [id \in DOMAIN ms |-> Abs(ms[id])]

Gone == DOMAIN msgs \ DOMAIN msgs'
Always(e) ==
  /\ Report("C06.SigsCurrent", \A id \in DOMAIN msgs' : \A s \in msgs'[id].sigs : s.ver = Version(msgs'[id]))
  /\ Report("C06.SigsUnique", \A id \in DOMAIN msgs' : \A s, t \in msgs'[id].sigs : (s.val = t.val \/ s.key = t.key) => s = t)
  /\ Report("C04.ElectedStable", \A id \in DOMAIN msgs \cap DOMAIN msgs' : msgs[id].elected # 0 => msgs'[id].elected = msgs[id].elected)
  /\ Report("C04.ElectionSound", \A id \in DOMAIN msgs' : LET m == msgs'[id] IN
        (m.elected # 0 /\ (id \notin DOMAIN msgs \/ msgs[id].elected = 0)) =>
          /\ Quorum23(SumShares({v \in Submitters(m) : InSnap(v)}), Total)
          /\ \E v \in Submitters(m) : m.ests[v] <= m.elected
          /\ \E v \in Submitters(m) : m.ests[v] >= m.elected
          /\ m.elected = MedianOf(m))
  /\ Report("C04.OnlyEndBlockRemoves", Gone # {} => e.act = "EndBlock")
  /\ Report("C04.OnlyEndBlockElects", (\E id \in DOMAIN msgs \cap DOMAIN msgs' : msgs[id].elected = 0 /\ msgs'[id].elected # 0) => e.act = "EndBlock")
  /\ Report("C13.OnlyEndBlockJails", jailed' # jailed => e.act = "EndBlock")
  \* what a validator supplied stays on record as long as the message exists (only its own next submission replaces it)
  /\ Report("C13.EvidenceSurvives", e.act # "Evidence" => \A id \in DOMAIN msgs \cap DOMAIN msgs' : msgs'[id].ev = msgs[id].ev)
  /\ (e.res = "fail" => Report("C04.RejectedIsNoOp", msgs' = msgs /\ refHeight' = refHeight /\ jailed' = jailed))

Keep == UNCHANGED <<nextId, keyver, removedBy, applied>>

TrInit == IsEvent("Init") /\ LET e == Trace[l] IN
  /\ Obs(e.obs) /\ nextId' = 1 /\ keyver' = [v \in Vals |-> 1] /\ res' = "init" /\ removedBy' = <<>> /\ applied' = <<>>
  /\ sigok' = TRUE /\ sup' = {}
  /\ Report("Setup.Shares", \A v \in Vals : e.shares[v] = Share[v])
  /\ Report("Setup.Empty", DOMAIN msgs' = {} /\ refHeight' = 0)

TrPut == IsEvent("Put") /\ LET e == Trace[l] IN
  /\ Obs(e.obs) /\ res' = e.res /\ nextId' = IF e.res = "ok" THEN e.id + 1 ELSE nextId
  /\ UNCHANGED <<keyver, removedBy, applied, sigok, sup>>
  /\ Always(e)
  /\ (e.res = "ok" => Report("C05.IdFresh", e.id >= nextId /\ e.id \notin DOMAIN msgs /\ e.id \in DOMAIN msgs'))
  /\ Conf("Put", e.res = "ok" /\ e.id >= nextId /\ AbsMsgs(msgs') = AbsMsgs([i \in DOMAIN msgs \cup {e.id} |-> IF i = e.id THEN NewMsg(e.args.kind) ELSE msgs[i]]))   \* ids may be skipped: the chain queues messages of its own (valset updates after a snapshot rebuild)

\* generic message step: bind, keep bookkeeping, monitors, conformance with the spec action evaluated on the abstracted messages
Step(act, actres, ModelMsgs(_), modelOk(_)) == IsEvent(act) /\ LET e == Trace[l] IN
  /\ Obs(e.obs) /\ res' = e.res /\ Keep /\ UNCHANGED sigok
  /\ sup' = IF act = "Evidence" /\ e.res = "ok" THEN sup \cup {<<e.args.id, e.args.v>>} ELSE sup
  /\ Always(e)
  /\ Conf(actres, (e.res = "ok") = modelOk(e.args))
  /\ ConfD(act, AbsMsgs(msgs') = AbsMsgs(ModelMsgs(e.args)), <<AbsMsgs(msgs'), AbsMsgs(ModelMsgs(e.args))>>)

SignOk(a) == a.id \in DOMAIN msgs /\ a.v \notin jailed /\ a.mode = "good" /\ msgs[a.id].kind \in Signable /\ ~\E s \in msgs[a.id].sigs : s.val = a.v
SignMsgs(a) == IF SignOk(a) THEN [msgs EXCEPT ![a.id].sigs = @ \cup {[val |-> a.v, key |-> "new", ver |-> Version(msgs[a.id])]}] ELSE msgs
EstOk(a) == a.id \in DOMAIN msgs /\ a.v \notin jailed /\ msgs[a.id].kind \in Signable /\ msgs[a.id].ests[a.v] = None /\ a.x >= 1
EstMsgs(a) == IF EstOk(a) THEN [msgs EXCEPT ![a.id].ests[a.v] = a.x] ELSE msgs
EvOk(a) == a.id \in DOMAIN msgs /\ a.v \notin jailed
EvMsgs(a) == IF EvOk(a) THEN [msgs EXCEPT ![a.id].ev[a.v] = a.e] ELSE msgs
PadMsgs(a) == IF EvOk(a) /\ ~msgs[a.id].pad THEN [msgs EXCEPT ![a.id].pad = TRUE] ELSE msgs
ErrMsgs(a) == IF EvOk(a) /\ ~msgs[a.id].pad /\ ~msgs[a.id].err THEN [msgs EXCEPT ![a.id].err = TRUE] ELSE msgs

TrSign == Step("Sign", "Sign.result", SignMsgs, SignOk) /\ LET e == Trace[l] IN
  (e.res = "ok" => Report("C06.SignedWithRegisteredKey", e.regNow))
\* an accepted submission is what the tally counts for that validator from then on (its latest submission)
TrEstimate == Step("Estimate", "Estimate.result", EstMsgs, EstOk) /\ LET e == Trace[l] IN
  (e.res = "ok" => Report("C04.EstimateRecorded", e.args.id \in DOMAIN msgs' /\ msgs'[e.args.id].ests[e.args.v] = e.args.x))
TrEvidence == Step("Evidence", "Evidence.result", EvMsgs, EvOk) /\ LET e == Trace[l] IN
  (e.res = "ok" => Report("C04.LatestEvidenceCounts", e.args.id \in DOMAIN msgs' /\ msgs'[e.args.id].ev[e.args.v] = e.args.e
                                                       /\ \A w \in Vals \ {e.args.v} : msgs'[e.args.id].ev[w] = msgs[e.args.id].ev[w]))
TrSetPAD == Step("SetPAD", "SetPAD.result", PadMsgs, EvOk)
TrSetErr == Step("SetErr", "SetErr.result", ErrMsgs, EvOk)

TrReRegister == IsEvent("ReRegister") /\ LET e == Trace[l] IN
  /\ Obs(e.obs) /\ res' = e.res /\ UNCHANGED <<nextId, removedBy, applied, sigok, sup>>
  /\ keyver' = IF e.res = "ok" THEN [keyver EXCEPT ![e.args.v] = @ + 1] ELSE keyver
  /\ Always(e)
  /\ Report("C06.ReRegisterKeepsQueue", msgs' = msgs)

TrReassign == IsEvent("Reassign") /\ LET e == Trace[l] IN
  /\ Obs(e.obs) /\ res' = e.res /\ Keep /\ UNCHANGED <<sigok, sup>>
  /\ Always(e)
  /\ Report("C04.ReassignKeepsElection", \A id \in DOMAIN msgs : id \in DOMAIN msgs' /\ msgs'[id].elected = msgs[id].elected
                                            /\ msgs'[id].ests = msgs[id].ests /\ msgs'[id].ev = msgs[id].ev)
  /\ Conf("Reassign", AbsMsgs(msgs') = AbsMsgs([id \in DOMAIN msgs |-> IF msgs[id].kind \in Signable /\ ~msgs[id].pad /\ ~msgs[id].err
                                                                       THEN [msgs[id] EXCEPT !.sigs = {}] ELSE msgs[id]]))

TrAdvance == IsEvent("Advance") /\ LET e == Trace[l] IN
  /\ Obs(e.obs) /\ res' = e.res /\ Keep /\ UNCHANGED <<sigok, sup>>
  /\ Always(e)
  /\ Report("C04.AdvanceTouchesNothing", msgs' = msgs /\ refHeight' = refHeight /\ jailed' = jailed)

\* end block: classify every removed message
PruneDue(id) == height % PruneEvery = 0 /\ height - msgs[id].added > PruneAge
TrEndBlock == IsEvent("EndBlock") /\ LET e == Trace[l]  m == EndBlockResult
                                       attested == {id \in Gone : msgs[id].kind = "ref" /\ Winner(msgs[id]) # {} /\ refHeight' # refHeight} IN
  /\ Obs(e.obs) /\ res' = e.res /\ UNCHANGED <<nextId, keyver, sigok, sup>>
  /\ removedBy' = [i \in DOMAIN removedBy \cup Gone |-> IF i \in Gone THEN (IF i \in attested THEN "attest" ELSE "prune") ELSE removedBy[i]]
  /\ applied' = applied
  /\ Always(e)
  /\ Report("Setup.NoPanic", e.err = "")
  \* C04a: the reference block only moves to a value backed by 2/3 of the snapshot shares (latest evidence, snapshot members only)
  /\ Report("C04.AttestNeedsQuorum", refHeight' # refHeight =>
        \E id \in Gone : msgs[id].kind = "ref" /\ refHeight' \in Winner(msgs[id]))
  /\ Report("C04.RemovalNeedsQuorumOrAge", \A id \in Gone : (Winner(msgs[id]) # {} /\ HasEvidence(msgs[id])) \/ PruneDue(id))
  /\ Report("C04.QuorumMessageHandled", \A id \in DOMAIN msgs : (msgs[id].kind = "ref" /\ Winner(msgs[id]) # {} /\ id \in DOMAIN msgs') =>
        \* it may only stay if the attester refused it (reference block not newer) or an earlier message aborted the pass
        (\A w \in Winner(msgs[id]) : w <= refHeight') \/ (\E j \in DOMAIN msgs \cap DOMAIN msgs' : j < id /\ msgs[j].kind = "ref" /\ Winner(msgs[j]) # {}))
  \* C13b: pruning jails only snapshot members that supplied no evidence for a pruned message with a delivery
  \* report (pad / err), and nobody if fewer than 10% of the shares attested or consensus was reached
  /\ Report("C13.PruneJailsOnlySilent", \A v \in jailed' \ jailed :
        \E id \in Gone : PruneDue(id) /\ v \in JailSet(msgs[id]) /\ <<id, v>> \notin sup)
  /\ Conf("EndBlock.msgs", AbsMsgs(msgs') = AbsMsgs(m.msgs))
  /\ Conf("EndBlock.ref", refHeight' = m.refHeight)
  /\ Conf("EndBlock.jailed", jailed' \subseteq m.jailed)

TraceInit == Init /\ l = 1 /\ sigok = TRUE /\ sup = {}
TraceNext == TrInit \/ TrPut \/ TrSign \/ TrEstimate \/ TrEvidence \/ TrSetPAD \/ TrSetErr \/ TrReRegister \/ TrReassign \/ TrAdvance \/ TrEndBlock
TraceAccepted == TLCGet("stats").diameter - 1 = Len(Trace)
=============================================================================
