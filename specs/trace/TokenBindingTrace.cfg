CONSTANTS
  Users = {1, 2}
  Denoms = {1, 2}
  Contracts = {1, 2, 3}
  InitBal = 2
  MaxTx = 1000000
INIT TraceInit
NEXT TraceNext
POSTCONDITION TraceAccepted
CHECK_DEADLOCK FALSE
