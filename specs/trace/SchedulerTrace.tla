--------------------------- MODULE SchedulerTrace ---------------------------
(* Trace specification for Scheduler: `jobs` is bound to the decoded job store of the REAL       *)
(* application after every request, `added` to the decoded messages that appeared in the          *)
(* turnstone queues of the four EVM chains during the request's block, `last` is the request,     *)
(* `res` the class of the result the chain (or the wasm message router) reported.                 *)
(* Simulate / RolledBack events ran their messages on a branch that was never committed, Query events  *)
(* carry the job the scheduler's query returned; all monitors judge against the COMMITTED store.        *)
(* Property monitors (MONFAIL, verdict): the step properties of Scheduler on observed state.      *)
(* Conformance (CONFFAIL, drift only): the observed step equals the spec's own action.            *)
EXTENDS Scheduler, Json
Trace == ndJsonDeserialize("trace.ndjson")
VARIABLE l
tvars == <<vars, l>>

Report(name, cond) == cond \/ PrintT(<<"MONFAIL", name, l>>)
Conf(name, cond)   == cond \/ PrintT(<<"CONFFAIL", name, l>>)
ConfD(name, cond, detail) == cond \/ (PrintT(<<"CONFFAIL", name, l>>) /\ PrintT(<<"DETAIL", name, l, detail>>))
IsEvent(a) == l <= Len(Trace) /\ Trace[l].act = a /\ l' = l + 1

JobRecs(o) == {o.jobs[i] : i \in DOMAIN o.jobs}
\* every stored key is one of the known ids, the stored ID field equals its key, no id is listed twice
StoreOK(o) == /\ \A r \in JobRecs(o) : r.id \in JobIds /\ r.idf = r.id
              /\ Cardinality({r.id : r \in JobRecs(o)}) = Len(o.jobs)
BindJobs(o) == [i \in {r.id : r \in JobRecs(o)} |->
                  LET r == CHOOSE x \in JobRecs(o) : x.id = i IN
                  \* payload / sp: which document the store holds; den: the bytes it denotes, decoded by the driver from the
                  \* stored record with the reference decoding (common.FromHex)
                  [owner |-> r.owner, chain |-> r.chain, target |-> r.target, payload |-> r.payload, sp |-> r.sp, den |-> r.den,
                   mod |-> r.mod, mev |-> r.mev]]
BindAdded(o) == [i \in DOMAIN o.added |->
                  LET m == o.added[i] IN [type |-> m.type, chain |-> m.chain, target |-> m.target, body |-> m.body, sfx |-> m.sfx]]

Class(cs, code) ==
  CASE cs = "scheduler" /\ code = 1200 -> "exists"
    [] cs = "scheduler" /\ code = 1201 -> "notfound"
    [] cs = "scheduler" /\ code = 1202 -> "invalid"
    [] cs = "scheduler" /\ code = 1203 -> "cannotmodify"
    [] cs = "undefined" /\ code = 1 -> "err"
    [] OTHER -> "other"
\* failure classes of the model that surface as unregistered errors
Coarse(w) == IF w \in {"nopayload", "badpayload", "nochain", "norelayer"} THEN "err" ELSE w

RowRec(r) == [owner |-> r.owner, chain |-> r.chain, target |-> r.target, payload |-> r.payload, sp |-> r.sp, den |-> r.den,
              mod |-> r.mod, mev |-> r.mev]
\* the job query answers exactly with the job of the committed store (and with nothing for an id that is not stored)
QueryObs(e) == (e.act = "Query") =>
  /\ QueryIsStored
  /\ (e.res = "found" => e.args.id \in DOMAIN jobs' /\ e.q.id = e.args.id /\ e.q.idf = e.args.id /\ RowRec(e.q) = jobs'[e.args.id])

Monitors(e) ==
  /\ Report("C17.IdUnique", StoreOK(e.obs) /\ IdUnique)
  /\ Report("C17.JobsImmutable", JobsImmutable /\ QueryObs(e))
  /\ Report("C17.DiscardedIsInvisible", DiscardedIsInvisible)
  /\ Report("C17.ExactlyOneCall", ExactlyOneCall /\ e.obs.removed = 0)
  /\ Report("C17.CallIsStoredCall", CallIsStoredCall)
  \* the requester's identity: the payload suffix, and the sender / contract fields of the call name the requester
  /\ Report("C17.CallerAppended", CallerAppended /\
        (e.res = "ok" /\ e.act = "Execute" =>
            \A i \in DOMAIN e.obs.added : e.obs.added[i].type = "slc" =>
                /\ e.obs.added[i].sender = e.args.who
                /\ e.obs.added[i].caddr = IF e.args.via = "tx" THEN 0 ELSE e.args.who))
  /\ Report("C17.FailureEnqueuesNothing", FailureEnqueuesNothing)

TrInit == IsEvent("Init") /\ LET e == Trace[l] IN
  /\ jobs' = BindJobs(e.obs) /\ vq' = {} /\ added' = BindAdded(e.obs)
  /\ res' = "init" /\ last' = Rec("Init", 0, 0, "", 0, 0, 0, 0, "", FALSE, FALSE, 0) /\ nops' = 0
  /\ Conf("Init", jobs' = [i \in {} |-> 0] /\ added' = <<>>)

Acts == {"Create", "Execute", "Simulate", "RolledBack", "Query"}
ActEvent(failed) == /\ l <= Len(Trace) /\ Trace[l].act \in Acts
                    /\ (Trace[l].res = "blockfail") = failed /\ l' = l + 1

TrAct == ActEvent(FALSE) /\ LET e == Trace[l]  a == e.args IN
  /\ jobs' = BindJobs(e.obs)
  /\ added' = BindAdded(e.obs)
  /\ vq' = vq \cup {added'[i].chain : i \in Upds(added')}
  /\ last' = Rec(e.act, a.who, a.as, a.via, a.id, a.chain, a.target, a.payload, a.sp, a.mod, a.mev, a.pg)
  /\ res' = IF e.res = "ok" THEN "ok"
            ELSE IF e.act \in {"Simulate", "RolledBack", "Query"} THEN e.res ELSE Class(e.cs, e.code)
  /\ nops' = nops + 1
  /\ Monitors(e)
  /\ IF e.act \in {"Simulate", "RolledBack"}
     THEN ConfD(e.act, res' = "discarded" /\ jobs' = jobs /\ added' = <<>>, <<a, res', e.inner>>)
     ELSE IF e.act = "Query"
     THEN ConfD("Query", jobs' = jobs /\ added' = <<>> /\ res' = (IF a.id \in DOMAIN jobs THEN "found" ELSE "notfound"), <<a, res', e.q>>)
     ELSE IF e.act = "Create"
     THEN LET w == CreateWhy(a.who, a.as, a.via, a.id, a.chain, a.mev) IN
          ConfD("Create", /\ res' = Coarse(w) /\ added' = <<>>
                          /\ jobs' = CreateJobs(w, a.who, a.id, a.chain, a.target, a.payload, a.sp, a.mod, a.mev),
                <<a, w, res', e.cs, e.code, e.log>>)
     ELSE LET w == ExecWhy(a.who, a.as, a.via, a.id, a.pg) IN
          ConfD("Execute", /\ res' = Coarse(w) /\ jobs' = jobs
                           /\ added' = ExecAdded(w, a.who, a.id, a.pg, a.sp)
                           \* what else the call carries: the job's MEV requirement, the chain's compass, a relayer
                           /\ \A i \in DOMAIN e.obs.added : LET m == e.obs.added[i] IN
                                 /\ m.mchain = m.chain /\ m.turn = 1 /\ m.asg = 1
                                 /\ (m.type = "slc" => m.mev = jobs[a.id].mev),
                <<a, w, res', e.cs, e.code, e.log, e.obs.added>>)

\* a block that could not be finalised / committed at all
TrBlockFail == ActEvent(TRUE) /\ UNCHANGED vars /\ Report("C17.BlockFailure", FALSE)

TraceInit == Init /\ l = 1
TraceNext == TrInit \/ TrAct \/ TrBlockFail
TraceAccepted == TLCGet("stats").diameter - 1 = Len(Trace)
=============================================================================
