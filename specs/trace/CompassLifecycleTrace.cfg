CONSTANTS
  NChains = 2
  MaxId = 3
  MaxRetries = 2
  InitActive <- Act2
  Removable = {1, 2}
  SkyInit = 7
INIT TraceInit
NEXT TraceNext
POSTCONDITION TraceAccepted
CHECK_DEADLOCK FALSE
