---------------------- MODULE CompassLifecycleTrace ----------------------
(* Trace specification for CompassLifecycle (extra check X01): every model variable is bound to the recorded   *)
(* projection of the real stores (chain infos, deployment records, turnstone queues, valset snapshots, skyway  *)
(* nonce); X01.* monitors are evaluated on every recorded step, Conf(..) compares the step with the model's    *)
(* own action.  One attestation step = evidence for one message + the consensus end-blocker, which may attest  *)
(* several messages: monitors speak about the messages that were in the queue before the step (identified by   *)
(* their real message id, qid) and never about intermediate states.                                             *)
EXTENDS CompassLifecycle, Json
Trace == ndJsonDeserialize("trace.ndjson")
Act2 == <<1, 0>>
VARIABLES l, qid      \* qid[c][i] = real id (relative) of the message queue[c][i]
tvars == <<vars, l, qid>>

Report(name, cond) == cond \/ PrintT(<<"MONFAIL", name, l>>)
Conf(name, cond)   == cond \/ PrintT(<<"CONFFAIL", name, l>>)
IsEvent(a) == l <= Len(Trace) /\ Trace[l].act = a /\ l' = l + 1
Range(s) == {s[i] : i \in DOMAIN s}
MaxOf(S) == IF S = {} THEN 0 ELSE CHOOSE x \in S : \A y \in S : y <= x
Tokens(o) == UNION {{o.chains[c].addr} \cup {d.addr : d \in Range(o.chains[c].deps)} \cup {m.addr : m \in Range(o.chains[c].queue)} : c \in Chains}

Obs(o, base) ==
  /\ last' = o.last
  /\ info' = [c \in Chains |-> [ex |-> o.chains[c].ex, fee |-> o.chains[c].fee, active |-> o.chains[c].active, addr |-> o.chains[c].addr]]
  /\ snap' = [c \in Chains |-> o.chains[c].snap]
  /\ dep' = [c \in Chains |-> {[id |-> d.id, st |-> d.st, addr |-> d.addr] : d \in Range(o.chains[c].deps)}]
  \* the queue of a removed chain cannot be read (it is still in the store): carried over
  /\ queue' = [c \in Chains |-> IF o.chains[c].ex
                                THEN [i \in DOMAIN o.chains[c].queue |->
                                        LET m == o.chains[c].queue[i] IN [kind |-> m.kind, id |-> m.id, retries |-> m.retries, addr |-> m.addr, ev |-> m.ev]]
                                ELSE queue[c]]
  /\ qid' = [c \in Chains |-> IF o.chains[c].ex THEN [i \in DOMAIN o.chains[c].queue |-> o.chains[c].queue[i].mid] ELSE qid[c]]
  /\ seq' = MaxOf(Tokens(o) \cup {base})
  /\ sky' = [c \in Chains |-> o.chains[c].sky]

Consumed(c) == {i \in DOMAIN queue[c] : qid[c][i] \notin Range(qid'[c])}
NewMsgs(c) == {i \in DOMAIN queue'[c] : qid'[c][i] \notin Range(qid[c])}
Outcome(a) == IF a \in {"AttestUploadOk", "AttestHandoverOk"} THEN "ok"
              ELSE IF a \in {"AttestUploadErr", "AttestHandoverErr"} THEN "err" ELSE "txfail"
\* evidence a message carried when the end-blocker ran: what was stored before, or what this step submitted
EvOf(e, c, i) == IF e.act \in AttestNames /\ e.args.c = c /\ e.args.k = i THEN Outcome(e.act) ELSE queue[c][i].ev

Always(e) ==
  LET o == e.obs IN
  /\ Report("X01.AtMostOneDeployment", \A c \in Chains : Len(o.chains[c].deps) <= 1)
  /\ Report("X01.ActiveNeverDecreases", ActiveNeverDecreases)
  /\ Report("X01.ActivationOnlyByAttestation", \A c \in Chains : Changed(c) => e.act \in AttestNames)
  /\ Report("X01.ActivationNeedsDeployment", \A c \in Chains : Changed(c) => DepsOf(dep[c], info'[c].active) # {})
  /\ Report("X01.ActivationDeletesDeployment", \A c \in Chains : Changed(c) => DepsOf(dep'[c], info'[c].active) = {})
  /\ Report("X01.ActivationByAttestedMessage",
            \A c \in Chains : Changed(c) =>
               IF snap[c] THEN \E i \in Consumed(c) : queue[c][i].kind = "handover" /\ queue[c][i].id = info'[c].active /\ EvOf(e, c, i) = "ok"
               ELSE snap'[c] /\ \E i \in Consumed(c) : queue[c][i].kind = "upload" /\ queue[c][i].id = info'[c].active /\ EvOf(e, c, i) = "ok")
  /\ Report("X01.ActivationInstallsRecordedAddress",
            \A c \in Chains : Changed(c) => /\ info'[c].addr # 0
                                            /\ info'[c].addr \in {d.addr : d \in DepsOf(dep[c], info'[c].active)} \cup (seq + 1)..seq')
  /\ Report("X01.HandoverAddrMatches",
            \A c \in Chains : (Changed(c) /\ snap[c]) =>
               \E i \in Consumed(c) : /\ queue[c][i].kind = "handover" /\ queue[c][i].id = info'[c].active
                                      /\ EvOf(e, c, i) = "ok" /\ queue[c][i].addr = info'[c].addr)
  /\ Report("X01.WaitingHasAddress", \A c \in Chains : \A d \in dep'[c] : (d.st = "waiting") = (d.addr # 0))
  /\ Report("X01.WaitingOnlyByUploadAttestation",
            \A c \in Chains : \A d \in dep'[c] : (d.st = "waiting" /\ d \notin dep[c]) =>
               /\ e.act \in AttestNames
               /\ [id |-> d.id, st |-> "inflight", addr |-> 0] \in dep[c]
               /\ d.addr \in (seq + 1)..seq'
               /\ \E i \in Consumed(c) : queue[c][i].kind = "upload" /\ queue[c][i].id = d.id /\ EvOf(e, c, i) = "ok")
  /\ Report("X01.HandoverOnlyAfterUpload",
            \A c \in Chains : \A j \in NewMsgs(c) : queue'[c][j].kind = "handover" =>
               /\ e.act \in AttestNames /\ snap[c] /\ queue'[c][j].addr \in (seq + 1)..seq'
               /\ \E i \in Consumed(c) : queue[c][i].kind = "upload" /\ queue[c][i].id = queue'[c][j].id /\ EvOf(e, c, i) = "ok")
  /\ Report("X01.RetriesBounded", \A c \in Chains : \A i \in DOMAIN queue'[c] : queue'[c][i].retries \in 0..MaxRetries)
  \* a failed upload is retried with the counter advanced, at most MaxRetries times; then the record is dropped
  /\ Report("X01.RetryProgress",
            \A c \in Chains : \A i \in Consumed(c) :
               (e.act \in AttestNames /\ queue[c][i].kind = "upload" /\ EvOf(e, c, i) = "err") =>     \* (expiry consumes without a walk)
                  IF queue[c][i].retries < MaxRetries
                  THEN \E j \in NewMsgs(c) : queue'[c][j].kind = "upload" /\ queue'[c][j].id = queue[c][i].id
                                             /\ queue'[c][j].retries = queue[c][i].retries + 1
                  ELSE /\ DepsOf(dep'[c], queue[c][i].id) = {}
                       /\ ~\E j \in NewMsgs(c) : queue'[c][j].kind = "upload" /\ queue'[c][j].id = queue[c][i].id)
  /\ Report("X01.NoRelayWhileDeploying", \A c \in Chains : Len(o.chains[c].deps) > 0 => o.chains[c].relay <= 0)
  /\ Report("X01.DeploymentNewer", \A c \in Chains : \A d \in dep'[c] : d.id <= last' /\ (info'[c].ex => d.id > info'[c].active))
  /\ Report("X01.CreationPath",
            \A c \in Chains : \A d \in dep'[c] : DepsOf(dep[c], d.id) = {} =>
               /\ e.act \in {"NewCompass", "EndBlockTryDeploy", "AddChain"}
               /\ dep[c] = {} /\ d.st = "inflight" /\ d.id = last' /\ info'[c].ex /\ info'[c].fee
               /\ \E j \in NewMsgs(c) : queue'[c][j] = Upload(d.id, 0))
  /\ Report("X01.OracleNonceReset", \A c \in Chains : (info[c].ex /\ info'[c].ex) =>
                                        /\ (Changed(c) => sky'[c] = 0)
                                        /\ (sky'[c] # sky[c] => Changed(c)))
  /\ Report("X01.SkywayCompassInSync", \A c \in Chains : Changed(c) => o.chains[c].sync)
  /\ Report("X01.MessagesLeaveByAttestationOrExpiry",
            \A c \in Chains : (info[c].ex /\ info'[c].ex /\ Consumed(c) # {}) =>
               \/ e.act \in AttestNames /\ \A i \in Consumed(c) : EvOf(e, c, i) # "none"
               \/ e.act = "PruneMessage" /\ e.args.c = c /\ Consumed(c) = {1})
  /\ Report("X01.RejectedIsNoOp", e.res = "fail" => (last' = last /\ info' = info /\ snap' = snap /\ dep' = dep /\ queue' = queue /\ sky' = sky))
  \* the generated step could not be carried out on the real state (model and code had diverged before): drift, not a verdict
  /\ Conf("Driver.step", e.res \notin {"nomsg", "nobuild", "noevidence"})
  /\ Report("X01.NoPanic", e.res # "panic")
  \* non-vacuity of the relay gate on chain 1 (one batch with an elected estimate was prepared there)
  /\ Conf("Relay.open", (info'[1].ex /\ info'[1].active > 0 /\ dep'[1] = {}) => o.chains[1].relay = 1)

Step(e) == /\ Obs(e.obs, seq) /\ res' = e.res /\ act' = Act(e.act, e.args.c, e.args.k, e.args.id)
           /\ Always(e)

TrInit == IsEvent("Init") /\ LET e == Trace[l] IN
  /\ Obs(e.obs, 0) /\ res' = "init" /\ act' = Act("Init", 0, 0, 0)
  /\ Report("Setup.Init", /\ last' = 1 /\ dep' = [c \in Chains |-> {}] /\ queue' = [c \in Chains |-> <<>>]
                          /\ info' = [c \in Chains |-> [ex |-> TRUE, fee |-> InitActive[c] > 0, active |-> InitActive[c],
                                                        addr |-> IF InitActive[c] > 0 THEN CountTrue(InitActive, c) ELSE 0]]
                          /\ snap' = [c \in Chains |-> InitActive[c] > 0] /\ sky' = [c \in Chains |-> SkyInit]
                          /\ e.obs.chains[1].relay = 1)

TrNewCompass == IsEvent("NewCompass") /\ LET e == Trace[l] IN Step(e) /\ Conf("NewCompass", NewCompass)
TrEndBlock == IsEvent("EndBlockTryDeploy") /\ LET e == Trace[l] IN Step(e) /\ Conf("EndBlockTryDeploy", EndBlockTryDeploy)
TrAttest(n) == IsEvent(n) /\ LET e == Trace[l]  kind == IF n \in {"AttestUploadOk", "AttestUploadErr", "AttestUploadTxFail"} THEN "upload" ELSE "handover" IN
  Step(e) /\ Conf(n, Attest(n, kind, e.args.c, e.args.k, Outcome(n)))
TrPrune == IsEvent("PruneMessage") /\ LET e == Trace[l] IN Step(e) /\ Conf("PruneMessage", PruneMessage(e.args.c))
TrRemoveDeployment == IsEvent("RemoveDeployment") /\ LET e == Trace[l] IN Step(e) /\ Conf("RemoveDeployment", RemoveDeployment(e.args.c, e.args.id))
TrSetFee == IsEvent("SetFeeManager") /\ LET e == Trace[l] IN Step(e) /\ Conf("SetFeeManager", SetFeeManager(e.args.c))
TrAddChain == IsEvent("AddChain") /\ LET e == Trace[l] IN Step(e) /\ Conf("AddChain", AddChain(e.args.c))
TrRemoveChain == IsEvent("RemoveChain") /\ LET e == Trace[l] IN Step(e) /\ Conf("RemoveChain", RemoveChain(e.args.c))

TraceInit == Init /\ l = 1 /\ qid = [c \in Chains |-> <<>>]
TraceNext == \/ TrInit \/ TrNewCompass \/ TrEndBlock \/ \E n \in AttestNames : TrAttest(n)
             \/ TrPrune \/ TrRemoveDeployment \/ TrSetFee \/ TrAddChain \/ TrRemoveChain
TraceAccepted == TLCGet("stats").diameter - 1 = Len(Trace)
=============================================================================
