---------------------------- MODULE SignBindingTrace ----------------------------
(* Validates the trace recorded by harness/drivers/signbinding against SignBinding.tla.          *)
(* One event per obligation: the driver built the two items of the obligation with concrete      *)
(* values, computed the REAL digests and recorded whether they differ.                           *)
(* Monitors (verdicts):                                                                          *)
(*   C05.Binding / C11.Binding / C04.EvidenceIdentity  : the digests differ (every obligation is *)
(*        over Required fields);                                                                 *)
(*   C11.StoredBodyIsVotedBody : for every attestation found in the store after the two claims went *)
(*        through the real msg server, the key equals the key recomputed from the STORED claim body  *)
(*        the stored body agrees with a claim EACH recorded voter submitted on every field but the   *)
(*        voter identity / tx metadata, and every accepted submission has its vote on an attestation *)
(*        whose stored body is that submission;                                                      *)
(*   <pid>.FieldTableComplete : the field list obtained by reflection over the real item type    *)
(*        equals Fields(kind) -- a field added to the code must be classified in the table;      *)
(*   <pid>.KindTableComplete  : the item types found in the code are the kinds of the table;     *)
(*   Setup.*                  : the harness could build the items and compute the digests.       *)
(* Conformance (drift only): differs = Binds(o) of the table's model of the code.                *)
EXTENDS SignBinding, Json
Trace == ndJsonDeserialize("trace.ndjson")
VARIABLE l
tvars == <<vars, l>>

Report(name, cond) == cond \/ PrintT(<<"MONFAIL", name, l>>)
Conf(name, cond)   == cond \/ PrintT(<<"CONFFAIL", name, l>>)
Detail(x)          == PrintT(<<"DETAIL", x>>)
IsEvent(a) == l <= Len(Trace) /\ Trace[l].act = a /\ l' = l + 1
SetOf(s) == {s[i] : i \in DOMAIN s}

Monitor(pid) == IF pid = "C04" THEN "C04.EvidenceIdentity" ELSE pid \o ".Binding"

TrReset == IsEvent("Reset") /\ cur' = NoObl

TrCheck == IsEvent("Check") /\
  LET e   == Trace[l]
      o   == [kind |-> e.args.kind, fields |-> SetOf(e.args.fields), mode |-> e.args.mode]
      pid == IF o.mode = "cross" THEN "C04" ELSE IF o.kind \in Kinds THEN FamilyOf(o.kind) ELSE "Setup"
      seen == SetOf(e.fields_seen)
  IN  /\ Check(o)
      /\ Report("Setup.KnownObligation", o \in Obl)
      /\ Report("Setup.Computed", e.res = "ok")
      /\ o \in Obl =>
           /\ Report(Monitor(pid), e.res = "ok" => e.differs)
           /\ Conf("Table", e.res = "ok" => (e.differs = Binds(o)))
           /\ (pid = "C11" /\ e.res = "ok") =>
                /\ Report("Setup.AttestationsObserved", Len(e.atts) >= 1 /\ \A a \in SetOf(e.atts) : a.unknown_voters = 0 /\ a.votes >= 1)
                /\ Report("C11.StoredBodyIsVotedBody",
                          \/ /\ \A a \in SetOf(e.atts) :
                                   /\ a.key = a.body_key
                                   \* every recorded voter submitted (at some point of the history) a claim that IS the stored body
                                   /\ \A v \in SetOf(a.voters) : \E d \in SetOf(v) : SetOf(d) \subseteq Excluded(o.kind)
                             \* every accepted submission sits on an attestation whose stored body IS the submitted claim
                             /\ \A sb \in SetOf(e.subs) : sb.accepted => \E h \in SetOf(sb.homes) : SetOf(h) \subseteq Excluded(o.kind)
                          \/ ~Detail(<<"stored body is not what was voted", o>>))
           /\ o.mode # "cross" =>
                Report(pid \o ".FieldTableComplete",
                       seen = Fields(o.kind) \/ ~Detail(<<"unlisted field", o.kind, seen \ Fields(o.kind),
                                                          "missing field", Fields(o.kind) \ seen>>))

TrSurvey == IsEvent("Survey") /\
  LET e == Trace[l]  f == e.args.family  seen == SetOf(e.kinds_seen) IN
      /\ IF f \in Families THEN Survey(f) ELSE cur' = NoObl
      /\ Report("Setup.KnownFamily", f \in Families)
      /\ Report("Setup.Computed", e.res = "ok")
      /\ f \in Families =>
           Report(f \o ".KindTableComplete",
                  seen = KindsOf(f) \/ ~Detail(<<"unlisted kind", seen \ KindsOf(f), "missing kind", KindsOf(f) \ seen>>))

TraceInit == Init /\ l = 1
TraceNext == TrReset \/ TrCheck \/ TrSurvey
TraceAccepted == TLCGet("stats").diameter - 1 = Len(Trace)
=============================================================================
