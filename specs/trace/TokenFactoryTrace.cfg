CONSTANTS
  Accounts = {1, 2, 3}
  Subs = {1, 2}
  Amounts = {1, 2}
  Funds <- FundsSmall
  GrantSets <- NoGrants
  NativeMetas = {0, 1}
  SpecialIds = {1, 2, 3, 4, 5, 6, 7, 8}
  MaxOps = 1000000
INIT TraceInit
NEXT TraceNext
POSTCONDITION TraceAccepted
CHECK_DEADLOCK FALSE
