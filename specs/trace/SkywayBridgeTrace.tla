------------------------- MODULE SkywayBridgeTrace -------------------------
(* Trace specification for SkywayBridge: the state variables are bound to the     *)
(* projection of the REAL stores recorded after every step; monitors are driven   *)
(* by what the code reported; property monitors decide (MONFAIL), the strict      *)
(* comparison with the spec's own action is conformance (CONFFAIL).               *)
EXTENDS SkywayBridge, Json
Trace == ndJsonDeserialize("trace.ndjson")
Seq12 == <<1, 2>>
Seq11 == <<1, 1>>
Rates == {<<1, 2>>}
VARIABLES l, supply0, win, carry
tvars == <<vars, l, supply0, win, carry>>

Report(name, cond) == cond \/ PrintT(<<"MONFAIL", name, l>>)
Conf(name, cond)   == cond \/ PrintT(<<"CONFFAIL", name, l>>)
ConfD(name, cond, detail) == cond \/ (PrintT(<<"CONFFAIL", name, l>>) /\ PrintT(<<"DETAIL", name, l, detail>>))
IsEvent(a) == l <= Len(Trace) /\ Trace[l].act = a /\ l' = l + 1

SeqSet(s) == {s[i] : i \in DOMAIN s}
TxOf(r) == Transfer(r.id, r.sender, r.tok, r.amt, r.tax)
TxSet(s) == {TxOf(s[i]) : i \in DOMAIN s}
BatchOf(r) == [nonce |-> r.nonce, tok |-> r.tok, txs |-> TxSet(r.txs), timeoutH |-> r.timeoutH, est |-> r.est]

\* bind the observable part of the state to the recorded projection
Obs(o) ==
  /\ pool' = TxSet(o.pool)
  /\ batches' = {BatchOf(o.batches[i]) : i \in DOMAIN o.batches}
  /\ escrow' = [d \in Denoms |-> o.escrow[d]]
  /\ supply' = [d \in Denoms |-> o.supply[d]]
  /\ community' = [d \in Denoms |-> o.community[d]]
  /\ bal' = [u \in Users |-> [d \in Denoms |-> o.bal[u][d]]]
  /\ usage' = [d \in Denoms |-> [total |-> o.usage[d].total, start |-> o.usage[d].start]]
  /\ estimates' = {[nonce |-> o.estimates[i].nonce, val |-> o.estimates[i].val, value |-> o.estimates[i].value] : i \in DOMAIN o.estimates}
  /\ confirms' = {[nonce |-> o.confirms[i].nonce, val |-> o.confirms[i].val, est |-> o.confirms[i].est] : i \in DOMAIN o.confirms}
  /\ archived' = {<<o.archived[i][1], o.archived[i][2]>> : i \in DOMAIN o.archived}
  /\ issued' = {<<o.issued[i][1], o.issued[i][2]>> : i \in DOMAIN o.issued}
  /\ jailed' = SeqSet(o.jailed)
  /\ height' = o.height

BridgeState == <<pool, batches, bal, escrow, supply, community>>
RECURSIVE SumBalU(_, _)
SumBalU(U, d) == IF U = {} THEN 0 ELSE LET u == CHOOSE x \in U : TRUE IN (bal'[u][d] - bal[u][d]) + SumBalU(U \ {u}, d)
SumBal(d) == SumBalU(Users, d)

\* ---- property monitors evaluated on the observed next state --------------------------------
EscrowEqNext == \A d \in Denoms : escrow'[d] = SumCost({tx \in pool' \cup UNION {b.txs : b \in batches'} : TokDenom[tx.tok] = d})
PlacesNext(id) == (IF \E tx \in pool' : tx.id = id THEN 1 ELSE 0)
                + Cardinality({b \in batches' : \E tx \in b.txs : tx.id = id})
                + (IF id \in refunded' THEN 1 ELSE 0) + (IF id \in burned' THEN 1 ELSE 0)
OnePlaceNext == \A id \in accepted' : PlacesNext(id) = 1
SupplyNext == \A d \in Denoms : supply'[d] = supply0[d] + deposited'[d] - burnedSum'[d]
SafeNext == \A p \in punished' : ~p.wasIssued
EvCp(e) == IF e.known THEN <<e.args.n, e.args.x>> ELSE <<e.args.n, -1>>
ConfirmsNext(o) == (\A c \in confirms' : \E b \in batches' : b.nonce = c.nonce /\ b.est = c.est) /\ o.orphanConfirms = 0
ArchiveNext == issued' \subseteq archived'

Always(e) ==
  /\ Report("C01.EscrowEq", EscrowEqNext)
  /\ Report("C01.ExactlyOnePlace", OnePlaceNext)
  /\ Report("C01.SupplyLedger", SupplyNext)
  /\ Report("C13.HonestSignerSafe", SafeNext)
  /\ Report("C06.ConfirmsCurrent", ConfirmsNext(e.obs))
  /\ (e.res = "fail" => Report("C01.FailureIsNoOp", BridgeState' = BridgeState /\ usage' = usage))

NoMon == UNCHANGED <<accepted, refunded, burned, deposited, burnedSum, punished, sent>>

TrInit == IsEvent("Init") /\ LET e == Trace[l] IN
  /\ Obs(e.obs)
  /\ lastTx' = 0 /\ lastBatch' = 0 /\ claims' = <<>> /\ res' = "init"
  /\ tax' = [d \in Denoms |-> NoTax] /\ limit' = [d \in Denoms |-> NoLimit]
  /\ accepted' = {} /\ refunded' = {} /\ burned' = {} /\ deposited' = [d \in Denoms |-> 0]
  /\ burnedSum' = [d \in Denoms |-> 0] /\ punished' = {} /\ sent' = <<>>
  /\ supply0' = [d \in Denoms |-> e.obs.supply[d]] /\ carry' = <<>>
  /\ win' = [d \in Denoms |-> NoUsage]
  /\ Report("Setup.Period", e.period = Period)
  /\ Report("Setup.Empty", pool' = {} /\ batches' = {} /\ \A d \in Denoms : escrow'[d] = 0)

TrSend == IsEvent("Send") /\ LET e == Trace[l]  a == e.args  d == TokDenom[a.t]  x == TaxFor(a.u, d, a.a)
                              lim == LimitApplies(a.u, d)
                              modelOk == ~e.fired /\ LimitOK(a.u, d, a.a) /\ bal[a.u][d] >= a.a + x IN
  /\ Obs(e.obs) /\ res' = e.res
  /\ lastTx' = IF e.res = "ok" THEN e.id ELSE lastTx
  /\ accepted' = IF e.res = "ok" THEN accepted \cup {e.id} ELSE accepted
  /\ sent' = IF e.res = "ok" THEN Append(sent, [u |-> a.u, d |-> d, a |-> a.a, h |-> height, lim |-> lim, limit |-> limit[d].limit]) ELSE sent
  /\ win' = IF e.res = "ok" /\ lim
            THEN [win EXCEPT ![d] = IF @ = NoUsage \/ height - @.start >= Period THEN [total |-> a.a, start |-> height]
                                    ELSE [total |-> @.total + a.a, start |-> @.start]]
            ELSE win
  /\ UNCHANGED <<lastBatch, tax, limit, claims, refunded, burned, deposited, burnedSum, punished, supply0, carry>>
  /\ Always(e)
  /\ (e.res = "ok" =>
        /\ Report("C15.TaxExact", bal[a.u][d] - bal'[a.u][d] = a.a + x)
        /\ Report("C15.TaxRecorded", \E tx \in pool' : tx.id = e.id /\ tx.amt = a.a /\ tx.tax = x /\ tx.sender = a.u /\ tx.tok = a.t)
        /\ Report("C01.IdFresh", e.id \notin accepted)
        /\ (lim => Report("C15.LimitRespected", win'[d].total <= limit[d].limit)))
  /\ Report("C15.SendOutcome", (e.res = "ok") = modelOk)
  /\ Conf("Send", Send(a.u, a.t, a.a, e.fired))

TrCancel == IsEvent("Cancel") /\ LET e == Trace[l]  a == e.args IN
  /\ Obs(e.obs) /\ res' = e.res
  /\ refunded' = IF e.res = "ok" THEN refunded \cup {a.id} ELSE refunded
  /\ UNCHANGED <<lastTx, lastBatch, tax, limit, claims, accepted, burned, deposited, burnedSum, punished, sent, supply0, win, carry>>
  /\ Always(e)
  /\ (e.res = "ok" =>
        /\ Report("C01.CancelOnlyOwnPooled", \E tx \in pool : tx.id = a.id /\ tx.sender = a.u)
        /\ Report("C15.RefundInFull", \A tx \in pool : tx.id = a.id =>
                    bal'[a.u][TokDenom[tx.tok]] - bal[a.u][TokDenom[tx.tok]] = tx.amt + tx.tax))
  /\ Conf("Cancel", Cancel(a.u, a.id, e.fired))

TrSetTax == IsEvent("SetTax") /\ LET e == Trace[l]  a == e.args IN
  /\ Obs(e.obs) /\ res' = e.res
  /\ tax' = [tax EXCEPT ![a.d] = [num |-> a.num, den |-> a.den, exempt |-> SeqSet(a.ex)]]
  /\ UNCHANGED <<lastTx, lastBatch, limit, claims, supply0, win, carry>> /\ NoMon
  /\ Always(e)
  /\ Conf("SetTax", SetTax(a.d, <<a.num, a.den>>, SeqSet(a.ex)))

TrSetLimit == IsEvent("SetLimit") /\ LET e == Trace[l]  a == e.args IN
  /\ Obs(e.obs) /\ res' = e.res
  /\ limit' = [limit EXCEPT ![a.d] = [limit |-> a.lim, exempt |-> SeqSet(a.ex)]]
  /\ UNCHANGED <<lastTx, lastBatch, tax, claims, supply0, win, carry>> /\ NoMon
  /\ Always(e)
  /\ Conf("SetLimit", SetLimit(a.d, a.lim, SeqSet(a.ex)))

ClaimRec(act, a) == IF act = "ClaimExecuted"
                    THEN [kind |-> "executed", nonce |-> a.n, tok |-> a.t, late |-> a.late, amt |-> 0, recv |-> "", user |-> 0]
                    ELSE [kind |-> "deposit", nonce |-> 0, tok |-> a.t, late |-> FALSE, amt |-> a.a, recv |-> a.recv, user |-> a.u]
TrClaim(act) == IsEvent(act) /\ LET e == Trace[l]  a == e.args IN
  /\ Obs(e.obs) /\ res' = e.res
  /\ claims' = IF e.res = "ok" THEN Append(claims, ClaimRec(act, a)) ELSE claims
  /\ UNCHANGED <<lastTx, lastBatch, tax, limit, supply0, win, carry>> /\ NoMon
  /\ Always(e)
  /\ Report("C01.ClaimVoteTouchesNothing", BridgeState' = BridgeState)

\* everything that left pool+batches during this end-block
Gone == {tx \in pool \cup BatchTxs : ~(tx \in pool' \/ \E b \in batches' : tx \in b.txs)}
\* coins that reached users or the community pool during this end-block
Inflow(d) == community'[d] - community[d] + SumBal(d)
RECURSIVE SubsetSums(_, _)
SubsetSums(cs, d) == IF cs = <<>> THEN {0}
                     ELSE LET r == SubsetSums(Tail(cs), d)  c == Head(cs) IN
                          IF c.kind = "deposit" /\ TokDenom[c.tok] = d THEN r \cup {x + c.amt : x \in r} ELSE r
\* A faulted end block may have applied only some of the pending claims (the tally stops at a failing one; a claim whose
\* handler failed is consumed without effect, one that failed after its handler is applied): which ones is not observable,
\* so the claims pending at a faulted end block are CARRIED as possibly pending until the next fault-free end block.
\* all deposit claims of this history that reached quorum so far (walks the recorded trace back to the history's Init)
RECURSIVE ClaimedSoFar(_, _)
ClaimedSoFar(i, d) == IF i < 1 \/ Trace[i].act = "Init" THEN 0
                      ELSE (IF Trace[i].act = "ClaimDeposit" /\ Trace[i].res = "ok" /\ TokDenom[Trace[i].args.t] = d THEN Trace[i].args.a ELSE 0)
                           + ClaimedSoFar(i - 1, d)
TrEndBlock == IsEvent("EndBlock") /\ LET e == Trace[l]  m == EndBlockResult
                                      legit == {tx \in Gone : tx.id \in m.burned \ burned} IN
  /\ Obs(e.obs) /\ res' = e.res
  /\ claims' = <<>>
  /\ carry' = IF e.fired THEN carry \o claims ELSE <<>>
  /\ burned' = burned \cup {tx.id : tx \in legit}
  /\ burnedSum' = [d \in Denoms |-> burnedSum[d] + SumCost({tx \in legit : TokDenom[tx.tok] = d})]
  /\ deposited' = [d \in Denoms |-> deposited[d] + Inflow(d)]
  /\ lastBatch' = Max({lastBatch} \cup (IF e.fired THEN {} ELSE {m.lastBatch}) \cup {b.nonce : b \in batches'})   \* batches built and executed within the block are never seen
  /\ UNCHANGED <<lastTx, tax, limit, accepted, refunded, punished, sent, supply0, win>>
  /\ Always(e)
  /\ Report("C01.EndBlockKeepsUserFunds", \A u \in Users, d \in Denoms : bal'[u][d] >= bal[u][d])
  /\ Report("C01.DepositsOnlyAttested", \A d \in Denoms : Inflow(d) \in SubsetSums(carry \o claims, d))
  /\ Report("C01.DepositsAtMostOnce", \A d \in Denoms : deposited'[d] <= ClaimedSoFar(l, d))   \* also across faulted end blocks
  /\ ((~e.fired /\ carry = <<>>) => Report("C01.DepositsAppliedOnce", \A d \in Denoms : deposited'[d] = m.deposited[d]))
  /\ ((~e.fired /\ carry = <<>>) => /\ ConfD("EndBlock.pool", pool' = m.pool, <<pool', m.pool>>)
                  /\ ConfD("EndBlock.batches", batches' = m.batches, <<batches', m.batches>>)
                  /\ Conf("EndBlock.funds", escrow' = m.escrow /\ supply' = m.supply /\ bal' = m.bal /\ community' = m.community)
                  /\ Conf("EndBlock.sigs", estimates' = m.estimates /\ confirms' = m.confirms /\ archived' \cap issued' = m.archived \cap issued'))

TrAdvance == IsEvent("Advance") /\ LET e == Trace[l] IN
  /\ Obs(e.obs) /\ res' = e.res
  /\ UNCHANGED <<lastTx, lastBatch, tax, limit, claims, supply0, win, carry>> /\ NoMon
  /\ Always(e)
  /\ Report("C01.AdvanceTouchesNothing", BridgeState' = BridgeState)
  /\ Conf("Advance", height' = height + e.args.dh)

TrEstimate == IsEvent("Estimate") /\ LET e == Trace[l]  a == e.args IN
  /\ Obs(e.obs) /\ res' = e.res
  /\ UNCHANGED <<lastTx, lastBatch, tax, limit, claims, supply0, win, carry>> /\ NoMon
  /\ Always(e)
  /\ Conf("Estimate", Estimate(a.v, a.n, a.x))

TrConfirm == IsEvent("Confirm") /\ LET e == Trace[l]  a == e.args IN
  /\ Obs(e.obs) /\ res' = e.res
  /\ UNCHANGED <<lastTx, lastBatch, tax, limit, claims, supply0, win, carry>> /\ NoMon
  /\ Always(e)
  /\ (e.res = "ok" => Report("C06.ConfirmOverCurrent", \E b \in batches : b.nonce = a.n /\ b.est = a.x))
  /\ Conf("Confirm", Confirm(a.v, a.n, a.x))

TrEvidence == IsEvent("Evidence") /\ LET e == Trace[l]  a == e.args IN
  /\ Obs(e.obs) /\ res' = e.res
  /\ punished' = IF a.v \in jailed' \ jailed THEN punished \cup {[val |-> a.v, cp |-> EvCp(e), wasIssued |-> EvCp(e) \in issued]} ELSE punished
  /\ UNCHANGED <<lastTx, lastBatch, tax, limit, claims, accepted, refunded, burned, deposited, burnedSum, sent, supply0, win, carry>>
  /\ Always(e)
  /\ Report("C13.OnlySignerJailed", jailed' \ jailed \subseteq {a.v})
  /\ Conf("Evidence", (e.res = "ok") = ((IF e.known THEN <<a.n, a.x>> ELSE <<a.n, -1>>) \notin archived))

\* key rotation: registering a new key changes nothing in the bridge state; evidence signed with a key that is no longer
\* (or never was) the validator's registered key can punish nobody
TrReKey == IsEvent("ReKey") /\ LET e == Trace[l] IN
  /\ Obs(e.obs) /\ res' = e.res /\ punished' = punished
  /\ UNCHANGED <<lastTx, lastBatch, tax, limit, claims, accepted, refunded, burned, deposited, burnedSum, sent, supply0, win, carry>>
  /\ Always(e)
  /\ Report("Setup.ReKeyed", e.res = "gov")
TrEvidenceOld == IsEvent("EvidenceOld") /\ LET e == Trace[l]  a == e.args IN
  /\ Obs(e.obs) /\ res' = e.res
  /\ punished' = IF a.v \in jailed' \ jailed THEN punished \cup {[val |-> a.v, cp |-> EvCp(e), wasIssued |-> EvCp(e) \in issued]} ELSE punished
  /\ UNCHANGED <<lastTx, lastBatch, tax, limit, claims, accepted, refunded, burned, deposited, burnedSum, sent, supply0, win, carry>>
  /\ Always(e)
  /\ Report("C13.OnlyRegisteredKeyPunished", jailed' = jailed /\ e.res = "fail")

TraceInit == Init /\ l = 1 /\ supply0 = [d \in Denoms |-> 0] /\ win = [d \in Denoms |-> NoUsage] /\ carry = <<>>
TraceNext == \/ TrInit \/ TrSend \/ TrCancel \/ TrSetTax \/ TrSetLimit \/ TrClaim("ClaimExecuted") \/ TrClaim("ClaimDeposit")
             \/ TrEndBlock \/ TrAdvance \/ TrEstimate \/ TrConfirm \/ TrEvidence \/ TrReKey \/ TrEvidenceOld
TraceAccepted == TLCGet("stats").diameter - 1 = Len(Trace)
=============================================================================
