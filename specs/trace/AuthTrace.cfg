CONSTANTS
  MaxOps = 1000000
INIT TraceInit
NEXT TraceNext
POSTCONDITION TraceAccepted
CHECK_DEADLOCK FALSE
