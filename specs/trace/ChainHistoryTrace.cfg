CONSTANTS
  Base = 280
  MaxHeight = 100000
  EnvVars <- TrEnv
  QueryKinds <- TrQueries
  BlockChoices <- NoBlocks
  Versions <- GateVersions
INIT TraceInit
NEXT TraceNext
POSTCONDITION TraceAccepted
CHECK_DEADLOCK FALSE
