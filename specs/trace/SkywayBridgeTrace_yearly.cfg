CONSTANTS
  Users = {1, 2}
  Vals = {1, 2, 3}
  Tokens = {1, 2}
  TokChain <- Seq12
  TokContract <- Seq12
  TokDenom <- Seq12
  Amounts = {1, 2, 3}
  InitBal = 4
  BatchEvery = 50
  TimeoutBlocks = 300
  Jumps = {1}
  Period = 21024000
  TaxRates <- Rates
  Limits = {3}
  EstValues = {1}
  MaxTx = 100
  MaxBatch = 100
  MaxClaims = 100
  MaxHeight = 100000000
INIT TraceInit
NEXT TraceNext
POSTCONDITION TraceAccepted
CHECK_DEADLOCK FALSE
