---------------------------- MODULE DeployBindingTrace ----------------------------
(* Validates traces recorded by harness/drivers/queueids TestDriveDeployBinding (E1: real skyway / consensus / evm keepers)  *)
(* against DeployBinding.tla.  The spec variables are bound to what was observed (current deployment id of the chain, the   *)
(* signatures really stored for the item); the monitor C05.SigBindsDeployment: an offered signature is stored iff it is over *)
(* the bytes bound to the deployment the item is bound to (batch: the chain's current one, re-read at signing time; queued   *)
(* message: the one it was enqueued under).                                                                                  *)
EXTENDS DeployBinding, Json, Sequences
Trace == ndJsonDeserialize("trace.ndjson")
VARIABLE l
tvars == <<vars, l>>
Report(name, cond) == cond \/ PrintT(<<"MONFAIL", name, l>>)
Conf(name, cond)   == cond \/ PrintT(<<"CONFFAIL", name, l>>)
IsEvent(a) == l <= Len(Trace) /\ Trace[l].act = a /\ l' = l + 1
SetOf(s) == {s[i] : i \in DOMAIN s}
ObsSigs(o) == {[item |-> s.item, val |-> s.val, over |-> s.over] : s \in SetOf(o.sigs)}

TrInit == IsEvent("Init") /\ LET e == Trace[l] IN
  /\ dep' = e.obs.dep /\ built' = [i \in Items |-> 0] /\ sigs' = ObsSigs(e.obs) /\ last' = NoLast /\ nops' = 0
  /\ Report("Setup.FreshWorld", e.obs.dep = 1 /\ e.obs.sigs = <<>>)

TrBuild == IsEvent("Build") /\ LET e == Trace[l] IN
  /\ dep' = e.obs.dep /\ sigs' = ObsSigs(e.obs) /\ nops' = nops + 1
  /\ built' = [built EXCEPT ![e.args.item] = IF e.res = "ok" THEN e.obs.dep ELSE @]
  /\ last' = [act |-> "Build", item |-> e.args.item, val |-> 0, over |-> 0, res |-> e.res, bind |-> e.obs.dep]
  /\ Report("Setup.Built", e.res = "ok" /\ e.built_under = dep)
  /\ Conf("Build", Build(e.args.item))

TrRedeploy == IsEvent("Redeploy") /\ LET e == Trace[l] IN
  /\ dep' = e.obs.dep /\ sigs' = ObsSigs(e.obs) /\ UNCHANGED built /\ nops' = nops + 1
  /\ last' = [act |-> "Redeploy", item |-> "-", val |-> 0, over |-> 0, res |-> e.res, bind |-> e.obs.dep]
  /\ Report("Setup.Redeployed", e.res = "ok" /\ e.obs.dep = dep + 1)
  /\ Conf("Redeploy", Redeploy)

TrOffer == IsEvent("Offer") /\ LET e == Trace[l]  i == e.args.item  v == e.args.val  d == e.args.over IN
  /\ dep' = e.obs.dep /\ sigs' = ObsSigs(e.obs) /\ UNCHANGED built /\ nops' = nops + 1
  /\ last' = [act |-> "Offer", item |-> i, val |-> v, over |-> d, res |-> e.res, bind |-> Bind(i)]
  /\ Report("Setup.OfferRan", e.res \in {"ok", "refused", "dup"})
  \* stored iff over the bytes of the deployment the item is bound to (and not a second signature of the same validator)
  /\ Report("C05.SigBindsDeployment",
            /\ StoredSigBindsDeployment' /\ NoForeignDeployment' /\ OneSigPerValidator'
            /\ (e.res = "ok") = (d = Bind(i) /\ ~\E s \in sigs : s.item = i /\ s.val = v)
            /\ (e.res = "ok") = ([item |-> i, val |-> v, over |-> d] \in sigs' \ sigs)
            /\ e.res # "ok" => sigs' = sigs)
  /\ Conf("Offer", Offer(i, v, d))

TraceInit == Init /\ l = 1
TraceNext == TrInit \/ TrBuild \/ TrRedeploy \/ TrOffer
TraceAccepted == TLCGet("stats").diameter - 1 = Len(Trace)
=============================================================================
