CONSTANTS
  Items = {"batch", "message"}
  Vals = {1, 2, 3}
  MaxDep = 100
  MaxOps = 1000000
INIT TraceInit
NEXT TraceNext
POSTCONDITION TraceAccepted
CHECK_DEADLOCK FALSE
