CONSTANTS
  Vals = {1, 2, 3, 4}
  Share <- Shares4
  EvValues = {1, 2, 3}
  EstValues = {1, 4, 9, 30}
  MaxMsgs = 100
  PruneAge = 300
  PruneEvery = 50
INIT TraceInit
NEXT TraceNext
POSTCONDITION TraceAccepted
CHECK_DEADLOCK FALSE
