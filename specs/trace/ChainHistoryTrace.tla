------------------------- MODULE ChainHistoryTrace -------------------------
(* Trace specification for ChainHistory (C08 and C09).  The chain variables are bound to what the drivers  *)
(* recorded from the real application (harness/env E2); the property monitors are evaluated by TLC on the   *)
(* recorded digests / outcomes.                                                                             *)
(*   C08.TwinsEqual            digest(reference twin) = digest(perturbed twin) after every block            *)
(*   C08.RunsAgree             all re-runs of the reference give the reference digest (map iteration order) *)
(*   C08.ProbeStable           a read-only entry point evaluated N times on a frozen state: identical bytes *)
(*   C08.PerturbationStutters  app hash before = after Restart / Query / SetEnv / UnsetEnv (the spec's      *)
(*                             PerturbationsStutter on the real node);  C08.RestartReloads                  *)
(*   C08.WorldAgrees           the prepared world has the same app hash in every driver process            *)
(*   C09.NoAbort               no block (preparation, hostile block, duty blocks) panicked / returned error *)
(*                             unless the version gate was closed by governance                             *)
(*   C09.RejectedOrSurvived    an accepted hostile transaction is followed by finalised blocks up to the    *)
(*                             next heights = 0 mod 10 and 50 (and 300, 303 within the horizon)             *)
(*   C09.GateHalts             with the gate closed the next block is NOT finalised (deliberate stop)       *)
(*   C09.GovActionTerminates   a governance action (RemoveChain) returns                                    *)
(* Conformance (drift only): heights advance by one per block, stage summary as the spec computes it.       *)
EXTENDS ChainHistory, Json
Trace == ndJsonDeserialize("trace.ndjson")
TrEnv == {"PALOMA_FF_PIGEON_STATUS_UPDATE", "PIGEON_HEALTHCHECK_PORT"}
TrQueries == {"pick", "assign", "simulate", "relay", "snapshot", "snapbuild", "evidence", "uptime", "chaininfojail", "history", "prunejail"}
NoBlocks == {<<>>}
\* the versions of the version gate: patch / minor / major components with different digit counts, a pre-release
GateVersions0 == {[v |-> <<5, 1, 6>>, pre |-> ""], [v |-> <<5, 1, 9>>, pre |-> ""], [v |-> <<5, 1, 10>>, pre |-> ""], [v |-> <<5, 1, 20>>, pre |-> ""],
                 [v |-> <<5, 1, 100>>, pre |-> ""], [v |-> <<5, 9, 0>>, pre |-> ""], [v |-> <<5, 10, 0>>, pre |-> ""], [v |-> <<9, 0, 0>>, pre |-> ""],
                 [v |-> <<10, 0, 0>>, pre |-> ""], [v |-> <<5, 1, 6>>, pre |-> "-rc1"]}
GateVersions == GateVersions0 \cup {[v |-> <<2, 4, 11>>, pre |-> ""], [v |-> <<9, 9, 9>>, pre |-> ""]}
VARIABLES l, whash, hres, hh
tvars == <<vars, l, whash, hres, hh>>

Report(name, cond) == cond \/ PrintT(<<"MONFAIL", name, l>>)
Conf(name, cond)   == cond \/ PrintT(<<"CONFFAIL", name, l>>)
IsEvent(a) == l <= Len(Trace) /\ Trace[l].act = a /\ l' = l + 1
Fresh == /\ queued' = "idle" /\ gate' = NoGate /\ halted' = FALSE /\ env' = {} /\ restarts' = 0 /\ nqueries' = 0

\* ---- C08 -------------------------------------------------------------------------------------------------
TrInit == IsEvent("Init") /\ LET e == Trace[l] IN
  /\ Fresh /\ height' = e.height /\ txlog' = EmptyLog(e.height - Base)
  /\ last' = Rec("Init", <<>>) /\ hres' = "none" /\ hh' = 0
  /\ whash' = IF whash = "" /\ e.args.world = "std" THEN e.whash ELSE whash
  /\ Report("C08.WorldAgrees", e.args.world # "std" \/ whash = "" \/ e.whash = whash)

TrBlock == IsEvent("Block") /\ LET e == Trace[l]  txs == TplSeq(e.args.txs) \o e.args.hostile IN
  /\ height' = e.height /\ txlog' = Append(txlog, txs) /\ queued' = StageAfter(queued, txs)
  /\ UNCHANGED <<gate, halted, nodeVars, whash, hres, hh>> /\ last' = Rec("Block", txs)
  /\ Report("C08.TwinsEqual", e.dref = e.dpert)
  /\ Report("C08.RunsAgree", \A i \in DOMAIN e.runs : e.runs[i] = e.dref)
  /\ Conf("Block", e.res = "ok" /\ e.height = height + 1 /\ e.equal = (e.dref = e.dpert))

Stutters(e) == /\ Report("C08.PerturbationStutters", e.hb = e.ha)
               /\ Conf("Perturbation", e.res \in {"ok", "fail"} => e.height = height)
TrRestart == IsEvent("Restart") /\ LET e == Trace[l] IN
  /\ restarts' = restarts + 1 /\ UNCHANGED <<chainVars, env, nqueries, whash, hres, hh>> /\ last' = Rec("Restart", <<>>)
  /\ Stutters(e) /\ Report("C08.RestartReloads", e.res # "fail")
TrQuery == IsEvent("Query") /\ LET e == Trace[l] IN
  /\ nqueries' = nqueries + 1 /\ UNCHANGED <<chainVars, env, restarts, whash, hres, hh>> /\ last' = Rec("Query", e.args.k)
  /\ Stutters(e) /\ Report("C08.ProbeStable", e.stable)
  /\ Conf("Query", e.args.k \in TrQueries)
TrSetEnv == IsEvent("SetEnv") /\ LET e == Trace[l] IN
  /\ env' = env \cup {e.args.x} /\ UNCHANGED <<chainVars, restarts, nqueries, whash, hres, hh>> /\ last' = Rec("SetEnv", e.args.x)
  /\ Stutters(e)
TrUnsetEnv == IsEvent("UnsetEnv") /\ LET e == Trace[l] IN
  /\ env' = env \ {e.args.x} /\ UNCHANGED <<chainVars, restarts, nqueries, whash, hres, hh>> /\ last' = Rec("UnsetEnv", e.args.x)
  /\ Stutters(e)

\* ---- C09 -------------------------------------------------------------------------------------------------
TrPrepare == IsEvent("Prepare") /\ LET e == Trace[l]  log == PrepLog(e.args.stage, e.args.hclass) IN
  /\ Fresh /\ height' = e.height /\ txlog' = log
  /\ last' = Rec("Block", <<>>) /\ hres' = "none" /\ hh' = 0
  /\ whash' = IF whash = "" /\ e.args.world = "std" THEN e.whash ELSE whash
  /\ Report("C09.NoAbort", e.res = "ok")
  /\ Conf("Prepare", (e.res = "ok" => e.height = HeightOf(e.args.hclass) - 1) /\ (e.args.world # "std" \/ whash = "" \/ e.whash = whash))

TrHostile == IsEvent("Hostile") /\ LET e == Trace[l]  entry == <<e.args.kind, e.args.param, e.args.class>> IN
  /\ height' = IF e.res \in {"accepted", "rejected"} THEN e.height ELSE height
  /\ txlog' = Append(txlog, <<entry>>) /\ UNCHANGED <<queued, gate, halted, nodeVars, whash>>
  /\ last' = Rec("Block", <<entry>>) /\ hres' = e.res /\ hh' = e.height
  /\ Report("C09.NoAbort", e.res # "abort")
  /\ Report("C09.DriverOK", e.res # "harness")
  /\ Conf("Hostile", entry \in Hostile /\ e.height = height + 1)

TrGate == IsEvent("Gate") /\ LET e == Trace[l] IN
  /\ gate' = [on |-> e.res = "armed", app |-> e.args.app, gov |-> e.args.gov]
  /\ UNCHANGED <<height, txlog, queued, halted, nodeVars, whash, hres>> /\ hh' = height + 1
  /\ last' = Rec("Gate", <<>>)

TrRun == IsEvent("Run") /\ LET e == Trace[l]  need300 == e.long \/ hh <= 300  need303 == e.long \/ hh <= 303 IN
  /\ height' = e.at /\ txlog' = txlog \o [i \in 1..e.blocks |-> DutyBlock] /\ halted' = (gate.on /\ e.res = "abort")
  /\ UNCHANGED <<queued, gate, nodeVars, whash, hres, hh>> /\ last' = Rec("Block", DutyBlock)
  \* the only permitted stop: the running software is semantically OLDER than the upgrade governance completed (or of another major.minor line)
  /\ Report("C09.NoAbort", Closed \/ e.res # "abort")
  /\ Report("C09.GateHalts", Closed => (e.res = "abort" /\ e.blocks = 1))
  /\ Report("C09.RejectedOrSurvived", hres # "accepted" \/ (e.res = "ok" /\ e.m10 /\ e.m50 /\ (need300 => e.m300) /\ (need303 => e.m303)))

TrGov == IsEvent("GovAction") /\ LET e == Trace[l] IN
  /\ Fresh /\ height' = Base /\ txlog' = <<>> /\ last' = Rec("Init", <<>>) /\ hres' = "none" /\ hh' = 0 /\ UNCHANGED whash
  /\ Report("C09.GovActionTerminates", e.res = "ok")

TraceInit == Init /\ l = 1 /\ whash = "" /\ hres = "none" /\ hh = 0
TraceNext == TrInit \/ TrBlock \/ TrRestart \/ TrQuery \/ TrSetEnv \/ TrUnsetEnv \/ TrPrepare \/ TrHostile \/ TrGate \/ TrRun \/ TrGov
TraceAccepted == TLCGet("stats").diameter - 1 = Len(Trace)
=============================================================================
