------------------------------ MODULE EvmAttest ------------------------------
(***************************************************************************)
(* Attestation of remote (EVM) transactions as proof of delivery of queued *)
(* consensus messages: x/evm/keeper/attest*.go, x/evm/types/eth_txable.go  *)
(* (VerifyAgainstTX), x/consensus/keeper/attest.go, util/libcons.          *)
(*                                                                         *)
(* One action per critical section of the Go code:                         *)
(*   Enqueue(kind)   AddSmartContractExecutionToConsensus / PublishSnapshot*)
(*                   ToAllChains / SetAsCompassContract / CreateUserSmart- *)
(*                   ContractDeployment (gas estimate elected right away)  *)
(*   Sign(v,m)       msgServer.AddMessagesSignatures                       *)
(*   Evidence(v,m,..)msgServer.AddEvidence (latest evidence of v replaces) *)
(*                   the first evidence is preceded by the relayer's       *)
(*                   SetPublicAccessData (valset used) / SetErrorData      *)
(*   EndBlock        consensus EndBlock = CheckAndProcessAttestedMessages: *)
(*                   ascending ids, 2/3 of the shares on identical         *)
(*                   evidence, attestRouter, stop at the first error       *)
(*                                                                         *)
(* A remote transaction is  <<data, n>> ; data = [c, s, x]: content class  *)
(* of the message it delivers, set of validators whose signatures it       *)
(* carries, corruption ("none" = the exact bridge-contract encoding).      *)
(* Evidence = [t, tx, st, rg]: t "tx"/"err", st receipt status, rg rest of  *)
(* the receipt; validators agree only on evidence equal in every component.*)
(* Properties (C07): SuccessOnlyIfExactEncoding, NoSecondUse,              *)
(* EffectsAtMostOnce, FailedOrForeignRemovesWithoutEffects.                *)
(***************************************************************************)
EXTENDS Integers, Sequences, FiniteSets, TLC

CONSTANTS Vals,        \* validator ids 1..n
          Share,       \* [Vals -> Nat] shares in the current snapshot
          MaxRetries   \* 2 (cMaxSubmitLogicCallRetries, also used for uploads)

VARIABLES
  msgs,       \* [id -> message] for the ids in the queue
  nextId,
  txs,        \* remote transactions ever built: <<of, k, corr>> -> data  (a transaction never changes)
  processed,  \* set of transactions <<data, n>> recorded as processed
  live,       \* how many times the new snapshot (s2) was marked live on the chain
  deploy,     \* deployment record of the new compass: "none" / "inflight" / "waiting"
  active,     \* compass contract active on the chain: 1 or 2
  user,       \* user contract deployment: "none" / "inflight" / "active" / "error"
  res,        \* result of the last action
  routed,     \* ids routed to an attester by the last EndBlock (sequence)
  now,        \* block height, relative to the start (time is a dimension: the processed set never forgets)
  applied     \* history: sequence of [m, kind, tx, exact, ok, fresh] for every application of success effects

vars == <<msgs, nextId, txs, processed, live, deploy, active, user, res, routed, applied, now>>
effvars == <<live, deploy, active, user>>

-----------------------------------------------------------------------------
Range(f) == {f[x] : x \in DOMAIN f}
Restrict(f, S) == [x \in S |-> f[x]]
Put(f, k, v) == [x \in DOMAIN f \cup {k} |-> IF x = k THEN v ELSE f[x]]
Empty == [x \in {} |-> 0]
Min(S) == CHOOSE x \in S : \A y \in S : x <= y
FirstK(s, k) == {s[i] : i \in 1..k}

RECURSIVE Tot(_)
Tot(S) == IF S = {} THEN 0 ELSE LET v == CHOOSE x \in S : TRUE IN Share[v] + Tot(S \ {v})
Total == Tot(Vals)
Quorum(S) == 3 * Tot(S) >= 2 * Total

LiveSnap == IF live = 0 THEN 1 ELSE 2        \* snapshot that is live on the chain
NoTx == <<[c |-> <<"", 0, 0>>, s |-> {}, x |-> "none"], 0>>
ErrProof == [t |-> "err", tx |-> NoTx, st |-> "", rg |-> 0]

Msg(kind, retries, tid) == [kind |-> kind, sigs |-> <<>>, ev |-> Empty, retries |-> retries, pad |-> 0, errd |-> FALSE, tid |-> tid]

IsUsc(k) == k \in {"usc", "uscn"}       \* compass upload with / without constructor input: no signatures, no id in the data
\* content class of a message: what its encoding is bound to besides the signatures
\* (message id for logic calls / user contracts; the valset that signs, named by the public access data)
ContentOf(id, m, lv) ==
  LET vs == IF m.pad # 0 THEN m.pad ELSE lv IN
  CASE m.kind = "slc"      -> <<"slc", id, vs>>
    [] m.kind = "uusc"     -> <<"uusc", id, vs>>
    [] m.kind = "valset"   -> <<"valset", 0, vs>>
    [] m.kind = "handover" -> <<"handover", 0, vs>>
    [] m.kind = "uscn"     -> <<"uscn", 0, 0>>     \* bytecode only (upload message without constructor input)
    [] OTHER               -> <<"usc", 0, 0>>      \* bytecode + constructor input only

\* is `d` the exact encoding of message id/m with a non-empty prefix of its signatures?
ExactFor(id, m, d, lv) ==
  /\ d.x = "none"
  /\ (~IsUsc(m.kind) => m.pad # 0)          \* without public access data there is no valset to verify against
  /\ d.c = ContentOf(id, m, lv)
  /\ IF IsUsc(m.kind) THEN d.s = {}
     ELSE \E k \in 1..Len(m.sigs) : d.s = FirstK(m.sigs, k)

-----------------------------------------------------------------------------
W0 == [msgs |-> Empty, nextId |-> 1, txs |-> Empty, processed |-> {}, live |-> 0, deploy |-> "none", active |-> 1, user |-> "none"]

\* world 1: the new compass was uploaded (message 0) and attested; the hand-over message 1 is pending
UscData == [c |-> <<"usc", 0, 0>>, s |-> {}, x |-> "none"]
W1 == [W0 EXCEPT !.msgs = (1 :> Msg("handover", 0, 1)), !.nextId = 2, !.txs = (<<0, 1, "none">> :> UscData),
                 !.processed = {<<UscData, 1>>}, !.deploy = "waiting"]

\* world 2: snapshot s2 went live (message 0) and was re-published once (message 1); both transactions used
VsData(vs) == [c |-> <<"valset", 0, vs>>, s |-> {2}, x |-> "none"]
\* world 3: like world 1, but the upload message (0) carried no constructor input
UscnData == [c |-> <<"uscn", 0, 0>>, s |-> {}, x |-> "none"]
W3 == [W1 EXCEPT !.txs = (<<0, 1, "none">> :> UscnData), !.processed = {<<UscnData, 1>>}]

W2 == [W0 EXCEPT !.nextId = 2, !.txs = (<<0, 1, "none">> :> VsData(1)) @@ (<<1, 1, "none">> :> VsData(2)),
                 !.processed = {<<VsData(1), 1>>, <<VsData(2), 1>>}, !.live = 2]

WRec(w) == CASE w = 0 -> W0 [] w = 1 -> W1 [] w = 3 -> W3 [] OTHER -> W2
InitW(w) ==
  LET s == WRec(w) IN
  /\ msgs = s.msgs /\ nextId = s.nextId /\ txs = s.txs /\ processed = s.processed
  /\ live = s.live /\ deploy = s.deploy /\ active = s.active /\ user = s.user
  /\ res = "start" /\ routed = <<>> /\ applied = <<>> /\ now = 0
Init == InitW(0)

-----------------------------------------------------------------------------
(* Enqueue *)
ValsetBlocked == \E id \in DOMAIN msgs : msgs[id].kind = "valset" \/ msgs[id].tid # active
CanEnqueue(kind) ==
  CASE kind = "slc"    -> TRUE
    [] kind = "valset" -> ~ValsetBlocked          \* SendValsetMsgForChain returns early otherwise
    [] IsUsc(kind)     -> deploy = "none" /\ active < 2
    [] kind = "uusc"   -> TRUE
    [] OTHER           -> FALSE

Enqueue(kind) ==
  /\ (kind = "uusc" => user = "none")             \* one deployment of the user contract per behaviour
  /\ IF CanEnqueue(kind)
     THEN \* "uscn": the regular upload message (nextId) is replaced by one without constructor input (nextId + 1)
          /\ msgs' = Put(msgs, IF kind = "uscn" THEN nextId + 1 ELSE nextId, Msg(kind, 0, IF IsUsc(kind) THEN 0 ELSE active))
          /\ nextId' = IF kind = "uscn" THEN nextId + 2 ELSE nextId + 1
          /\ deploy' = IF IsUsc(kind) THEN "inflight" ELSE deploy
          /\ user' = IF kind = "uusc" THEN "inflight" ELSE user
          /\ res' = "ok"
     ELSE /\ UNCHANGED <<msgs, nextId, deploy, user>> /\ res' = "noop"
  /\ UNCHANGED <<txs, processed, live, active, routed, applied, now>>

(* Sign *)
Sign(v, m) ==
  /\ IF m \in DOMAIN msgs /\ v \notin Range(msgs[m].sigs)
     THEN msgs' = [msgs EXCEPT ![m].sigs = Append(@, v)] /\ res' = "ok"
     ELSE UNCHANGED msgs /\ res' = "fail"
  /\ UNCHANGED <<nextId, txs, processed, live, deploy, active, user, routed, applied, now>>

(* Evidence *)
TxKey(of, k, corr) == <<of, k, corr>>
CanBuild(of, k, corr) ==
  \/ TxKey(of, k, corr) \in DOMAIN txs
  \/ of \in DOMAIN msgs /\ (IsUsc(msgs[of].kind) \/ k \in 0..Len(msgs[of].sigs))
DataOf(of, k, corr) ==
  IF TxKey(of, k, corr) \in DOMAIN txs THEN txs[TxKey(of, k, corr)]
  ELSE [c |-> ContentOf(of, msgs[of], LiveSnap),
        s |-> IF IsUsc(msgs[of].kind) THEN {} ELSE FirstK(msgs[of].sigs, k),
        x |-> IF k = 0 /\ ~IsUsc(msgs[of].kind) /\ corr = "none" THEN "k0" ELSE corr]   \* no signature at all is not a prefix

\* st: the receipt the validator attaches: "ok" / "fail" (status), "absent" (no receipt bytes; "empty" bytes are the
\* same thing once stored), "bad" (bytes that are no receipt).  Only "ok" can ever prove delivery.
RcSt(st) == IF st = "empty" THEN "absent" ELSE st
\* rg: any other content of the receipt the validator reports (gas used, logs); evidence is identical only if
\* transaction, receipt status AND the rest of the receipt are identical
Evidence(v, m, t, of, k, corr, st, n, rg) ==
  LET e == IF t = "err" THEN ErrProof ELSE [t |-> "tx", tx |-> <<DataOf(of, k, corr), n>>, st |-> RcSt(st), rg |-> IF RcSt(st) \in {"ok", "fail"} THEN rg ELSE 0] IN
  /\ IF t = "tx" /\ ~CanBuild(of, k, corr)
     THEN UNCHANGED <<msgs, txs>> /\ res' = "nobuild"
     ELSE /\ txs' = IF t = "tx" THEN Put(txs, TxKey(of, k, corr), DataOf(of, k, corr)) ELSE txs
          /\ IF m \in DOMAIN msgs
             THEN /\ msgs' = [msgs EXCEPT ![m].ev = Put(@, v, e),
                                          ![m].pad = IF @ = 0 /\ t = "tx" THEN LiveSnap ELSE @,
                                          ![m].errd = IF msgs[m].pad = 0 /\ ~@ /\ t = "err" THEN TRUE ELSE @]
                  /\ res' = "ok"
             ELSE UNCHANGED msgs /\ res' = "fail"
  /\ UNCHANGED <<nextId, processed, live, deploy, active, user, routed, applied, now>>

-----------------------------------------------------------------------------
(* EndBlock *)
Winners(m) == {e \in Range(m.ev) : Quorum({v \in DOMAIN m.ev : m.ev[v] = e})}
StateRec == [msgs |-> msgs, nextId |-> nextId, processed |-> processed, live |-> live, deploy |-> deploy,
             active |-> active, user |-> user, applied |-> applied, routed |-> <<>>, err |-> "", fail |-> 0]

Remove(st, id) == [st EXCEPT !.msgs = Restrict(st.msgs, DOMAIN st.msgs \ {id})]
Spawn(st, m) == [st EXCEPT !.msgs = Put(st.msgs, st.nextId, m), !.nextId = st.nextId + 1]
Lv(st) == IF st.live = 0 THEN 1 ELSE 2

\* the attester for an error proof: retries, no success effects
OnErrProof(st, id, m) ==
  LET s1 == Remove(st, id) IN
  CASE m.kind = "slc"  -> IF m.retries < MaxRetries THEN Spawn(s1, Msg("slc", m.retries + 1, m.tid)) ELSE s1
    [] IsUsc(m.kind)   -> IF m.retries < MaxRetries THEN Spawn(s1, Msg(m.kind, m.retries + 1, 0))
                          ELSE [s1 EXCEPT !.deploy = "none"]
    [] m.kind = "uusc" -> IF m.retries < MaxRetries THEN Spawn(s1, Msg("uusc", m.retries + 1, m.tid))
                          ELSE [s1 EXCEPT !.user = "error"]
    [] OTHER           -> s1

\* success effects of an accepted transaction; [st, err]
OnAccepted(st, id, m, tx) ==
  LET s0 == [st EXCEPT !.processed = @ \cup {tx},
                       !.applied = Append(@, [m |-> id, kind |-> m.kind, tx |-> tx,
                                              exact |-> ExactFor(id, m, tx[1], Lv(st)), ok |-> TRUE, fresh |-> tx \notin st.processed])]
      s1 == Remove(s0, id) IN
  CASE m.kind = "slc"      -> s1
    [] m.kind = "valset"   -> [s1 EXCEPT !.live = @ + 1,
                                         !.msgs = Restrict(@, {j \in DOMAIN @ : ~(@[j].kind = "valset" /\ j < id)})]
    [] IsUsc(m.kind)       -> IF st.deploy # "inflight" THEN [st EXCEPT !.err = "other"]
                              ELSE Spawn([s1 EXCEPT !.deploy = "waiting"], Msg("handover", 0, st.active))
    [] m.kind = "handover" -> IF st.deploy # "waiting" THEN [st EXCEPT !.err = "other"]
                              ELSE [s1 EXCEPT !.deploy = "none", !.active = 2]
    [] OTHER               -> [s1 EXCEPT !.user = "active"]

ProcessOne(st, id) ==
  IF id \notin DOMAIN st.msgs THEN st ELSE
  LET m == st.msgs[id]  W == Winners(m) IN
  IF ~Quorum(DOMAIN m.ev) THEN st ELSE
  \* the tally decodes every piece of evidence once the voters hold 2/3: one undecodable receipt fails it
  IF \E v \in DOMAIN m.ev : m.ev[v].st = "bad" THEN [st EXCEPT !.err = "other", !.fail = id] ELSE
  IF W = {} THEN st ELSE
  LET e == CHOOSE x \in W : TRUE
      sr == [st EXCEPT !.routed = Append(@, id), !.fail = id] IN     \* fail is cleared again unless err is set
  IF e.t = "err" THEN OnErrProof(sr, id, m)
  ELSE IF e.st = "absent" THEN [sr EXCEPT !.err = "other"]                             \* no receipt, no proof: nothing changes
  ELSE IF e.st # "ok" THEN [Remove(sr, id) EXCEPT !.processed = @ \cup {e.tx}, !.err = "txfailed"]
  ELSE IF e.tx \in st.processed THEN [sr EXCEPT !.err = "processed"]                \* cache context dropped: nothing changes
  ELSE IF ~ExactFor(id, m, e.tx[1], Lv(st)) THEN [Remove(sr, id) EXCEPT !.processed = @ \cup {e.tx}, !.err = "notverified"]
  ELSE OnAccepted(sr, id, m, e.tx)

RECURSIVE ProcessAll(_, _)
ProcessAll(ids, st) ==
  IF ids = {} \/ st.err # "" THEN st
  ELSE LET id == Min(ids) IN ProcessAll(ids \ {id}, ProcessOne(st, id))

EndBlockResult == ProcessAll(DOMAIN msgs, StateRec)

EndBlock ==
  LET s == EndBlockResult IN
  /\ msgs' = s.msgs /\ nextId' = s.nextId /\ processed' = s.processed /\ live' = s.live /\ deploy' = s.deploy
  /\ active' = s.active /\ user' = s.user /\ applied' = s.applied /\ routed' = s.routed
  /\ res' = IF s.err = "" THEN "eb" ELSE s.err
  /\ now' = now + 1
  /\ UNCHANGED txs

\* the message at which the attestation pass stopped with an error (0: none)
EndBlockFailed == IF EndBlockResult.err = "" THEN 0 ELSE EndBlockResult.fail

(* time passes: d blocks without anything else happening; what was processed stays processed *)
Advance(d) ==
  /\ now' = now + d /\ res' = "adv"
  /\ UNCHANGED <<msgs, nextId, txs, processed, live, deploy, active, user, routed, applied>>

-----------------------------------------------------------------------------
Next ==
  \/ \E kind \in {"slc", "valset", "usc", "uscn", "uusc"} : Enqueue(kind)
  \/ \E v \in Vals, m \in 1..nextId : Sign(v, m)
  \/ EndBlock

Spec == Init /\ [][Next]_vars

-----------------------------------------------------------------------------
(* Properties (C07) *)
SuccessOnlyIfExactEncoding == \A i \in DOMAIN applied : applied[i].exact /\ applied[i].ok /\ applied[i].fresh
NoSecondUse == \A i, j \in DOMAIN applied : i # j => applied[i].tx # applied[j].tx
EffectsAtMostOnce == \A i, j \in DOMAIN applied : i # j => applied[i].m # applied[j].m
\* no success effect without an application recorded in the same step
FailedOrForeignRemovesWithoutEffects ==
  [][applied' = applied => /\ live' = live /\ active' = active
                           /\ (deploy' # deploy => \/ deploy' = "none" /\ res' # "ok"        \* retries exhausted
                                                   \/ deploy' = "inflight" /\ res' = "ok")   \* Enqueue
                           /\ (user' # user => \/ user' = "error" \/ (user' = "inflight" /\ res' = "ok"))]_vars
\* the effect state is exactly what the applications account for
CountKind(k) == Cardinality({i \in DOMAIN applied : applied[i].kind = k})
EffectsAccounted ==
  /\ CountKind("handover") <= 1 /\ CountKind("usc") + CountKind("uscn") <= 1
  /\ (user = "active" => CountKind("uusc") >= 1)
TypeOK == /\ live >= 0 /\ active \in {1, 2} /\ deploy \in {"none", "inflight", "waiting"}
          /\ user \in {"none", "inflight", "active", "error"}
          /\ \A id \in DOMAIN msgs : id < nextId
=============================================================================
