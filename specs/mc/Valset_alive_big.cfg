CONSTANTS
  Vals = {1, 2, 3, 4}
  Chains = {1}
  MaxVals = 4
  UnbondTime = 2
  MaxPower = 16
  WarmTime = 2
  TTL = 4
  Grace = 2
  Sweep = 2
  WarmUp = 3
  Sentences <- ModelSentences
  ResetMin = 3
  DefaultVer = 1
  StakeVecs <- Vecs4K
  StakeSet = {1, 2}
  Amounts = {1}
  DTs = {1, 3}
  MaxSnaps = 1
  MaxStakeOps = 0
  MaxH = 8
  MaxJails = 2
  MaxLevel = 11
  StakeVals = {1, 2}
  MaxOnChain = 2
  VersionsMC = {1}
INIT InitAlive
NEXT NextAlive
CONSTRAINT ConstrAlive
VIEW ViewAlive
INVARIANTS TypeOK VersionGate SentenceSchedule
PROPERTIES JailedAtNextSweep ResponsiveNeverJailed GraceRespected ProtectionRespected MinVersionMonotone
CHECK_DEADLOCK FALSE
