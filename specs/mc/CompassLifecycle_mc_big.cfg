\* full next-state relation (RemoveDeployment included), two chains
CONSTANTS
  NChains = 2
  MaxId = 3
  MaxRetries = 2
  InitActive <- Act2
  Removable = {2}
  SkyInit = 7
  MaxQ = 3
  MaxSeq = 4
  MaxLevel = 8
INIT Init
NEXT Next
CONSTRAINT Constr
INVARIANTS TypeOK AtMostOneDeployment WaitingHasAddress RetriesBounded DeploymentNewer ActiveKnown HandoverHasTarget
PROPERTIES StepOK
CHECK_DEADLOCK FALSE
