\* without MsgRemoveSmartContractDeployment: additionally the hand-over installs the address it forwarded to
CONSTANTS
  NChains = 2
  MaxId = 3
  MaxRetries = 2
  InitActive <- Act2
  Removable = {2}
  SkyInit = 7
  MaxQ = 3
  MaxSeq = 4
  MaxLevel = 12
INIT Init
NEXT NextNoRemoveDeployment
CONSTRAINT Constr
INVARIANTS TypeOK AtMostOneDeployment WaitingHasAddress RetriesBounded DeploymentNewer ActiveKnown HandoverHasTarget
PROPERTIES StepOK StepHandoverAddr
CHECK_DEADLOCK FALSE
