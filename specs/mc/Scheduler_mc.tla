---------------------------- MODULE Scheduler_mc ----------------------------
(* Exhaustive configurations for Scheduler.  The job store and the set of chains whose valset   *)
(* update is queued are the whole state the actions read; the request, its result and the        *)
(* messages it added are write-only and hidden from the fingerprint (VIEW), the step properties  *)
(* PA_* are checked by TLC on every generated transition.  The state space is finite without a   *)
(* bound on the number of operations.                                                            *)
(* NextR prunes `as`: a transaction whose creator differs from the signer is rejected before     *)
(* anything else is read, the wasm sender field is never read: one wrong value is tried.         *)
EXTENDS Scheduler
Other(a) == CHOOSE b \in Callers : b # a
\* perturbations and queries read nothing but the id and change nothing: one job description per chain is tried
PertR(who, id) ==
  \/ \E c \in Chains : LET t == CHOOSE x \in Targets : TRUE  p == CHOOSE x \in Payloads : TRUE IN
        \/ Simulate(who, IF who \in Accounts THEN "tx" ELSE "wasm", id, c, t, p, "bare", TRUE, FALSE)
        \/ who \in Accounts /\ RolledBack(who, id, c, t, p, "bare", TRUE, FALSE)
  \/ who \in Accounts /\ Query(id)
NextR ==
  \E who \in Callers, id \in JobIds \cup {BadId} : \E as \in {who, Other(who)} :
     \/ /\ (who \in Contracts => as = who)
        /\ \E c \in Chains, t \in Targets, p \in Payloads, sp \in Spellings, m \in BOOLEAN, v \in BOOLEAN :
              Create(who, as, IF who \in Accounts THEN "tx" ELSE "wasm", id, c, t, p, sp, m, v)
     \/ \E via \in Vias(who), pg \in 0..2 : \E sp \in ExecSp(via, pg) :
           /\ (via # "tx" => pg # 2)
           /\ (via = "legacy" => as = who)
           /\ Execute(who, as, via, id, pg, sp)
     \/ as = who /\ PertR(who, id)
\* the full request space, perturbations pruned as above
NextFull == NextCore \/ \E who \in Callers, id \in JobIds \cup {BadId} : PertR(who, id)
MCView == svars
=============================================================================
