-------------------------- MODULE SkywayOracle_mc --------------------------
EXTENDS SkywayOracle
\* claims: 1,2 compete at nonce 1; 3 (applicable) and 4 (not applicable) at nonce 2; 5 at nonce 1 of compass 2
NonceF == <<1, 1, 2, 2, 1>>
HashF == <<1, 2, 3, 4, 5>>
EffF == <<1, 2, 3, 4, 5>>
CompassF == <<1, 1, 1, 1, 2>>
HeightF == <<1, 1, 2, 2, 1>>
ApplF == <<TRUE, TRUE, TRUE, FALSE, TRUE>>
Pow3 == <<34, 33, 33>>
Pow3b == <<50, 16, 34>>
MaxLevel == 8
L9 == 9
L10 == 10
Constr == epoch <= MaxEpoch /\ TLCGet("level") <= MaxLevel /\ Len(applied) <= 4
NextNoAct == \/ \E v \in Vals, c \in Claims : Vote(v, c)
             \/ \E cu \in BOOLEAN : Tally(cu)
             \/ \E n \in 0..1 : Override(n)
             \/ \E v \in Vals, p \in Powers : p # power[v] /\ SetPowerOf(v, p)
NextSmall == \/ \E v \in Vals, c \in Claims : Vote(v, c)
             \/ \E cu \in BOOLEAN : Tally(cu)
             \/ \E n \in 0..1 : Override(n)
             \/ (compass = 1 /\ Activate(2))
             \/ \E v \in Vals, p \in Powers : p # power[v] /\ SetPowerOf(v, p)
View == <<last, cursor, atts, power, compass, epoch, lastEth, effects, applied>>
=============================================================================
