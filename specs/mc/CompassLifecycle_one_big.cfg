\* full next-state relation (RemoveDeployment included), one chain that runs compass 1
CONSTANTS
  NChains = 1
  MaxId = 3
  MaxRetries = 2
  InitActive <- Act1
  Removable = {1}
  SkyInit = 7
  MaxQ = 3
  MaxSeq = 4
  MaxLevel = 12
INIT Init
NEXT Next
CONSTRAINT Constr
INVARIANTS TypeOK AtMostOneDeployment WaitingHasAddress RetriesBounded DeploymentNewer ActiveKnown HandoverHasTarget
PROPERTIES StepOK
CHECK_DEADLOCK FALSE
