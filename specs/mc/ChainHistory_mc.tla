------------------------- MODULE ChainHistory_mc -------------------------
(* Exhaustive run of ChainHistory on a small choice of blocks: the perturbations stutter on chain state, the  *)
(* chain state is a function of the history, Block is enabled in every state that the version gate did not   *)
(* close, the gate is the only way to halt.                                                                   *)
EXTENDS ChainHistory
McEnv == {"PALOMA_FF_PIGEON_STATUS_UPDATE", "PIGEON_HEALTHCHECK_PORT"}
McQueries == {"pick", "simulate", "snapbuild"}
McBlocks == { <<>>,
              TplSeq(<<"execjob", "deployuser", "send">>),
              TplSeq(<<"sign">>),
              TplSeq(<<"estimate", "batchest">>),
              TplSeq(<<"relayerr">>),
              TplSeq(<<"attesterr", "status", "statusbad">>),
              << <<"UpsertRelayerFee", "FeeSetting.Fees[0].Multiplicator", "negative">> >>,
              << Tpl("estimate"), <<"AddEvidence", "Proof", "empty">> >> }
McVersions == {[v |-> <<5, 1, 6>>, pre |-> ""], [v |-> <<5, 1, 10>>, pre |-> ""]}
\* the gate is only closed / left open from the first two heights on (its effect does not depend on where it happens)
McConstr == height <= MaxHeight /\ restarts <= 1 /\ nqueries <= 1 /\ (gate.on => height <= Base + 2)
=============================================================================
