CONSTANTS
  Accounts = {1, 2, 3}
  Subs = {1, 2}
  Amounts = {1, 2}
  Funds <- FundsSmall
  GrantSets <- OneGrant
  NativeMetas = {1}
  SpecialIds = {1, 2, 3, 4}
  MaxOps = 5
  MaxMinted = 3
INIT Init
NEXT NextR
VIEW MCView
CONSTRAINT Constr
INVARIANTS TypeOK SupplyLedger BalancesBackSupply NamespaceOK NonFactoryUntouched
PROPERTIES PA_OnlyAdminActs PA_OwnBalanceOnly PA_AdminHandover PA_CreateNamespace PA_MetadataByAdmin PA_FailureIsNoop PA_FeeFromCreator PA_ReimportPreserves
CHECK_DEADLOCK FALSE
