------------------------- MODULE ConsensusQueue_mc -------------------------
EXTENDS ConsensusQueue
Shares5 == <<5, 3, 2, 1, 0>>
Shares222 == <<2, 2, 2, 0>>
MaxLevel == 9
L10 == 10
Constr == nextId <= MaxMsgs + 1 /\ height <= 400 /\ TLCGet("level") <= MaxLevel /\ \A v \in Vals : keyver[v] <= 2
\* evidence / attestation family (C04a, C13b)
NextEv == \/ (nextId <= MaxMsgs /\ Put("ref"))
          \/ \E v \in Vals, id \in DOMAIN msgs, e \in EvValues : Evidence(v, id, e)
          \/ EndBlock
          \/ \E dh \in {349} : height = 1 /\ Advance(dh)
\* signature / estimate family (C04b, C06a)
NextSig == \/ (nextId <= MaxMsgs /\ Put("slc"))
           \/ \E v \in Vals, id \in DOMAIN msgs, mode \in {"good", "stale"} : Sign(v, id, mode)
           \/ \E v \in Vals, id \in DOMAIN msgs, x \in EstValues : Estimate(v, id, x)
           \/ \E v \in {1} : ReRegister(v)
           \/ ((\A id \in DOMAIN msgs : msgs[id].asg < 1) /\ Reassign)
           \/ EndBlock
View == <<msgs, nextId, keyver, refHeight, jailed, height, removedBy, applied>>
=============================================================================
