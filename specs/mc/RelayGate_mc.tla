---------------------------- MODULE RelayGate_mc ----------------------------
(* Exhaustive configurations for RelayGate (C14).                                      *)
(*  assign : every combination of the tables (row by row), properties quantified over   *)
(*           every request (MEV flag x block time) that could arrive                    *)
(*  gate   : every queue of <= MaxQ messages over kind x sender x assignee x estimate   *)
(*           state x processed flag (positions of validator-set updates included)       *)
(*  dyn    : the actions themselves on a small world (action-level properties, fees)    *)
EXTENDS RelayGate
CONSTANTS InjAssignees, InjEst, InjProc, InjSenders, DynDepth, RowMode

\* attributes of validators outside the snapshot are not varied beyond the chain account (the snapshot holds no entry
\* for them, so the model state is the same); "full": every fee / metrics combination of the members; "all": every row
\* (a trait without the account that carries it is not a row of its own: CurOf drops it)
Wf(r) == (r.mevH => r.home) /\ (r.mevT => r.acct # 0)
\* "canon" also skips the fee level of a validator whose metrics record is missing (it is outside the scored set either way)
\* (the home chain multiplicator is varied by the dyn / retry configurations and by the generators)
McRows == CASE RowMode = "canon" -> {r \in Row : Wf(r) /\ r.acct <= 1 /\ (~r.home => (r.fee = BaseFee /\ r.perf /\ ~r.mevT))
                                                 /\ (~r.perf => r.fee \in {0, BaseFee}) /\ r.feeH = BaseFee}
            [] RowMode = "full"  -> {r \in Row : Wf(r) /\ r.acct <= 1 /\ (~r.home => (r.fee = BaseFee /\ r.perf /\ ~r.mevT))
                                                 /\ r.feeH = BaseFee}
            [] OTHER             -> {r \in Row : Wf(r)}
NextRows == \E v \in Vals, r \in McRows : SetRow(v, r)

InjGas == CHOOSE g \in Gases : TRUE
Inject(kind, s, a, es, pr) ==
  /\ Cardinality(queue) < MaxQ
  /\ LET m0 == Msg(nextId, kind, s, a, 1, es # "noneed")
         m1 == IF es = "elected"
               THEN [m0 EXCEPT !.est = InjGas,
                               !.fees = IF kind = "slc" THEN FeesFor(fee[a], CommRate, SecRate, InjGas, Scale) ELSE NoFees]
               ELSE m0
         m2 == [m1 EXCEPT !.pad = (pr = "pad"), !.err = (pr = "err")]
     IN  queue' = queue \cup {m2}
  /\ nextId' = nextId + 1 /\ res' = "put"
  /\ UNCHANGED <<tabs, nrows, queueH>>
NextInject ==
  \E k \in Kinds : \E s \in (IF k = "slc" THEN InjSenders ELSE {0}) :
    \E a \in InjAssignees, es \in InjEst, pr \in InjProc : Inject(k, s, a, es, pr)

HiFee == MaxOf(FeeLevels)
\* base; both accounts with the trait on the HOME account only and a high fee; alternate address, trait on the target
\* account, no target fee record
DynRows == {BaseRow, [BaseRow EXCEPT !.mevH = TRUE, !.fee = HiFee], [BaseRow EXCEPT !.fee = 0, !.acct = 2, !.mevT = TRUE]}
NextDyn ==
  \/ \E T \in [Vals -> DynRows] : Setup(T)
  \/ Rereg(1, 2, TRUE, FALSE)
  \/ Resnap
  \/ \E mv \in BOOLEAN, t \in Times : Assign("t", 1, mv, t)
  \/ Assign("h", 1, TRUE, 0)
  \/ \E k \in {"slc", "valset"}, ne \in BOOLEAN : Put("t", k, IF k = "slc" THEN 1 ELSE 0, 1, ne)
  \/ \E v \in {1, 2}, id \in 1..(nextId - 1), g \in Gases : Estimate(v, id, g)
  \/ EndBlock
  \/ \E id \in 1..(nextId - 1) : Deliver(id) \/ Fail(id)
ConstrDyn == Cardinality(queue) <= MaxQ /\ Cardinality(queueH) <= MaxQ /\ TLCGet("level") <= DynDepth
ConstrQ == Cardinality(queue) <= MaxQ

\* retry after an attested relay failure, and fee-paying messages on both chains elected in one end block
RetryRows == {BaseRow, [BaseRow EXCEPT !.mevT = TRUE], [BaseRow EXCEPT !.mevH = TRUE, !.feeH = HiFee]}
NextRetry ==
  \/ \E r1 \in RetryRows, r2 \in {BaseRow, [BaseRow EXCEPT !.mevT = TRUE]} : Setup([v \in Vals |-> IF v = 1 THEN r1 ELSE IF v = 2 THEN r2 ELSE BaseRow])
  \/ Rereg(1, 1, FALSE, FALSE) \/ Rereg(2, 1, FALSE, TRUE)
  \/ Resnap
  \/ \E c \in Chains : Assign(c, 1, TRUE, 0)
  \/ \E v \in {1, 2}, id \in 1..(nextId - 1) : AttestErr(v, id)
  \/ EndBlockAtt(0)
  \/ SetFee(1, "h", HiFee)
  \/ \E c \in Chains : Put(c, "slc", 1, 1, TRUE)
  \/ \E v \in {1, 2}, id \in 1..(nextId - 1) : Estimate(v, id, InjGas)
  \/ EndBlock
\* fees are checked against the fee table, which Setup may only change before the first message
FeesAtElectionDyn == FeesAtElection
=============================================================================
