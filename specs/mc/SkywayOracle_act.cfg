CONSTANTS
  Vals = {1, 2, 3}
  Claims = {1, 2, 3, 4, 5}
  CNonce <- NonceF
  CHash <- HashF
  CEff <- EffF
  CCompass <- CompassF
  CApplicable <- ApplF
  CHeight <- HeightF
  Powers = {34}
  InitPower <- Pow3
  MaxNonce = 2
  MaxEpoch = 1
  MaxVotes = 6
INIT Init
NEXT NextSmall
CONSTRAINT Constr
VIEW View
INVARIANTS TypeOK QuorumDistinct OnePerNonce Consecutive AppliedAtMostOnce EffectsMatchApplied NoDuplicateVotes PooledAgree
CHECK_DEADLOCK FALSE
