---------------------------- MODULE LightNode_mc ----------------------------
(* Exhaustive configurations for LightNode.  The request and its result (last, res) are write-only and  *)
(* hidden from the fingerprint (VIEW); the step properties PA_* are checked on every generated            *)
(* transition.  NextR prunes arguments the transcribed checks cannot look at: a creator different from    *)
(* the signer is rejected by the ante chain before anything is read (one wrong creator per signer);       *)
(* funder lists are drawn from the rich and the poor user only; vesting months are only read at           *)
(* activation (all values tried), amounts everywhere.                                                     *)
EXTENDS LightNode
CONSTANTS MaxOps, MaxNow
FundsSmall == <<3, 0, 2>>       \* user 1 rich, user 2 cannot pay a single unit, user 3 = the address with an account
OtherOf(a) == CHOOSE b \in Signers : b # a
OtherUser(a) == CHOOSE b \in Users : b # a
Lists2 == {<<>>, <<1>>, <<2>>, <<1, 2>>, <<2, 1>>}
NextR ==
  \/ \E who \in Users, c \in Addrs, amt \in Amounts, m \in Months : \E as \in {who, OtherUser(who)} : AddLicense(who, as, c, amt, m)
  \/ \E who \in Signers : \E as \in {who, OtherOf(who)} : Register(who, as) \/ Auth(who, as)
  \/ \E ch \in SaleChains, k \in Contracts, c \in Addrs, amt \in Amounts : Sale(ch, k, c, amt)
  \/ \E fs \in Lists2 : fs # funders /\ SetFunders(fs)
  \/ ~feegr /\ SetFeegranter
  \/ \E ch \in SaleChains, k \in Contracts \cup {0} : SetSale(ch, k)
  \/ \E who \in Users, amt \in Amounts \ {0}, via \in {"tx", "keeper"} : Gift(who, amt, via)
  \/ \E c \in Fresh, q \in 1..5 : Advance(c, q)
\* second initial state: everything configured (so that sale + activation + vesting fit into a small bound)
InitCfg == /\ escrow = 0 /\ lic = [c \in {} |-> 0]
           /\ acct = [c \in Fresh |-> "none"] /\ vest = [c \in {} |-> 0]
           /\ bal = [a \in Users \cup Fresh |-> IF a \in Users THEN Funds[a] ELSE 0]
           /\ clients = {} /\ grants = {}
           /\ funders = <<1, 2>> /\ feegr = TRUE /\ sale = [ch \in SaleChains |-> IF ch = 1 THEN 1 ELSE 0]
           /\ gifts = 0 /\ now = 0
           /\ res = "init" /\ last = Rec("Init", 0, 0, 0, 0, 0, 0, 0, 0, "") /\ nops = 0
Init2 == Init \/ InitCfg
MCView == <<svars, nops>>
Constr == nops <= MaxOps /\ now <= MaxNow
=============================================================================
