---------------------------- MODULE LightNode_mc ----------------------------
(* Exhaustive configurations for LightNode.  The request and its result (last, res) are write-only and  *)
(* hidden from the fingerprint (VIEW); the step properties PA_* are checked on every generated            *)
(* transition.  NextR prunes arguments the transcribed checks cannot look at: a creator different from    *)
(* the signer is rejected by the ante chain before anything is read (one wrong creator per signer);       *)
(* funder lists are drawn from the rich and the poor user only; a gift by bank transaction is rejected    *)
(* before anything is read (one tried); a sale that is not authorised / has no fee granter / no funders   *)
(* is dropped before client and amount are read (one tried).                                              *)
EXTENDS LightNode
CONSTANTS MaxOps, MaxNow
\* <<bond denom, other denom>>: user 1 rich, user 2 cannot pay a single bond unit but holds the other denom, user 3 = the address with an account
FundsSmall == << <<3, 1>>, <<0, 2>>, <<2, 0>> >>
OtherOf(a) == CHOOSE b \in Signers : b # a
OtherUser(a) == CHOOSE b \in Users : b # a
Lists2 == {<<>>, <<1>>, <<2>>, <<1, 2>>, <<2, 1>>}
MinOf(S) == CHOOSE x \in S : \A y \in S : x <= y
NextR ==
  \/ \E who \in Users, c \in Addrs, amt \in Amounts, m \in Months, d \in Denoms : AddLicense(who, who, c, amt, m, d)
  \/ \E who \in Users : AddLicense(who, OtherUser(who), MinOf(Fresh), 1, MinOf(Months), Bond)
  \/ \E who \in Signers : \E as \in {who, OtherOf(who)} : Register(who, as) \/ Auth(who, as)
  \/ \E ch \in SaleChains, k \in Contracts : IF Authorised(ch, k) /\ feegr /\ Len(funders) > 0
                                               THEN \E c \in Addrs, amt \in Amounts : Sale(ch, k, c, amt)
                                               ELSE Sale(ch, k, MinOf(Fresh), 1)
  \/ \E fs \in Lists2 : fs # funders /\ SetFunders(fs)
  \/ ~feegr /\ SetFeegranter
  \/ \E cfg \in SaleCfgs : cfg # sale /\ SetSale(cfg)
  \/ \E who \in Users, amt \in Amounts \ {0} : Gift(who, amt, "keeper")
  \/ Gift(1, 1, "tx")
  \/ \E c \in Fresh, q \in 1..5 : Advance(c, q)
\* second initial state: everything configured (so that sale + activation + vesting fit into a small bound)
InitCfg == /\ escrow = ZeroD /\ lic = [c \in {} |-> 0]
           /\ acct = [c \in Fresh |-> "none"] /\ vest = [c \in {} |-> 0]
           /\ bal = [a \in Users \cup Fresh |-> IF a \in Users THEN [d \in Denoms |-> Funds[a][d]] ELSE ZeroD]
           /\ clients = {} /\ grants = {}
           /\ funders = <<1, 2>> /\ feegr = TRUE /\ sale = [ch \in SaleChains |-> IF ch = 1 THEN 1 ELSE 0]
           /\ gifts = ZeroD /\ now = 0
           /\ res = "init" /\ last = Rec("Init", 0, 0, 0, 0, 0, 0, 0, 0, "", 0) /\ nops = 0
Init2 == Init \/ InitCfg
MCView == <<svars, nops>>
Constr == nops <= MaxOps /\ now <= MaxNow
=============================================================================
