CONSTANTS
  Items = {"batch", "message"}
  Vals = {1, 2, 3}
  MaxDep = 3
  MaxOps = 6
INIT Init
NEXT Next
CONSTRAINT Constr
INVARIANTS TypeOK StoredSigBindsDeployment NoForeignDeployment OneSigPerValidator
CHECK_DEADLOCK FALSE
