CONSTANTS
  Vals = {1, 2, 3, 4}
  Share <- ShareFn
  MaxRetries = 2
  World = 0
  EKinds = {"valset", "usc"}
  KMax = 1
  Corrs = {"none"}
  Sts = {"ok", "fail", "absent", "bad"}
  Ns = {1}
  Rgs = {1, 2}
  Ts = {"tx"}
  MaxId = 1
  MaxTx = 1
  MaxRounds = 1
  Signers = {1, 2}
  Jumps = {}
INIT InitMC
NEXT NextMC
CONSTRAINT Constr
VIEW View
INVARIANTS TypeOK SuccessOnlyIfExactEncoding NoSecondUse EffectsAtMostOnce EffectsAccounted
PROPERTIES FailedOrForeignRemovesWithoutEffects
CHECK_DEADLOCK FALSE
