CONSTANTS
  Users = {1, 2}
  Denoms = {1, 2}
  Contracts = {1, 2, 3}
  InitBal = 2
  MaxTx = 3
INIT Init
NEXT Next
CONSTRAINT Constr
INVARIANTS TypeOK EscrowEq SenderWhole RefundDenomStable FwdRevAgree
CHECK_DEADLOCK FALSE
