CONSTANTS
  Users = {1, 2, 3}
  Fresh = {11, 12}
  HasAcct = 3
  Denoms = {1, 2}
  Funds <- FundsSmall
  Amounts = {0, 1, 2}
  Months = {1}
  SaleMonths = 2
  Unit = 1
  MonthTicks = 4
  SaleChains = {1, 2, 3}
  Contracts = {1, 2}
  MaxOps = 3
  MaxNow = 16
INIT Init2
NEXT NextR
VIEW MCView
CONSTRAINT Constr
INVARIANTS TypeOK EscrowCovers LicenceShape VestShape LockedSane
PROPERTIES PA_CreateOnlyFresh PA_LicenceStable PA_ActivateOnceBySelf PA_ActivationVests PA_SaleOnlyIfConfigured PA_FailureIsNoOp PA_Conserved
CHECK_DEADLOCK FALSE
