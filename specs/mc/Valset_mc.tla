----------------------------- MODULE Valset_mc -----------------------------
EXTENDS Valset
CONSTANTS StakeVecs,    \* initial stake vectors
          StakeSet,     \* stakes a validator can start with
          Amounts,      \* delegation amounts
          DTs,          \* time steps
          MaxSnaps, MaxStakeOps, MaxH, MaxJails, MaxLevel, VersionsMC, StakeVals, MaxOnChain

ModelSentences == <<1, 2, 4>>
RealSentences == <<60, 300, 900, 3600, 86400>>
AllAccts == [v \in Vals |-> Chains]

\* ---- part (a): snapshots ---------------------------------------------------
\* stake vectors: equal, dominant, mixed, ascending (index order matters for ties)
Vecs3Q == {<<1, 1, 1>>, <<7, 2, 1>>, <<1, 2, 3>>, <<2, 2, 1>>}
Vecs4Q == {<<1, 1, 1, 1>>, <<7, 1, 1, 1>>, <<1, 2, 3, 7>>, <<3, 3, 2, 1>>}
\* keep-alive part: plus shares of validator 1 just around the 25% protection (25.49% = 26 of 102, 26.47% = 27 of 102, 24.5%)
Vecs4K == Vecs4Q \cup {<<26, 25, 25, 26>>, <<27, 25, 25, 25>>, <<25, 26, 25, 26>>}
Vecs2 == {<<1, 1>>, <<3, 1>>}
VecsAll == {stk \in [Vals -> StakeSet] : \A a, b \in Vals : a < b => stk[a] >= stk[b] \/ a = 1}  \* validators 2..N sorted, validator 1 free
InitSnap == \E stk \in StakeVecs : InitWith(stk, AllAccts, {}, InitStatus(stk))
NextSnap ==
  \/ Build({})
  \/ \E id \in 1..(lastId + 1), c \in Chains : SetOnChain(id, c)
  \/ \E f \in BOOLEAN : Publish(f, {})
  \/ \E v \in Vals, c \in Chains : c \in accts[v] /\ Register(v, accts[v] \ {c})    \* accounts only shrink here (bounded)
  \/ \E c \in Chains : c \notin active /\ Activate(c)
  \/ \E v \in StakeVals : gen[v] < 1 /\ Rotate(v)
  \/ \E v \in StakeVals, c \in Chains : SetBalance(v, c)
  \/ \E v \in StakeVals, a \in Amounts : Delegate(v, a) \/ Undelegate(v, a)
  \/ \E v \in Vals : JailF(v) \/ Unjail(v)
  \/ \E dt \in DTs : StakingEB(dt)
StakeOps == SumOver(deleg, Vals)
ConstrSnap == /\ lastId <= MaxSnaps /\ StakeOps <= MaxStakeOps /\ now <= MaxH
              /\ SumOver([id \in DOMAIN snaps |-> Len(snaps[id].chains)], DOMAIN snaps) <= MaxOnChain
              /\ TLCGet("level") <= MaxLevel
ViewSnap == <<stakingVars, snapVars, now>>

\* ---- part (b): keep-alive --------------------------------------------------
InitAlive == \E stk \in StakeVecs : InitWith(stk, AllAccts, {}, InitStatus(stk))
NextAlive ==
  \/ \E dt \in DTs : Block(dt)
  \/ \E v \in StakeVals : KeepAlive(v, MaxOf(VersionsMC))
  \/ \E ver \in VersionsMC : KeepAlive(1, ver)
  \/ \E v \in StakeVals : Jail(v)
  \/ \E v \in Vals : Unjail(v)
  \/ \E ver \in VersionsMC \ {0, DefaultVer}, t \in {0, h + 2} : SetMinVersion(ver, t)
Jailings == SumOver([v \in Vals |-> Len(jhist[v])], Vals)
ConstrAlive == h <= MaxH /\ Jailings <= MaxJails /\ TLCGet("level") <= MaxLevel
ViewAlive == <<stakingVars, aliveVars, now>>
\* the block-skipping evaluation used for long runs agrees with block-by-block evaluation
FastIsNaive == \A n \in 0..7, dt \in DTs : FastRun(St, n, dt) = NaiveRun(St, n, dt)
=============================================================================
