CONSTANTS
  Vals = {1, 2, 3, 4}
  FeeLevels = {110, 200}
  BaseFee = 110
  TopK = 3
  Times = {0, 1, 2}
  Senders = {1, 2}
  Gases = {7}
  Scale = 100
  CommRate = 1
  SecRate = 33
  MaxQ = 4
  InjAssignees = {1, 2}
  InjEst = {"noneed", "need", "elected"}
  InjProc = {"none", "pad"}
  InjSenders = {1, 2}
  DynDepth = 6
  RowMode = "canon"
INIT Init
NEXT NextRows
INVARIANTS TypeOK AssignAll
CHECK_DEADLOCK FALSE
