CONSTANTS
  Vals = {1, 2, 3}
  FeeLevels = {110, 200}
  BaseFee = 110
  TopK = 2
  Times = {0, 1}
  Senders = {1, 2}
  Gases = {7}
  Scale = 100
  CommRate = 1
  SecRate = 33
  MaxQ = 1
  InjAssignees = {1, 2}
  InjEst = {"noneed", "need", "elected"}
  InjProc = {"none", "pad"}
  InjSenders = {1, 2}
  DynDepth = 8
  RowMode = "canon"
INIT Init
NEXT NextRetry
CONSTRAINT ConstrDyn
INVARIANTS TypeOK NoFeesBeforeElection
PROPERTIES AssignedAreEligible RetryKeepsRequirements FeesOfTheChain NoEligibleNoEnqueue
CHECK_DEADLOCK FALSE
