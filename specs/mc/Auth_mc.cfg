CONSTANTS
  MaxOps = 1000000
INIT Init
NEXT NextQ
VIEW MCView
INVARIANTS TypeOK
PROPERTIES PA_NoForeignWrite PA_GrantNeeded PA_GovOnly PA_FailureIsNoop
POSTCONDITION CoverGrants
CHECK_DEADLOCK FALSE
