CONSTANTS
  Vals = {1, 2, 3}
  Claims = {1, 2, 3, 4}
  CNonce <- NonceF
  CHash <- HashF
  CEff <- EffF
  CCompass <- CompassF
  CApplicable <- ApplF
  CHeight <- HeightF
  Powers = {0, 34}
  InitPower <- Pow3
  MaxNonce = 2
  MaxEpoch = 1
  MaxVotes = 6
INIT Init
NEXT NextNoAct
CONSTRAINT Constr
VIEW View
INVARIANTS TypeOK QuorumDistinct OnePerNonce Consecutive AppliedAtMostOnce EffectsMatchApplied NoDuplicateVotes PooledAgree
CHECK_DEADLOCK FALSE
