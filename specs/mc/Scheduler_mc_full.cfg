CONSTANTS
  Accounts = {1, 2}
  Contracts = {3}
  JobIds = {1, 2}
  Chains = {1, 2, 3, 4, 5}
  Targets = {1, 2}
  Payloads = {1, 2}
  Spellings = {"bare"}
INIT Init
NEXT NextFull
VIEW MCView
INVARIANTS TypeOK
PROPERTIES PA_JobsImmutable PA_IdUnique PA_ExactlyOneCall PA_CallIsStoredCall PA_CallerAppended PA_FailureEnqueuesNothing PA_QueryIsStored PA_DiscardedIsInvisible
CHECK_DEADLOCK FALSE
