CONSTANTS
  Base = 280
  MaxHeight = 283
  EnvVars <- McEnv
  QueryKinds <- McQueries
  BlockChoices <- McBlocks
  Versions <- McVersions
INIT Init
NEXT Next
CONSTRAINT McConstr
INVARIANT TypeOK
INVARIANT StateIsFunctionOfHistory
INVARIANT NoAbort
INVARIANT OnlyGateHalts
PROPERTY PerturbationsStutter
CHECK_DEADLOCK FALSE
