-------------------------- MODULE TokenFactory_mc --------------------------
(* Exhaustive configurations for TokenFactory.                                          *)
(* The executed action and its result (last, res) are write-only, so they are hidden     *)
(* from the fingerprint (VIEW); the step properties PA_* are checked by TLC on every     *)
(* generated transition, also on those that lead to an already known state.              *)
(*                                                                                       *)
(* NextR is Next with arguments pruned where the transcribed checks cannot look at them: *)
(*  - a creator `as` that is neither the signer nor a granter of the signer is rejected  *)
(*    before any argument is used (after the denom-shape check), so one such creator per *)
(*    signer is tried, next to the signer itself and every granter of the signer;        *)
(*  - amount / new admin are only read after the admin comparison succeeded, which needs *)
(*    an authorised signer and a stored denom; otherwise one value is tried.              *)
(* The full Next is checked by the *_full configuration (thorough tier).                 *)
EXTENDS TokenFactory
CONSTANTS MaxMinted
FundsSmall == <<2, 1, 0>>       \* account 3 can never pay a creation fee, account 2 once
FundsBig   == <<2, 2, 1>>
Other(a) == (a % Cardinality(Accounts)) + 1
One(S) == {CHOOSE x \in S : TRUE}
Read(who, as, d) == Authorised(who, as) /\ d \in DOMAIN denoms
NoGrants == {{}}
OneGrant == {{<<2, 1>>}}            \* account 2 lets account 1 sign for it (1 may act as 2; nobody else is delegated)
SomeGrants == {{}, {<<2, 1>>}, {<<1, 2>>, <<1, 3>>}}
Strangers(who) == {a \in Accounts \ {who} : <<a, who>> \notin grants}
Creators(who) == {who} \cup {g \in Accounts : <<g, who>> \in grants}
                 \cup (IF Strangers(who) = {} THEN {} ELSE One(Strangers(who)))
NextR ==
  \/ Reimport
  \/ \E who \in Accounts : \E as \in Creators(who) :
     \/ \E sub \in SubsX : Create(who, as, sub)
     \/ \E d \in AllDenoms : \E amt \in (IF Read(who, as, d) THEN Amounts ELSE One(Amounts)) :
           Mint(who, as, d, amt) \/ Burn(who, as, d, amt)
     \/ \E d \in AllDenoms : \E new \in (IF Read(who, as, d) THEN NewAdmins ELSE {NoAdmin}) :
           ChangeAdmin(who, as, d, new)
     \/ \E d \in AllDenoms : SetMetadata(who, as, d)
MCView == <<svars, grants, nops>>
Constr == /\ nops <= MaxOps
          /\ \A d \in AllDenoms : minted[d] <= MaxMinted
=============================================================================
