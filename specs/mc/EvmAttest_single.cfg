CONSTANTS
  Vals = {1, 2, 3, 4}
  Share <- ShareFn
  MaxRetries = 2
  World = 0
  EKinds = {"slc", "valset", "usc", "uscn", "uusc"}
  KMax = 2
  Corrs = {"none", "c"}
  Sts = {"ok", "fail"}
  Ns = {1}
  Rgs = {1}
  Ts = {"tx", "err"}
  MaxId = 1
  MaxTx = 2
  MaxRounds = 1
  Signers = {1, 2}
  Jumps = {}
INIT InitMC
NEXT NextMC
CONSTRAINT Constr
VIEW View
INVARIANTS TypeOK SuccessOnlyIfExactEncoding NoSecondUse EffectsAtMostOnce EffectsAccounted
PROPERTIES FailedOrForeignRemovesWithoutEffects
CHECK_DEADLOCK FALSE
