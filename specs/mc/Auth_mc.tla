------------------------------ MODULE Auth_mc ------------------------------
(* Exhaustive configuration for Auth: every message kind of the table x signer, creator, named        *)
(* principal in {A, B, Gov} x every reachable fee-grant relation between A and B (none / active /      *)
(* revoked / expired per direction).  The version counters, the executed action and its result are     *)
(* write-only, so they are hidden from the fingerprint (VIEW): TLC visits every grant relation once    *)
(* and checks the step properties PA_* on every transition leaving it.                                 *)
EXTENDS Auth
ASSUME TableIsWellFormed == TableOK
MCView == <<grants, gkind>>
\* every fee-grant relation is reached: per direction none / revoked / active in 8 kinds / expired in 4 kinds (an expired
\* allowance survives exactly one block, so both directions are never expired at the same time)
PairStates == {<<"none", "-">>, <<"revoked", "-">>} \cup ({"active"} \X AKinds) \cup ({"expired"} \X BaseKinds)
NReachable == Cardinality(PairStates) * Cardinality(PairStates) - Cardinality(BaseKinds) * Cardinality(BaseKinds)
CoverGrants == TLCGet("distinct") = NReachable
\* quick configuration: the two-message transactions range over every pair of plain kinds only where both allowances are
\* plain basic ones; under the other allowance kinds the honest message is a keep-alive (the ante decision does not look
\* at the kind of the message).  Auth_mc_full checks Next itself.
PlainBasic == \A pr \in Pairs : gkind[pr] \in {"-", "basic"}
NextQ == \/ GrantOps
         \/ Reimport
         \/ \E k \in Kinds, s \in P, c \in P, n \in P : Deliver(k, s, c, n)
         \/ \E k1 \in (IF PlainBasic THEN Plain ELSE {"VaKeepAlive"}), k2 \in Plain, s \in Users, c \in Users, ord \in {1, 2} :
               Deliver2(k1, k2, s, c, ord)
         \/ \E k \in Keyed, s \in Users, c \in Users, n \in Users, v \in Variants : DeliverK(k, s, c, n, v)
=============================================================================
