--------------------------- MODULE EvmAttest_mc ---------------------------
(* Exhaustive configurations for EvmAttest.  Independent steps commute (signatures and evidence of   *)
(* different validators, evidence on different messages), so behaviours are explored in rounds with a *)
(* canonical order: enqueue*, sign*, evidence* (ascending (message, validator), one per pair and      *)
(* round), EndBlock.  The evidence alphabet is every transaction that can be built (exact with any    *)
(* prefix, no signature, corrupted, foreign, earlier transactions) x receipt status x instance, and   *)
(* the error proof.                                                                                   *)
EXTENDS EvmAttest
CONSTANTS World,      \* prepared world the behaviours start from (0, 1, 2)
          EKinds,     \* kinds that may be enqueued
          KMax,       \* signatures per message / prefix lengths 0..KMax
          Corrs, Sts, Ns, Rgs, Ts,
          MaxId, MaxTx, MaxRounds, Signers,
          Jumps       \* block jumps that may happen at the start of a round (time does not influence the design:
                      \* the view hides `now`, so the jumps cost nothing and show exactly that)
VARIABLE ph           \* [r, s, m, v]: round, stage, last (message, validator) that submitted evidence in this round
\* cfg files cannot hold tuples/functions
ShareFn == <<3, 1, 1, 1>>          \* total 6: {1,2} holds exactly 2/3, {2,3,4} is one short
InitMC == InitW(World) /\ ph = [r |-> 1, s |-> 0, m |-> 0, v |-> 0, sk |-> 0]     \* sk: ids consumed by replaced upload messages
Ofs == DOMAIN msgs \cup {key[1] : key \in DOMAIN txs}
Stage(s) == ph.s <= s /\ ph' = [ph EXCEPT !.s = s]
EvidenceMC ==
  \E m \in DOMAIN msgs, v \in Vals :
     /\ ph.s <= 2 /\ (ph.s = 2 => (m > ph.m \/ (m = ph.m /\ v > ph.v)))
     /\ ph' = [ph EXCEPT !.s = 2, !.m = m, !.v = v]
     /\ \/ Evidence(v, m, "err", m, 1, "none", "ok", 1, 1) /\ "err" \in Ts
        \/ \E of \in Ofs, k \in 0..KMax, corr \in Corrs, st \in Sts, n \in Ns, rg \in Rgs :
             /\ "tx" \in Ts
             /\ CanBuild(of, k, corr)
             /\ (of \in DOMAIN msgs /\ IsUsc(msgs[of].kind) => k = 1)
             /\ (corr # "none" => k = 1 /\ of = m)        \* one corrupted variant per message is enough for the design
             /\ (rg # 1 => corr = "none" /\ k = 1 /\ of = m /\ n = 1)   \* a second receipt only for the plain transaction
             /\ Evidence(v, m, "tx", of, k, corr, st, n, rg)
NextMC ==
  \/ \E kind \in EKinds : /\ ph.s <= 0 /\ Enqueue(kind)
                           /\ ph' = [ph EXCEPT !.s = 0, !.sk = IF kind = "uscn" /\ CanEnqueue(kind) THEN @ + 1 ELSE @]
  \/ \E v \in Signers, m \in DOMAIN msgs : Stage(1) /\ Len(msgs[m].sigs) < KMax /\ Sign(v, m)
  \/ \E d \in Jumps : ph.s <= 0 /\ Advance(d) /\ UNCHANGED ph
  \/ EvidenceMC
  \/ ph.r <= MaxRounds /\ EndBlock /\ ph' = [r |-> ph.r + 1, s |-> 0, m |-> 0, v |-> 0, sk |-> ph.sk]
View == <<msgs, nextId, txs, processed, live, deploy, active, user, res, routed, applied, ph>>
Constr == nextId <= MaxId + 1 + ph.sk /\ Cardinality(DOMAIN txs) <= MaxTx /\ ph.r <= MaxRounds
=============================================================================
