------------------------ MODULE CompassLifecycle_mc ------------------------
EXTENDS CompassLifecycle
CONSTANTS MaxQ, MaxSeq, MaxLevel
\* chain 1 runs compass 1 (snapshot published), chain 2 is known but was never activated (no fee manager, no snapshot)
Act2 == <<1, 0>>
Act1 == <<1>>
Constr == /\ \A c \in Chains : Len(queue[c]) <= MaxQ
          /\ seq <= MaxSeq
          /\ TLCGet("level") <= MaxLevel
View == <<last, info, snap, dep, queue, seq, sky>>
StepOK == [][StepProps]_vars
StepHandoverAddr == [][HandoverAddrMatches]_vars
SpecNoRemove == Init /\ [][NextNoRemoveDeployment]_vars
=============================================================================
