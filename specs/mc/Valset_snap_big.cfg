CONSTANTS
  Vals = {1, 2, 3, 4}
  Chains = {1, 2}
  MaxVals = 3
  UnbondTime = 2
  MaxPower = 16
  WarmTime = 2
  TTL = 4
  Grace = 2
  Sweep = 2
  WarmUp = 3
  Sentences <- ModelSentences
  ResetMin = 3
  DefaultVer = 1
  StakeVecs <- Vecs4Q
  StakeSet = {1, 2, 7}
  Amounts = {1}
  DTs = {1}
  MaxSnaps = 3
  MaxStakeOps = 1
  MaxH = 2
  MaxJails = 0
  MaxLevel = 7
  StakeVals = {1}
  MaxOnChain = 2
  VersionsMC = {1}
INIT InitSnap
NEXT NextSnap
CONSTRAINT ConstrSnap
VIEW ViewSnap
INVARIANTS TypeOK CurrentIsHighest ProjectionCorrect PublishGate
PROPERTIES SnapshotFaithful IdsIncrease Immutable
CHECK_DEADLOCK FALSE
