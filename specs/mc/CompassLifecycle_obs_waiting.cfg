\* OBSERVATION config: the stated predicate is NOT guaranteed by the code; TLC is expected to print a counterexample
\* (shortest with -workers 1), which checks/x01.py records in the evidence as an observation, never as a verdict
CONSTANTS
  NChains = 1
  MaxId = 3
  MaxRetries = 2
  InitActive <- Act1
  Removable = {1}
  SkyInit = 7
  MaxQ = 3
  MaxSeq = 4
  MaxLevel = 9
INIT Init
NEXT Next
CONSTRAINT Constr
INVARIANT O_WaitingHasHandover
CHECK_DEADLOCK FALSE
