CONSTANTS
  Vals = {1, 2, 3, 4}
  Share <- ShareFn
  MaxRetries = 2
  World = 2
  EKinds = {"valset"}
  KMax = 1
  Corrs = {"none"}
  Sts = {"ok", "fail"}
  Ns = {1}
  Rgs = {1}
  Ts = {"tx"}
  MaxId = 2
  MaxTx = 3
  MaxRounds = 2
  Signers = {2}
  Jumps = {1, 301, 601, 5000}
INIT InitMC
NEXT NextMC
CONSTRAINT Constr
VIEW View
INVARIANTS TypeOK SuccessOnlyIfExactEncoding NoSecondUse EffectsAtMostOnce EffectsAccounted
PROPERTIES FailedOrForeignRemovesWithoutEffects
CHECK_DEADLOCK FALSE
