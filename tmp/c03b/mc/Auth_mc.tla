------------------------------ MODULE Auth_mc ------------------------------
(* Exhaustive configuration for Auth: every message kind of the table x signer, creator, named        *)
(* principal in {A, B, Gov} x every reachable fee-grant relation between A and B (none / active /      *)
(* revoked / expired per direction).  The version counters, the executed action and its result are     *)
(* write-only, so they are hidden from the fingerprint (VIEW): TLC visits every grant relation once    *)
(* and checks the step properties PA_* on every transition leaving it.                                 *)
EXTENDS Auth
ASSUME TableIsWellFormed == TableOK
MCView == grants
\* every fee-grant relation is reached (an expired allowance survives exactly one block, so both directions are
\* never expired at the same time)
Reachable == {g \in [Pairs -> GStates] : ~(g[<<A, B>>] = "expired" /\ g[<<B, A>>] = "expired")}
CoverGrants == TLCGet("distinct") = Cardinality(Reachable)
=============================================================================
