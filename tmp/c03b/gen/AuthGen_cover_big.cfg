CONSTANTS
  MaxOps = 6
  Signers = {1, 2}
  Full = TRUE
  GovAll = TRUE
INIT GInit
NEXT GNextC
VIEW GView
CONSTRAINT GConstr
CHECK_DEADLOCK FALSE
