CONSTANTS
  MaxOps = 6
  Signers = {1}
  Full = FALSE
  GovAll = FALSE
INIT GInit
NEXT GNextC
VIEW GView
CONSTRAINT GConstr
CHECK_DEADLOCK FALSE
