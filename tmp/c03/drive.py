import sys, json, os
sys.path.insert(0, "/verif/checks")
import verifkit as vk, c03
chk = c03.CHECK
tier = sys.argv[1]
hs = []
for g in chk.gens:
    if tier in g.tiers:
        hs += vk.tlc_generate(g.module, g.cfg, mode=g.mode, timeout=g.timeout)
hs += chk.extra_histories(tier)
ev = chk.drive(hs)
json.dump({"hs": hs, "ev": ev}, open("/verif/tmp/c03/events-%s.json" % tier, "w"))
