import sys, json, os, collections
sys.path.insert(0, "/verif/checks")
import verifkit as vk, c03
chk = c03.CHECK
tier = sys.argv[1]
d = json.load(open("/verif/tmp/c03/events-%s.json" % tier))
ev = d["ev"]
v = chk._raw_validate(ev)
print("accepted", v.accepted, "states", v.states)
if not v.accepted: print(v.reject_tail)
c = collections.Counter(n for n,_,_ in v.monfail)
print("MON", dict(c))
print("CONF", dict(collections.Counter(n for n,_,_ in v.conffail)))
seen=set()
for n,i,e in v.monfail:
    a=e.get("args",{})
    key=(n,a.get("kind"),a.get("s"),a.get("c"),a.get("n"),json.dumps(e.get("g")))
    if key in seen: continue
    seen.add(key)
    print(n, a, e.get("g"), e.get("res"), e.get("cls"), e.get("chg"), e.get("prep"), e.get("idle"))
print("---- conf")
seen=set()
for n,i,e in v.conffail:
    a=e.get("args",{})
    key=(n,a.get("kind"),a.get("s"),a.get("c"),a.get("n"))
    if key in seen: continue
    seen.add(key)
    print(n, a, e.get("g"), e.get("res"), e.get("cls"), e.get("cs"), e.get("code"), e.get("chg"), e.get("log","")[:90])
