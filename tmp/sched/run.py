import sys, os
sys.path.insert(0, '/verif/checks')
os.environ.setdefault("VERIF_SCRATCH_BASE", "/verif/tmp")
import verifkit as vk
m, c = sys.argv[1], sys.argv[2]
w = int(sys.argv[3]) if len(sys.argv) > 3 else 8
r = vk.tlc(m, c, workers=w, timeout=int(sys.argv[4]) if len(sys.argv) > 4 else 170)
print("\n".join(r.out.splitlines()[-25:]))
print("wall", r.wall, "distinct", r.distinct, "generated", r.generated)
