import sys, os, json
sys.path.insert(0, '/verif/checks')
os.environ.setdefault("VERIF_SCRATCH_BASE", "/verif/tmp")
import verifkit as vk
mod, path = sys.argv[1], sys.argv[2]
ev = [json.loads(l) for l in open(path) if l.strip()]
ev.sort(key=lambda e: (e["h"], e["i"]))
v = vk.tlc_validate(mod, ev, timeout=170)
print("accepted", v.accepted, "states", v.states, "wall", round(v.wall,1))
print("MONFAIL", [(n,i,(e or {}).get("act"),(e or {}).get("args")) for n,i,e in v.monfail][:10], len(v.monfail))
print("CONFFAIL", [(n,i) for n,i,e in v.conffail][:10], len(v.conffail))
for d in v.details[:3]: print(d[:900])
if not v.accepted: print(v.reject_tail)
