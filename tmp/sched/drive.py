import sys, os, json
sys.path.insert(0, '/verif/checks')
os.environ.setdefault("VERIF_SCRATCH_BASE", "/verif/tmp")
os.environ.setdefault("TMPDIR", "/verif/tmp")
import verifkit as vk
pkg, test, hist, out = sys.argv[1:5]
hs = [json.loads(l)["steps"] for l in open(hist) if l.strip()]
ev = vk.go_drive(pkg, test, hs, env={"GOGC": "300"})
with open(out, "w") as f:
    for e in ev: f.write(json.dumps(e) + "\n")
print(len(hs), "histories", len(ev), "events")
