import sys, os, json
sys.path.insert(0, '/verif/checks')
os.environ.setdefault("VERIF_SCRATCH_BASE", "/verif/tmp")
import verifkit as vk
m, c, mode = sys.argv[1], sys.argv[2], sys.argv[3]
hs = vk.tlc_generate(m, c, mode=mode, num=int(sys.argv[4]) if len(sys.argv) > 4 else 200, depth=int(sys.argv[5]) if len(sys.argv) > 5 else 14, timeout=170)
print(len(hs), "histories; lengths", sorted({len(h) for h in hs}))
out = sys.argv[6] if len(sys.argv) > 6 else None
if out:
    with open(out, "w") as f:
        for i, h in enumerate(hs):
            f.write(json.dumps({"h": i, "steps": h}) + "\n")
print(json.dumps(hs[len(hs)//2])[:600])
