#!/bin/bash
# Runs every registered check (default: quick tier) and prints one line per property.
T=${1:-quick}
cd "$(dirname "$(readlink -f "$0")")"
# extra checks that are NOT among the listed properties (not in MANIFEST.json): run after the registered ones
EXTRAS="X01"
run() {
  p=$1
  s=$(date +%s)
  out=$(./check $p --tier $T 2>&1); rc=$?
  e=$(date +%s)
  echo "$p rc=$rc $((e-s))s $(echo "$out" | grep -E '^VIOLATION|^KNOWN-FINDING|^BROKEN' | cut -c1-160 | head -3 | tr '\n' ' ')"
}
for p in $(python3 -c "import json;print(' '.join(c['property_id'] for c in json.load(open('MANIFEST.json'))['checks']))"); do
  run $p
done
for p in $EXTRAS; do
  run $p
done
