---------------------------- MODULE counterexample ----------------------------

EXTENDS PowerSamples

(* Constant initialization state *)
ConstInit == TRUE

(* Initial state [_transition(0)] *)
State0 ==
  badGate = {}
    /\ badPower = {}
    /\ badSum = {}
    /\ badTotal = {}
    /\ driftGate = {}
    /\ plus1 = {1}

(* The following formula holds true in the last state and violates the invariant *)
InvariantViolation == ~(plus1 = {})

================================================================================
(* Created by Apalache on Fri Oct 02 23:15:36 UTC 2026 *)
(* https://github.com/apalache-mc/apalache *)
