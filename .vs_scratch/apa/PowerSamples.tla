---------------------------- MODULE PowerSamples ----------------------------
(* Power normalisation of x/evm transformSnapshotToCompass at real magnitude (C10).         *)
(* Generated from specs/arith/PowerSamples.tla.tmpl:   [shares |-> <<314254135290, 119759042693>>, total |-> 434013177983, sentA |-> TRUE, a |-> <<3109839291, 1185128005>>, inB |-> <<TRUE, TRUE>>, sentB |-> TRUE, b |-> <<3109839291, 1185128005>>],
  [shares |-> <<1000000, 1000000, 1000000>>, total |-> 3000000, sentA |-> TRUE, a |-> <<1431655765, 1431655765, 1431655765>>, inB |-> <<TRUE, TRUE, FALSE>>, sentB |-> TRUE, b |-> <<1431655765, 1431655765, -1>>],
  [shares |-> <<4611686018427387904, 2305843009213693952>>, total |-> 6917529027641081856, sentA |-> TRUE, a |-> <<2863311530, 1431655765>>, inB |-> <<FALSE, TRUE>>, sentB |-> FALSE, b |-> <<-1, -1>>] is replaced by samples          *)
(* recorded from the REAL publish path (stored snapshot shares -> UpdateValset powers).      *)
(* The TLA+ operator PowerOf is the oracle; Apalache evaluates it on unbounded integers.     *)
(*   a[j]   power sent to a chain where every member has an account (-1: nothing sent)      *)
(*   inB[j] member j has an account on the second chain, b[j] its power there (-1: none)     *)
EXTENDS Integers, Sequences, FiniteSets, Apalache

\* @type: (Int, Int) => Int;
PowerOf(share, total) == (share * 4294967296) \div total
MaxPower == 4294967296
Threshold == 2863311530        \* thresholdForConsensus in x/evm/keeper/keeper.go

\* @typeAlias: sample = { shares: Seq(Int), total: Int, sentA: Bool, a: Seq(Int), inB: Seq(Bool), sentB: Bool, b: Seq(Int) };
\* @type: Seq($sample);
Samples == <<
  [shares |-> <<314254135290, 119759042693>>, total |-> 434013177983, sentA |-> TRUE, a |-> <<3109839291, 1185128005>>, inB |-> <<TRUE, TRUE>>, sentB |-> TRUE, b |-> <<3109839291, 1185128005>>],
  [shares |-> <<1000000, 1000000, 1000000>>, total |-> 3000000, sentA |-> TRUE, a |-> <<1431655765, 1431655765, 1431655765>>, inB |-> <<TRUE, TRUE, FALSE>>, sentB |-> TRUE, b |-> <<1431655765, 1431655765, -1>>],
  [shares |-> <<4611686018427387904, 2305843009213693952>>, total |-> 6917529027641081856, sentA |-> TRUE, a |-> <<2863311530, 1431655765>>, inB |-> <<FALSE, TRUE>>, sentB |-> FALSE, b |-> <<-1, -1>>]
>>

\* @type: Seq(Int) => Int;
SumSeq(s) == ApaFoldSeqLeft(LAMBDA acc, x: acc + x, 0, s)
\* @type: $sample => Set(Int);
Idx(s) == DOMAIN s.shares
\* @type: ($sample, Int) => Int;
Want(s, j) == PowerOf(s.shares[j], s.total)
\* expected powers on the second chain: members only
\* @type: $sample => Int;
SumWantB(s) == ApaFoldSet(LAMBDA acc, j: acc + (IF s.inB[j] THEN Want(s, j) ELSE 0), 0, Idx(s))
\* @type: $sample => Int;
SumGotB(s) == ApaFoldSet(LAMBDA acc, j: acc + (IF s.inB[j] THEN s.b[j] ELSE 0), 0, Idx(s))

\* @type: $sample => Bool;
TotalOK(s) == s.total = SumSeq(s.shares)
\* @type: $sample => Bool;
FloorA(s) == s.sentA => \A j \in Idx(s) : s.a[j] = Want(s, j)
\* @type: $sample => Bool;
FloorB(s) == s.sentB => \A j \in Idx(s) : s.inB[j] => s.b[j] = Want(s, j)
\* the only deviation is "one above the floor" somewhere
\* @type: $sample => Bool;
Within1A(s) == s.sentA => \A j \in Idx(s) : s.a[j] = Want(s, j) \/ s.a[j] = Want(s, j) + 1
\* @type: $sample => Bool;
Within1B(s) == s.sentB => \A j \in Idx(s) : s.inB[j] => (s.b[j] = Want(s, j) \/ s.b[j] = Want(s, j) + 1)
\* @type: $sample => Bool;
SumOK(s) == (s.sentA => SumSeq(s.a) <= MaxPower) /\ (s.sentB => SumGotB(s) <= MaxPower)
\* only sent when the powers that were sent sum to the threshold
\* @type: $sample => Bool;
GateOK(s) == (s.sentA => SumSeq(s.a) >= Threshold) /\ (s.sentB => SumGotB(s) >= Threshold)
\* conformance (drift): sent exactly when the floor powers reach the threshold
\* @type: $sample => Bool;
GateIff(s) == s.sentB = (SumWantB(s) >= Threshold)

VARIABLES
  \* @type: Set(Int);
  badTotal,
  \* @type: Set(Int);
  plus1,
  \* @type: Set(Int);
  badPower,
  \* @type: Set(Int);
  badSum,
  \* @type: Set(Int);
  badGate,
  \* @type: Set(Int);
  driftGate

I == DOMAIN Samples
Init ==
  /\ badTotal = {i \in I : ~TotalOK(Samples[i])}
  /\ plus1 = {i \in I : ~(FloorA(Samples[i]) /\ FloorB(Samples[i])) /\ Within1A(Samples[i]) /\ Within1B(Samples[i])}
  /\ badPower = {i \in I : ~(Within1A(Samples[i]) /\ Within1B(Samples[i]))}
  /\ badSum = {i \in I : ~SumOK(Samples[i])}
  /\ badGate = {i \in I : ~GateOK(Samples[i])}
  /\ driftGate = {i \in I : ~GateIff(Samples[i])}
Next == UNCHANGED <<badTotal, plus1, badPower, badSum, badGate, driftGate>>
SamplesAgree == badTotal = {} /\ plus1 = {} /\ badPower = {} /\ badSum = {} /\ badGate = {} /\ driftGate = {}
=============================================================================
