CONSTANTS
  Chains = {"eth-a", "eth-b"}
  Queues = {"turnstone", "balances", "funds", "refblock"}
  MaxOps = 3
  MaxLive = 2
  EmitAt = 0
INIT GInit
NEXT GNextC
VIEW GView
CONSTRAINT GConstr
CHECK_DEADLOCK FALSE
