CONSTANTS
  Vals = {1, 2, 3, 4, 5}
  Share <- Shares5
  EvValues = {1, 2}
  EstValues = {1}
  MaxMsgs = 1
  PruneAge = 300
  PruneEvery = 50
  Family = "ev"
  EmitAt = 0
  MaxOps = 6
INIT GInit
NEXT GNextC
CONSTRAINT GConstr
VIEW GView
CHECK_DEADLOCK FALSE
