---------------------------- MODULE QueueIdsGen ----------------------------
(* History generator for QueueIds (cover: one shortest history per distinct model state and incoming action; *)
(* simulate: seeded random walks).  Ids in Replace / Remove / Elect arguments are RELATIVE to the counter at  *)
(* the start of the history (the driver adds the real chain's counter).                                        *)
EXTENDS QueueIds, Json
CONSTANTS EmitAt
VARIABLE hist

GInit == Init /\ hist = <<>>
Rec(a, c, q, id) == [act |-> a, args |-> [c |-> c, q |-> q, id |-> id]]
\* targets worth trying: every live message in its own queue, the same id in a neighbouring queue
\* (other chain / another queue type of the same chain), an id never issued, an id already removed
OtherQ(q) == CHOOSE r \in Queues : r # q
Targets == {<<m.c, m.q, m.id>> : m \in live}
           \cup {<<c, m.q, m.id>> : c \in Chains, m \in live}
           \cup {<<m.c, OtherQ(m.q), m.id>> : m \in live}
           \cup {<<c, "turnstone", counter + 1>> : c \in Chains}
           \cup {<<c, "turnstone", id>> : c \in Chains, id \in {i \in 1..counter : i \notin Ids(live)}}
GNext == \/ \E c \in Chains, q \in Queues : Put(c, q) /\ hist' = Append(hist, Rec("Put", c, q, 0))
         \/ \E t \in Targets :
              \/ Replace(t[1], t[2], t[3]) /\ hist' = Append(hist, Rec("Replace", t[1], t[2], t[3]))
              \/ Remove(t[1], t[2], t[3]) /\ hist' = Append(hist, Rec("Remove", t[1], t[2], t[3]))
              \/ t[2] = "turnstone" /\ Elect(t[1], t[3]) /\ hist' = Append(hist, Rec("Elect", t[1], "turnstone", t[3]))

Last == IF hist = <<>> THEN <<>> ELSE hist[Len(hist)]
\* the view forgets versions and absolute history: enough to keep one history per shape
GView == <<Last, {[c |-> m.c, q |-> m.q, id |-> m.id, est |-> m.est] : m \in live}, counter, last.res>>
GConstr == Len(hist) <= MaxOps /\ Cardinality(live) <= MaxLive
GNextC == (IF hist # <<>> THEN PrintT(<<"HIST", ToJson(hist)>>) ELSE TRUE) /\ GNext
Emit == Len(hist) = EmitAt => PrintT(<<"HIST", ToJson(hist)>>)
=============================================================================
