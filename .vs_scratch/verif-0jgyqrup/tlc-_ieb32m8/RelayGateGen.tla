---------------------------- MODULE RelayGateGen ----------------------------
(* History generator for RelayGate (C14); see MempoolGen for the two modes.                   *)
(*  Family "assign": Setup(tables) [Rereg [Resnap]] then a fixed schedule of requests          *)
(*                   (MEV flag x block time) and a final Query; cover = one history per table. *)
(*  Family "gate"  : up to GateMsgs messages brought into a chosen state (composite PutX =     *)
(*                   Put, estimates, EndBlock, Deliver/Fail -- the driver logs the atomic      *)
(*                   steps) or really assigned, then Query.                                    *)
(*  Family "mix"   : simulate mode, every atomic action, random tables.                        *)
EXTENDS RelayGate, Json
CONSTANTS Family, EmitAt, MaxOps,
          GateMsgs,     \* messages per gate history
          GenStage,     \* subset of {"noneed", "need", "sub", "elected"}
          GenProc,      \* subset of {"none", "pad", "err"}
          VarMode,      \* which table rows are enumerated for the varied validators
          EstN          \* number of validators that submit an estimate in composite steps
VARIABLE hist

H(a, r) == hist' = Append(hist, [act |-> a, args |-> r])
Last == IF hist = <<>> THEN [act |-> "none", args |-> <<>>] ELSE hist[Len(hist)]
NAct(a) == Cardinality({i \in DOMAIN hist : hist[i].act = a})
RowsSeq(T) == [i \in 1..N |-> T[i]]
HiFee == MaxOf(FeeLevels)

\* ---- tables ---------------------------------------------------------------------------------
VarRows == CASE VarMode = "full"  -> {r \in Row : r.acct <= 1 /\ r.fee \in {0, BaseFee, HiFee}}
             [] VarMode = "small" -> {r \in Row : r.acct <= 1 /\ r.fee \in {0, BaseFee, HiFee} /\ (~r.home => (r.perf /\ ~r.mev))}
             [] OTHER             -> Row
AbsentRow == [home |-> FALSE, acct |-> 0, mev |-> FALSE, fee |-> 0, perf |-> FALSE]
BgRows == {AbsentRow, BaseRow, [BaseRow EXCEPT !.mev = TRUE, !.fee = HiFee]}
VarPairs == IF VarMode = "full" THEN {<<1, 2>>, <<2, N>>} ELSE {<<1, 2>>}
GSetup ==
  \E p \in VarPairs, r1 \in VarRows, r2 \in VarRows, bg \in BgRows :
    LET T == [v \in Vals |-> IF v = p[1] THEN r1 ELSE IF v = p[2] THEN r2 ELSE bg] IN
    Setup(T) /\ H("Setup", [rows |-> RowsSeq(T)])
GSetupRandom ==
  \E T \in {[v \in Vals |-> RandomElement(Row)]} : Setup(T) /\ H("Setup", [rows |-> RowsSeq(T)])
GRereg(V) == \E v \in V, a \in 0..2, mv \in BOOLEAN :
  /\ (a # cur[v].acct \/ mv # cur[v].mev)
  /\ Rereg(v, a, mv) /\ H("Rereg", [v |-> v, acct |-> a, mev |-> mv])
\* cover mode: validator 1 moves to another address / flips its MEV trait after the snapshot
GReregC == \E c \in {<<2, cur[1].mev>>, <<cur[1].acct, ~cur[1].mev>>} :
  /\ cur[1].home /\ cur[1].acct = 1
  /\ Rereg(1, c[1], c[2]) /\ H("Rereg", [v |-> 1, acct |-> c[1], mev |-> c[2]])
GResnap == Resnap /\ H("Resnap", [w |-> 0])

\* ---- requests ---------------------------------------------------------------------------------
Sched == << <<FALSE, 0>>, <<TRUE, 0>>, <<FALSE, 1>>, <<TRUE, 1>>, <<FALSE, 4>>, <<TRUE, 3>> >>
GAssignSched ==
  LET k == NAct("Assign") + 1 IN
  /\ k <= Len(Sched)
  /\ Assign(1 + (k % 2), Sched[k][1], Sched[k][2])
  /\ H("Assign", [s |-> 1 + (k % 2), mev |-> Sched[k][1], t |-> Sched[k][2]])
GAssign(S, M, Ts) == \E s \in S, mv \in M, t \in Ts :
  Assign(s, mv, t) /\ H("Assign", [s |-> s, mev |-> mv, t |-> t])

\* ---- queue ------------------------------------------------------------------------------------
GPut(A) == \E k \in Kinds : \E s \in (IF k = "slc" THEN Senders ELSE {0}) : \E a \in A, ne \in BOOLEAN :
  Put(k, s, a, ne) /\ H("Put", [kind |-> k, s |-> s, a |-> a, ne |-> ne])

RECURSIVE EstimateManyQ(_, _, _, _)
EstimateManyQ(Q, n, id, g) == IF n = 0 THEN Q
                              ELSE EstimateManyQ(IF EstimateOK(Q, n, id) THEN EstimateQ(Q, n, id, g) ELSE Q, n - 1, id, g)
\* validators 1..n submit g for message id (atomic Estimate steps in the trace)
GEstimateN == \E id \in 1..nextId, g \in Gases, n \in {EstN - 1, EstN} :
  /\ queue' = EstimateManyQ(queue, n, id, g) /\ res' = "ok"
  /\ UNCHANGED <<tabs, nextId, nrows>>
  /\ H("EstimateN", [id |-> id, g |-> g, n |-> n])
GEndBlock == \E w \in 1..3 : EndBlock /\ H("EndBlock", [w |-> w])
GDeliver == \E id \in 1..nextId : Deliver(id) /\ H("Deliver", [id |-> id])
GFail == \E id \in 1..nextId : Fail(id) /\ H("Fail", [id |-> id])
GQuery == \E w \in 1..3 : Query /\ H("Query", [w |-> w])
GQuery1 == \E w \in {1} : Query /\ H("Query", [w |-> w])

\* composite: put a message and bring it into a state
PutXQ(kind, s, a, stage, proc, g) ==
  LET id == nextId
      q1 == queue \cup {Msg(id, kind, s, a, 1, stage # "noneed")}
      q2 == CASE stage = "sub"     -> EstimateManyQ(q1, EstN - 1, id, g)
               [] stage = "elected" -> ElectAllT(snap, fee, EstimateManyQ(q1, EstN, id, g))
               [] OTHER             -> q1
      q3 == CASE proc = "pad" -> DeliverQ(q2, id)
               [] proc = "err" -> FailQ(q2, id)
               [] OTHER        -> q2
  IN q3
GPutX(A) == \E k \in Kinds : \E s \in (IF k = "slc" THEN Senders ELSE {0}) :
            \E a \in A, stage \in GenStage, proc \in GenProc, g \in Gases :
  /\ ((stage \notin {"sub", "elected"} \/ Family = "mix" \/ GateMsgs > 2) => g = MinOf(Gases))
  /\ queue' = PutXQ(k, s, a, stage, proc, g) /\ nextId' = nextId + 1 /\ res' = "put"
  /\ UNCHANGED <<tabs, nrows>>
  /\ H("PutX", [kind |-> k, s |-> s, a |-> a, stage |-> stage, proc |-> proc, g |-> g, n |-> EstN])

NMsgs == NAct("PutX") + NAct("Put") + NAct("Assign")
GNext ==
  CASE Family = "assign" ->
         IF hist = <<>> THEN GSetup
         ELSE IF Last.act = "Query" THEN FALSE
         ELSE \/ (Last.act = "Setup" /\ GReregC)
              \/ (Last.act = "Rereg" /\ GResnap)
              \/ GAssignSched
              \/ (NAct("Assign") = Len(Sched) /\ GQuery1)
    [] Family = "gate" ->
         IF Last.act = "Query" THEN FALSE
         ELSE \/ (NMsgs < GateMsgs /\ (GPutX({1, 2}) \/ GAssign(Senders, {FALSE}, {0, 1})))
              \/ (NMsgs > 0 /\ GQuery1)
    [] OTHER ->
         IF hist = <<>> THEN GSetupRandom \/ GResnap
         ELSE \/ GRereg({1, 2}) \/ GResnap
              \/ GAssign(Senders, BOOLEAN, Times)
              \/ GPut({1, 2}) \/ GPutX({1, 2})
              \/ GEstimateN \/ GEndBlock \/ GDeliver \/ GFail \/ GQuery

GInit == Init /\ hist = <<>>
\* real assignments are kept apart from messages put with the same content
GView == <<Last, res, cur, snap, fee, perf, queue, nextId, {i \in DOMAIN hist : hist[i].act = "Assign"}>>
GConstr == Len(hist) <= MaxOps /\ Cardinality(queue) <= MaxQ
\* cover mode: emit from the dequeued state (once per distinct state), complete histories only
GNextC == (IF Last.act = "Query" THEN PrintT(<<"HIST", ToJson(hist)>>) ELSE TRUE) /\ GNext
\* simulate mode: TLC evaluates invariants on every candidate successor, the next-state relation only on the
\* chosen state: emitting from here gives exactly one history per random walk (run with -depth EmitAt + 2)
GNextS == (IF Len(hist) = EmitAt THEN PrintT(<<"HIST", ToJson(hist)>>) ELSE TRUE) /\ GNext
Emit == Len(hist) = EmitAt => PrintT(<<"HIST", ToJson(hist)>>)
=============================================================================
