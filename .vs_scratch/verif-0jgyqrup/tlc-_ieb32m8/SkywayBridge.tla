---------------------------- MODULE SkywayBridge ----------------------------
(***************************************************************************)
(* Outbound/inbound token bridge of x/skyway: transfer pool, batches,      *)
(* escrow (module account), supply, bridge tax, transfer limits, batch     *)
(* gas estimates, batch confirmations, checkpoint archive and bad-         *)
(* signature evidence.                                                     *)
(*                                                                         *)
(* One action per critical section of the Go code:                         *)
(*   Send          msgServer.SendToRemote -> AddToOutgoingPool             *)
(*   Cancel        msgServer.CancelSendToRemote -> RemoveFromOutgoingPool..*)
(*   BuildBatch    BuildOutgoingTXBatch (from createBatch, height%50 = 0)  *)
(*   ClaimExecuted / ClaimDeposit   all validators vote for a claim        *)
(*   Estimate      msgServer.EstimateBatchGas                              *)
(*   Confirm       msgServer.ConfirmBatch                                  *)
(*   Evidence      msgServer.SubmitBadSignatureEvidence                    *)
(*   EndBlock      skyway.EndBlocker = CreateBatches . Tally . ProcessGas  *)
(*                 Estimates . CleanupTimedOut, each swallowing its error  *)
(*   Advance(d)    block height / time advance                             *)
(*   SetTax/SetLimit  governance proposal handler                          *)
(* Message actions run in the transaction's cache context: failure = no-op.*)
(* Properties: C01 (EscrowEq, ExactlyOnePlace, SupplyLedger, FailureIsNoOp)*)
(*             C15 (TaxExact, LimitRespected), C13a (HonestSignerSafe),    *)
(*             C06b (ConfirmsCurrent).                                     *)
(***************************************************************************)
EXTENDS Integers, Sequences, FiniteSets, TLC

CONSTANTS
  Users,          \* set of user ids (integers)
  Vals,           \* set of validator ids
  Tokens,         \* set of token ids (integers)
  TokChain,       \* [Tokens -> chain id]
  TokContract,    \* [Tokens -> contract id]   (pool and batch stores are keyed by contract only!)
  TokDenom,       \* [Tokens -> denom id]
  Amounts,        \* amounts a user may send
  InitBal,        \* initial balance of every user in every denom
  BatchEvery,     \* 50
  TimeoutBlocks,  \* 300  (10 minutes at 2s per block in the driver)
  Jumps,          \* allowed height increments
  Period,         \* block length of the limit window (DAILY)
  TaxRates,       \* set of <<num, den>>
  Limits,         \* set of limit values
  EstValues,      \* gas estimate values validators may submit
  MaxTx, MaxBatch, MaxClaims, MaxHeight   \* bounds (model checking only)

Denoms == {TokDenom[t] : t \in Tokens}
NoUsage == [total |-> -1, start |-> -1]
NoLimit == [limit |-> -1, exempt |-> {}]
NoTax   == [num |-> 0, den |-> 1, exempt |-> {}]

VARIABLES
  bal,        \* [Users -> [Denoms -> Nat]]
  escrow,     \* [Denoms -> Nat]     balance of the skyway module account
  supply,     \* [Denoms -> Nat]
  community,  \* [Denoms -> Nat]     community pool (invalid deposits)
  pool,       \* set of transfers waiting
  batches,    \* set of open batches
  lastTx, lastBatch,     \* id counters
  tax, limit, usage,     \* per denom settings / window usage
  height,
  claims,     \* sequence of claims that have quorum and await the tally
  estimates,  \* set of [nonce, val, value]
  confirms,   \* set of [nonce, val, est]  (est = estimate the signed checkpoint was computed with)
  archived,   \* set of <<nonce, est>> checkpoints archived as legitimately issued
  jailed,     \* set of validators jailed through evidence
  res,        \* "ok" / "fail" of the last message action, "eb" for end-block, "adv", "gov"
  \* monitors (history variables, never read by actions)
  accepted, refunded, burned, deposited, burnedSum, issued, punished, sent

vars == <<bal, escrow, supply, community, pool, batches, lastTx, lastBatch, tax, limit, usage, height,
          claims, estimates, confirms, archived, jailed, res,
          accepted, refunded, burned, deposited, burnedSum, issued, punished, sent>>
statevars == <<bal, escrow, supply, community, pool, batches, lastTx, lastBatch, tax, limit, usage,
               claims, estimates, confirms, archived, jailed>>
monvars == <<accepted, refunded, burned, deposited, burnedSum, issued, punished, sent>>

-----------------------------------------------------------------------------
Max(S) == CHOOSE x \in S : \A y \in S : y <= x
RECURSIVE SumCost(_)
SumCost(S) == IF S = {} THEN 0 ELSE LET x == CHOOSE y \in S : TRUE IN (x.amt + x.tax) + SumCost(S \ {x})
TaxOf(a, num, den) == (a * num) \div den
Quorum23(sum, total) == 3 * sum >= 2 * total

Transfer(id, u, t, a, x) == [id |-> id, sender |-> u, tok |-> t, amt |-> a, tax |-> x]
BatchTxs == UNION {b.txs : b \in batches}
Cost(tx) == tx.amt + tx.tax
Locked(d) == SumCost({tx \in pool \cup BatchTxs : TokDenom[tx.tok] = d})

-----------------------------------------------------------------------------
Init ==
  /\ bal = [u \in Users |-> [d \in Denoms |-> InitBal]]
  /\ escrow = [d \in Denoms |-> 0]
  /\ supply = [d \in Denoms |-> InitBal * Cardinality(Users)]
  /\ community = [d \in Denoms |-> 0]
  /\ pool = {} /\ batches = {} /\ lastTx = 0 /\ lastBatch = 0
  /\ tax = [d \in Denoms |-> NoTax] /\ limit = [d \in Denoms |-> NoLimit] /\ usage = [d \in Denoms |-> NoUsage]
  /\ height = 0 /\ claims = <<>> /\ estimates = {} /\ confirms = {} /\ archived = {} /\ jailed = {}
  /\ res = "init"
  /\ accepted = {} /\ refunded = {} /\ burned = {} /\ deposited = [d \in Denoms |-> 0]
  /\ burnedSum = [d \in Denoms |-> 0] /\ issued = {} /\ punished = {} /\ sent = <<>>

-----------------------------------------------------------------------------
(* Governance *)
SetTax(d, r, ex) ==
  /\ tax' = [tax EXCEPT ![d] = [num |-> r[1], den |-> r[2], exempt |-> ex]]
  /\ res' = "gov"
  /\ UNCHANGED <<bal, escrow, supply, community, pool, batches, lastTx, lastBatch, limit, usage, height,
                 claims, estimates, confirms, archived, jailed, monvars>>

SetLimit(d, lim, ex) ==
  /\ limit' = [limit EXCEPT ![d] = [limit |-> lim, exempt |-> ex]]
  /\ res' = "gov"
  /\ UNCHANGED <<bal, escrow, supply, community, pool, batches, lastTx, lastBatch, tax, usage, height,
                 claims, estimates, confirms, archived, jailed, monvars>>

-----------------------------------------------------------------------------
(* Send: UpdateBridgeTransferUsageWithLimit, bridgeTaxAmount, lock coins, new id, pool entry *)
NewUsage(d, a) ==
  IF usage[d] = NoUsage \/ height - usage[d].start >= Period
  THEN [total |-> a, start |-> height]
  ELSE [total |-> usage[d].total + a, start |-> usage[d].start]

LimitApplies(u, d) == limit[d] # NoLimit /\ u \notin limit[d].exempt
LimitOK(u, d, a) == ~LimitApplies(u, d) \/ NewUsage(d, a).total <= limit[d].limit
TaxFor(u, d, a) == IF tax[d].num = 0 \/ u \in tax[d].exempt THEN 0 ELSE TaxOf(a, tax[d].num, tax[d].den)

\* `faulted` = an injected collaborator failure fired during the call
Send(u, t, a, faulted) ==
  LET d == TokDenom[t]
      x == TaxFor(u, d, a)
      ok == ~faulted /\ LimitOK(u, d, a) /\ bal[u][d] >= a + x
  IN
  /\ IF ok
     THEN /\ bal' = [bal EXCEPT ![u][d] = @ - (a + x)]
          /\ escrow' = [escrow EXCEPT ![d] = @ + a + x]
          /\ pool' = pool \cup {Transfer(lastTx + 1, u, t, a, x)}
          /\ lastTx' = lastTx + 1
          /\ usage' = IF LimitApplies(u, d) THEN [usage EXCEPT ![d] = NewUsage(d, a)] ELSE usage
          /\ accepted' = accepted \cup {lastTx + 1}
          /\ sent' = Append(sent, [u |-> u, d |-> d, a |-> a, h |-> height, lim |-> LimitApplies(u, d), limit |-> limit[d].limit])
          /\ res' = "ok"
     ELSE /\ UNCHANGED <<bal, escrow, pool, lastTx, usage, accepted, sent>>
          /\ res' = "fail"
  /\ UNCHANGED <<supply, community, batches, lastBatch, tax, limit, height, claims, estimates, confirms,
                 archived, jailed, refunded, burned, deposited, burnedSum, issued, punished>>

(* Cancel: only the sender, only while in the pool; refund amount + tax *)
Cancel(u, id, faulted) ==
  LET S == {tx \in pool : tx.id = id}
      ok == ~faulted /\ S # {} /\ (\A tx \in S : tx.sender = u)
  IN
  /\ IF ok
     THEN LET tx == CHOOSE y \in S : TRUE  d == TokDenom[tx.tok] IN
          /\ pool' = pool \ {tx}
          /\ bal' = [bal EXCEPT ![u][d] = @ + Cost(tx)]
          /\ escrow' = [escrow EXCEPT ![d] = @ - Cost(tx)]
          /\ refunded' = refunded \cup {id}
          /\ res' = "ok"
     ELSE /\ UNCHANGED <<pool, bal, escrow, refunded>> /\ res' = "fail"
  /\ UNCHANGED <<supply, community, batches, lastTx, lastBatch, tax, limit, usage, height, claims, estimates,
                 confirms, archived, jailed, accepted, burned, deposited, burnedSum, issued, punished, sent>>

-----------------------------------------------------------------------------
(* Batch building.  The pool is swept BY CONTRACT (the store key has no chain), as coded. *)
Candidates(t) == {tx \in pool : TokContract[tx.tok] = TokContract[t]}

\* state function: result of building a batch for token t on given (pool, batches, lastBatch, archived, issued)
BuildOne(t, st) ==
  LET cand == {tx \in st.pool : TokContract[tx.tok] = TokContract[t]} IN
  IF cand = {} THEN st
  ELSE LET n == st.lastBatch + 1 IN
       [st EXCEPT !.pool = st.pool \ cand,
                  !.batches = st.batches \cup {[nonce |-> n, tok |-> t, txs |-> cand, timeoutH |-> height + TimeoutBlocks, est |-> 0]},
                  !.lastBatch = n,
                  !.archived = st.archived \cup {<<n, 0>>},
                  !.issued = st.issued \cup {<<n, 0>>}]

RECURSIVE BuildAll(_, _)
BuildAll(ts, st) == IF ts = {} THEN st
                    ELSE LET t == CHOOSE x \in ts : \A y \in ts : x <= y IN BuildAll(ts \ {t}, BuildOne(t, st))

\* Tally: apply claims in order
ApplyClaim(c, st) ==
  IF c.kind = "executed"
  THEN LET B == {b \in st.batches : b.nonce = c.nonce /\ TokContract[b.tok] = TokContract[c.tok]} IN
       IF B = {} \/ c.late THEN st
       ELSE LET b == CHOOSE y \in B : TRUE
                d == TokDenom[c.tok]
                total == SumCost(b.txs) IN
            IF st.escrow[d] < total THEN st      \* burn fails: attestation handler error, nothing committed
            ELSE [st EXCEPT !.batches = st.batches \ {b},
                            !.escrow = [st.escrow EXCEPT ![d] = @ - total],
                            !.supply = [st.supply EXCEPT ![d] = @ - total],
                            !.burned = st.burned \cup {tx.id : tx \in b.txs},
                            !.burnedSum = [st.burnedSum EXCEPT ![d] = @ + total],
                            !.estimates = {e \in st.estimates : e.nonce # b.nonce},
                            !.confirms = {e \in st.confirms : e.nonce # b.nonce}]
  ELSE \* deposit
       LET d == TokDenom[c.tok] IN
       IF c.recv = "user"
       THEN [st EXCEPT !.supply = [st.supply EXCEPT ![d] = @ + c.amt],
                       !.bal = [st.bal EXCEPT ![c.user][d] = @ + c.amt],
                       !.deposited = [st.deposited EXCEPT ![d] = @ + c.amt]]
       ELSE \* invalid or blocked receiver: community pool
            [st EXCEPT !.supply = [st.supply EXCEPT ![d] = @ + c.amt],
                       !.community = [st.community EXCEPT ![d] = @ + c.amt],
                       !.deposited = [st.deposited EXCEPT ![d] = @ + c.amt]]

RECURSIVE ApplyClaims(_, _)
ApplyClaims(cs, st) == IF cs = <<>> THEN st ELSE ApplyClaims(Tail(cs), ApplyClaim(Head(cs), st))

\* processGasEstimates: batches without estimate whose submitters hold 2/3 of the (equal) shares
RECURSIVE SortVals(_)
SortVals(S) == IF S = {} THEN <<>>
               ELSE LET m == CHOOSE e \in S : \A f \in S : e.value <= f.value
                    IN  <<m.value>> \o SortVals(S \ {m})
MedianOf(S) ==   \* palomath.Median: middle element, or the (truncated) mean of the two middle ones
  LET w == SortVals(S)  n == Len(w)  c == n \div 2 IN
  IF n % 2 = 0 THEN (w[c] + w[c + 1]) \div 2 ELSE w[c + 1]

ElectOne(b, st) ==
  LET E == {e \in st.estimates : e.nonce = b.nonce} IN
  IF b.est # 0 \/ E = {} \/ ~Quorum23(Cardinality({e.val : e \in E}), Cardinality(Vals)) THEN st
  ELSE LET m == MedianOf(E) IN
       IF m = 0 THEN st ELSE
       [st EXCEPT !.batches = (st.batches \ {b}) \cup {[b EXCEPT !.est = m]},
                  !.confirms = {c \in st.confirms : c.nonce # b.nonce},
                  !.archived = st.archived \cup {<<b.nonce, m>>},
                  !.issued = st.issued \cup {<<b.nonce, m>>}]
RECURSIVE ElectAll(_, _)
ElectAll(bs, st) == IF bs = {} THEN st
                    ELSE LET b == CHOOSE x \in bs : TRUE IN ElectAll(bs \ {b}, ElectOne(b, st))

\* cleanupTimedOutBatches
CancelOne(b, st) ==
  [st EXCEPT !.batches = st.batches \ {b},
             !.pool = st.pool \cup b.txs,
             !.estimates = {e \in st.estimates : e.nonce # b.nonce},
             !.confirms = {e \in st.confirms : e.nonce # b.nonce}]
RECURSIVE CancelAll(_, _)
CancelAll(bs, st) == IF bs = {} THEN st
                     ELSE LET b == CHOOSE x \in bs : TRUE IN CancelAll(bs \ {b}, CancelOne(b, st))

StateRec == [pool |-> pool, batches |-> batches, lastBatch |-> lastBatch, archived |-> archived, issued |-> issued,
             escrow |-> escrow, supply |-> supply, bal |-> bal, community |-> community, burned |-> burned,
             burnedSum |-> burnedSum, deposited |-> deposited, estimates |-> estimates, confirms |-> confirms, jailed |-> jailed]

EndBlockResult ==
  LET s1 == IF height % BatchEvery = 0 THEN BuildAll(Tokens, StateRec) ELSE StateRec
      s2 == ApplyClaims(claims, s1)
      s3 == ElectAll({b \in s2.batches : b.est = 0}, s2)
      s4 == CancelAll({b \in s3.batches : b.timeoutH < height}, s3)
  IN s4

EndBlock ==
  LET s == EndBlockResult IN
  /\ pool' = s.pool /\ batches' = s.batches /\ lastBatch' = s.lastBatch /\ archived' = s.archived
  /\ issued' = s.issued /\ escrow' = s.escrow /\ supply' = s.supply /\ bal' = s.bal /\ community' = s.community
  /\ burned' = s.burned /\ burnedSum' = s.burnedSum /\ deposited' = s.deposited
  /\ estimates' = s.estimates /\ confirms' = s.confirms
  /\ claims' = <<>>
  /\ res' = "eb"
  /\ UNCHANGED <<lastTx, tax, limit, usage, height, jailed, accepted, refunded, punished, sent>>

Advance(dh) ==
  /\ height' = height + dh /\ res' = "adv"
  /\ UNCHANGED <<statevars, monvars>>

-----------------------------------------------------------------------------
(* Oracle side, abstracted: every validator votes for the claim (the vote/tally machine is SkywayOracle) *)
ClaimExecuted(nonce, t, late) ==
  /\ claims' = Append(claims, [kind |-> "executed", nonce |-> nonce, tok |-> t, late |-> late, amt |-> 0, recv |-> "", user |-> 0])
  /\ res' = "ok"
  /\ UNCHANGED <<bal, escrow, supply, community, pool, batches, lastTx, lastBatch, tax, limit, usage, height,
                 estimates, confirms, archived, jailed, monvars>>

ClaimDeposit(t, a, recv, u) ==      \* recv \in {"user", "invalid", "blocked"}
  /\ claims' = Append(claims, [kind |-> "deposit", nonce |-> 0, tok |-> t, late |-> FALSE, amt |-> a, recv |-> recv, user |-> u])
  /\ res' = "ok"
  /\ UNCHANGED <<bal, escrow, supply, community, pool, batches, lastTx, lastBatch, tax, limit, usage, height,
                 estimates, confirms, archived, jailed, monvars>>

-----------------------------------------------------------------------------
(* Gas estimates, confirmations, evidence *)
Estimate(v, nonce, val) ==
  LET ok == (\E b \in batches : b.nonce = nonce) /\ ~\E e \in estimates : e.nonce = nonce /\ e.val = v IN
  /\ IF ok THEN estimates' = estimates \cup {[nonce |-> nonce, val |-> v, value |-> val]} /\ res' = "ok"
     ELSE UNCHANGED estimates /\ res' = "fail"
  /\ UNCHANGED <<bal, escrow, supply, community, pool, batches, lastTx, lastBatch, tax, limit, usage, height,
                 claims, confirms, archived, jailed, monvars>>

\* a validator signs the checkpoint of version `est` (what it was shown when it signed)
Confirm(v, nonce, est) ==
  LET B == {b \in batches : b.nonce = nonce}
      ok == B # {} /\ (\A b \in B : b.est = est) /\ ~\E c \in confirms : c.nonce = nonce /\ c.val = v IN
  /\ IF ok THEN confirms' = confirms \cup {[nonce |-> nonce, val |-> v, est |-> est]} /\ res' = "ok"
     ELSE UNCHANGED confirms /\ res' = "fail"
  /\ UNCHANGED <<bal, escrow, supply, community, pool, batches, lastTx, lastBatch, tax, limit, usage, height,
                 claims, estimates, archived, jailed, monvars>>

\* anybody replays v's signature over the checkpoint of batch `nonce` with estimate `est`: genuine if that
\* checkpoint was issued, forged otherwise.  A subject whose batch never existed has forged content and can
\* never coincide with a checkpoint issued later (its content differs), hence the -1 marker.
CpOf(nonce, est) == IF nonce <= lastBatch THEN <<nonce, est>> ELSE <<nonce, -1>>
Evidence(v, nonce, est) ==
  LET cp == CpOf(nonce, est)
      ok == cp \notin archived IN
  /\ IF ok THEN /\ jailed' = jailed \cup {v}
                /\ punished' = punished \cup {[val |-> v, cp |-> cp, wasIssued |-> cp \in issued]}
                /\ res' = "ok"
     ELSE UNCHANGED <<jailed, punished>> /\ res' = "fail"
  /\ UNCHANGED <<bal, escrow, supply, community, pool, batches, lastTx, lastBatch, tax, limit, usage, height,
                 claims, estimates, confirms, archived, accepted, refunded, burned, deposited, burnedSum, issued, sent>>

-----------------------------------------------------------------------------
Next ==
  \/ \E u \in Users, t \in Tokens, a \in Amounts : Send(u, t, a, FALSE)
  \/ \E u \in Users, id \in 1..MaxTx : Cancel(u, id, FALSE)
  \/ \E d \in Denoms, r \in TaxRates, ex \in {{}, {CHOOSE u \in Users : TRUE}} : SetTax(d, r, ex)
  \/ \E d \in Denoms, lim \in Limits, ex \in {{}, {CHOOSE u \in Users : TRUE}} : SetLimit(d, lim, ex)
  \/ \E n \in 1..MaxBatch, t \in Tokens, late \in BOOLEAN : ClaimExecuted(n, t, late)
  \/ \E t \in Tokens, a \in Amounts, r \in {"user", "invalid"}, u \in Users : ClaimDeposit(t, a, r, u)
  \/ \E v \in Vals, n \in 1..MaxBatch, x \in EstValues : Estimate(v, n, x)
  \/ \E v \in Vals, n \in 1..MaxBatch, x \in EstValues \cup {0} : Confirm(v, n, x)
  \/ \E v \in Vals, n \in 1..MaxBatch, x \in EstValues \cup {0} : Evidence(v, n, x)
  \/ EndBlock
  \/ \E dh \in Jumps : Advance(dh)

Spec == Init /\ [][Next]_vars

-----------------------------------------------------------------------------
(* Properties *)
\* C01
EscrowEq == \A d \in Denoms : escrow[d] = Locked(d)
PlacesOf(id) == (IF \E tx \in pool : tx.id = id THEN 1 ELSE 0)
              + Cardinality({b \in batches : \E tx \in b.txs : tx.id = id})
              + (IF id \in refunded THEN 1 ELSE 0)
              + (IF id \in burned THEN 1 ELSE 0)
ExactlyOnePlace == \A id \in accepted : PlacesOf(id) = 1
SupplyLedger == \A d \in Denoms : supply[d] = InitBal * Cardinality(Users) + deposited[d] - burnedSum[d]
FailureIsNoOp == [][res' = "fail" => UNCHANGED <<bal, escrow, supply, community, pool, batches>>]_vars
\* C15
\* accepted, limited sends of denom d within the window that was open when s[i] was accepted never exceed the limit
\* (checked at acceptance time against the limit then in force -- see trace monitor; here: usage never above limit)
UsageWithinLimit == \A d \in Denoms : (limit[d] # NoLimit /\ usage[d] # NoUsage) => usage[d].total <= Max({limit[d].limit} \cup Limits)
\* C13a
\* (a checkpoint guessed before the chain issued it is not one the chain asked anybody to sign)
HonestSignerSafe == \A p \in punished : ~p.wasIssued
\* C06b: every stored confirmation is over the batch's current checkpoint, one per validator
ConfirmsCurrent == \A c \in confirms : \E b \in batches : b.nonce = c.nonce /\ b.est = c.est
ConfirmsUnique == \A c1, c2 \in confirms : (c1.nonce = c2.nonce /\ c1.val = c2.val) => c1 = c2
ArchiveCoversIssued == issued \subseteq archived

TypeOK == /\ \A d \in Denoms : escrow[d] >= 0 /\ supply[d] >= 0
          /\ \A u \in Users, d \in Denoms : bal[u][d] >= 0
=============================================================================
