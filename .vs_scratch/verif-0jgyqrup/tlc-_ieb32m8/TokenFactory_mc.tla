-------------------------- MODULE TokenFactory_mc --------------------------
(* Exhaustive configurations for TokenFactory.                                          *)
(* The executed action and its result (last, res) are write-only, so they are hidden     *)
(* from the fingerprint (VIEW); the step properties PA_* are checked by TLC on every     *)
(* generated transition, also on those that lead to an already known state.              *)
(*                                                                                       *)
(* NextR is Next with arguments pruned where the transcribed checks cannot look at them: *)
(*  - a creator `as` different from the signer is rejected before any argument is used   *)
(*    (after the denom-shape check), so one wrong creator per signer is tried;           *)
(*  - amount / new admin are only read after the admin comparison succeeded, which needs *)
(*    as = who and a stored denom; otherwise one value is tried.                          *)
(* The full Next is checked by the *_full configuration (thorough tier).                 *)
EXTENDS TokenFactory
CONSTANTS MaxMinted
FundsSmall == <<2, 1, 0>>       \* account 3 can never pay a creation fee, account 2 once
FundsBig   == <<2, 2, 1>>
Other(a) == (a % Cardinality(Accounts)) + 1
One(S) == {CHOOSE x \in S : TRUE}
Read(who, as, d) == who = as /\ d \in DOMAIN denoms
NextR ==
  \E who \in Accounts : \E as \in {who, Other(who)} :
     \/ \E sub \in SubsX : Create(who, as, sub)
     \/ \E d \in AllDenoms : \E amt \in (IF Read(who, as, d) THEN Amounts ELSE One(Amounts)) :
           Mint(who, as, d, amt) \/ Burn(who, as, d, amt)
     \/ \E d \in AllDenoms : \E new \in (IF Read(who, as, d) THEN NewAdmins ELSE {NoAdmin}) :
           ChangeAdmin(who, as, d, new)
     \/ \E d \in AllDenoms : SetMetadata(who, as, d)
MCView == <<svars, nops>>
Constr == /\ nops <= MaxOps
          /\ \A d \in AllDenoms : minted[d] <= MaxMinted
=============================================================================
