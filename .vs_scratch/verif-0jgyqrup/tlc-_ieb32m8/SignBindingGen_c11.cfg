CONSTANTS
  Family = "C11"
INIT GInit
NEXT GNextC
VIEW GView
CHECK_DEADLOCK FALSE
