CONSTANTS
  Vals = {1, 2}
  Chains = {1}
  MaxVals = 1
  UnbondTime = 2
  MaxPower = 16
  WarmTime = 2
  TTL = 4
  Grace = 2
  Sweep = 2
  WarmUp = 3
  Sentences <- ModelSentences
  ResetMin = 3
  DefaultVer = 1
  StakeVecs <- Vecs2
  StakeSet = {1, 2}
  Amounts = {1}
  DTs = {1, 3}
  MaxSnaps = 1
  MaxStakeOps = 0
  MaxH = 6
  MaxJails = 1
  MaxLevel = 100
  StakeVals = {1}
  MaxOnChain = 2
  VersionsMC = {0, 1, 2, 3}
INIT InitAlive
NEXT NextAlive
CONSTRAINT ConstrAlive
VIEW ViewAlive
INVARIANTS TypeOK VersionGate SentenceSchedule FastIsNaive
PROPERTIES JailedAtNextSweep ResponsiveNeverJailed GraceRespected ProtectionRespected MinVersionMonotone
CHECK_DEADLOCK FALSE
