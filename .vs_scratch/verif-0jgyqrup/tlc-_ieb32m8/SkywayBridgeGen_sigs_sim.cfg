CONSTANTS
  Users = {1}
  Vals = {1, 2, 3}
  Tokens = {1}
  TokChain <- Seq1
  TokContract <- Seq1
  TokDenom <- Seq1
  Amounts = {1}
  InitBal = 4
  BatchEvery = 50
  TimeoutBlocks = 300
  Jumps = {50, 301}
  Period = 57600
  TaxRates <- Rates
  Limits = {3}
  EstValues = {1, 3, 4}
  MaxTx = 3
  MaxBatch = 3
  MaxClaims = 2
  MaxHeight = 100000
  Family = "sigs"
  EmitAt = 14
  MaxK = 0
  MaxOps = 14
INIT GInit
NEXT GNext
CONSTRAINT GConstr
INVARIANT Emit
CHECK_DEADLOCK FALSE
