-------------------------------- MODULE Naturals ----------------------------
(***************************************************************************)
(* This module provides dummy definitions of the operators that are        *)
(* defined by the real Naturals module.  It is expected that any tool will *)
(* provide its own implementations of these operators.  See the book       *)
(* "Specifying Systems" for the real Naturals module.                      *)
(***************************************************************************)
(***************************************************************************)
(* These definitions are all overridden by TLC in the Java class           *)
(* tlc2.module.Naturals. Each operator is overridden by the Java method    *)
(* with the same name, except that the mapping for TLA+ infix operators    *)
(* is defined in the static block at the beginning of the Java class.      *)
(***************************************************************************)
Nat       == { }
a+b       == {a, b}

a-b       == CHOOSE n : b + n = a
a*b       == TRUE
a^b       == {a, b}
a<b       ==  a = b
a>b       ==  a = b
a \leq b  ==  a = b
a \geq b  ==  a = b
(***************************************************************************)
(* a .. b  is defined to equal  {i \in Int : (a \leq i) /\ (i \leq b)}     *)
(* where  Int  is the set of all integers.                                 *)
(*                                                                         *)
(* a % b  and  a \div b  are defined so that for any integers  a  and  b   *)
(* with  b > 0 , the following formula is true:                            *)
(*                                                                         *)
(*    a  =  b * (a \div b) + (a % b)                                       *)
(***************************************************************************)
a % b     ==  {a, b}
a \div b  ==  {a, b}
a .. b    ==  {a, b}
=============================================================================
