---------------------------- MODULE FiniteSets -----------------------------
(***************************************************************************)
(* The two definitions in this standard module are overridden by TLC in    *)
(* the Java class tlc2.module.FiniteSets.  Each operator is overridden by  *)
(* the Java method with the same name.                                     *)
(***************************************************************************)
LOCAL INSTANCE Naturals
LOCAL INSTANCE Sequences
  (*************************************************************************)
  (* Imports the definitions from Naturals and Sequences, but doesn't      *)
  (* export them.                                                          *)
  (*************************************************************************)

IsFiniteSet(S) == 
  (*************************************************************************)
  (* A set S is finite iff there is a finite sequence containing all its   *)
  (* elements.                                                             *)
  (*************************************************************************)
  \E seq \in Seq(S) : \A s \in S : \E n \in 1..Len(seq) : seq[n] = s

Cardinality(S) ==
  (*************************************************************************)
  (* Cardinality is defined only for finite sets.                          *)
  (*************************************************************************)
  LET CS[T \in SUBSET S] == IF T = {} THEN 0
                                      ELSE 1 + CS[T \ {CHOOSE x : x \in T}]
  IN  CS[S]
=============================================================================
