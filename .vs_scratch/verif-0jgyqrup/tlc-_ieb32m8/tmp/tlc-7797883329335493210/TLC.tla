------------------------------- MODULE TLC ----------------------------------
(***************************************************************************)
(* This is a standard module for use with the TLC model checker.           *)
(* Operators not explained by comments here are explained in the book      *)
(* "Specifying Systems".                                                   *)
(*                                                                         *)
(* The definitions of all the operators in this module are overridden by   *)
(* TLC with methods defined in the Java class tlc2.module.TLC.  Each       *)
(* definition is overridden with the method of the same name, except that  *)
(* the mapping from infix operators to Java methods is specified in the    *)
(* static block at the beginning of the Java class.                        *)
(***************************************************************************)
LOCAL INSTANCE Naturals
LOCAL INSTANCE Sequences
LOCAL INSTANCE FiniteSets
-----------------------------------------------------------------------------
Print(out, val) == val
PrintT(out) == TRUE
   (************************************************************************)
   (* This expression equals TRUE, but evaluating it causes TLC to print   *)
   (* the value of out.                                                    *)
   (************************************************************************)
   
Assert(val, out) == IF val = TRUE THEN TRUE
                                  ELSE CHOOSE v : TRUE
JavaTime == CHOOSE n : n \in Nat

(***************************************************************************)
(* TLC can read and set a special list of values while evaluating          *)
(* expressions using the operators TLCSet and TLCGet.  When TLC evaluates  *)
(* TLCSet(i,v), for any positive integer i and arbitrary value v, it       *)
(* obtains the value TRUE and sets element number i of the list to v.      *)
(* When TLC evaluates TLCGet(i), the value it obtains is the current value *)
(* of the element number i of this list.                                   *)
(*                                                                         *)
(* One use of this feature is to check TLC's progress during long          *)
(* computations.  For example, suppose TLC is evaluating a formula         *)
(* \A x \in S : P where S is a large set, so it evaluates P many times.    *)
(* You can use TLCGet, TLCSet, and Print to print something after every    *)
(* 1000 times TLC evaluates P.                                             *)
(*                                                                         *)
(* As explained in the description of the TLCEval operator below, you may  *)
(* also want to use this feature to count how many times TLC is evaluating *)
(* an expression e.  To use value number i as the counter, just replace e  *)
(* by                                                                      *)
(*                                                                         *)
(*   IF TLCSet(i, TLCGet(i)+1) THEN e ELSE 42                              *)
(*                                                                         *)
(* (The ELSE expression is never evaluated.)                               *)
(*                                                                         *)
(* TLCGet accepts some pre-defined string values to query TLC state. The   *)
(* values are as follows:                                                  *)
(*                                                                         *)
(*   - TLCGet("distinct") evaluates to the total number of distinct states *)
(*     found by TLC so far, globally.                                      *)
(*   - TLCGet("queue") evaluates to the number of states currently in the  *)
(*     queue to be checked.                                                *)
(*   - TLCGet("duration") evaluates to the number of seconds elapsed since *)
(*     model checking began.                                               *)
(*   - TLCGet("diameter") evaluates to the length of the longest behavior  *)
(*     found by TLC so far, globally (equals one in the initial predicate).*)
(*   - TLCGet("level") is the length of the current behavior (equals zero  *)
(*     in the evaluation of the initial predicate).                        *)
(*                                                                         *)
(* For reasons of efficiency, TLCGet and TLCSet behave somewhat strangely  *)
(* when TLC is run with multiple worker threads.  Each worker thread       *)
(* maintains its own individual copy of the list of values on which it     *)
(* evaluates TLCGet and TLCSet.  The worker threads are activated only     *)
(* after the computation and invariance checking of the initial states.    *)
(* Before then, evaluating TLCSet(i,v) sets the element i of the list      *)
(* maintained by all threads.  Thus, the lists of all the worker threads   *)
(* can be initialized by putting the appropriate TLCSet expression in an   *)
(* ASSUME expression or in the initial predicate.                          *)
(***************************************************************************)
TLCGet(i) == CHOOSE n : TRUE
TLCSet(i, v) == TRUE
-----------------------------------------------------------------------------
d :> e == [x \in {d} |-> e]
f @@ g == [x \in (DOMAIN f) \cup (DOMAIN g) |->
            IF x \in DOMAIN f THEN f[x] ELSE g[x]]
Permutations(S) == 
   {f \in [S -> S] : \A w \in S : \E v \in S : f[v]=w}
-----------------------------------------------------------------------------
(***************************************************************************)
(* In the following definition, we use Op as the formal parameter rather   *)
(* than \prec because TLC Version 1 can't handle infix formal parameters.  *)
(***************************************************************************)
SortSeq(s, Op(_, _)) ==
    LET Perm == CHOOSE p \in Permutations(1 .. Len(s)) :
                  \A i, j \in 1..Len(s) : 
                     (i < j) => Op(s[p[i]], s[p[j]]) \/ (s[p[i]] = s[p[j]])
    IN  [i \in 1..Len(s) |-> s[Perm[i]]]

(***************************************************************************)
(* TLC evaluates RandomElement(S) to be a pseudo-randomly chosen element   *)
(* of the set S, where each element of S is chosen with equal probability. *)
(* This feature was added to enable the computation of statistical         *)
(* properties of a specification's executions by running TLC in simulation *)
(* mode.  We don't know if anyone has ever done this.                      *)
(*                                                                         *)
(* In breadth-first search model checking, the pseudo-random choices made  *)
(* when computing possible steps satisfying the next-state relation are    *)
(* determined by the first state of the step.  Thus, the choices made for  *)
(* a particular state will be the same in successive runs of TLC.  This is *)
(* done to permit TLC to generate an error trace if an error is found.     *)
(* This applies only when TLC is run in breadth-first search mode.  The    *)
(* random choices made in simulation mode are independent of the state for *)
(* which they are made.                                                    *)
(***************************************************************************)
RandomElement(s) == CHOOSE x \in s : TRUE

(***************************************************************************)
(* The constant value Any has the special property that, for any value v,  *)
(* TLC evaluates the expression  v \in Any  to equal TRUE.  The special    *)
(* value Any was introduced because TLA+ originally allowed only functions *)
(* to be defined recursively, and it was sometimes convenient to define a  *)
(* function with domain Any.  It is retained for backwards compatibility.  *)
(***************************************************************************)
Any == CHOOSE x : TRUE

ToString(v) == (CHOOSE x \in [a : v, b : STRING] : TRUE).b
   (************************************************************************)
   (* This equals a string that is the TLA+ representation of the value    *)
   (* that TLC obtains by evaluating v.                                    *)
   (************************************************************************)

(***************************************************************************)
(* TLC often uses lazy evaluation.  For example, it may not enumerate the  *)
(* elements of a set of the form {x \in T : P(x)} unless it has to; and it *)
(* doesn't have to if it only needs to check if an element e is in that    *)
(* set.  (TLC can do that by evaluating x \in T and P(e).) TLC uses        *)
(* heuristics to determine when it should completely evaluate an           *)
(* expression.  Those heuristics work well most of the time.  However,     *)
(* sometimes lazy evaluation can result in the expression ultimately being *)
(* evaluated multiple times instead of just once.  This can especially be  *)
(* a problem when evaluating a recursively defined operator.  You can get  *)
(* TLC to fully evaluate an expression exp and not use lazy evaluation by  *)
(* replacing exp with TLCEval(exp).                                        *)
(*                                                                         *)
(* If TLC is taking a long time to evaluate something, you can check if    *)
(* lazy evaluation is the source of the problem by using the TLCSet and    *)
(* TLCGet operators to count how many times expressions are being          *)
(* evaluated.                                                              *)
(***************************************************************************)
TLCEval(v) == v

=============================================================================