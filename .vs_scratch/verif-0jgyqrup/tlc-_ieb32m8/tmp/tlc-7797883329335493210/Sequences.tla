------------------------------ MODULE Sequences -----------------------------
(***************************************************************************)
(* Defines operators on finite sequences, where a sequence of length n is  *)
(* represented as a function whose domain is the set 1..n (the set         *)
(* {1, 2, ... , n}).  This is also how TLA+ defines an n-tuple, so         *)
(* tuples are sequences.                                                   *)
(***************************************************************************)
(***************************************************************************)
(* These definitions are all overridden by TLC in the Java class           *)
(* tlc2.module.Sequences. Each operator is overridden by the Java method   *)
(* with the same name, except that the mapping for TLA+ infix operators    *)
(* is defined in the static block at the beginning of the Java class.      *)
(***************************************************************************)

LOCAL INSTANCE Naturals
  (*************************************************************************)
  (* Imports the definitions from Naturals, but doesn't export them.       *)
  (*************************************************************************)
  
Seq(S) == UNION {[1..n -> S] : n \in Nat}
  (*************************************************************************)
  (* The set of all sequences of elements in S.                            *)
  (*************************************************************************)

Len(s) == CHOOSE n \in Nat : DOMAIN s = 1..n
  (*************************************************************************)
  (* The length of sequence s.                                             *)
  (*************************************************************************)

s \o t == [i \in 1..(Len(s) + Len(t)) |-> IF i \leq Len(s) THEN s[i]
                                                           ELSE t[i-Len(s)]]
  (*************************************************************************)
  (* The sequence obtained by concatenating sequences s and t.             *)
  (*************************************************************************)

Append(s, e) == s \o <<e>>
  (**************************************************************************)
  (* The sequence obtained by appending element e to the end of sequence s. *)
  (**************************************************************************)

Head(s) == s[1]
Tail(s) == CASE s # << >> -> [i \in 1..(Len(s)-1) |-> s[i+1]]
  (*************************************************************************)
  (* The usual head (first) and tail (rest) operators. (Definition of Tail *)
  (* changed on 4 Jun 2013 because original defined Tail(<< >>) = << >> .  *)
  (*************************************************************************)

SubSeq(s, m, n) == [i \in 1..(1+n-m) |-> s[i+m-1]]
  (*************************************************************************)
  (* The sequence <<s[m], s[m+1], ... , s[n]>>.                            *)
  (*************************************************************************)
  
SelectSeq(s, Test(_)) == 
  (*************************************************************************)
  (* The subsequence of s consisting of all elements s[i] such that        *)
  (* Test(s[i]) is true.                                                   *)
  (*************************************************************************)
  LET F[i \in 0..Len(s)] == 
        (*******************************************************************)
        (* F[i] equals SelectSeq(SubSeq(s, 1, i), Test) .                  *)
        (*******************************************************************)
        IF i = 0 THEN << >>
                 ELSE IF Test(s[i]) THEN Append(F[i-1], s[i])
                                    ELSE F[i-1]
  IN F[Len(s)]
=============================================================================
