---------------------------- MODULE _TLCTrace ----------------------------
LOCAL INSTANCE TLC
LOCAL INSTANCE TLCExt
LOCAL INSTANCE Sequences
LOCAL INSTANCE Naturals

\* This operator has a Java module override (tlc2.module._TLCTrace#ioDeserialize).
LOCAL _TLCTraceDeserialize(absoluteFilename) ==
    TRUE

\* This operator has a Java module override (tlc2.module._TLCTrace#ioSerialize).
LOCAL _TLCTraceSerialize(val, absoluteFilename) ==
    TRUE

----------------------------------------------------------------------------
\* Serialize a trace to a file.

CONSTANT _TLCTraceFile

LOCAL _TLCTrace0(verbose) ==
    IF CounterExample.state = {} \/ ("console" \in DOMAIN CounterExample /\ CounterExample["console"] = FALSE) THEN TRUE ELSE
        /\ LET trace == ToTrace(CounterExample)
               vars  == UNION { DOMAIN trace[i] : i \in DOMAIN trace }
           IN _TLCTraceSerialize([counterexample |-> CounterExample, vars |-> vars], _TLCTraceFile)
        /\ IF verbose THEN PrintT("CounterExample written: " \o _TLCTraceFile) ELSE TRUE

LOCAL _TLCTraceSilent ==
    _TLCTrace0(FALSE)

_TLCTrace ==
    _TLCTrace0(TRUE)

----------------------------------------------------------------------------
\* Deserialize a trace created by _TLCTrace above.

CONSTANT _TLCTraceInputFile   \* Used by -loadTrace tlc

LOCAL _TLCTraceFileDeserialized ==
    _TLCTraceDeserialize(_TLCTraceInputFile)

\* This operator has a Java module override (tlc2.module._TLCTrace#tlcState).
LOCAL _TLCState(level) ==
	Trace[level]

\* A liveness counterexample's action graph contains a closing edge that
\* completes the lasso. In a forward path s1->s2->...->sn every edge
\* satisfies target[1] > source[1]; the closing edge is the unique edge
\* where target[1] <= source[1] (back-to-state: <, stuttering: =).
LOCAL _TLCTraceLassoTarget ==
    LET actions == _TLCTraceFileDeserialized["counterexample"]["action"]
    IN IF \E e \in actions : e[3][1] <= e[1][1]
       THEN (CHOOSE e \in actions : e[3][1] <= e[1][1])[3][1]
       ELSE 0

LOCAL _TLCTraceConstraint ==
    LET level == TLCGet("level")
        dump  == _TLCTraceFileDeserialized
        trace == dump["counterexample"]["state"]
        vars  == dump["vars"]
	\* The trace (CounterExample.state) is a set of <<level, state>> pairs,
	\* not a function/sequence.
	\* For liveness properties, TLC trace dumps stop at the state *before* the
	\* lasso is closed. When replaying such a trace, TLC may request a state with
	\* a level that does not exist in the dump. In that case, no pair matches and
	\* the implication is vacuously satisfied.
    IN \A pair \in trace:
            pair[1] = level =>
                \* When loading a trace with a subset of variables, only check the
                \* variables that exist in both the trace and the current state.
                \* This allows trace replay with specs that have different variable
                \* sets than the original spec that produced the trace. Another
                \* scenario is when the spec uses ALIAS to rename, add, or remove
                \* variables.
                \A v \in vars \cap DOMAIN _TLCState(level):
                        _TLCState(level)[v] = pair[2][v]

\* VIEW for trace replay. Includes TLCGet("level") to prevent premature
\* state collapsing within the trace. For liveness traces, the level
\* beyond the trace is mapped to the lasso target so the cycle can close.
LOCAL _TLCTraceView ==
    LET level       == TLCGet("level")
        trace       == _TLCTraceFileDeserialized["counterexample"]["state"]
        lassoTarget == _TLCTraceLassoTarget
    IN IF \E pair \in trace : pair[1] = level
       THEN << level, _TLCState(level) >>
       ELSE << lassoTarget, _TLCState(level) >>

=============================================================================
