-------------------------------- MODULE Integers ----------------------------
(***************************************************************************)
(* This module provides dummy definitions of the operators that are        *)
(* defined by the real Integers module.  It is expected that any tool will *)
(* provide its own implementations of these operators.  See the book       *)
(* "Specifying Systems" for the real Integers module.                      *)
(***************************************************************************)
(***************************************************************************)
(* The two definitions here and the definitions imported from the Naturals *)
(* module are overridden by TLC in the Java class tlc2.module.Integers.    *)
(* Each operator is overridden by the Java method with the same name,      *)
(* except that the mappings for the prefix - operator and the TLA+ infix   *)
(* operators are defined in the static block at the beginning of the Java  *)
(* class.                                                                  *)
(***************************************************************************)
EXTENDS Naturals

Int  ==  { }
(***************************************************************************)
(* This defines the prefix - operator.                                     *)
(***************************************************************************)
-. a == 0 - a
=============================================================================
