------------------------------- MODULE TLCExt -------------------------------

LOCAL INSTANCE TLC
LOCAL INSTANCE Integers
  (*************************************************************************)
  (* Imports the definitions from the modules, but doesn't export them.    *)
  (*************************************************************************)

-----------------------------------------------------------------------------

\* AssertEq(a, b) is logically equivalent to the expression 'a = b'. If a and b are not equal, 
\* however, AssertEq(a, b) will print out the values of 'a' and 'b'. If the two values are equal,
\* nothing will be printed.
AssertEq(a, b) == 
    IF a # b THEN
        /\ PrintT("Assertion failed")
        /\ PrintT(a)
        /\ PrintT(b)
        /\ a = b
    ELSE a = b


AssertError(err, exp) ==
    LET FailsEval(e) == CHOOSE b \in BOOLEAN : TRUE \* Expression failed to evaluate. 
        TLCError     == CHOOSE s \in STRING  : TRUE \* TLC error string.
    IN IF FailsEval(exp) THEN Assert(err = TLCError, TLCError) ELSE TRUE

-----------------------------------------------------------------------------

TLCGetOrDefault(key, defaultVal) ==
  CHOOSE n : TRUE

TLCGetAndSet(key, Op(_,_), val, defaultVal) ==
  LET oldVal == TLCGetOrDefault(key, defaultVal)
  IN CHOOSE v \in {oldVal} : TLCSet(key, Op(oldVal, val))

-----------------------------------------------------------------------------

(* HERE BE DRAGONS! The operators below are experimental! You will probably not need them! *)

Trace == 
  (******************************************************************************)
  (* The sequence of states (represented as a record whose DOMAIN is the set of *)
  (* a spec's variables) from an initial state to the current state.  In other  *)
  (* words, a prefix - of a behavior - ending with the current state.  A way to *)
  (* think about this operator is to see it as an implicit history variable     *)
  (* that does not have to be explicitly specified at the level of the spec.    *)
  (*                                                                            *)
  (* Note that op is incompatible with TLC!RandomElement and Randomization (see *)
  (* tlc2.tool.TLCTrace.getTrace(LongVec)) and will cause TLC to crash.  This   *)
  (* technical limitation could be removed though.                              *)
  (*                                                                            *)
  (* Beware that Trace is prohibitively expensive when evaluated as part of     *)
  (* the next-state relation, invariants, properties, or any constraint in      *)
  (* model-checking mode. Consider using a real history variable instead.       *)
  (******************************************************************************)
  TRUE \* TODO

-----------------------------------------------------------------------------

CounterExample ==
    (****************************************************************************)
    (* In the scope of POSTCONDITION, the operator CounterExample is equivalent *)
    (* to a (directed) graph represented as [state: States, action: Actions]    *)
    (* with                                                                     *)
    (*   States \subseteq [ Variables -> Values ]                               *)
    (* and                                                                      *)
    (*  Actions \subseteq                                                       *)
    (*            (CounterExample.state \X Action \X CounterExample.state).     *)
    (* If TLC found no violations, then CounterExample.states equals {} and     *)
    (* CounterExample.actions equals {}.  If only initial state violates a      *)
    (* (safety) property, CounterExample.state is a set of those states, and    *)
    (* CounterExample.actions = {}.                                             *)
    (****************************************************************************)
    TRUE

ToTrace(CE) ==
	(* 
	This definition is implemented by the TLCExt#toTrace Java module override. It
	is commented because FiniteSetsExt is part of the CommunityModules, but not
	tla2tools.

	LET F == INSTANCE FiniteSetsExt
	IN F!FoldSet(LAMBDA a, acc: acc @@ [n \in {a[1]} |-> a[2]], [n \in {} |-> n], CounterExample.state)

	*)
	TRUE 

-----------------------------------------------------------------------------

TLCModelValue(str) ==
  (******************************************************************************)
  (* A model value is an unspecified value that TLC considers to be unequal to  *)
  (* any value that you can express in TLA+.                                    *)
  (*                                                                            *)
  (* In most cases, TLC model values can and should be declared via the TLC     *)
  (* config file.  However, for large sets of model values, it can become       *)
  (* tedious to enumerate them explicitly. Large sets of model values usually   *)
  (* appear when simulating TLA+ specs with TLC. The following example defines  *)
  (* a set of 32 model values:                                                  *)
  (*                                                                            *)
  (*  SetOfModelValues == {TLCModelValue("T_MV" \o ToString(i)) : i \in 1..32}  *)
  (*                                                                            *)
  (* As a matter of fact, the example defines a set of "typed" model values:    *)
  (* TLC considers a typed model value to be unequal to any other model value   *)
  (* of the same type.  However, it produces an error when evaluating an        *)
  (* expression requires it to determine if a typed model value is equal to any *)
  (* value other than a model value of the same type or an ordinary model       *)
  (* value.                                                                     *)
  (*                                                                            *)
  (* A model-value type consists of a single letter, so there are 52 different  *)
  (* types because  a  and  A  are different types.  (TLC actually accepts      *)
  (* digits and underscore as types; don't use them.)  A model value has type   *)
  (* T  if and only if its name begins with the two characters  T_ .            *)
  (*                                                                            *)
  (* TLCModelValue may only appear in constant definitions!  Expect bogus       *)
  (* behavior if TLCModelValue appears in the behavior spec, constraints,       *)
  (* invariants, or properties.                                                 *)
  (******************************************************************************)
  CHOOSE v: ToString(v) = str

TLCDefer(expression) ==
  (******************************************************************************)
  (* Defer evaluation of expression to some later time or never.                *)
  (*                                                                            *)
  (* For TLC's simulation mode, later is defined as the point of time when      *)
  (* simulation has chosen a successor state to extend the prefix of the        *)
  (* current behavior.                                                          *)
  (*                                                                            *)
  (* A use case is TLCDefer(TLCSet(42, someVal)), which sets someVal only       *)
  (* for the states of the behavior and not the set of all successor states     *)
  (* of all states in the behavior.                                             *)
  (******************************************************************************)
  TRUE

-----------------------------------------------------------------------------

TLCNoOp(val) ==
  (******************************************************************************)
  (* No-operation operator (does nothing).  Only useful to debug TLC's          *)
  (* evaluator that is written in Java: Insert TLCNoOp into the expression      *)
  (* whose evaluation you wish to debug and set a breakpoint in this            *)
  (* operator's Java module override TLCExt#tlcNoOp in TLCExt.java.             *)
  (******************************************************************************)
  val


PickSuccessor(exp) ==
  (******************************************************************************)
  (* When set as an action constraint in the configuration file, interactively  *)
  (* pick successor states during state exploration, iff the expression exp     *)
  (* evaluates to FALSE.  To always pick successor states manually, use         *)
  (* PickSuccessor(FALSE). To pick successor states when the current prefix of  *)
  (* behaviors exceeds 22 states, use PickSuccessor(TLCGet("level") < 23).      *)
  (* Evaluates to TRUE when evaluated in the context of a constant- or          *)
  (* state-level formula.  Also evaluates to TRUE if PickSuccessor appears as   *)
  (* part of the next-state relation and the successor state has not been       *)
  (* fully determined yet.                                                      *)
  (******************************************************************************)
  IF (exp)
  THEN TRUE
  ELSE CHOOSE bool \in BOOLEAN : TRUE 

-----------------------------------------------------------------------------

TLCCache(expression, closure) ==
  (******************************************************************************)
  (* Equals the value that an earlier evaluation of the expression evaluated to *)
  (* iff the closure of the earlier evaluation and this evaluation are equal.   *)
  (*                                                                            *)
  (* Works in constant and state-level contexts.                                *)
  (******************************************************************************)
  expression

TLCFP(var) ==
  (******************************************************************************)
  (* Equals the value that TLC gives to the given input when the value is       *)
  (* being fingerprinted.                                                       *)
  (* Implementation note: Equals the lower 32 bits until TLC supports longs     *)
  (******************************************************************************)
  CHOOSE i \in Int: TRUE

-----------------------------------------------------------------------------

TLCEvalDefinition(definitionName) ==
  (******************************************************************************)
  (* Equals the value of the definition with the given name.                    *)
  (* Throws an error if the definition cannot be found.                         *)
  (******************************************************************************)
  TRUE \* TODO

============================================================================
