---------------------------- MODULE SignBinding_mc ----------------------------
(* Exhaustive run: every obligation of the lattice is visited; the table is well formed and every *)
(* obligation is bound in the model of the code as it should be.                                   *)
EXTENDS SignBinding
NObl == Cardinality(Obl)
\* the lattice is not degenerate (guards against a table edit that empties a family)
Populated == /\ Cardinality(OblOf("C05")) >= 150
             /\ Cardinality(OblOf("C11")) >= 60
             /\ Cardinality(OblOf("C04")) >= 15
TableInv == TableOK /\ C11AllFields /\ AllBind /\ Populated
=============================================================================
