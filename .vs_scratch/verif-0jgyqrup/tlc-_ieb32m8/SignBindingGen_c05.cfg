CONSTANTS
  Family = "C05"
INIT GInit
NEXT GNextC
VIEW GView
CHECK_DEADLOCK FALSE
