CONSTANTS
  Vals = {1, 2, 3, 4}
  Share <- ShareFn
  MaxRetries = 2
INIT TraceInit
NEXT TraceNext
POSTCONDITION TraceAccepted
CHECK_DEADLOCK FALSE
