CONSTANTS
  Chains = {"eth-a", "eth-b"}
  Queues = {"turnstone", "balances", "funds", "refblock"}
  MaxOps = 12
  MaxLive = 6
  EmitAt = 12
INIT GInit
NEXT GNext
CONSTRAINT GConstr
INVARIANT Emit
CHECK_DEADLOCK FALSE
