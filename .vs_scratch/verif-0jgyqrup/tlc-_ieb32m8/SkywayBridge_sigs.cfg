CONSTANTS
  Users = {1}
  Vals = {1, 2, 3}
  Tokens = {1}
  TokChain <- Seq1
  TokContract <- Seq1
  TokDenom <- Seq1
  Amounts = {1}
  InitBal = 2
  BatchEvery = 50
  TimeoutBlocks = 300
  Jumps = {301}
  Period = 57600
  TaxRates <- RateHalf
  Limits = {3}
  EstValues = {1, 3}
  MaxTx = 1
  MaxBatch = 1
  MaxClaims = 1
  MaxHeight = 301
  MaxLevel <- L9
INIT Init
NEXT NextSigs
CONSTRAINT Constr
VIEW View
INVARIANTS TypeOK EscrowEq ExactlyOnePlace HonestSignerSafe ConfirmsCurrent ConfirmsUnique ArchiveCoversIssued
CHECK_DEADLOCK FALSE
