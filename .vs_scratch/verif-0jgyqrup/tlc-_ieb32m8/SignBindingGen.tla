---------------------------- MODULE SignBindingGen ----------------------------
(* History generator for SignBinding: cover mode, one history per obligation of the family *)
(* (plus one Survey history asking the driver which item types exist in the code).         *)
EXTENDS SignBinding, Json
CONSTANT Family
VARIABLE hist

GInit == Init /\ hist = <<>>
Rec(a, t) == [act |-> a, args |-> t]
GNext == /\ cur = NoObl
         /\ \/ \E o \in OblOf(Family) : Check(o) /\ hist' = <<Rec("Check", o)>>
            \/ Survey(Family) /\ hist' = <<Rec("Survey", [family |-> Family])>>
GView == <<cur>>
GNextC == (IF hist # <<>> THEN PrintT(<<"HIST", ToJson(hist)>>) ELSE TRUE) /\ GNext
=============================================================================
