CONSTANTS
  Accounts = {1, 2, 3}
  Subs = {1, 2}
  Amounts = {1, 2}
  Funds <- FundsSmall
  MaxOps = 1000000
INIT TraceInit
NEXT TraceNext
POSTCONDITION TraceAccepted
CHECK_DEADLOCK FALSE
