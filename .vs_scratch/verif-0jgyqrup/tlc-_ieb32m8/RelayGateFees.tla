---------------------------- MODULE RelayGateFees ----------------------------
(***************************************************************************)
(* Fee formula of x/consensus/keeper/estimate.go:calculateFeesForEstimate  *)
(* as pure integer operators (C14).  A decimal with `scale` = 10^k is the  *)
(* integer  value * scale  (cosmossdk.io/math.LegacyDec: scale = 10^18).   *)
(*   relayer   = ceil(multiplicator * gas)                                 *)
(*   community = ceil(community rate * relayer)                            *)
(*   security  = ceil(security rate  * relayer)                            *)
(* TLC evaluates them on a small scale inside RelayGate (32-bit integers); *)
(* Apalache evaluates the very same operators at scale 10^18 on samples    *)
(* recorded from the real code (specs/arith/FeeSamples.tla.tmpl).          *)
(***************************************************************************)
EXTENDS Integers

\* @type: (Int, Int, Int) => Int;
CeilMulDec(m, x, scale) == (m * x + scale - 1) \div scale

\* @type: (Int, Int) => Int;
CeilMulDec18(m18, x) == CeilMulDec(m18, x, 10^18)

\* @type: (Int, Int, Int, Int, Int) => <<Int, Int, Int>>;
FeesFor(mult, comm, sec, gas, scale) ==
  LET r == CeilMulDec(mult, gas, scale)
  IN  <<r, CeilMulDec(comm, r, scale), CeilMulDec(sec, r, scale)>>

\* @type: (Int, Int, Int, Int) => <<Int, Int, Int>>;
FeesFor18(mult18, comm18, sec18, gas) == FeesFor(mult18, comm18, sec18, gas, 10^18)

\* what "ceil" means, stated without division (lattice property, checked by TLC on the small scale)
\* @type: (Int, Int, Int, Int) => Bool;
IsCeilOf(c, m, x, scale) == c * scale >= m * x /\ (c - 1) * scale < m * x
=============================================================================
