INIT Init
NEXT Next
INVARIANTS TypeOK Binding TableInv
CHECK_DEADLOCK FALSE
