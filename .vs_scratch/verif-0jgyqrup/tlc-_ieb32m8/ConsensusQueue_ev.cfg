CONSTANTS
  Vals = {1, 2, 3, 4, 5}
  Share <- Shares5
  EvValues = {1, 2}
  EstValues = {1}
  MaxMsgs = 2
  PruneAge = 300
  PruneEvery = 50
INIT Init
NEXT NextEv
CONSTRAINT Constr
VIEW View
INVARIANTS TypeOK AttestNeedsQuorum
CHECK_DEADLOCK FALSE
