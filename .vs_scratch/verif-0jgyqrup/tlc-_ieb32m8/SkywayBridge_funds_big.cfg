CONSTANTS
  Users = {1, 2}
  Vals = {1, 2, 3}
  Tokens = {1}
  TokChain <- Seq1
  TokContract <- Seq1
  TokDenom <- Seq1
  Amounts = {1, 2}
  InitBal = 4
  BatchEvery = 50
  TimeoutBlocks = 300
  Jumps = {50, 301}
  Period = 57600
  TaxRates <- RateHalf
  Limits = {3}
  EstValues = {1}
  MaxTx = 3
  MaxBatch = 2
  MaxClaims = 1
  MaxHeight = 351
INIT Init
NEXT NextFunds
CONSTRAINT Constr
VIEW View
INVARIANTS TypeOK EscrowEq ExactlyOnePlace SupplyLedger
PROPERTIES FailureIsNoOp
CHECK_DEADLOCK FALSE
