CONSTANTS
  Users = {1, 2}
  Vals = {1, 2, 3}
  Tokens = {1}
  TokChain <- Seq1
  TokContract <- Seq1
  TokDenom <- Seq1
  Amounts = {2}
  InitBal = 4
  BatchEvery = 50
  TimeoutBlocks = 300
  Jumps = {50, 301}
  Period = 57600
  TaxRates <- RateHalf
  Limits = {3}
  EstValues = {1}
  MaxTx = 2
  MaxBatch = 2
  MaxClaims = 1
  MaxHeight = 351
  Family = "funds"
  EmitAt = 0
  MaxK = 2
  MaxOps = 5
VIEW GView
INIT GInit
NEXT GNextC
CONSTRAINT GConstr
CHECK_DEADLOCK FALSE
