---------------------------- MODULE Mempool_mc ----------------------------
EXTENDS Mempool
MaxPending == 4
Constr == nops <= MaxOps /\ Cardinality(pending) <= MaxPending
=============================================================================
