CONSTANTS
  Senders = {1, 2, 3}
  Nonces = {1, 2}
  Classes = {0, 1, 2}
  MaxOps = 6
INIT Init
NEXT Next
CONSTRAINT Constr
INVARIANTS TypeOK SelectContract
CHECK_DEADLOCK FALSE
