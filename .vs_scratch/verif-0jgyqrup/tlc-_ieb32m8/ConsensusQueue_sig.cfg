CONSTANTS
  Vals = {1, 2, 3, 4}
  Share <- Shares222
  EvValues = {1}
  EstValues = {1, 4, 9}
  MaxMsgs = 1
  PruneAge = 300
  PruneEvery = 50
INIT Init
NEXT NextSig
CONSTRAINT Constr
VIEW View
INVARIANTS TypeOK ElectionSound SigsCurrent SigsUnique
PROPERTIES ElectedStable
CHECK_DEADLOCK FALSE
