CONSTANTS
  Vals = {1, 2, 3}
  FeeLevels = {110, 150, 200}
  BaseFee = 110
  TopK = 3
  Times = {0, 1, 2}
  Senders = {1, 2}
  Gases = {7}
  Scale = 100
  CommRate = 1
  SecRate = 33
  MaxQ = 3
  InjAssignees = {1, 2}
  InjEst = {"noneed", "need", "elected"}
  InjProc = {"none", "pad", "err"}
  InjSenders = {1, 2}
  DynDepth = 6
  RowMode = "canon"
INIT Init
NEXT NextInject
INVARIANTS TypeOK OnlyAssignee OnlyWithEstimate OnlyUnprocessed NotAheadOfPendingValsetUpdate OldestPerSenderFirst GateIsContract OfferedOnce FeesAtElection
CHECK_DEADLOCK FALSE
