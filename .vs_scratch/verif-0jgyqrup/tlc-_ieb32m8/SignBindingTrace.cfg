INIT TraceInit
NEXT TraceNext
POSTCONDITION TraceAccepted
CHECK_DEADLOCK FALSE
