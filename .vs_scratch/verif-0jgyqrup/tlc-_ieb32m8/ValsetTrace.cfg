CONSTANTS
  Vals = {1, 2, 3, 4}
  Chains = {1, 2}
  MaxVals = 3
  UnbondTime = 1000
  MaxPower = 65536
  WarmTime = 2592000
  TTL = 2000
  Grace = 30
  Sweep = 10
  WarmUp = 50
  Sentences <- RealSentences
  ResetMin = 1800
  DefaultVer = 1
INIT TraceInit
NEXT TraceNext
POSTCONDITION TraceAccepted
CHECK_DEADLOCK FALSE
