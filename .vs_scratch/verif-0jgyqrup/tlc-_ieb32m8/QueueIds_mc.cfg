CONSTANTS
  Chains = {"eth-a", "eth-b"}
  Queues = {"turnstone", "balances", "funds", "refblock"}
  MaxOps = 4
  MaxLive = 3
INIT MInit
NEXT MNext
CONSTRAINT Constr
INVARIANTS TypeOK IdsUnique IdsIncrease ReplaceKeepsId RemoveExact
CHECK_DEADLOCK FALSE
