-------------------------- MODULE SkywayBridge_mc --------------------------
EXTENDS SkywayBridge
\* constant definitions for the cfg files (TLC cfg files cannot hold tuples)
Seq12 == <<1, 2>>
Seq11 == <<1, 1>>
Seq1 == <<1>>
RateHalf == {<<1, 2>>}
Rates == {<<1, 2>>, <<1, 3>>, <<2, 1>>, <<0, 1>>}
\* per-family next-state relations (one exhaustive config per property family)
NextFunds ==
  \/ \E u \in Users, t \in Tokens, a \in Amounts : Send(u, t, a, FALSE)
  \/ \E u \in Users, id \in 1..(lastTx + 1) : Cancel(u, id, FALSE)
  \/ \E d \in Denoms, r \in TaxRates : tax[d] = NoTax /\ SetTax(d, r, {})
  \/ \E n \in 1..MaxBatch, t \in Tokens, late \in BOOLEAN : ClaimExecuted(n, t, late)
  \/ \E t \in Tokens, r \in {"user", "invalid"} : ClaimDeposit(t, 1, r, 1)
  \/ EndBlock
  \/ \E dh \in Jumps : Advance(dh)

NextLimits ==
  \/ \E u \in Users, t \in Tokens, a \in Amounts : Send(u, t, a, FALSE)
  \/ \E d \in Denoms, lim \in Limits, ex \in {{}, {1}} : limit[d] = NoLimit /\ SetLimit(d, lim, ex)
  \/ \E dh \in Jumps : Advance(dh)

NextSigs ==
  \/ \E u \in Users, t \in Tokens, a \in Amounts : Send(u, t, a, FALSE)
  \/ \E v \in Vals, n \in 1..MaxBatch, x \in EstValues : Estimate(v, n, x)
  \/ \E v \in Vals, n \in 1..MaxBatch, x \in EstValues \cup {0} : Confirm(v, n, x)
  \/ \E v \in Vals, n \in 1..MaxBatch, x \in EstValues \cup {0} : Evidence(v, n, x)
  \/ \E n \in 1..MaxBatch, t \in Tokens : ClaimExecuted(n, t, FALSE)
  \/ EndBlock
  \/ \E dh \in Jumps : Advance(dh)

MaxDeposit == 2
MaxLevel == 11
L8 == 8
L9 == 9
L10 == 10
Constr == /\ lastTx <= MaxTx /\ lastBatch <= MaxBatch /\ Len(claims) <= MaxClaims /\ height <= MaxHeight
          /\ \A d \in Denoms : deposited[d] <= MaxDeposit
          /\ TLCGet("level") <= MaxLevel
ConstrLimits == lastTx <= MaxTx /\ height <= MaxHeight /\ TLCGet("level") <= 8
\* C15: replay the accepted, limited sends (monitor `sent`) and recompute every window from scratch
RECURSIVE WinFold(_, _, _, _)
WinFold(s, i, d, w) == IF i > Len(s) THEN TRUE
  ELSE IF s[i].d # d \/ ~s[i].lim THEN WinFold(s, i + 1, d, w)
  ELSE LET nw == IF w = NoUsage \/ s[i].h - w.start >= Period THEN [total |-> s[i].a, start |-> s[i].h]
                  ELSE [total |-> w.total + s[i].a, start |-> w.start]
       IN nw.total <= s[i].limit /\ WinFold(s, i + 1, d, nw)
WindowRespected == \A d \in Denoms : WinFold(sent, 1, d, NoUsage)
\* monitors that only accumulate history are left out of the view where they do not influence behaviour
View == <<bal, escrow, supply, community, pool, batches, lastTx, lastBatch, tax, limit, usage, height,
          claims, estimates, confirms, archived, jailed, refunded, burned, deposited, burnedSum, issued, punished, accepted, sent>>
=============================================================================
