CONSTANTS
  Senders = {1, 2, 3, 4, 5, 6, 7, 8}
  Nonces = {1, 2, 3, 4, 5, 6}
  Classes = {0, 1, 2, 3, 4}
  MaxOps = 1000000
INIT TraceInit
NEXT TraceNext
POSTCONDITION TraceAccepted
CHECK_DEADLOCK FALSE
