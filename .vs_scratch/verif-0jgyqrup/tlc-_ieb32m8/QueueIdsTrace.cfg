CONSTANTS
  Chains = {"eth-a", "eth-b"}
  Queues = {"turnstone", "balances", "funds", "refblock"}
  MaxOps = 1000000
  MaxLive = 1000000
INIT TraceInit
NEXT TraceNext
POSTCONDITION TraceAccepted
CHECK_DEADLOCK FALSE
