CONSTANTS
  Vals = {1, 2, 3, 4, 5}
  Share <- Shares5
  EvValues = {1, 2, 3}
  EstValues = {1}
  MaxMsgs = 3
  PruneAge = 300
  PruneEvery = 50
  Family = "ev"
  EmitAt = 14
  MaxOps = 14
INIT GInit
NEXT GNext
CONSTRAINT GConstr
INVARIANT Emit
CHECK_DEADLOCK FALSE
