------------------------------ MODULE QueueIds ------------------------------
(***************************************************************************)
(* Message ids of the cross-chain consensus queues (second half of C05):   *)
(* x/consensus/keeper/consensus/consensus.go Queue.Put / Remove,           *)
(* util/keeper/id_generation.go.                                           *)
(*                                                                         *)
(* Every queue of every chain draws its ids from ONE counter               *)
(* (consensusQueueIDCounterKey), so ids are unique across all queues of    *)
(* all chains and strictly increase for the lifetime of the chain;         *)
(* replacing a message (Put with MsgIDToReplace, the path the gas estimate *)
(* election uses to re-issue a message with its fees) keeps the id;        *)
(* electing the gas estimate (SetElectedGasEstimate) keeps it too.         *)
(*                                                                         *)
(* One action per critical section of the Go code:                         *)
(*   Put(c,q)        Keeper.PutMessageInQueue(queue, msg, opts)            *)
(*   Replace(c,q,id) Keeper.PutMessageInQueue(queue, msg', {MsgIDToReplace})*)
(*   Remove(c,q,id)  Keeper.DeleteJob(queue, id)  (Queue.Remove)           *)
(*   Elect(c,id)     all validators AddMessageGasEstimates, then           *)
(*                   CheckAndProcessEstimatedMessages (turnstone queue)    *)
(***************************************************************************)
EXTENDS Integers, Sequences, FiniteSets, TLC

CONSTANTS Chains,       \* chain reference ids
          Queues,       \* queue types per chain; "turnstone" is the one with gas estimation
          MaxOps,       \* bound on operations (model checking only)
          MaxLive       \* bound on live messages (model checking only)

VARIABLES live,         \* set of [c, q, id, ver, est]: queued messages (ver = content version, est = estimate elected)
          counter,      \* last id handed out
          issued,       \* sequence of the ids handed out, in order
          last          \* what the last action did: [act, c, q, id, res, before, cbefore]

vars == <<live, counter, issued, last>>

Ids(L) == {m.id : m \in L}
At(L, c, q, id) == {m \in L : m.c = c /\ m.q = q /\ m.id = id}
NoLast == [act |-> "Init", c |-> "-", q |-> "-", id |-> 0, res |-> "ok", before |-> {}, cbefore |-> 0]
Did(a, c, q, id, r) == [act |-> a, c |-> c, q |-> q, id |-> id, res |-> r, before |-> Ids(live), cbefore |-> counter]

Init == live = {} /\ counter = 0 /\ issued = <<>> /\ last = NoLast

Put(c, q) ==
  LET id == counter + 1 IN
  /\ live' = live \cup {[c |-> c, q |-> q, id |-> id, ver |-> 0, est |-> FALSE]}
  /\ counter' = id
  /\ issued' = Append(issued, id)
  /\ last' = Did("Put", c, q, id, "ok")

Replace(c, q, id) ==
  /\ IF At(live, c, q, id) # {}
     THEN LET m == CHOOSE x \in At(live, c, q, id) : TRUE IN
          /\ live' = (live \ {m}) \cup {[m EXCEPT !.ver = @ + 1]}
          /\ last' = Did("Replace", c, q, id, "ok")
     ELSE /\ UNCHANGED live
          /\ last' = Did("Replace", c, q, id, "notfound")
  /\ UNCHANGED <<counter, issued>>

Remove(c, q, id) ==
  /\ IF At(live, c, q, id) # {}
     THEN /\ live' = live \ At(live, c, q, id)
          /\ last' = Did("Remove", c, q, id, "ok")
     ELSE /\ UNCHANGED live
          /\ last' = Did("Remove", c, q, id, "notfound")
  /\ UNCHANGED <<counter, issued>>

Elect(c, id) ==
  LET q == "turnstone" IN
  /\ IF At(live, c, q, id) # {}
     THEN LET m == CHOOSE x \in At(live, c, q, id) : TRUE IN
          IF m.est
          THEN UNCHANGED live /\ last' = Did("Elect", c, q, id, "already")
          ELSE /\ live' = (live \ {m}) \cup {[m EXCEPT !.est = TRUE]}
               /\ last' = Did("Elect", c, q, id, "ok")
     ELSE /\ UNCHANGED live
          /\ last' = Did("Elect", c, q, id, "notfound")
  /\ UNCHANGED <<counter, issued>>

Next == \/ \E c \in Chains, q \in Queues : Put(c, q)
        \/ \E c \in Chains, q \in Queues, id \in 1..(counter + 1) : Replace(c, q, id) \/ Remove(c, q, id)
        \/ \E c \in Chains, id \in 1..(counter + 1) : Elect(c, id)

Spec == Init /\ [][Next]_vars

-----------------------------------------------------------------------------
(* Properties (C05, second half) *)
TypeOK == /\ \A m \in live : m.c \in Chains /\ m.q \in Queues /\ m.id \in 1..counter /\ m.ver \in Nat /\ m.est \in BOOLEAN
          /\ counter \in Nat

\* an id names one message in one queue of one chain
IdsUnique == \A m1, m2 \in live : m1.id = m2.id => m1 = m2

\* ids strictly increase for the lifetime of the chain: every new id exceeds every id handed out before,
\* the counter never goes back, nothing queued is ahead of the counter
IdsIncrease ==
  /\ \A i, j \in 1..Len(issued) : i < j => issued[i] < issued[j]
  /\ \A m \in live : m.id <= counter
  /\ counter >= last.cbefore
  /\ (last.act = "Put" /\ last.res = "ok") => (last.id > last.cbefore /\ last.id <= counter /\ last.id \notin last.before)
  /\ last.act # "Put" => counter = last.cbefore

\* replacing / electing keeps the id (and the queue), and touches no other message
ReplaceKeepsId ==
  last.act \in {"Replace", "Elect"} =>
    /\ Ids(live) = last.before
    /\ last.res = "ok" => At(live, last.c, last.q, last.id) # {}

\* removal removes exactly the named message
RemoveExact ==
  last.act = "Remove" =>
    IF last.res = "ok" THEN Ids(live) = last.before \ {last.id} ELSE Ids(live) = last.before
=============================================================================
