---------------------------- MODULE MempoolGen ----------------------------
(* History generator for Mempool: carries the history of actions and prints it as JSON.  *)
(* cover mode   : VIEW hides hist/nops, so TLC keeps one (shortest) history per distinct  *)
(*                pool state; a history is emitted at every state reached by Select.      *)
(* simulate mode: random walks, history emitted when it reaches EmitAt steps.             *)
EXTENDS Mempool, Json
CONSTANTS EmitAt, MaxPending
VARIABLE hist

GInit == Init /\ hist = <<>>
Rec(a, t) == [act |-> a, args |-> t]
GNext == \/ \E t \in Tx : Insert(t) /\ hist' = Append(hist, Rec("Insert", t))
         \/ \E t \in Tx : /\ (t \in pending \/ (t.c = 0 /\ ~\E u \in pending : Key(u) = Key(t)))
                          /\ Remove(t) /\ hist' = Append(hist, Rec("Remove", t))
         \/ Select /\ hist' = Append(hist, Rec("Select", [s |-> 0, n |-> 0, c |-> 0]))

Last == IF hist = <<>> THEN <<>> ELSE hist[Len(hist)]
GView == <<Last, pending, weights, out, res>>
GConstr == Len(hist) <= MaxOps /\ Cardinality(pending) <= MaxPending
GNextC == (IF res = "select" THEN PrintT(<<"HIST", ToJson(hist)>>) ELSE TRUE) /\ GNext
Emit == Len(hist) = EmitAt => PrintT(<<"HIST", ToJson(hist)>>)
=============================================================================
