CONSTANTS
  Senders = {1, 2, 3}
  Nonces = {1, 2}
  Classes = {0, 1, 2}
  MaxOps = 6
  MaxPending = 3
  EmitAt = 0
INIT GInit
NEXT GNextC
VIEW GView
CONSTRAINT GConstr
CHECK_DEADLOCK FALSE
