CONSTANTS
  Vals = {1, 2, 3, 4, 5}
  Share <- Shares5
  EvValues = {1}
  EstValues = {1, 4, 9, 30}
  MaxMsgs = 2
  PruneAge = 300
  PruneEvery = 50
  Family = "sig"
  EmitAt = 16
  MaxOps = 16
INIT GInit
NEXT GNext
CONSTRAINT GConstr
INVARIANT Emit
CHECK_DEADLOCK FALSE
