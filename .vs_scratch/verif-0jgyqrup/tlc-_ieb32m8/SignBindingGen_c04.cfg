CONSTANTS
  Family = "C04"
INIT GInit
NEXT GNextC
VIEW GView
CHECK_DEADLOCK FALSE
