CONSTANTS
  Accounts = {1, 2, 3}
  Subs = {1, 2}
  Amounts = {1, 2}
  Funds <- FundsSmall
  MaxOps = 4
  MaxMinted = 3
  EmitAt = 0
  ProbeDepth = 2
INIT GInit
NEXT GNextC
VIEW GView
CONSTRAINT GConstr
CHECK_DEADLOCK FALSE
