CONSTANTS
  Vals = {1, 2, 3}
  Claims = {1, 2, 3, 4, 5, 6, 7, 8}
  CNonce <- NonceF
  CHash <- HashF
  CEff <- EffF
  CCompass <- CompassF
  CApplicable <- ApplF
  Powers = {0, 10, 34, 70}
  InitPower <- Pow3
  MaxNonce = 3
  MaxEpoch = 100
  MaxVotes = 100
INIT TraceInit
NEXT TraceNext
POSTCONDITION TraceAccepted
CHECK_DEADLOCK FALSE
