---------------------------- MODULE QueueIds_mc ----------------------------
EXTENDS QueueIds
VARIABLE nops
mvars == <<vars, nops>>
MInit == Init /\ nops = 0
MNext == Next /\ nops' = nops + 1
Constr == nops <= MaxOps /\ Cardinality(live) <= MaxLive
=============================================================================
